// Reference eBUS wire rules, written from the protocol description in symbol.h and the property
// statements (C01, C02, C03, C15) - independent of the implementation's tables and state machine.
#ifndef VERIF_BUSREF_H_
#define VERIF_BUSREF_H_

#include <stdint.h>
#include <string>
#include <vector>

namespace ref {

typedef std::vector<uint8_t> Bytes;

static const uint8_t SYN = 0xAA, ESC = 0xA9, ACK = 0x00, NAK = 0xFF, BROADCAST = 0xFE;

inline uint8_t crcStep(uint8_t crc, uint8_t byte) {
  for (int bit = 7; bit >= 0; bit--) {
    unsigned in = (byte >> bit) & 1, top = (crc >> 7) & 1;
    crc = (uint8_t)((crc << 1) | in);
    if (top) crc ^= 0x9b;
  }
  return crc;
}
inline Bytes escape(const Bytes& raw) {
  Bytes o;
  for (uint8_t c : raw) {
    if (c == ESC) { o.push_back(ESC); o.push_back(0x00); }
    else if (c == SYN) { o.push_back(ESC); o.push_back(0x01); }
    else o.push_back(c);
  }
  return o;
}
// CRC over the escaped sequence of raw
inline uint8_t crcOf(const Bytes& raw) {
  uint8_t c = 0;
  for (uint8_t b : escape(raw)) c = crcStep(c, b);
  return c;
}
// raw part + CRC, everything escaped: what appears on the wire for one telegram part
inline Bytes wirePart(const Bytes& raw, int crcXor = 0) {
  Bytes o = escape(raw);
  Bytes c = escape(Bytes{(uint8_t)(crcOf(raw) ^ crcXor)});
  o.insert(o.end(), c.begin(), c.end());
  return o;
}
inline bool nib(unsigned n) { return n == 0 || n == 1 || n == 3 || n == 7 || n == 0xF; }
inline bool isMaster(uint8_t a) { return nib(a & 15) && nib(a >> 4); }
inline bool isValidAddr(uint8_t a) { return a != SYN && a != ESC; }
inline unsigned masterNumber(uint8_t a) {  // 1..25, 0 if none
  if (!isMaster(a)) return 0;
  static const int idx[16] = {1, 2, 0, 3, 0, 0, 0, 4, 0, 0, 0, 0, 0, 0, 0, 5};
  return 5 * (idx[a & 15] - 1) + idx[a >> 4];
}
inline std::string hex(const Bytes& v) {
  static const char* d = "0123456789abcdef";
  std::string s;
  for (uint8_t c : v) { s += d[c >> 4]; s += d[c & 15]; }
  return s;
}
inline Bytes unhex(const std::string& s) {
  Bytes v;
  for (size_t i = 0; i + 1 < s.size(); i += 2) v.push_back((uint8_t)strtoul(s.substr(i, 2).c_str(), nullptr, 16));
  return v;
}

struct Telegram {
  Bytes master;  // QQ ZZ PB SB NN D..
  Bytes slave;   // NN D.. (empty for BC/MM)
  bool operator==(const Telegram& o) const { return master == o.master && slave == o.slave; }
  std::string str() const { return hex(master) + (slave.empty() ? "" : "/" + hex(slave)); }
};

// ---------------------------------------------------------------------------------------------
// Incremental passive wire parser: fed with every symbol delivered on the bus (SYN included) and
// with timeouts; says which telegram (if any) became complete with that symbol.  Three-valued:
// inside a region the statement does not fix (NN > 16) `dontCare` is set until the next SYN.
class WireParser {
 public:
  enum St { WAIT_SYN, IDLE, M, M_ACK, S, S_ACK };
  St st = WAIT_SYN;
  bool dontCare = false;
  Bytes part;        // unescaped bytes of the part being collected
  uint8_t crc = 0;   // running CRC over escaped symbols
  bool esc = false;  // previous symbol was ESC
  bool crcPos = false;   // collecting the CRC symbol
  bool crcGood = false;
  int attempt = 1;
  bool selfDst = false;
  bool selfGood = false;  // a CRC-correct self-addressed first attempt awaits its acknowledge
  Telegram cur;

  void reset(St s) { st = s; part.clear(); crc = 0; esc = false; crcPos = false; crcGood = false; selfDst = false; }
  void timeout() { reset(WAIT_SYN); dontCare = false; selfGood = false; attempt = 1; }

  // state as bytes for hashing
  void fingerprint(std::string* o) const {
    o->push_back((char)st); o->push_back((char)(dontCare | (esc << 1) | (crcPos << 2) | (crcGood << 3) | (attempt << 4) | (selfGood << 6)));
    o->push_back((char)crc); o->push_back((char)(part.size() | (selfDst << 7)));
    o->append((const char*)part.data(), part.size());
    o->push_back((char)cur.master.size()); o->append((const char*)cur.master.data(), cur.master.size());
  }

  // returns true if a telegram became complete with this symbol (in *out)
  bool symbol(uint8_t v, Telegram* out) {
    if (v == SYN) { reset(IDLE); dontCare = false; selfGood = false; attempt = 1; return false; }
    switch (st) {
      case WAIT_SYN: return false;
      case IDLE:
        if (!isMaster(v)) { reset(WAIT_SYN); return false; }
        reset(M); attempt = 1; cur = Telegram();
        return collect(v, true, out);
      case M: return collect(v, true, out);
      case S: return collect(v, false, out);
      case M_ACK:
        if (selfGood) {
          selfGood = false;
          if (v == NAK && attempt == 1) { dontCare = true; reset(M); attempt = 2; return false; }
          reset(WAIT_SYN); return false;
        }
        if (v == ACK && crcGood) {
          if (isMaster(cur.master[1])) { *out = cur; reset(WAIT_SYN); return !dontCare; }
          reset(S); attempt = 1; return false;
        }
        if (v == NAK && attempt == 1) { reset(M); attempt = 2; return false; }
        reset(WAIT_SYN); return false;
      case S_ACK:
        if (v == ACK && crcGood) { *out = cur; reset(WAIT_SYN); return !dontCare; }
        if (v == NAK && attempt == 1) { reset(S); attempt = 2; return false; }
        reset(WAIT_SYN); return false;
    }
    return false;
  }

 private:
  bool collect(uint8_t v, bool master, Telegram* out) {
    // the first symbol of a (repeated) master part must be a master address
    if (master && part.empty() && !esc && !crcPos && !isMaster(v)) { reset(WAIT_SYN); return false; }
    uint8_t u = v;
    if (esc) {
      if (v > 0x01) { reset(WAIT_SYN); return false; }  // invalid escape pair
      u = v == 0x00 ? ESC : SYN;
      if (!crcPos) crc = crcStep(crc, v);
      esc = false;
    } else if (v == ESC) {
      esc = true;
      if (!crcPos) crc = crcStep(crc, v);
      return false;
    } else if (!crcPos) {
      crc = crcStep(crc, v);
    }
    if (crcPos) {
      crcGood = (u == crc);
      if (master && selfDst) {
        selfDst = false;
        // a CRC-correct self-addressed telegram is invalid.  A CRC-wrong first attempt is a corrupted
        // transmission: the statement does not fix what a NAK-ed corrupted attempt may look like, so
        // the remainder up to the next SYN is don't-care.
        if (attempt == 2) { reset(WAIT_SYN); return false; }
        if (crcGood) {
          // never a message itself (an ACK or anything else ends it); when it is NAK-ed it was a first attempt like
          // any other corrupted one and what follows up to the next SYN is don't-care as well
          selfGood = true;
        } else {
          dontCare = true;
        }
      }
      if (master) {
        cur.master = part;
        if (part[1] == BROADCAST) {
          bool ok = crcGood;
          if (ok) *out = cur;
          reset(WAIT_SYN);
          return ok && !dontCare;
        }
        St keepAttempt = M_ACK; (void)keepAttempt;
        int a = attempt; bool g = crcGood; Telegram c = cur;
        reset(M_ACK); attempt = a; crcGood = g; cur = c;
        if (!g && a == 2) { reset(WAIT_SYN); }
        return false;
      }
      cur.slave = part;
      { int a = attempt; bool g = crcGood; Telegram c = cur; reset(S_ACK); attempt = a; crcGood = g; cur = c;
        if (!g && a == 2) reset(WAIT_SYN); }
      return false;
    }
    part.push_back(u);
    size_t lenPos = master ? 4 : 0;
    if (master && part.size() == 2) {
      if (!isValidAddr(u)) { reset(WAIT_SYN); return false; }  // invalid destination
      if (u == part[0]) selfDst = true;  // self destination: judged when the CRC is known
    }
    if (part.size() == lenPos + 1 && part[lenPos] > 16) dontCare = true;  // NN beyond the specified range
    if (part.size() >= lenPos + 1 && part.size() == lenPos + 1 + part[lenPos]) crcPos = true;
    return false;
  }
};

}  // namespace ref

#endif  // VERIF_BUSREF_H_
