// C16: access levels are enforced on the read, write and poll paths.
//
// Bounded-exhaustive exploration of the real code:
//  A  Message::checkLevel and Message::hasLevel on EVERY (level, granted list) pair of the domain
//  B  end to end through RequestImpl + MainLoop::decodeRequest on a real MessageMap that holds one
//     read, one write and one passive message per level name: every small ACL (default entry from
//     the ACL "*" row / from --accesslevel / absent, one user with secret) x authentication state x
//     message level x command form x PRIOR HISTORY on the same MainLoop (nothing / the message was just
//     seen on the bus / seen longer ago than the default max age / an authorised other client just read
//     or wrote it / the same client was refused just before); plus the listing forms (without and with
//     cached data on every message) and the data sink filter.
// Reference RefLevels is written from the property statement (token membership), not from
// message.cpp.
#include <algorithm>
#include <set>
#include "mainloop_fixture.h"

using namespace ebusd;
using namespace fx;
using std::set;
using std::string;
using std::vector;

static vp::Result R;

// ---- reference --------------------------------------------------------------------------------
// granted iff the message has no level, or the granted list is "*", or the level is exactly one
// of the ';'-separated entries of the granted list (message.h: "the access levels to check
// against, separated by semicolon").
static bool refGranted(const string& level, const string& list) {
  if (level.empty()) return true;
  if (list == "*") return true;
  size_t pos = 0;
  while (pos <= list.size()) {
    size_t e = list.find(';', pos);
    if (e == string::npos) e = list.size();
    if (e - pos == level.size() && list.compare(pos, e - pos, level) == 0) return true;
    pos = e + 1;
  }
  return false;
}
static bool refSelfTest() {
  struct T { const char* lvl; const char* list; bool want; } t[] = {
    {"", "", true}, {"", "a", true}, {"a", "", false}, {"a", "*", true}, {"a", "a", true}, {"a", "aa", false},
    {"a", "ba", false}, {"a", "ab", false}, {"a", "b;a", true}, {"a", "b;a;c", true}, {"a", "ba;ab;aa", false},
    {"ab", "a;b", false}, {"ab", "aab;abb;ab", true}, {"aa", "aaa;aa", true}, {"aa", "aaa;aaaa", false},
    {"b", "ab;b", true}, {"abc", "ab;bc;abcd;xabc", false}, {"*", "a", false},
  };
  for (auto& x : t) if (refGranted(x.lvl, x.list) != x.want) { fprintf(stderr, "RefLevels self-test failed: %s in %s\n", x.lvl, x.list); return false; }
  return true;
}

// ---- domain -----------------------------------------------------------------------------------
static vector<string> namesOver(const string& alpha, size_t maxLen) {
  vector<string> out, cur = {""};
  for (size_t l = 1; l <= maxLen; l++) {
    vector<string> next;
    for (auto& p : cur) for (char c : alpha) next.push_back(p + c);
    out.insert(out.end(), next.begin(), next.end());
    cur = next;
  }
  return out;
}
// all sequences of 0..maxN names joined by sep, plus "*"
static vector<string> listsOf(const vector<string>& names, size_t maxN, char sep) {
  vector<string> out = {""}, cur = {""};
  for (size_t n = 1; n <= maxN; n++) {
    vector<string> next;
    for (auto& p : cur) for (auto& nm : names) next.push_back(p.empty() ? nm : p + sep + nm);
    out.insert(out.end(), next.begin(), next.end());
    cur = next;
  }
  out.push_back("*");
  return out;
}
static string withSep(string s, char from, char to) { std::replace(s.begin(), s.end(), from, to); return s; }

struct Domain {
  string set;               // "q" or "t"
  vector<string> levels;    // message levels incl. "" (index+1 = message number)
  vector<string> names;     // names for checkLevel lists
  vector<string> e2eNames;  // names for ACL lists
};
static Domain domainOf(const string& set) {
  Domain d;
  d.set = set;
  if (set == "t") {
    d.names = namesOver("abc", 3);
    d.e2eNames = namesOver("abc", 2);
  } else {
    d.names = namesOver("ab", 2);
    d.e2eNames = d.names;
  }
  d.levels.push_back("");
  d.levels.insert(d.levels.end(), d.names.begin(), d.names.end());
  return d;
}

// ---- world ------------------------------------------------------------------------------------
static string two(unsigned v) { char b[8]; snprintf(b, sizeof(b), "%02x", v); return b; }
static string msgName(char kind, size_t idx) { char b[16]; snprintf(b, sizeof(b), "%c%02u", kind, (unsigned)(idx + 1)); return b; }
static string defsFor(const Domain& d) {
  std::ostringstream o;
  o << "# type,circuit,name,comment,qq,zz,pbsb,id,fields...\n";
  for (size_t i = 0; i < d.levels.size(); i++) {
    string circ = d.levels[i].empty() ? "c" : "c#" + d.levels[i];
    o << "r," << circ << "," << msgName('m', i) << ",,,08,b509,0d" << two(i + 1) << ",v,,UCH\n";
    o << "w," << circ << "," << msgName('w', i) << ",,,08,b509,0e" << two(i + 1) << ",v,,UCH\n";
    o << "u," << circ << "," << msgName('p', i) << ",,,08,b509,0f" << two(i + 1) << ",v,,UCH\n";
  }
  return o.str();
}
struct Ctx {
  Domain d;
  World* w = nullptr;
  vector<Message*> rd, wr, pv;
  string curAcl;  // key of the ACL the current MainLoop was built with
};
static Ctx* makeCtx(const string& set) {
  Ctx* c = new Ctx();
  c->d = domainOf(set);
  WorldConfig wc;
  wc.csv = defsFor(c->d);
  c->w = new World(wc);
  if (c->w->loadResult != RESULT_OK) { fprintf(stderr, "definitions did not load: %s\n", c->w->loadError.c_str()); exit(3); }
  for (size_t i = 0; i < c->d.levels.size(); i++) {
    Message* r = c->w->messages->find("c", msgName('m', i), "*", false);
    Message* w = c->w->messages->find("c", msgName('w', i), "*", true);
    Message* p = c->w->messages->find("c", msgName('p', i), "*", false, true);
    if (!r || !w || !p || r->getLevel() != c->d.levels[i] || w->getLevel() != c->d.levels[i] || p->getLevel() != c->d.levels[i]) {
      fprintf(stderr, "fixture: message %zu not set up as intended\n", i);
      exit(3);
    }
    c->rd.push_back(r); c->wr.push_back(w); c->pv.push_back(p);
  }
  return c;
}
static void resetState(Ctx* c) {
  for (auto* v : {&c->rd, &c->wr, &c->pv}) for (Message* m : *v) {
    m->m_lastUpdateTime = 0; m->m_lastChangeTime = 0; m->m_pollPriority = 0;
    m->m_lastMasterData.clear(); m->m_lastSlaveData.clear();
  }
  c->w->messages->m_pollMessages.c.clear();
  c->w->protocol->sent.clear();
  g_now += 1000;
}

// ---- ACL --------------------------------------------------------------------------------------
struct Acl {
  string dsrc;  // acl | opt | none
  string D, U;  // ';' separated lists
};
static void applyAcl(Ctx* c, const Acl& a) {
  string key = a.dsrc + "|" + a.D + "|" + a.U;
  if (key == c->curAcl) return;
  c->curAcl = key;
  std::ostringstream f;
  f << "# name,secret,level...\n";
  if (a.dsrc == "acl") f << "*,," << withSep(a.D, ';', ',') << "\n";
  f << "u,s," << withSep(a.U, ';', ',') << "\n";
  c->w->newLoop(a.dsrc == "opt" ? withSep(a.D, ';', ',') : "", true, f.str());
}
static string effDefault(const Acl& a) { return a.dsrc == "none" ? "" : a.D; }

// ---- observation + judgement of one end-to-end case -----------------------------------------------
static bool isDenied(result_t r) { return r == RESULT_ERR_NOTFOUND || r == RESULT_ERR_NOTAUTHORIZED; }
static bool inPollQueue(Ctx* c, Message* m) {
  for (Message* x : c->w->messages->m_pollMessages.c) if (x == m) return true;
  return false;
}
static const char* AUTHS[] = {"none", "ok", "bad", "nosecret", "unknown"};
static const char* FORMS[] = {"readname", "readcirc", "readforce", "readmaxage", "readhex", "readhexforce", "readpoll",
                              "writecirc", "writehex", "httpname", "httpcached", "httpmaxage", "httppoll",
                              "findname", "finddata", "findhex"};
// what happened to the addressed message on the same MainLoop before the judged request
static const char* HISTS[] = {"none", "fresh", "stale", "authread", "denied"};
static const char* SETFORMS[] = {"findall", "findw", "finddata", "httpall", "sink"};
static const char* SETHISTS[] = {"none", "fresh"};

static string authQuery(const string& auth) {
  if (auth == "ok") return "user=u&secret=s";
  if (auth == "bad") return "user=u&secret=x";
  if (auth == "nosecret") return "user=u";
  if (auth == "unknown") return "user=v&secret=s";
  return "";
}
// performs the TCP authentication step; returns false if the observed user is not the expected one
static bool tcpAuth(Ctx* c, const string& auth, string* user, string* log) {
  *user = "";
  string line;
  if (auth == "ok") line = "auth u s";
  else if (auth == "bad") line = "auth u x";
  else if (auth == "nosecret") line = "auth u";
  else if (auth == "unknown") line = "auth v s";
  if (line.empty()) return true;
  Reply r = tcp(c->w, line, user);
  if (log) *log += "  > " + line + "\n  < " + esc(r.text) + "   (session user now \"" + *user + "\")\n";
  return *user == (auth == "ok" ? "u" : "");
}
// names "<kind>NN" of circuit c listed by a `find` answer
static set<string> namesInFind(const string& text) {
  set<string> s;
  std::istringstream is(text);
  string line;
  while (getline(is, line)) if (line.compare(0, 2, "c ") == 0) { size_t e = line.find(' ', 2); s.insert(line.substr(2, e - 2)); }
  return s;
}
// message names appearing as JSON keys in a /data answer
static set<string> namesInJson(const string& body, const Ctx* c) {
  set<string> s;
  for (char k : {'m', 'w', 'p'}) for (size_t i = 0; i < c->d.levels.size(); i++) {
    string n = msgName(k, i);
    if (body.find("\"" + n + "\"") != string::npos) s.insert(n);
  }
  return s;
}
static string join(const set<string>& s) { string o; for (auto& x : s) o += (o.empty() ? "" : " ") + x; return o.empty() ? "-" : o; }

// the message is seen on the bus (telegram of another master, passive reception path of BusHandler):
// afterwards it holds cached data with the value `cacheByte`
static void busUpdate(Ctx* c, size_t mi, bool write) {
  string ii = two(mi + 1);
  MasterSymbolString m;
  SlaveSymbolString s;
  if (write) { m.parseHex("1008b509030e" + ii + two(mi + 101)); s.parseHex("00"); }
  else { m.parseHex("1008b509020d" + ii); s.parseHex("01" + two(mi + 101)); }
  c->w->busHandler->notifyProtocolMessage(md_recv, m, s);
  Message* msg = write ? c->wr[mi] : c->rd[mi];
  if (msg->getLastUpdateTime() != g_now) { fprintf(stderr, "fixture: bus update did not reach message %zu\n", mi); exit(3); }
}
struct FormReq { bool http = false; string line; };
// the request text of a form
static FormReq requestOf(const string& form, size_t mi, const string& auth) {
  FormReq q;
  string ii = two(mi + 1), m = msgName('m', mi), w = msgName('w', mi);
  if (form == "readname") q.line = "read " + m;
  else if (form == "readcirc") q.line = "read -c c " + m;
  else if (form == "readforce") q.line = "read -f -c c " + m;
  else if (form == "readmaxage") q.line = "read -m 86400 " + m;
  else if (form == "readhex") q.line = "read -h 08b509020d" + ii;
  else if (form == "readhexforce") q.line = "read -f -h 08b509020d" + ii;
  else if (form == "readpoll") q.line = "read -p 2 -c c " + m;
  else if (form == "writecirc") q.line = "write -c c " + w + " 7";
  else if (form == "writehex") q.line = "write -h 08b509030e" + ii + "07";
  else if (form == "findname") q.line = "find " + m;
  else if (form == "finddata") q.line = "find -d " + m;
  else if (form == "findhex") q.line = "find -d -h " + m;
  else {
    q.http = true;
    string aq = authQuery(auth);
    string opt = form == "httpname" ? "&required" : form == "httpmaxage" ? "&maxage=60" : form == "httppoll" ? "&poll=3" : "";
    q.line = "/data/c/" + m + "?exact=1" + opt + (aq.empty() ? "" : "&" + aq);
  }
  return q;
}

// one per-message case.  returns "" if fine, else the rule that fired; log gets the observation.
static string runCase(Ctx* c, const Acl& a, const string& auth, size_t mi, const string& form, const string& hist, string* log) {
  applyAcl(c, a);
  resetState(c);
  const string level = c->d.levels[mi];
  FormReq q = requestOf(form, mi, auth);
  if (q.line.empty()) return "unknown-form";
  bool http = q.http;
  bool isWrite = form.compare(0, 5, "write") == 0;
  string eff = auth == "ok" ? a.U : effDefault(a);
  bool granted = refGranted(level, eff);
  // HTTP with credentials that do not authenticate may be refused altogether (403) or fall back
  // to the default levels: both grant at most the default levels
  bool mayRefuse = http && auth != "none" && auth != "ok";
  Message* rm = c->rd[mi];
  Message* wm = c->wr[mi];
  Message* tm = isWrite ? wm : rm;
  string ii = two(mi + 1);
  string busValue = std::to_string(mi + 1), cacheValue = std::to_string(mi + 101);
  string busHex = "01" + ii, cacheHex = "01" + two(mi + 101);
  string user;
  if (log) {
    *log += "default levels (" + a.dsrc + "): \"" + effDefault(a) + "\"; user u levels: \"" + a.U + "\"; auth=" + auth +
            "; message level \"" + level + "\"; form=" + form + "; history=" + hist + "\n";
    *log += string("reference: effective list \"") + eff + "\" -> " + (granted ? "GRANTED" : "DENIED") + "\n";
  }
  // ---- prior history on the same MainLoop -------------------------------------------------------------
  if (hist == "fresh" || hist == "stale") {
    busUpdate(c, mi, isWrite);
    if (hist == "stale") g_now += 400;  // older than the default max age of 300 s
    if (log) *log += string("  history: message seen on the bus with value ") + cacheValue + (hist == "stale" ? ", 400 s ago\n" : ", just now\n");
  } else if (hist == "authread") {
    // another session that holds the level reads / writes the message; if no principal of this ACL holds
    // the level, the data comes from the bus instead
    string other;
    bool viaU = refGranted(level, a.U), viaDefault = refGranted(level, effDefault(a));
    if (viaU || viaDefault) {
      if (viaU) tcp(c->w, "auth u s", &other);
      Reply pr = tcp(c->w, isWrite ? "write -c c " + msgName('w', mi) + " 9" : "read -f -c c " + msgName('m', mi), &other);
      if (pr.ret != RESULT_OK || tm->getLastUpdateTime() != g_now) return "history-authorised-access-failed";
      if (log) *log += "  history: session of " + string(viaU ? "user u" : "an anonymous client") + " (holds the level) accessed the message: " + esc(pr.text) + "\n";
    } else {
      busUpdate(c, mi, isWrite);
      if (log) *log += "  history: no principal of this ACL holds the level; message seen on the bus with value " + cacheValue + "\n";
    }
  }
  if (!http && !tcpAuth(c, auth, &user, log)) return "auth-user";
  if (hist == "denied") {
    // the same client tried the same request just before
    Reply pr = http ? httpGet(c->w, q.line) : tcp(c->w, q.line, &user);
    if (log) *log += "  history: the same request just before: " + (http ? "status " + std::to_string(httpStatus(pr.text)) : string(getResultCode(pr.ret))) + "\n";
  }
  c->w->protocol->sent.clear();
  bool hadData = tm->getLastUpdateTime() != 0;
  time_t lastUpBefore = tm->getLastUpdateTime();
  size_t prioBefore = rm->getPollPriority();
  bool queuedBefore = inPollQueue(c, rm);
  string slaveBefore = hexOf(tm->getLastSlaveData()), masterBefore = hexOf(tm->getLastMasterData());
  // ---- the judged request -----------------------------------------------------------------------------
  string rule;
  Reply r = http ? httpGet(c->w, q.line) : tcp(c->w, q.line, &user);
  const vector<string>& sent = c->w->protocol->sent;
  vector<string> wantSent = {isWrite ? "S:3108b509030e" + ii + "07" : "S:3108b509020d" + ii};
  bool sentOk = sent.empty() || sent == wantSent;
  bool stateTouched = tm->getLastUpdateTime() != lastUpBefore || hexOf(tm->getLastSlaveData()) != slaveBefore || hexOf(tm->getLastMasterData()) != masterBefore;
  bool pollTouched = rm->getPollPriority() != prioBefore || inPollQueue(c, rm) != queuedBefore;
  bool forced = form == "readforce" || form == "readhexforce";
  // a denied request that is answered although nothing went to the bus was answered from stored data
  auto deniedAnswered = [&]() { return string(sent.empty() && hadData ? "denied-answered-from-cache" : "denied-answered"); };
  if (!http && form.compare(0, 4, "read") == 0) {
    bool hex = form == "readhex" || form == "readhexforce";
    const string& vb = hex ? busHex : busValue;
    const string& vc = hex ? cacheHex : cacheValue;
    if (granted) {
      if (r.ret != RESULT_OK || (r.text != vb && r.text != vc)) rule = "granted-refused";
      else if (!sentOk || ((forced || !hadData) && sent != wantSent)) rule = "granted-wrong-telegram";
      else if (sent.empty() && r.text == vb && hist != "authread" && hist != "denied") rule = "granted-wrong-value";
      else if (form == "readpoll" && (rm->getPollPriority() != 2 || !inPollQueue(c, rm))) rule = "granted-poll-not-set";
    } else {
      if (!isDenied(r.ret)) rule = deniedAnswered();
      else if (r.text.find(vb) != string::npos || r.text.find(vc) != string::npos) rule = "denied-value-leaked";
      else if (!sent.empty()) rule = "denied-bus-access";
      else if (pollTouched) rule = "denied-poll-set";
      else if (stateTouched) rule = "denied-state-changed";
    }
  } else if (isWrite) {
    if (granted) {
      if (r.ret != RESULT_OK) rule = "granted-refused";
      else if (sent != wantSent) rule = "granted-wrong-telegram";
    } else {
      if (!isDenied(r.ret)) rule = deniedAnswered();
      else if (!sent.empty()) rule = "denied-bus-access";
      else if (stateTouched) rule = "denied-state-changed";
    }
  } else if (!http) {  // find forms
    bool listed = namesInFind(r.text).count(msgName('m', mi)) > 0;
    bool needData = form != "findname";
    if (granted) {
      if ((!needData || hadData) && !listed) rule = "granted-refused";
      else if (listed && hadData && form != "findhex" && r.text.find("= " + cacheValue) == string::npos && r.text.find("= " + busValue) == string::npos) rule = "granted-wrong-value";
    } else {
      if (listed || (!isDenied(r.ret) && r.ret != RESULT_OK)) rule = deniedAnswered();
      else if (r.ret == RESULT_OK && !r.raw.empty() && r.text.compare(0, 6, "usage:") != 0) rule = deniedAnswered();
      else if (r.text.find(cacheHex) != string::npos || r.text.find(busHex) != string::npos) rule = "denied-value-leaked";
    }
    if (rule.empty() && !sent.empty()) rule = "find-bus-access";
    if (rule.empty() && (stateTouched || pollTouched)) rule = "find-state-changed";
  } else {
    int st = httpStatus(r.text);
    string body = httpBody(r.text);
    bool listed = body.find("\"" + msgName('m', mi) + "\"") != string::npos;
    bool refused = st == 403 || st == 401;
    bool valueShown = body.find("\"value\": " + busValue + "}") != string::npos || body.find("\"value\": " + cacheValue + "}") != string::npos;
    if (granted && !(mayRefuse && refused)) {
      if (st != 200 || !listed) rule = "granted-refused";
      else if (!sentOk) rule = "granted-wrong-telegram";
      else if (form == "httpname" && !hadData && (sent != wantSent || !valueShown)) rule = "granted-wrong-telegram";
      else if (form == "httpmaxage" && (!hadData || hist == "stale") && (sent != wantSent || !valueShown)) rule = "granted-wrong-telegram";
      else if (hadData && !valueShown) rule = "granted-wrong-value";
      else if (form == "httppoll" && (rm->getPollPriority() != 3 || !inPollQueue(c, rm))) rule = "granted-poll-not-set";
    } else {
      if (listed || valueShown) rule = deniedAnswered();
      else if (!sent.empty()) rule = "denied-bus-access";
      else if (pollTouched) rule = "denied-poll-set";
      else if (stateTouched) rule = "denied-state-changed";
      else if (!mayRefuse && !granted && st != 200 && st != 403 && st != 404) rule = "denied-status";
    }
    if (log) *log += "  > GET " + q.line + "\n  < status " + std::to_string(st) + (listed ? ", message listed" : ", message not listed") +
                     (valueShown ? ", value shown" : ", no value") + "\n";
  }
  if (log) {
    if (!http) *log += "  > " + q.line + "\n  < " + getResultCode(r.ret) + " / " + esc(r.text.substr(0, 120)) + "\n";
    *log += "  telegrams to the bus: ";
    for (auto& x : sent) *log += x + " ";
    if (sent.empty()) *log += "none";
    *log += string("\n  message had stored data before the request: ") + (hadData ? "yes" : "no");
    *log += "\n  poll priority of message: " + std::to_string(rm->getPollPriority()) + (inPollQueue(c, rm) ? " (queued)" : "") + "\n";
  }
  return rule;
}

// one listing / sink case
static string runSetCase(Ctx* c, const Acl& a, const string& auth, const string& form, const string& hist, string* log) {
  applyAcl(c, a);
  resetState(c);
  bool withData = hist == "fresh";
  if (withData) for (size_t i = 0; i < c->d.levels.size(); i++) { busUpdate(c, i, false); busUpdate(c, i, true); }
  string eff = auth == "ok" ? a.U : effDefault(a);
  bool http = form.compare(0, 4, "http") == 0;
  bool mayRefuse = http && auth != "none" && auth != "ok";
  string user;
  if (log) *log += "default levels (" + a.dsrc + "): \"" + effDefault(a) + "\"; user u levels: \"" + a.U + "\"; auth=" + auth + "; form=" + form + "; history=" + hist + (withData ? " (every read and write message was just seen on the bus)" : "") + "\n";
  set<string> want, got;
  string leak;
  string rule;
  size_t n = c->d.levels.size();
  if (form == "sink") {
    // a data sink configured for user "u" (exists) resp. "nobody" (falls back to the default entry)
    class Sink : public DataSink {
     public:
      Sink(const UserInfo* ui, const string& user) : DataSink(ui, user, false) {}
      void startHandler() override {}
    };
    string sinkUser = auth == "ok" ? "u" : "nobody";
    Sink sink(&c->w->loop->m_userList, sinkUser);
    for (size_t i = 0; i < n; i++) for (auto* v : {&c->rd, &c->wr, &c->pv}) {
      Message* m = (*v)[i];
      sink.notifyUpdate(m, true);
      if (refGranted(c->d.levels[i], eff)) want.insert(m->getName());
    }
    for (size_t i = 0; i < n; i++) for (auto* v : {&c->rd, &c->wr, &c->pv}) {
      Message* m = (*v)[i];
      if (sink.m_updatedMessages.count(m->getKey())) got.insert(m->getName());
    }
    if (log) *log += "  sink for user \"" + sinkUser + "\" got levels \"" + sink.m_levels + "\"\n";
  } else if (form == "findall" || form == "findw" || form == "finddata") {
    if (!tcpAuth(c, auth, &user, log)) return "auth-user";
    Reply r = tcp(c->w, form == "findall" ? "find -c c" : form == "findw" ? "find -w -c c" : "find -a -d -c c", &user);
    got = namesInFind(r.text);
    for (size_t i = 0; i < n; i++) {
      bool g = refGranted(c->d.levels[i], eff);
      if (g) {
        if (form == "findall") { want.insert(msgName('m', i)); want.insert(msgName('p', i)); }
        else if (form == "findw") want.insert(msgName('w', i));
        else if (withData) { want.insert(msgName('m', i)); want.insert(msgName('w', i)); }
      } else if (withData && r.text.find("= " + std::to_string(i + 101)) != string::npos) {
        leak = msgName('m', i);
      }
    }
  } else if (form == "httpall") {
    string q = authQuery(auth);
    Reply r = httpGet(c->w, "/data/c?write=1" + (q.empty() ? "" : "&" + q));
    int st = httpStatus(r.text);
    got = namesInJson(httpBody(r.text), c);
    for (size_t i = 0; i < n; i++) {
      if (refGranted(c->d.levels[i], eff)) { want.insert(msgName('m', i)); want.insert(msgName('w', i)); want.insert(msgName('p', i)); }
      else if (withData && httpBody(r.text).find("\"value\": " + std::to_string(i + 101) + "}") != string::npos) leak = msgName('m', i);
    }
    if (log) *log += "  status " + std::to_string(st) + "\n";
    if (mayRefuse && (st == 403 || st == 401) && got.empty()) want.clear();
  }
  if (!c->w->protocol->sent.empty()) rule = "listing-bus-access";
  for (auto& g : got) if (!want.count(g)) rule = withData ? "denied-listed-from-cache" : "denied-listed";
  if (!leak.empty()) rule = "denied-value-leaked";
  if (rule.empty()) for (auto& x : want) if (!got.count(x)) rule = "granted-not-listed";
  if (log) *log += "  expected: " + join(want) + "\n  observed: " + join(got) + "\n";
  return rule;
}

// ---- enumeration --------------------------------------------------------------------------------
static string caseOfAcl(const Acl& a) {
  return "dsrc=" + a.dsrc + ";D=" + withSep(a.D, ';', ',') + ";U=" + withSep(a.U, ';', ',');
}
static string levelClass(const string& level, const string& list) {
  if (level.empty()) return "nolevel";
  if (list == "*") return "star";
  if (list.empty()) return "emptylist";
  if (list.find(level) != string::npos) return refGranted(level, list) ? "member" : "substring-only";
  return "absent";
}

static int replay(const string& cs) {
  auto m = vp::parseCase(cs);
  string k = m["k"];
  string log, rule;
  if (k == "cl") {
    string level = m["lvl"], list = withSep(m["list"], ',', ';');
    bool impl = Message::checkLevel(level, list), ref = refGranted(level, list);
    printf("Message::checkLevel(level=\"%s\", list=\"%s\") impl=%d reference=%d\n", level.c_str(), list.c_str(), impl, ref);
    rule = impl == ref ? "" : "checkLevel";
  } else {
    Ctx* c = makeCtx(m["set"]);
    Acl a{m["dsrc"], withSep(m["D"], ',', ';'), withSep(m["U"], ',', ';')};
    if (k == "hl") {
      size_t mi = strtoul(m["mi"].c_str(), nullptr, 10);
      string list = withSep(m["list"], ',', ';');
      bool impl = c->rd[mi]->hasLevel(list), ref = refGranted(c->d.levels[mi], list);
      printf("Message(level=\"%s\").hasLevel(\"%s\") impl=%d reference=%d\n", c->d.levels[mi].c_str(), list.c_str(), impl, ref);
      rule = impl == ref ? "" : "hasLevel";
    } else if (k == "e2e") {
      rule = runCase(c, a, m["auth"], strtoul(m["mi"].c_str(), nullptr, 10), m["form"], m.count("hist") ? m["hist"] : "none", &log);
    } else if (k == "set") {
      rule = runSetCase(c, a, m["auth"], m["form"], m.count("hist") ? m["hist"] : "none", &log);
    }
    fputs(log.c_str(), stdout);
    rmTree(c->w->tmp);
  }
  printf("%s\n", rule.empty() ? "OK" : ("VIOLATES rule " + rule).c_str());
  return rule.empty() ? 0 : 1;
}

int main(int argc, char** argv) {
  setenv("TZ", "UTC", 1);
  vp::Args A = vp::parseArgs(argc, argv);
  if (!refSelfTest()) return 3;
  if (A.replay) return replay(A.replayCase);
  R.setDeadline(A);
  string set = A.thorough() ? "t" : "q";
  Ctx* c = makeCtx(set);
  const Domain& d = c->d;

  // ---- A: every (level, list) pair --------------------------------------------------------
  vector<string> lists = listsOf(d.names, 3, ';');
  for (size_t li = 0; li < lists.size(); li++) {
    if (static_cast<int>(li % A.nparts) != A.part) continue;
    const string& list = lists[li];
    for (size_t i = 0; i < d.levels.size(); i++) {
      const string& level = d.levels[i];
      bool ref = refGranted(level, list);
      R.evaluations += 2; R.transitions += 2; R.tracesValidated += 2;
      R.distinct("cl|" + level + "|" + list);
      R.count(string("pairs_") + (ref ? "granted" : "denied"));
      if (Message::checkLevel(level, list) != ref) {
        R.violation("C16/checkLevel/" + string(ref ? "granted-refused" : "denied-granted") + "/" + levelClass(level, list),
                    "Message::checkLevel(\"" + level + "\", \"" + list + "\") returned " + (ref ? "false" : "true"),
                    "k=cl;lvl=" + level + ";list=" + withSep(list, ';', ','));
      }
      if (c->rd[i]->hasLevel(list) != ref) {
        R.violation("C16/hasLevel/" + string(ref ? "granted-refused" : "denied-granted") + "/" + levelClass(level, list),
                    "Message(level \"" + level + "\").hasLevel(\"" + list + "\") returned " + (ref ? "false" : "true"),
                    "k=hl;set=" + set + ";mi=" + std::to_string(i) + ";list=" + withSep(list, ';', ','));
      }
    }
    if (R.expired()) break;
  }
  R.sample("checkLevel/hasLevel on all " + std::to_string(lists.size()) + " granted lists (<=3 names, empty, \"*\") x " +
           std::to_string(d.levels.size()) + " levels, e.g. level \"ab\" vs \"a;b;aab\" -> denied, vs \"b;ab\" -> granted");

  // ---- B: end to end ------------------------------------------------------------------------
  vector<string> l2 = listsOf(d.e2eNames, 2, ';');
  vector<string> l3 = listsOf(d.e2eNames, 3, ';');
  vector<Acl> acls;
  vector<string> l1 = listsOf(d.e2eNames, 1, ';');
  // thorough (12 names): the two lists together hold at most 3 names
  auto nNames = [](const string& l) { return l.empty() || l == "*" ? size_t(0) : size_t(std::count(l.begin(), l.end(), ';')) + 1; };
  for (auto& D : l2) for (auto& U : l2) if (set != "t" || nNames(D) + nNames(U) <= 3) acls.push_back(Acl{"acl", D, U});
  // default list given by --accesslevel: quick crosses it with all user lists, thorough (12 names) with the
  // user lists of <=1 name only (the option is just another source of the same default entry)
  for (auto& D : l2) for (auto& U : (set == "t" ? l1 : l2)) acls.push_back(Acl{"opt", D, U});
  for (auto& U : l3) acls.push_back(Acl{"none", "", U});
  uint64_t nAcl = 0;
  bool sampled = false;
  for (size_t ai = 0; ai < acls.size() && !R.expired(); ai++) {
    if (static_cast<int>(ai % A.nparts) != A.part) continue;
    const Acl& a = acls[ai];
    nAcl++;
    R.state("acl|" + caseOfAcl(a));
    for (const char* auth : AUTHS) {
      for (size_t mi = 0; mi < d.levels.size(); mi++) {
        for (const char* form : FORMS) for (const char* hist : HISTS) {
          string rule = runCase(c, a, auth, mi, form, hist, nullptr);
          R.evaluations++; R.tracesValidated++; R.transitions += 3;
          string eff = string(auth) == "ok" ? a.U : effDefault(a);
          R.distinct(string("e2e|") + form + "|" + hist + "|" + auth + "|" + d.levels[mi] + "|" + eff + "|" + a.dsrc);
          R.count(refGranted(d.levels[mi], eff) ? "e2e_granted" : "e2e_denied");
          if (!rule.empty()) {
            string cs = "k=e2e;set=" + set + ";" + caseOfAcl(a) + ";auth=" + auth + ";mi=" + std::to_string(mi) + ";form=" + form + ";hist=" + hist;
            R.violation("C16/" + rule + "/" + form + "/" + levelClass(d.levels[mi], eff),
                        "level \"" + d.levels[mi] + "\" vs effective list \"" + eff + "\" (" + auth + "), form " + form + ", history " + hist, cs);
          }
        }
      }
      for (const char* form : SETFORMS) for (const char* hist : SETHISTS) {
        string rule = runSetCase(c, a, auth, form, hist, nullptr);
        R.evaluations++; R.tracesValidated++; R.transitions++;
        if (!rule.empty()) {
          string cs = "k=set;set=" + set + ";" + caseOfAcl(a) + ";auth=" + auth + ";form=" + form + ";hist=" + hist;
          R.violation("C16/" + rule + "/" + form + "/listing", "listing differs from the granted set, form " + string(form) + ", auth " + auth + ", history " + hist, cs);
        }
      }
    }
    if (!sampled && a.dsrc == "acl" && a.D == "a" && a.U == "ab;b") {
      sampled = true;
      string log;
      runCase(c, a, "ok", std::min<size_t>(4, d.levels.size() - 1), "readname", "none", &log);
      R.sample("e2e: " + log);
      log.clear();
      runCase(c, a, "none", std::min<size_t>(4, d.levels.size() - 1), "readhex", "fresh", &log);
      R.sample("e2e: " + log);
      log.clear();
      runSetCase(c, a, "bad", "findall", "none", &log);
      R.sample("e2e: " + log);
    }
  }
  R.count("acls", nAcl);
  R.note("ACL space: " + std::to_string(acls.size()) + " ACLs = default entry from the ACL '*' row x user entry (lists of <=2 names, " +
         std::to_string(l2.size()) + " each), default entry from --accesslevel x user entry (" + std::to_string(set == "t" ? l1.size() : l2.size()) +
         " user lists), no default entry x user lists of <=3 names (" + std::to_string(l3.size()) + "); x 5 auth states x " +
         std::to_string(d.levels.size()) + " levels x 16 forms x 5 histories + 5 listing forms x 2 histories");
  rmTree(c->w->tmp);
  R.write(A.out);
  return 0;
}
