// busmc: exhaustive deviation-bounded exploration of the real DirectProtocolHandler + device in
// a closed bus world (see DESIGN.md 4.1).  --prop selects the property whose monitor is active.
#include <algorithm>
#include <functional>
#include <set>
#define SANHOOKS_IMPL
#include "sanhooks.h"
#include "busmon.h"
#include "busworld.h"

using namespace bw;
using ref::Bytes;
using ref::Telegram;

static vp::Result R;
static bool replayViolated = false;
static bool validateHash = false;
static long validateEvery = 0, validateMaxK = 1;
static std::string g_tier = "quick";

// ------------------------------------------------------------------ scenario construction helpers
struct Tel {
  Bytes master, slave;
  int nakM = 0, nakS = 0;  // 0 none, 1 first attempt with bad CRC then NAK, 2 first attempt good but NAK-ed
};
static Bytes cat(Bytes a, const Bytes& b) { a.insert(a.end(), b.begin(), b.end()); return a; }
static Bytes telWire(const Tel& t) {
  Bytes b;
  // nakM/nakS: 1 = first attempt with wrong CRC and NAK-ed, 2 = correct first attempt NAK-ed, 3 = NAK-ed twice and sent
  // a third time without a SYN in between (second NAK: nothing of it may be reported)
  if (t.nakM) b = cat(cat(b, ref::wirePart(t.master, (t.nakM == 1 || t.nakM == 4) ? 0x01 : 0)), Bytes{ref::NAK});
  if (t.nakM == 3) b = cat(cat(b, ref::wirePart(t.master)), Bytes{ref::NAK});
  if (t.nakM == 4) {  // the repetition comes with a NON-master source (CRC correct for the repeated bytes): never a message
    Bytes m2 = t.master; m2[0] = 0x04;  // 04 is not one of the 25 masters (0x01 would be)
    b = cat(b, ref::wirePart(m2));
  } else {
    b = cat(b, ref::wirePart(t.master));
  }
  uint8_t zz = t.master[1];
  if (zz == ref::BROADCAST) return b;
  b.push_back(ref::ACK);
  if (ref::isMaster(zz)) return b;
  if (t.nakS) b = cat(cat(b, ref::wirePart(t.slave, t.nakS == 1 ? 0x01 : 0)), Bytes{ref::NAK});
  if (t.nakS == 3) b = cat(cat(b, ref::wirePart(t.slave)), Bytes{ref::NAK});
  b = cat(b, ref::wirePart(t.slave));
  b.push_back(ref::ACK);
  return b;
}
static Script telScript(const Tel& t) { return Script{send(telWire(t))}; }
static Tel mk(const char* m, const char* s = "", int nakM = 0, int nakS = 0) {
  Tel t; t.master = ref::unhex(m); t.slave = ref::unhex(s); t.nakM = nakM; t.nakS = nakS; return t;
}
// find a data byte that makes the CRC of the part equal to want
static Bytes withCrc(Bytes part, size_t pos, uint8_t want) {
  for (int v = 0; v < 256; v++) {
    if (v == 0xA9 || v == 0xAA) continue;
    part[pos] = (uint8_t)v;
    if (ref::crcOf(part) == want) return part;
  }
  fprintf(stderr, "withCrc: no value\n");
  abort();
}

static std::vector<Tel> catalogue(bool full) {
  std::vector<Tel> c;
  c.push_back(mk("10fe07040a"));                       // placeholder replaced below (keeps index 0 simple)
  c.back() = mk("10fe070400");
  c.push_back(mk("10feb51603a9aa01"));                 // BC with data needing both escapes
  c.push_back(mk("1030b5100155"));                     // MM
  c.push_back(mk("1008b509020d00", "015a"));           // MS
  c.push_back(mk("0315070400", "00"));                 // MS with empty data both sides
  c.push_back(mk("f176b5110101", "03a9aa00"));         // MS, response needs escapes
  { Tel t = mk("1008b5090200ff", "0100"); t.master = withCrc(t.master, 5, 0xA9); c.push_back(t); }  // master CRC == A9
  { Tel t = mk("1008b5090200ff", "0100"); t.master = withCrc(t.master, 5, 0xAA); t.slave = withCrc(t.slave, 1, 0xAA); c.push_back(t); }
  c.push_back(mk("1008b509020d00", "015a", 1, 0));     // master part NAK-ed (bad CRC first)
  c.push_back(mk("1008b509020d00", "015a", 0, 1));     // slave part NAK-ed
  c.push_back(mk("1036070400", "0a0102030405060708090a"));  // to the default own slave address, nobody answering configured
  c.push_back(mk("31fe070400"));                       // source == default own master address
  c.push_back(mk("1008b509020d00", "015a", 3, 0));     // master part NAK-ed twice, then sent a third time without SYN
  c.push_back(mk("1030b5100155", "", 3, 0));           // the same for a master-master telegram
  c.push_back(mk("1008b509020d00", "015a", 0, 3));     // slave part NAK-ed twice, then sent a third time
  c.push_back(mk("1008b509020d00", "015a", 4, 0));     // NAK-ed first attempt, repetition with a non-master source and its own correct CRC
  if (full) {
    c.push_back(mk("1008b509020d00", "015a", 2, 2));   // both parts NAK-ed although good
    c.push_back(mk("1008b509020d00", "015a", 1, 1));
    c.push_back(mk("1030b5100155", "", 1, 0));         // MM with NAK-ed first attempt
    c.push_back(mk("1030b5100155", "", 2, 0));
    c.push_back(mk("10fe0700100102030405060708090a0b0c0d0e0f10"));  // NN = 16
    c.push_back(mk("1008b5091000a9aaa9aaa9aaa9aaa9aaa9aaa9aa01", "10aaa9aaa9aaa9aaa9aaa9aaa9aaa9aaa9"));  // NN=16 all escapes
    { Tel t = mk("1008b5090200ff", "0200ff"); t.slave = withCrc(t.slave, 1, 0xA9); c.push_back(t); }
    c.push_back(mk("ff08070400", "00"));               // source FF
    c.push_back(mk("0004070400", "0100"));             // dst 04 (slave of master FF)
    c.push_back(mk("1000b5100100"));                   // MM to master 00
  }
  return c;
}

struct Cfg { uint8_t own; bool readOnly, answer, genSyn; unsigned lockCount; };
static std::vector<Cfg> configs(bool full) {
  std::vector<Cfg> c = {
    {0x31, false, false, false, 0}, {0xFF, true, false, false, 0}, {0x00, false, true, false, 0},
    {0x31, false, false, false, 3}, {0x31, false, false, true, 5}, {0x31, false, true, true, 0},
  };
  if (full) {
    c.push_back({0x31, true, true, true, 5});
    c.push_back({0xFF, false, false, true, 0});
    c.push_back({0x00, false, false, false, 5});
    c.push_back({0x10, false, true, false, 3});   // own address == source of most catalogue telegrams
  }
  return c;
}
static void applyCfg(Scenario* s, const Cfg& c) {
  s->own = c.own; s->readOnly = c.readOnly; s->answer = c.answer; s->genSyn = c.genSyn; s->lockCount = c.lockCount;
  if (c.answer) {  // answers registered for other commands / addresses only (never matching the catalogue)
    s->answers.push_back(AnswerSpec{-1, (uint8_t)(c.own + 5), 0x07, 0x05, Bytes{}, Bytes{0x01, 0x02}});
    s->answers.push_back(AnswerSpec{0x03, (uint8_t)(c.own + 5), 0xb5, 0x09, Bytes{0x77}, Bytes{0x00}});
  }
}

// ------------------------------------------------------------------ property drivers
struct Bounds { int dev, chunk, req; bool hash; };

static std::string scenarioCase(const std::string& prop, size_t idx, const vp::Explorer& ex);
static std::string scenarioCase_(const std::string& prop, size_t idx, const vp::Explorer& ex) {
  return "prop=" + prop + ";tier=" + g_tier + ";sc=" + std::to_string(idx) + ";ch=" + ex.choicesStr();
}

static std::string scenarioCase(const std::string& prop, size_t idx, const vp::Explorer& ex) { return scenarioCase_(prop, idx, ex); }
typedef std::function<std::vector<Monitor*>(World&, VSink*)> MonFactory;

// sanitizer builds: turn a fatal sanitizer report into a recorded violation of the running case
static const std::string* g_curProp = nullptr;
static size_t g_curIdx = 0;
static vp::Explorer* g_curEx = nullptr;
static bool g_inRun = false, g_isReplay = false;
static std::string g_out;
static void onSanitizerDeath(const char* which) {
  if (!g_inRun || g_curEx == nullptr) return;
  (void)which;
  g_inRun = false;
  // the choices taken so far identify the execution (later defaults are implied)
  std::string cs = scenarioCase(*g_curProp, g_curIdx, *g_curEx);
  if (g_isReplay) {
    printf("VIOLATES %s/memory-error: sanitizer report (see stderr) in case %s\n", g_curProp->c_str(), cs.c_str());
    fflush(stdout);
    _exit(1);
  }
  R.violation(*g_curProp + "/memory-error", "AddressSanitizer/UBSan report while executing this case", cs);
  R.cap("aborted at the first sanitizer report");
  R.write(g_out);
  _exit(0);
}

static void runScenario(const std::string& prop, size_t idx, const Scenario& sc, const Bounds& b,
                        const MonFactory& mf, const std::vector<uint16_t>* replay, int slice = 0) {
  vp::Explorer ex;
  ex.budget[K_DEV] = sc.k + b.dev; ex.budget[K_CHUNK] = sc.c + b.chunk; ex.budget[K_REQ] = sc.r;
  ex.useHash = replay == nullptr;
  ex.trackCycles = true;
  ex.collectOnly = !b.hash;
  if (sc.unbounded) ex.hashBudgetMask = 1u << K_REQ;  // A-mode: only the fault budget is a real bound
  auto body = [&](vp::Explorer& e) {
    VSink sink;
    World w(sc, e);
    w.logging = replay != nullptr;
    std::vector<Monitor*> mons = mf(w, &sink);
    w.mons = mons;
    g_curProp = &prop; g_curIdx = idx; g_curEx = &e; g_inRun = true;
    w.run();
    g_inRun = false;
    if (w.capHit && prop == "C20") sink.add("C20/step-budget-exceeded", "the handler loop did not come to rest within the step budget");
    if (w.leaked != 0 && prop == "C20") sink.add("C20/leaked-request", std::to_string(w.leaked) + " request object(s) leaked");
    if (w.leaked != 0 && prop == "C04") sink.add("C04/leaked-request", std::to_string(w.leaked) + " self-deleting request object(s) were neither deleted by the handler nor left in its queues");
    R.transitions += w.reads;
    if (w.capHit) R.cap("step cap hit in scenario " + sc.name);
    if (e.cycle) { R.count("runs_ending_in_a_state_cycle", 1); if (getenv("VERIF_VERBOSE")) fprintf(stderr, "cycle: %s\n", scenarioCase(prop, idx, e).c_str()); }
    if (replay != nullptr) {
      printf("scenario %zu: %s\n", idx, sc.name.c_str());
      for (auto& l : w.log) printf("  %s\n", l.c_str());
    }
    if (!e.aborted) {
      // distinct observation traces: hash of delivered symbols + verdict count
      uint64_t hsh = vp::fnv(w.syms.data(), w.syms.size() * sizeof(DeliveredSym), idx * 1315423911ULL + 7);
      R.distinct(hsh);
    }
    for (auto& v : sink.v) {
      if (replay != nullptr) printf("VIOLATES %s: %s\n", v.first.c_str(), v.second.c_str());
      R.violation(v.first, v.second + " [scenario " + sc.name + "]", scenarioCase(prop, idx, e));
    }
    if (replay != nullptr && sink.v.empty()) printf("OK (no violation)\n");
    replayViolated = !sink.v.empty();
    for (auto m : mons) delete m;
  };
  if (replay != nullptr) {
    ex.runOnce(*replay, body);
    return;
  }
  ex.explore([&](vp::Explorer& e) {
    body(e);
    if (getenv("VERIF_TRACE_RUNS") && e.executions % (uint64_t)atol(getenv("VERIF_TRACE_RUNS")) == 0) fprintf(stderr, "run %llu: %s\n", (unsigned long long)e.executions, e.choicesStr().c_str());
    if ((e.executions & 0x3ff) == 0 && R.expired()) e.stopAll = true;
  }, slice, sc.slices);
  if (getenv("VERIF_VERBOSE")) fprintf(stderr, "%s: %llu executions, %zu states, %.1fs\n", sc.name.c_str(), (unsigned long long)ex.executions, ex.visited.size(), vp::rawNow() - R.t0);
  R.evaluations += ex.executions;
  R.tracesValidated += ex.executions;
  R.count("choice_points", ex.choicePoints);
  R.count("pruned_runs", ex.pruned);
  for (uint64_t h : ex.visited) R.stateSet.insert(h ^ (idx * 0x9E3779B97F4A7C15ULL));
  if (ex.collectOnly) R.count("stateless_scenarios", 1);
  if (validateHash && replay == nullptr && sc.slices == 1) {
    // fingerprint validation: the pruned search must visit exactly the states the unpruned search visits
    validateHash = false;
    std::unordered_set<uint64_t> pruned = ex.visited;
    uint64_t prunedExec = ex.executions;
    vp::Result saved = R;
    Bounds b2 = b; b2.hash = !b.hash;
    vp::Explorer ex2;
    ex2.budget[K_DEV] = sc.k + b.dev; ex2.budget[K_CHUNK] = sc.c + b.chunk; ex2.budget[K_REQ] = sc.r;
    ex2.useHash = true; ex2.collectOnly = b.hash;
    std::set<std::string> sig1, sig2;
    for (auto& v : R.violations) sig1.insert(v.first);
    std::unordered_map<uint64_t, std::string> paths;
    std::unordered_map<uint64_t, vp::Explorer::DbgSucc> succ;
    if (getenv("VERIF_DEBUG_HASH")) { ex2.debugPaths = &paths; ex2.debugSucc = &succ; }
    ex2.explore([&](vp::Explorer& e) { body(e); if ((e.executions & 0x3ff) == 0 && R.expired()) e.stopAll = true; });
    if (ex2.stopAll) { R = saved; R.cap("hash validation cut by deadline"); validateHash = true; return; }
    if (ex2.debugPaths) {
      int n = 0;
      for (auto& kv : paths) if (!pruned.count(kv.first) && n++ < 5) fprintf(stderr, "state only in unpruned search reached by: sc=%zu;ch=%s\n", idx, kv.second.c_str());
    }
    for (auto& v : R.violations) sig2.insert(v.first);
    bool same = pruned == ex2.visited;
    R = saved;
    R.count("hash_validation_scenarios", 1);
    R.count("hash_validation_executions_other_mode", ex2.executions);
    if (!same) {
      fprintf(stderr, "hash validation failed for scenario %s: %zu vs %zu states (%llu vs %llu executions)\n", sc.name.c_str(),
              pruned.size(), ex2.visited.size(), (unsigned long long)prunedExec, (unsigned long long)ex2.executions);
      exit(5);
    }
    validateHash = true;
  }
}


// ---- C02 / C03 ----
// behaviour of the addressed participant after ebusd won arbitration
// variant: 0 conformant, 1 NAK then ACK, 2 NAK NAK, 3 response bad CRC then good, 4 bad twice,
//          5 bad, bad, then a good one offered, 6 bad three times
static Script responder(const Bytes& master, const Bytes& resp, int variant) {
  int n1 = (int)ref::wirePart(master).size() - 1;  // symbols after QQ incl. CRC
  uint8_t zz = master[1];
  Script s;
  s.push_back(await(n1));
  if (zz == ref::BROADCAST) { s.push_back(await(1)); return s; }
  if (variant == 1 || variant == 2) {
    s.push_back(send(Bytes{ref::NAK}));
    s.push_back(await(n1 + 1));
    if (variant == 2) { s.push_back(send(Bytes{ref::NAK})); return s; }
  }
  if (ref::isMaster(zz)) { s.push_back(send(Bytes{ref::ACK})); s.push_back(await(1)); return s; }
  if (variant >= 3 && variant <= 6) {
    s.push_back(send(cat(Bytes{ref::ACK}, ref::wirePart(resp, 0x01))));
    s.push_back(await(1));  // NAK expected
    s.push_back(send(ref::wirePart(resp, variant == 3 ? 0 : 0x01)));
    if (variant >= 5) {
      s.push_back(await(1));  // a conformant master closes with SYN here; a second NAK lets the slave go on
      s.push_back(send(ref::wirePart(resp, variant == 5 ? 0 : 0x01)));
    }
  } else {
    s.push_back(send(cat(Bytes{ref::ACK}, ref::wirePart(resp))));
  }
  s.push_back(await(1));  // ACK (or NAK)
  s.push_back(await(1));  // SYN
  return s;
}
struct RQ { const char* m; const char* s; };
static std::vector<RQ> requestCatalogue(bool full) {
  std::vector<RQ> v = {
    {"31feb505022700", ""},            // BC
    {"3110b51101a9", ""},              // MM, data needs escape
    {"3108b509030daa00", "02a955"},    // MS, escapes both ways
    {"3115070400", "00"},              // MS, no data
  };
  if (full) {
    v.push_back({"31fe07ff00", ""});
    v.push_back({"3108b5091000a9aaa9aaa9aaa9aaa9aaa9aaa9aa01", "10aaa9aaa9aaa9aaa9aaa9aaa9aaa9aaa9"});
    v.push_back({"3130b5100155", ""});
    v.push_back({"31f6b5040100", "0a0102030405060708090a"});
  }
  return v;
}
static std::vector<Scenario> scenariosC02(bool thorough, const vp::Args& A) {
  std::vector<Scenario> v;
  std::vector<RQ> rq = requestCatalogue(thorough);
  // master CRC equal to A9 / AA
  Bytes crcA9 = withCrc(ref::unhex("3108b5090200ff"), 5, 0xA9), crcAA = withCrc(ref::unhex("3108b5090200ff"), 5, 0xAA);
  for (int enh = 0; enh < 2; enh++) {
    for (size_t qi = 0; qi < rq.size() + 2; qi++) {
      Bytes m = qi < rq.size() ? ref::unhex(rq[qi].m) : (qi == rq.size() ? crcA9 : crcAA);
      Bytes r = qi < rq.size() ? ref::unhex(rq[qi].s) : withCrc(ref::unhex("0200ff"), 1, qi == rq.size() ? 0xAA : 0xA9);
      bool slaveDst = m[1] != ref::BROADCAST && !ref::isMaster(m[1]);
      int nvar = m[1] == ref::BROADCAST ? 1 : (slaveDst ? 7 : 3);
      for (int var = 0; var < nvar; var++) {
        for (int retr = 0; retr < 2; retr++) {
          if (retr == 1 && var != 0 && !thorough) continue;
          Scenario s;
          s.enhanced = enh;
          s.busLostRetries = retr ? 0 : 2;
          ReqSpec q;
          q.master = m;
          q.responder = responder(m, r, var);
          q.failsByScript = var == 2 || var == 4 || var == 5 || var == 6;  // NAK NAK / response bad twice: the exchange fails by script
          q.resubmits = retr;   // the waiter re-submits once after an error when retr==1
          s.reqs.push_back(q);
          s.tailSyns = 2;
          s.k = (var == 0 || thorough) ? 2 : 1;
          if (qi >= rq.size() && !thorough) s.k = 1;
          s.c = 1;
          s.name = std::string(enh ? "enh" : "plain") + "/req" + std::to_string(qi) + "/resp" + std::to_string(var) + "/retr" + std::to_string(retr) + "/k" + std::to_string(s.k);
          v.push_back(s);
        }
      }
    }
    // own request followed by a foreign exchange: a failed own exchange must be over before the next telegram
    // (a SYN ending it that arrives in one read chunk with the following telegram left the request active once)
    for (int kind = 0; kind < 3; kind++) for (int f = 0; f < 2; f++) {
      Scenario s;
      s.enhanced = enh;
      s.busLostRetries = 1;
      ReqSpec q;
      q.master = kind == 0 ? ref::unhex("31fe070400") : kind == 1 ? ref::unhex("3110b51001a9") : ref::unhex("3108b509010d");
      q.responder = responder(q.master, ref::unhex("015a"), 0);
      s.reqs.push_back(q);
      s.foreign.push_back(telScript(f ? mk("1008b509020d00", "0277aa") : mk("0310b5100155")));
      s.tailSyns = 2;
      s.k = thorough ? 2 : 1;
      s.c = 1;
      s.name = std::string(enh ? "enh" : "plain") + "/then-foreign/kind" + std::to_string(kind) + "/f" + std::to_string(f) + "/k" + std::to_string(s.k);
      v.push_back(s);
    }
    // data sweep: NN=1, all 256 data values, three destination kinds, conformant participant, k=0 (thorough k=1)
    const uint8_t dsts[3] = {0xFE, 0x10, 0x08};
    for (int d = 0; d < 3; d++) for (int val = 0; val < 256; val++) {
      Scenario s;
      s.enhanced = enh;
      ReqSpec q;
      q.master = Bytes{0x31, dsts[d], 0xb5, 0x09, 0x01, (uint8_t)val};
      q.responder = responder(q.master, Bytes{0x01, (uint8_t)(255 - val)}, 0);
      s.reqs.push_back(q);
      s.tailSyns = 1;
      s.k = thorough ? 1 : 0; s.c = 0;
      s.name = std::string(enh ? "enh" : "plain") + "/sweep/dst" + std::to_string(d) + "/val" + std::to_string(val);
      v.push_back(s);
    }
  }
  return v;
}

static std::vector<Scenario> scenariosC03(bool thorough, const vp::Args& A) {
  std::vector<Scenario> v;
  struct C3 { uint8_t own; bool readOnly, genSyn; unsigned lockCount, busLost; };
  std::vector<C3> cfgs = {
    {0x31, false, false, 0, 2}, {0x31, true, false, 0, 2}, {0x31, false, true, 0, 1}, {0xFF, false, false, 3, 0},
    {0x31, true, true, 0, 2},   // read-only AND SYN generation configured: nothing may be written, no AUTO-SYN either
    {0x03, false, false, 5, 3}, {0x31, false, true, 5, 0},
  };
  if (!thorough) cfgs.resize(5);
  Tel foreignMS = mk("1008b509020d00", "015a"), foreignBC = mk("10fe070400");
  for (int enh = 0; enh < 2; enh++) {
    for (size_t ci = 0; ci < cfgs.size(); ci++) {
      for (int shape = 0; shape < 7; shape++) {
        if (shape == 4 && !thorough) continue;
        if (shape == 6 && !cfgs[ci].genSyn) continue;
        Scenario s;
        s.enhanced = enh;
        s.own = cfgs[ci].own; s.readOnly = cfgs[ci].readOnly; s.genSyn = cfgs[ci].genSyn;
        s.lockCount = cfgs[ci].lockCount; s.busLostRetries = cfgs[ci].busLost;
        s.winnerTelegram = Script{send(ref::wirePart(ref::unhex("fe070400")))};  // rest of a broadcast by the winner (its QQ was the collision symbol)
        // winner telegram CRC must include the winner's QQ which varies; it is deliberately "some traffic"
        Bytes m1 = {s.own, 0x08, 0xb5, 0x09, 0x01, 0x0d}, m2 = {s.own, 0xfe, 0x07, 0x04, 0x00}, m3 = {s.own, 0x10, 0xb5, 0x10, 0x01, 0xa9};
        auto addReq = [&](const Bytes& m, const Bytes& r, bool late) {
          ReqSpec q; q.master = m; q.responder = responder(m, r, 0); q.late = late; s.reqs.push_back(q);
        };
        switch (shape) {
          case 0: addReq(m1, Bytes{0x01, 0x5a}, false); break;                       // one request queued from the start
          case 1: addReq(m1, Bytes{0x01, 0x5a}, true); s.foreign.push_back(telScript(foreignMS)); s.r = 1; break;  // arrives at any moment during foreign traffic
          case 2: addReq(m2, Bytes{}, false); addReq(m3, Bytes{}, false); s.foreign.push_back(telScript(foreignBC)); break;
          case 3: addReq(m1, Bytes{0x01, 0x5a}, true); addReq(m2, Bytes{}, true); s.r = 2; break;
          case 5: addReq(m3, Bytes{}, false); s.foreign.push_back(telScript(foreignMS)); break;  // failed own exchange directly followed by foreign traffic
          case 6:  // nobody else generates SYN: several receive timeouts in a row, then traffic (AUTO-SYN timing, collided AUTO-SYN)
            s.foreign.push_back(Script{pause(2500), pause(0), pause(0), pause(0), pause(0), pause(0)});
            s.foreign.push_back(telScript(foreignBC));
            break;
          case 4: addReq(m1, Bytes{0x01, 0x5a}, true); addReq(m2, Bytes{}, true); addReq(m3, Bytes{}, true); s.foreign.push_back(telScript(foreignMS)); s.r = 3; break;
        }
        s.tailSyns = 4;
        s.k = (shape <= 1 || thorough) ? 2 : 1;
        if (shape == 1 && ci > 0 && !thorough) s.k = 1;
        if (thorough && shape == 0) s.k = 3;
        if (s.k + s.r >= 3) s.slices = 16;
        if (s.k + s.r >= 4) s.slices = 64;
        s.c = 1;
        s.name = std::string(enh ? "enh" : "plain") + "/cfg" + std::to_string(ci) + "/shape" + std::to_string(shape) + "/k" + std::to_string(s.k);
        v.push_back(s);
      }
    }
  }
  return v;
}


// ---- C15 ----
static std::vector<AnswerSpec> answerUniverse(uint8_t own) {
  uint8_t os = (uint8_t)(own + 5);
  return {
    AnswerSpec{-1, os, 0x07, 0x04, Bytes{}, ref::unhex("0ab5454255010203040506")},        // ident, no id
    AnswerSpec{-1, os, 0xb5, 0x09, Bytes{0x0d}, withCrc(ref::unhex("03a9aa00"), 3, 0xAA)},  // id 1, answer data AND its CRC need escapes
    AnswerSpec{0x10, os, 0xb5, 0x09, Bytes{0x0d, 0x01}, withCrc(ref::unhex("0155"), 1, 0xA9)},  // id 2, source restricted, CRC of the answer is a9
    AnswerSpec{0x10, os, 0xb5, 0x09, Bytes{0x0d}, ref::unhex("0166")},                     // id 1, source restricted (same id as #1)
    AnswerSpec{-1, own, 0xb5, 0x10, Bytes{0x01}, ref::unhex("03000000")},                  // master destination, id 1, tail length 3
    AnswerSpec{-1, 0x08, 0xb5, 0x04, Bytes{0x01, 0x02, 0x03, 0x04}, ref::unhex("00")},     // foreign address, id 4
    AnswerSpec{-1, own, 0xb5, 0x10, Bytes{0x01, 0x02}, ref::unhex("0100")},                // master destination, nested id 2, tail length 1
    AnswerSpec{-1, own, 0xb5, 0x10, Bytes{}, ref::unhex("0400000000")},                   // master destination, no id, tail length 4
  };
}
// foreign master script talking to an address ebusd may answer: variant 0 plain, 1 bad CRC first then repeat,
// 2 bad twice, 3 NAKs the response once, 4 NAKs it twice, 5 an ESC symbol follows the CRC without waiting for the acknowledge
static Script askScript(const Bytes& master, int respSymbols, int variant) {
  Script s;
  bool slaveDst = !ref::isMaster(master[1]);
  if (variant == 5) {  // the requestor does not wait for the acknowledge: an ESC symbol follows the CRC at once
    s.push_back(send(cat(ref::wirePart(master), Bytes{ref::ESC})));
    return s;
  }
  if (variant == 1 || variant == 2) {
    s.push_back(send(ref::wirePart(master, 0x01)));
    s.push_back(await(1));  // NAK by ebusd
    s.push_back(send(ref::wirePart(master, variant == 2 ? 0x01 : 0)));
  } else {
    s.push_back(send(ref::wirePart(master)));
  }
  s.push_back(await(1));  // ACK by ebusd
  if (!slaveDst) return s;
  s.push_back(await(respSymbols));
  if (variant == 3 || variant == 4) {
    s.push_back(send(Bytes{ref::NAK}));
    s.push_back(await(respSymbols));
    s.push_back(send(Bytes{variant == 4 ? ref::NAK : ref::ACK}));
  } else {
    s.push_back(send(Bytes{ref::ACK}));
  }
  return s;
}
static std::vector<Scenario> scenariosC15(bool thorough, const vp::Args& A) {
  std::vector<Scenario> v;
  const uint8_t own = 0x31;
  std::vector<AnswerSpec> U = answerUniverse(own);
  // answer sets: all subsets of size <= 2 (thorough 3), empty set included
  std::vector<std::vector<int>> sets;
  int maxSize = thorough ? 3 : 2;
  for (int mask = 0; mask < (1 << U.size()); mask++) {
    if (__builtin_popcount(mask) > maxSize) continue;
    std::vector<int> st;
    for (size_t i = 0; i < U.size(); i++) if (mask & (1 << i)) st.push_back((int)i);
    sets.push_back(st);
  }
  // telegrams derived from the universe: id kept / truncated / extended by 1,2,4 data bytes / one id byte mutated; sources 10 and 03
  struct TG { Bytes m; int from; };
  std::vector<TG> tels;
  for (size_t ui = 0; ui < U.size(); ui++) {
    const AnswerSpec& a = U[ui];
    const uint8_t srcs[2] = {0x10, 0x03};
    for (int si = 0; si < 2; si++) {
      std::vector<Bytes> datas;
      datas.push_back(a.id);
      if (!a.id.empty()) { Bytes t = a.id; t.pop_back(); datas.push_back(t); Bytes mu = a.id; mu.back() ^= 0x80; datas.push_back(mu); }
      for (int extra : {1, 2, 3, 4, 6}) { Bytes e = a.id; for (int j = 0; j < extra; j++) e.push_back((uint8_t)(0x01 + j)); if (e.size() <= 16) datas.push_back(e); }
      if (thorough) { Bytes e = a.id; while (e.size() < 16) e.push_back(0xa9); datas.push_back(e); }
      for (auto& d : datas) {
        Bytes m = {srcs[si], a.dst, a.pb, a.sb, (uint8_t)d.size()};
        m.insert(m.end(), d.begin(), d.end());
        bool dup = false;
        for (auto& t : tels) if (t.m == m) dup = true;
        if (!dup) tels.push_back(TG{m, (int)ui});
      }
    }
  }
  for (int enh = 0; enh < 2; enh++) {
    for (size_t si = 0; si < sets.size(); si++) {
      for (size_t ti = 0; ti < tels.size(); ti++) {
        // only telegrams that are related to the set (address registered) or a few unrelated ones
        bool related = false;
        for (int ai : sets[si]) if (U[ai].dst == tels[ti].m[1]) related = true;
        if (!related && (ti % 7) != 0) continue;
        int nvar = related ? 6 : 1;
        for (int var = 0; var < nvar; var++) {
          if (enh && !thorough && (var == 2 || var == 4)) continue;
          if (var == 5 && sets[si].size() != 1) continue;
          Scenario s;
          s.enhanced = enh; s.own = own; s.answer = true;
          for (int ai : sets[si]) s.answers.push_back(U[ai]);
          // response symbols of the longest registered answer that could apply (world only needs a count to wait for)
          AnswerMonitor probe(nullptr, s);
          std::vector<int> c = probe.lookup(tels[ti].m);
          int rs = c.empty() ? 1 : (int)ref::wirePart(s.answers[c[0]].answer).size();
          s.foreign.push_back(askScript(tels[ti].m, rs, var));
          // behind an answered exchange: a broadcast and a telegram for somebody else must be received passively again
          if (related && var == 0 && sets[si].size() == 1 && (ti % 3) == 1) {
            s.foreign.push_back(telScript(mk("10fe070400")));
            if (thorough) s.foreign.push_back(telScript(mk("0315b509020d00", "0277aa")));
          }
          s.tailSyns = 2;
          s.k = (thorough && related && var == 0) ? 2 : 1;
          s.c = thorough ? 1 : 0;
          if (!thorough && related && var == 0 && sets[si].size() == 1) { s.k = (ti % 3) == 0 ? 2 : 1; s.c = 1; }
          if (var == 5) { s.k = thorough ? 1 : 0; s.c = 1; }  // every chunking of 'CRC, ESC' (the ESC in the chunk of the CRC)
          s.name = std::string(enh ? "enh" : "plain") + "/set" + std::to_string(si) + "/tel" + ref::hex(tels[ti].m) + "/var" + std::to_string(var) + "/k" + std::to_string(s.k);
          v.push_back(s);
        }
      }
    }
  }
  // an own exchange with exactly one repetition directly in front of the asked telegram (the asked telegram follows the
  // SYN that ebusd itself wrote to close its exchange): the answering side starts from a clean state whatever came before
  for (size_t si = 0; si < sets.size(); si++) {
    if (sets[si].size() != 1) continue;
    int ai = sets[si][0];
    for (size_t ti = 0; ti < tels.size(); ti++) {
      if (tels[ti].from != ai || tels[ti].m[0] != 0x10 || tels[ti].m.size() != 5 + U[ai].id.size() + (ref::isMaster(U[ai].dst) && !U[ai].answer.empty() ? U[ai].answer[0] : 0)) continue;
      for (int hist = 0; hist < 2; hist++) for (int var = 0; var < 2; var++) {
        Scenario s;
        s.enhanced = 0; s.own = own; s.answer = true;
        s.answers.push_back(U[ai]);
        ReqSpec q;
        if (hist == 0) { q.master = ref::unhex("3110b5100155"); q.responder = responder(q.master, Bytes{}, 1); }            // MM, NAK-ed once
        else { q.master = ref::unhex("3115b509020d00"); q.responder = responder(q.master, ref::unhex("015a"), 3); }         // MS, response CRC bad once
        q.kind = 0;
        s.reqs.push_back(q);
        AnswerMonitor probe(nullptr, s);
        std::vector<int> c = probe.lookup(tels[ti].m);
        int rs = c.empty() ? 1 : (int)ref::wirePart(s.answers[c[0]].answer).size();
        s.foreign.push_back(askScript(tels[ti].m, rs, var));   // clean / bad CRC first, then the repetition
        s.preSyns = 2; s.gapSyns = 0; s.tailSyns = 2;  // ebusd arbitrates at the second SYN it sees; no foreign SYN behind its exchange
        s.k = var == 1 ? 0 : 1; s.c = 0;
        s.name = std::string("plain/own-history") + std::to_string(hist) + "/set" + std::to_string(si) + "/tel" + ref::hex(tels[ti].m) + "/var" + std::to_string(var) + "/k" + std::to_string(s.k);
        v.push_back(s);
      }
    }
  }
  return v;
}


// ---- C04 (fault sequences) ----
static std::vector<Scenario> scenariosC04(bool thorough, const vp::Args& A) {
  std::vector<Scenario> v;
  for (int enh = 0; enh < 2; enh++) {
    for (int shape = 0; shape < 12; shape++) {
      if (!thorough && (shape == 6 || shape == 7)) continue;
      for (int retr = 0; retr < 2; retr++) {
#ifndef BUSMC_WITH_POLL
        if (shape >= 8) continue;
#endif
        Scenario s;
        s.enhanced = enh;
        s.busLostRetries = retr ? 0 : 2;
        s.faults = true;
        s.staleArb = true;
        s.drainAtEnd = true;
        s.chunking = false;
        s.alphabet = Bytes{0x00, 0xFF, 0xAA, 0x55};
        s.contenders = Bytes{0x10, 0x21};
        s.tailSyns = 2;
        Bytes m1 = {0x31, 0x08, 0xb5, 0x09, 0x01, 0x0d}, m2 = {0x31, 0xfe, 0x07, 0x04, 0x00}, m3 = {0x31, 0x10, 0xb5, 0x10, 0x01, 0xa9};
        auto add = [&](const Bytes& m, const Bytes& r, int kind, int restarts, bool late, int resub) {
          ReqSpec q; q.master = m; q.responder = responder(m, r, 0); q.kind = kind; q.restarts = restarts; q.late = late; q.resubmits = resub;
          s.reqs.push_back(q);
          if (late) s.r++;
        };
        switch (shape) {
          case 0: add(m1, Bytes{0x01, 0x5a}, 0, 0, false, 0); break;                                    // one waited request
          case 1: add(m2, Bytes{}, 1, 0, false, 0); break;                                              // one fire-and-forget
          case 2: add(m1, Bytes{0x01, 0x5a}, 1, 1, false, 0); break;                                    // restarting poll-like request
          case 3: add(m1, Bytes{0x01, 0x5a}, 0, 0, false, 1); add(m2, Bytes{}, 1, 0, false, 0); break;  // waited (re-submitted once) + fire-and-forget
          case 4: add(m1, Bytes{0x01, 0x5a}, 0, 0, true, 0); add(m3, Bytes{}, 1, 1, true, 0); break;    // both arriving at any read call
          case 5: add(m2, Bytes{}, 1, 0, false, 0); add(m3, Bytes{}, 0, 0, false, 0); add(m1, Bytes{0x01, 0x5a}, 1, 1, false, 0); break;
          case 6: add(m1, Bytes{0x01, 0x5a}, 0, 0, true, 1); add(m2, Bytes{}, 1, 0, true, 0); add(m3, Bytes{}, 1, 1, true, 0); break;
          case 7: add(m1, Bytes{0x01, 0x5a}, 0, 1, false, 2); break;
          // the real PollRequest of bushandler.cpp on a two-part chained message (both parts go to 08 and get the same answer)
          case 8: add(Bytes{0x31, 0x08, 0xb5, 0x09, 0x03, 0x0d, 0x01, 0x00}, Bytes{0x02, 0x11, 0x22}, 2, 0, false, 0); break;
          case 9: add(Bytes{0x31, 0x08, 0xb5, 0x09, 0x03, 0x0d, 0x01, 0x00}, Bytes{0x02, 0x11, 0x22}, 2, 0, true, 0); add(m2, Bytes{}, 1, 0, false, 0); break;
          // the real ScanRequest of bushandler.cpp: identification query to the slaves 08 and 15, one after the other (restart)
          case 10: case 11: {
            Bytes ident = ref::unhex("0ab5454255303103040506");
            add(Bytes{0x31, 0x08, 0x07, 0x04, 0x00}, ident, 3, 0, shape == 11, 0);
            Bytes second = {0x31, 0x15, 0x07, 0x04, 0x00};
            s.reqs.back().extraResponders.push_back(std::make_pair((uint8_t)0x15, responder(second, ident, 0)));
            if (shape == 11) add(m1, Bytes{0x01, 0x5a}, 0, 0, false, 0);
            break;
          }
        }
        s.k = 2;
        if (thorough && shape <= 3) s.k = 3;
        if (!thorough && s.r >= 2) s.k = 1;
        if (!thorough && shape == 11) s.k = 1;
        s.c = 0;
        s.slices = (s.k + s.r >= 3) ? 16 : 4;
        if (s.k + s.r >= 4) s.slices = 64;
        s.name = std::string(enh ? "enh" : "plain") + "/shape" + std::to_string(shape) + "/retr" + std::to_string(retr) + "/k" + std::to_string(s.k) + "r" + std::to_string(s.r);
        v.push_back(s);
      }
    }
  }
  return v;
}


// ---- C20 (bus part): alphabet-closed arbitrary traffic under sanitizers ----
static const char* C20_PROBE = "10fe070400";
static std::vector<Scenario> scenariosC20(bool thorough, const vp::Args& A) {
  std::vector<Scenario> v;
  int L0 = (int)A.getInt("len", thorough ? 8 : 7);
  for (int enh = 0; enh < 2; enh++) {
    for (int cfg = 0; cfg < 7; cfg++) {
      int L = L0 + ((thorough && (cfg == 0 || cfg == 2)) ? 1 : 0);
      if (cfg >= 5) L = (int)A.getInt("len2", thorough ? 5 : 3);
      Scenario s;
      s.enhanced = enh;
      s.alphabet = Bytes{0xA9, 0x00, 0x01, 0xFF, 0x10, 0x36, 0xFE, 0x05};
      s.insertDrop = false;
      s.chunking = false;
      s.longSilence = (cfg == 1);
      s.preSyns = L;
      s.gapSyns = 1;
      s.tailSyns = 2;
      if (cfg >= 5) {
        // answering, and a long command (NN 6 / 16: longer than every id the answer key supports) for an answered
        // address precedes the probe; one further deviation inside it
        Bytes m = ref::unhex(cfg == 5 ? "103605360610010203a905" : "1036053610100102030405060708090a0b0c0d0e0f");
        s.foreign.push_back(askScript(m, (int)ref::wirePart(ref::unhex("02a9aa")).size(), 0));
        s.gapSyns = 2;  // two deviations shared by the long telegram and the gap before the probe
      }
      s.foreign.push_back(telScript(mk(C20_PROBE)));
      s.freezeAtLastScript = true;
      s.k = 100; s.c = 100; s.r = 1; s.unbounded = true;
      s.contenders = Bytes{0x10};
      switch (cfg) {
        case 0: break;                                  // passive
        case 1: s.genSyn = true; s.lockCount = 3; break;
        case 2: case 5: case 6:                         // answering for the own slave address and a foreign one
          s.answer = true;
          s.answers.push_back(AnswerSpec{-1, 0x36, 0xfe, 0x05, Bytes{}, ref::unhex("0136")});
          s.answers.push_back(AnswerSpec{-1, 0x36, 0x05, 0x36, Bytes{0x10}, ref::unhex("02a9aa")});
          s.answers.push_back(AnswerSpec{0x10, 0x05, 0x36, 0xfe, Bytes{0x05, 0x36, 0x10, 0x00}, ref::unhex("00")});
          break;
        case 3: {                                       // a pending request (restarting once) and a fire-and-forget one
          ReqSpec q; q.master = ref::unhex("3136fe0501a9"); q.responder = responder(q.master, ref::unhex("0105"), 0); q.restarts = 1; q.kind = 1; s.reqs.push_back(q);
          ReqSpec q2; q2.master = ref::unhex("31fe050100"); q2.responder = responder(q2.master, Bytes{}, 0); q2.kind = 0; s.reqs.push_back(q2);
          break;
        }
        case 4: s.faults = true;           // read/write errors and reopen failures as symbols
          { ReqSpec q; q.master = ref::unhex("3136fe0500"); q.responder = responder(q.master, ref::unhex("00"), 0); q.kind = 1; s.reqs.push_back(q); }
          break;
      }
      s.slices = (int)A.getInt("slices", thorough ? 3 : 2);
      s.name = std::string(enh ? "enh" : "plain") + "/cfg" + std::to_string(cfg) + "/len" + std::to_string(L);
      v.push_back(s);
    }
  }
  return v;
}


// ---- C03 clause (c): entitlement of acknowledge/response while answering ----
static std::vector<Scenario> scenariosC03Answer(bool thorough) {
  std::vector<Scenario> v;
  const uint8_t own = 0x31;
  std::vector<AnswerSpec> U = answerUniverse(own);
  std::vector<std::vector<int>> sets = {{0}, {1}, {1, 2}, {1, 3}, {4}, {0, 5}};
  if (thorough) { sets.push_back({0, 1, 2}); sets.push_back({2, 3}); sets.push_back({4, 5}); }
  for (int enh = 0; enh < 2; enh++) {
    for (size_t si = 0; si < sets.size(); si++) {
      std::vector<Bytes> tels;
      for (int ai : sets[si]) {
        const AnswerSpec& a = U[ai];
        for (int extra = 0; extra < 2; extra++) {
          Bytes d = a.id; for (int j = 0; j < extra; j++) d.push_back(0x07);
          for (uint8_t dst : {a.dst, (uint8_t)(a.dst ^ 0x40), (uint8_t)0x08}) {  // the answered address, one a single bit away, another slave
            Bytes m = {0x10, dst, a.pb, a.sb, (uint8_t)d.size()};
            m.insert(m.end(), d.begin(), d.end());
            bool dup = false; for (auto& t : tels) if (t == m) dup = true;
            if (!dup) tels.push_back(m);
          }
          // same destination, command without registered answer
          Bytes m2 = {0x10, a.dst, a.pb, (uint8_t)(a.sb ^ 0x02), (uint8_t)d.size()};
          m2.insert(m2.end(), d.begin(), d.end());
          bool dup = false; for (auto& t : tels) if (t == m2) dup = true;
          if (!dup) tels.push_back(m2);
        }
      }
      for (size_t ti = 0; ti < tels.size(); ti++) {
        for (int var : {0, 1, 3}) {
          Scenario s;
          s.enhanced = enh; s.own = own; s.answer = true;
          for (int ai : sets[si]) s.answers.push_back(U[ai]);
          AnswerMonitor probe(nullptr, s);
          std::vector<int> c = probe.lookup(tels[ti]);
          int rs = c.empty() ? 1 : (int)ref::wirePart(s.answers[c[0]].answer).size();
          s.foreign.push_back(askScript(tels[ti], rs, var));
          s.tailSyns = 2;
          // corrupted symbols may turn a foreign telegram into one that looks answered: registered addresses,
          // command and id bytes are part of the alphabet
          for (int ai : sets[si]) { s.alphabet.push_back(U[ai].dst); s.alphabet.push_back(U[ai].sb); if (!U[ai].id.empty()) s.alphabet.push_back(U[ai].id[0]); }
          std::sort(s.alphabet.begin(), s.alphabet.end());
          s.alphabet.erase(std::unique(s.alphabet.begin(), s.alphabet.end()), s.alphabet.end());
          s.k = (thorough && var == 1) ? 2 : 1;
          s.c = 0;
          s.insertDrop = thorough;
          s.answerEntitlement = true;
          s.name = std::string(enh ? "enh" : "plain") + "/answering/set" + std::to_string(si) + "/tel" + ref::hex(tels[ti]) + "/var" + std::to_string(var) + "/k" + std::to_string(s.k);
          v.push_back(s);
        }
      }
    }
  }
  return v;
}

// ---- C01 ----
static std::vector<Scenario> scenariosC01(bool thorough, const vp::Args& A) {
  std::vector<Scenario> v;
  std::vector<Tel> cat1 = catalogue(thorough);
  std::vector<Cfg> cfgs = configs(thorough);
  for (int enh = 0; enh < 2; enh++) {
    for (size_t ci = 0; ci < cfgs.size(); ci++) {
      for (size_t ti = 0; ti < cat1.size(); ti++) {
        Scenario s;
        applyCfg(&s, cfgs[ci]);
        s.enhanced = enh;
        s.foreign.push_back(telScript(cat1[ti]));
        s.k = (thorough || ci == 0 || ci == 5) ? 2 : 1;
        if (thorough && ci == 0 && ti < 12) s.k = 3;
        s.c = thorough ? 2 : 1;
        if (s.k >= 3) s.slices = 32;
        s.name = std::string(enh ? "enh" : "plain") + "/cfg" + std::to_string(ci) + "/tel" + std::to_string(ti) + "/k" + std::to_string(s.k);
        v.push_back(s);
      }
      // pairs: a (possibly corrupted) first telegram must not disturb the second one
      size_t np = thorough ? 6 : 3;
      for (size_t a = 0; a < np; a++) for (size_t bb = 0; bb < np; bb++) {
        if (ci > 1 && !thorough) continue;
        Scenario s;
        applyCfg(&s, cfgs[ci]);
        s.enhanced = enh;
        s.foreign.push_back(telScript(cat1[a + 1]));
        s.foreign.push_back(telScript(cat1[bb + 2]));
        s.gapSyns = 1 + (int)((a + bb) & 1);
        s.k = (thorough || ci == 0) ? 2 : 1;
        s.c = 1;
        if (s.k >= 2) s.slices = 8;
        s.name = std::string(enh ? "enh" : "plain") + "/cfg" + std::to_string(ci) + "/pair" + std::to_string(a + 1) + "-" + std::to_string(bb + 2);
        v.push_back(s);
      }
    }
  }
  // telegrams that do NOT follow a SYN: after a receive timeout or a signal loss the sender goes on without SYN;
  // nothing of it may be reported, the next telegram after a SYN must be
  for (int enh = 0; enh < 2; enh++) {
    for (int shape = 0; shape < 4; shape++) {
      for (int gen = 0; gen < 2; gen++) {
        Scenario s;
        s.enhanced = enh;
        s.genSyn = gen;
        Bytes a = telWire(cat1[3]), b = telWire(cat1[2]), c = telWire(cat1[0]);
        Script sc1;
        switch (shape) {
          case 0: sc1 = Script{pause(0), send(b)}; break;                    // SYN, one receive timeout, telegram
          case 1: sc1 = Script{pause(2000), send(b)}; break;                 // SYN, signal lost, telegram
          case 2: sc1 = Script{send(a), pause(2000), send(b)}; break;        // complete telegram, signal lost, telegram
          case 3: sc1 = Script{send(Bytes(a.begin(), a.begin() + 4)), pause(2000), pause(2000), send(c)}; break;  // truncated, lost twice, broadcast
        }
        s.foreign.push_back(sc1);
        s.foreign.push_back(telScript(cat1[3]));
        s.k = 1; s.c = 1;
        s.name = std::string(enh ? "enh" : "plain") + "/nosyn/shape" + std::to_string(shape) + "/gen" + std::to_string(gen) + "/k1";
        v.push_back(s);
      }
    }
  }
  // reception while ebusd is sending itself: foreign telegrams before / between / behind own exchanges, lost
  // arbitrations followed by the winner's (valid) telegram, own exchanges failing at every step
  for (int enh = 0; enh < 2; enh++) {
    for (int shape = 0; shape < (thorough ? 4 : 3); shape++) {
      Scenario s;
      s.enhanced = enh;
      s.busLostRetries = shape == 1 ? 0 : 2;
      s.contenders = Bytes{0x10};
      { Bytes w = ref::wirePart(ref::unhex("10fe070400")); w.erase(w.begin()); s.winnerTelegram = Script{send(w)}; }
      Bytes m1 = {s.own, 0x08, 0xb5, 0x09, 0x01, 0x0d}, m2 = {s.own, 0xfe, 0x07, 0x04, 0x00}, m3 = {s.own, 0x10, 0xb5, 0x10, 0x01, 0xa9};
      auto addReq = [&](const Bytes& m, const Bytes& r, bool late) {
        ReqSpec q; q.master = m; q.responder = responder(m, r, 0); q.late = late; s.reqs.push_back(q);
      };
      Tel fMS = mk("0315b509020d00", "0277aa"), fMM = mk("0310b5100155"), fBC = mk("03fe070400");
      switch (shape) {
        case 0: addReq(m3, Bytes{}, false); s.foreign.push_back(telScript(fMS)); break;
        case 1: addReq(m1, Bytes{0x01, 0x5a}, true); s.foreign.push_back(telScript(fMM)); s.foreign.push_back(telScript(fMS)); s.r = 1; break;
        case 2: addReq(m2, Bytes{}, false); addReq(m1, Bytes{0x01, 0x5a}, false); s.foreign.push_back(telScript(fBC)); s.foreign.push_back(telScript(fMS)); break;
        case 3: addReq(m1, Bytes{0x01, 0x5a}, true); addReq(m3, Bytes{}, true); s.foreign.push_back(telScript(fMS)); s.foreign.push_back(telScript(fMM)); s.r = 2; break;
      }
      s.tailSyns = 3;
      s.k = thorough ? 2 : 1;
      s.c = 1;
      if (s.k + s.r >= 3) s.slices = 16;
      s.name = std::string(enh ? "enh" : "plain") + "/active/shape" + std::to_string(shape) + "/k" + std::to_string(s.k);
      v.push_back(s);
    }
  }
  return v;
}

int main(int argc, char** argv) {
  vp::Args A = vp::parseArgs(argc, argv);
  setFacilitiesLogLevel(1 << lf_COUNT, ll_none);
  std::string prop = A.get("prop", "C01");
  std::vector<uint16_t> rchoices;
  long rsc = -1;
  if (A.replay) {
    auto m = vp::parseCase(A.replayCase);
    prop = m["prop"];
    rsc = atol(m["sc"].c_str());
    rchoices = vp::Explorer::parseChoices(m["ch"]);
    if (m.count("tier")) A.tier = m["tier"];
  }
  R.setDeadline(A);
  g_tier = A.tier;
  g_out = A.out;
  g_isReplay = A.replay;
  vp::g_onSanitizerReport = onSanitizerDeath;
  validateEvery = A.getInt("validate-every", 0);
  validateMaxK = A.getInt("validate-maxk", 1);
  bool th = A.thorough();
  std::vector<Scenario> scs;
  Bounds b{0, 0, 0, true};
  MonFactory mf;
  b = Bounds{(int)A.getInt("dk", 0), (int)A.getInt("dc", 0), 0, A.getInt("hash", 1) != 0};
  if (prop == "C01") {
    scs = scenariosC01(th, A);
    mf = [](World& w, VSink* s) { return std::vector<Monitor*>{new RecvMonitor(s, w.sc.reqs.empty() ? -1 : (int)w.sc.own)}; };
  } else if (prop == "C02") {
    scs = scenariosC02(th, A);
    mf = [](World& w, VSink* s) { return std::vector<Monitor*>{new ActiveMonitor(s, w.sc, true, false), new CompletionMonitor(s, &w, "C02/completion/")}; };
  } else if (prop == "C04") {
    scs = scenariosC04(th, A);
    mf = [](World& w, VSink* s) { return std::vector<Monitor*>{new CompletionMonitor(s, &w)}; };
  } else if (prop == "C20") {
    scs = scenariosC20(th, A);
    // + the request bookkeeping oracle: a request object that is in flight but referenced neither by a queue nor as
    // current request is a leaked object (and a waiter that blocks forever); completed twice / referenced after completion
    mf = [](World& w, VSink* s) { return std::vector<Monitor*>{new ProbeMonitor(s, ref::unhex(C20_PROBE)), new CompletionMonitor(s, &w, "C20/request/")}; };
  } else if (prop == "C15") {
    scs = scenariosC15(th, A);
    mf = [](World& w, VSink* s) { return std::vector<Monitor*>{new AnswerMonitor(s, w.sc)}; };
  } else if (prop == "C03") {
    scs = scenariosC03(th, A);
    { std::vector<Scenario> a = scenariosC03Answer(th); scs.insert(scs.end(), a.begin(), a.end()); }
    mf = [](World& w, VSink* s) {
      if (w.sc.answerEntitlement) return std::vector<Monitor*>{new AnswerMonitor(s, w.sc, "C03/answering/", true)};
      return std::vector<Monitor*>{new ActiveMonitor(s, w.sc, false, true)};
    };
  } else {
    fprintf(stderr, "unknown --prop %s\n", prop.c_str());
    return 2;
  }
  if (A.replay) {
    if (rsc < 0 || rsc >= (long)scs.size()) { printf("bad scenario index\n"); return 2; }
    runScenario(prop, rsc, scs[rsc], b, mf, &rchoices);
    return replayViolated ? 1 : 0;
  }
  // work units: big scenarios are sliced; units are dealt round-robin, biggest first
  std::vector<std::pair<size_t, int>> units;
  for (size_t i = 0; i < scs.size(); i++) if (scs[i].slices > 1) for (int j = 0; j < scs[i].slices; j++) units.push_back(std::make_pair(i, j));
  for (size_t i = 0; i < scs.size(); i++) if (scs[i].slices <= 1) units.push_back(std::make_pair(i, 0));
  for (size_t u = 0; u < units.size(); u++) {
    if ((int)(u % A.nparts) != A.part) continue;
    if (R.expired()) break;
    size_t i = units[u].first;
    if (!A.get("only").empty() && scs[i].name.find(A.get("only")) == std::string::npos) continue;
    validateHash = validateEvery > 0 && (long)(u / A.nparts) % validateEvery == 0 && scs[i].k + scs[i].r <= validateMaxK;
    runScenario(prop, i, scs[i], b, mf, nullptr, units[u].second);
    if (R.samples.size() < 3) R.sample("scenario " + scs[i].name + ": foreign=" + (scs[i].foreign.empty() ? "" : ref::hex(scs[i].foreign[0][0].bytes)));
  }
  R.count("scenarios", 0);
  R.write(A.out);
  return 0;
}
