// C17 helper: the "world" of real ebusd objects a poll history is executed on, the virtual clock,
// the operation alphabet and the canonical state string.
#ifndef VERIF_C17_WORLD_H_
#define VERIF_C17_WORLD_H_

#include <algorithm>
#include <sstream>
#include <string>
#include <vector>
#include "lib/ebus/message.h"
#include "lib/utils/log.h"
#include "vout.h"
#include "pollq.h"

namespace c17 {

using ebusd::Message;
using ebusd::MessageMap;
using std::string;
using std::vector;

// ---- virtual clock (time() is defined in the harness and returns this) ----------------------
extern time_t g_now;
static const time_t T0 = 1700000000;

static const int MAXSLOT = 4;

struct Cfg {
  int n = 3;         // number of message slots
  string ip;         // initial priority per slot: '0' defined without priority, '1'..'9', '-' not defined
  int dt = 1;        // seconds the clock advances before each getNextPoll
  int warm = 0;      // unperturbed selections before the explored history (drift of g_lastPollOrder)
  bool samekey = false; // the messages of slots 0 and 1 have 6 byte IDs that fold to the SAME lookup key (keys are not unique)
  bool cond = false; // operation R<k> enabled: a condition referring to message k is defined and resolved (as after a later
                     // loaded definition file): the message gets the poll priority of condition messages and goes to the front
  int silent = -1;   // >= 0: every selected message gets an answer stored except the one in this slot (9 = all answer)
  int chain = -1;    // slot whose initial definition is a CHAINED message (two part IDs): one poll entry like any other
  string str() const {
    char b[96];
    snprintf(b, sizeof(b), "n=%d;ip=%s;dt=%d;warm=%d", n, ip.c_str(), dt, warm);
    string r = b;
    if (chain >= 0) r += ";chain=" + std::to_string(chain);
    if (silent >= 0) r += ";silent=" + std::to_string(silent);
    if (cond) r += ";cond=1";
    if (samekey) r += ";samekey=1";
    return r;
  }
};

// operation alphabet
//  G        getNextPoll()
//  P<k>:<p> if (m_k->setPollPriority(p)) addPollMessage(false, m_k)   (the call pattern of mainloop/mqtthandler)
//  F<k>     addPollMessage(true, m_k)                                 (front insertion as done for conditions)
//  A<k>:<p> define a new message in the free slot k with poll priority p (CSV line, replace=false)
//  X<k>     MessageMap::remove(m_k)
//  L        reload: MessageMap::clear() + read the initial definitions again
//  C        ANOTHER MessageMap of the process is cleared and gets one definition, as MainLoop does with
//           m_newlyDefinedMessages on every "read -def" / "write -def" (the poll clock is process-global)
//  Z        that other MessageMap is destroyed and created anew
struct Op {
  char k;
  int slot;
  int prio;
  string str() const {
    char b[16];
    if (k == 'G' || k == 'L' || k == 'C' || k == 'Z') snprintf(b, sizeof(b), "%c", k);
    else if (k == 'F' || k == 'X' || k == 'R') snprintf(b, sizeof(b), "%c%d", k, slot);
    else snprintf(b, sizeof(b), "%c%d:%d", k, slot, prio);
    return b;
  }
};

inline string opsStr(const vector<Op>& ops) {
  string s;
  for (size_t i = 0; i < ops.size(); i++) {
    if (i) s += '.';
    s += ops[i].str();
  }
  return s;
}

inline bool parseOps(const string& s, vector<Op>* out) {
  out->clear();
  size_t pos = 0;
  while (pos < s.size()) {
    size_t e = s.find('.', pos);
    if (e == string::npos) e = s.size();
    string t = s.substr(pos, e - pos);
    pos = e + 1;
    if (t.empty()) continue;
    Op o{t[0], 0, 0};
    if (o.k == 'G' || o.k == 'L' || o.k == 'C' || o.k == 'Z') {
      if (t.size() != 1) return false;
    } else if (o.k == 'F' || o.k == 'X' || o.k == 'R') {
      if (t.size() != 2) return false;
      o.slot = t[1] - '0';
    } else if (o.k == 'P' || o.k == 'A') {
      if (t.size() != 4 || t[2] != ':') return false;
      o.slot = t[1] - '0';
      o.prio = t[3] - '0';
    } else {
      return false;
    }
    if (o.slot < 0 || o.slot >= MAXSLOT || o.prio < 0 || o.prio > 9) return false;
    out->push_back(o);
  }
  return true;
}

class NullResolver : public ebusd::Resolver {
 public:
  ebusd::DataFieldTemplates* getTemplates(const string&) override { return &m_templates; }
  ebusd::result_t loadDefinitionsFromConfigPath(ebusd::FileReader*, const string&, std::map<string, string>*,
      string*, bool = false) override { return ebusd::RESULT_ERR_NOTFOUND; }
 private:
  ebusd::DataFieldTemplates m_templates;
};

// what the harness knows about a slot without looking into the implementation
struct SlotView {
  bool cond = false;  // a condition referring to the message was resolved
  bool present = false;
  int prio = 0;  // the REQUESTED priority: digit of the "r<p>" type the message was defined with, or the argument of
                 // the last setPollPriority call (no message of this world is used by a condition, so no cap applies)
};

class World {
 public:
  explicit World(const Cfg& cfg) : m_cfg(cfg) {
    m_map = new MessageMap(false, "", false);
    m_map->setResolver(&m_resolver);
    m_otherMap = new MessageMap(true, "", false);  // like MainLoop::m_newlyDefinedMessages; never polled
    m_otherMap->setResolver(&m_resolver);
    for (int k = 0; k < MAXSLOT; k++) { m_slot[k] = nullptr; m_req[k] = -1; }
  }
  ~World() {
    delete m_map;
    delete m_probeMap;
    delete m_otherMap;
  }

  static string defLine(int k, int prio, bool chained = false, bool samekey = false) {
    char b[128];
    if (samekey && k < 2) {
      // B524 020003001600 and B524 060003001200: different IDs, identical XOR-folded key
      snprintf(b, sizeof(b), "r%s,c,m%d,,,08,b524,%s,,,UCH\n", prio > 0 ? std::to_string(prio).c_str() : "", k, k == 0 ? "020003001600" : "060003001200");
      return b;
    }
    if (chained && prio > 0) { snprintf(b, sizeof(b), "r%d,c,m%d,,,08,b509,0d0%d00;0d0%d01;0d0%d02,,,HEX:3\n", prio, k, k, k, k); return b; }
    if (prio > 0) snprintf(b, sizeof(b), "r%d,c,m%d,,,08,b509,0d0%d00,,,UCH\n", prio, k, k);
    else snprintf(b, sizeof(b), "r,c,m%d,,,08,b509,0d0%d00,,,UCH\n", k, k);
    return b;
  }
  bool readCsv(const string& body) {
    std::istringstream in("#\n" + body);
    string err;
    ebusd::result_t r = m_map->readFromStream(&in, "poll.csv", 0, false, nullptr, &err, false, nullptr, nullptr);
    return r == ebusd::RESULT_OK;
  }
  void rebind() {
    for (int k = 0; k < m_cfg.n; k++) {
      char nm[8];
      snprintf(nm, sizeof(nm), "m%d", k);
      m_slot[k] = m_map->find("c", nm, "", false);
    }
  }
  bool loadInitial() {
    string body;
    for (int k = 0; k < m_cfg.n; k++) {
      char c = m_cfg.ip[k];
      m_req[k] = -1;
      if (c == '-') continue;
      body += defLine(k, c - '0', k == m_cfg.chain, m_cfg.samekey);
      m_req[k] = c - '0';
    }
    bool ok = readCsv(body);
    rebind();
    return ok;
  }
  Message* next() {
    g_now += m_cfg.dt;
    Message* m = m_map->getNextPoll();
    // the polled device answers (the bus handler stores the answer in the message) - except the device of slot
    // `silent`, which never does: whether a message has a value must not influence how often it is selected
    if (m != nullptr && m_cfg.silent >= 0 && slotOf(m) != m_cfg.silent) storeValue(m);
    return m;
  }
  void storeValue(Message* m) {
    ebusd::MasterSymbolString ms;
    std::istringstream in("");
    if (m->prepareMaster(0, 0x31, ebusd::SYN, ';', &in, &ms) == ebusd::RESULT_OK) {
      ebusd::SlaveSymbolString ss;
      ss.push_back(1); ss.push_back(static_cast<ebusd::symbol_t>(g_now & 0x7f));
      m->storeLastData(ms, ss);
    }
  }
  int slotOf(const Message* m) const {
    for (int k = 0; k < m_cfg.n; k++) if (m_slot[k] == m && m != nullptr) return k;
    return -1;
  }
  SlotView view(int k) const {
    SlotView v;
    v.present = m_slot[k] != nullptr;
    v.prio = v.present && m_req[k] > 0 ? m_req[k] : 0;
    v.cond = v.present && m_cond[k];
    return v;
  }
  int implPrio(int k) const { return m_slot[k] ? static_cast<int>(m_slot[k]->getPollPriority()) : 0; }
  // first slot whose priority in the implementation is not the requested one, -1 if none
  int prioProblem() const {
    for (int k = 0; k < m_cfg.n; k++) if (m_slot[k] && implPrio(k) != (m_req[k] > 0 ? m_req[k] : 0)) return k;
    return -1;
  }
  // the poll queue must hold exactly the defined messages that have a priority, each once ("priority queue with
  // distinct entries"); only pointers are compared, nothing is dereferenced
  string queueProblem() const {
    const vector<Message*> c = vp::pollQueueItems(m_map->m_pollMessages);
    int seen[MAXSLOT] = {0, 0, 0, 0};
    for (Message* m : c) {
      int k = slotOf(m);
      if (k < 0) return "queue-dangling";
      if (++seen[k] > 1) return "queue-not-distinct";
    }
    for (int k = 0; k < m_cfg.n; k++) if (m_slot[k] && implPrio(k) > 0 && seen[k] == 0) return "queue-missing";
    return "";
  }
  bool enabled(const Op& o) const {
    if (o.k == 'G' || o.k == 'L' || o.k == 'C' || o.k == 'Z') return true;
    if (o.slot >= m_cfg.n) return false;
    SlotView v = view(o.slot);
    if (o.k == 'A') return !v.present && o.prio > 0;
    if (!v.present) return false;
    if (o.k == 'P') return o.prio > 0 && o.prio != v.prio;
    if (o.k == 'F') return v.prio > 0;
    if (o.k == 'R') return m_cfg.cond && !v.cond;
    return o.k == 'X';
  }
  // returns false if the op is not enabled (hard harness error while replaying)
  bool apply(const Op& o, string* log) {
    if (!enabled(o)) return false;
    char b[160];
    switch (o.k) {
    case 'G': {
      Message* m = next();
      if (log) { snprintf(b, sizeof(b), "G  getNextPoll() -> %s\n", m ? m->getName().c_str() : "null"); *log += b; }
      break;
    }
    case 'P': {
      bool ret = m_slot[o.slot]->setPollPriority(static_cast<size_t>(o.prio));
      if (ret) m_map->addPollMessage(false, m_slot[o.slot]);
      m_req[o.slot] = o.prio;
      if (m_cond[o.slot]) m_req[o.slot] = implPrio(o.slot);  // the priority of a condition message is capped; by how much is not the statement's subject
      if (log) { snprintf(b, sizeof(b), "%s  m%d->setPollPriority(%d) -> %d%s\n", o.str().c_str(), o.slot, o.prio, ret, ret ? " ; addPollMessage(false)" : ""); *log += b; }
      break;
    }
    case 'R': {
      // "the message already has a value" (a client read it) when the devices of this world answer
      if (m_cfg.silent >= 0 && m_cfg.silent != o.slot) storeValue(m_slot[o.slot]);
      char line[96];
      snprintf(line, sizeof(line), "*[k%d_%d],c,m%d,,,,1\n", o.slot, ++m_condSerial, o.slot);
      bool ok = readCsv(line);
      string err;
      ebusd::result_t rr = m_map->resolveConditions(false, &err);
      m_cond[o.slot] = true;
      m_req[o.slot] = implPrio(o.slot);  // whatever priority the implementation gives a condition message: it has to be polled accordingly
      if (log) { snprintf(b, sizeof(b), "%s  condition on m%d defined and resolved -> %s %s, poll priority now %d\n", o.str().c_str(), o.slot, ok ? "ok" : "error", ebusd::getResultCode(rr), m_req[o.slot]); *log += b; }
      if (!ok || rr != ebusd::RESULT_OK) return false;
      break;
    }
    case 'F':
      m_map->addPollMessage(true, m_slot[o.slot]);
      if (log) { snprintf(b, sizeof(b), "%s  addPollMessage(true, m%d)\n", o.str().c_str(), o.slot); *log += b; }
      break;
    case 'A': {
      bool ok = readCsv(defLine(o.slot, o.prio, false, m_cfg.samekey));
      rebind();
      m_req[o.slot] = o.prio;
      m_cond[o.slot] = false;
      if (log) { snprintf(b, sizeof(b), "%s  define m%d with poll priority %d -> %s\n", o.str().c_str(), o.slot, o.prio, ok ? "ok" : "error"); *log += b; }
      if (!ok || m_slot[o.slot] == nullptr) return false;
      break;
    }
    case 'X':
      m_map->remove(m_slot[o.slot]);
      m_slot[o.slot] = nullptr;
      m_req[o.slot] = -1;
      m_cond[o.slot] = false;
      if (log) { snprintf(b, sizeof(b), "%s  MessageMap::remove(m%d)\n", o.str().c_str(), o.slot); *log += b; }
      break;
    case 'C': {
      m_otherMap->clear();
      std::istringstream in("#\nr3,c,tmp,,,08,b509,0dfe00,,,UCH\n");
      string err;
      ebusd::result_t r = m_otherMap->readFromStream(&in, "temporary", 0, false, nullptr, &err, false, nullptr, nullptr);
      if (log) { snprintf(b, sizeof(b), "C  other MessageMap: clear() + read one definition -> %s\n", r == ebusd::RESULT_OK ? "ok" : "error"); *log += b; }
      if (r != ebusd::RESULT_OK) return false;
      break;
    }
    case 'Z':
      delete m_otherMap;
      m_otherMap = new MessageMap(true, "", false);
      m_otherMap->setResolver(&m_resolver);
      if (log) *log += "Z  other MessageMap destroyed and created anew\n";
      break;
    case 'L': {
      m_map->clear();
      for (int k = 0; k < MAXSLOT; k++) m_cond[k] = false;
      bool ok = loadInitial();
      if (log) { snprintf(b, sizeof(b), "L  clear() + load initial definitions -> %s\n", ok ? "ok" : "error"); *log += b; }
      if (!ok) return false;
      break;
    }
    default:
      return false;
    }
    return true;
  }

  // the call pattern of MainLoop::executeRead / MqttHandler for "read -p <prio>" (also with an unchanged priority)
  bool setPrio(int slot, int prio) {
    if (!m_slot[slot]) return false;
    bool ret = m_slot[slot]->setPollPriority(static_cast<size_t>(prio));
    if (ret) m_map->addPollMessage(false, m_slot[slot]);
    m_req[slot] = prio;
    if (m_cond[slot]) m_req[slot] = implPrio(slot);
    return true;
  }
  // (remove and) define message `slot` anew with the given priority
  bool redefine(int slot, int prio) {
    m_midProblem.clear();
    if (m_slot[slot]) {
      m_map->remove(m_slot[slot]);
      m_slot[slot] = nullptr;
      m_req[slot] = -1;
      // judged between removal and re-definition: afterwards the allocator may hand out the same address again,
      // which would hide a stale queue entry
      m_midProblem = queueProblem();
      if (m_midProblem == "queue-dangling") return true;  // nothing further is executed on this world
    }
    bool ok = readCsv(defLine(slot, prio, false, m_cfg.samekey));
    rebind();
    m_req[slot] = prio;
    m_cond[slot] = false;
    return ok && m_slot[slot] != nullptr;
  }
  bool toFront(int slot) {
    if (!m_slot[slot]) return false;
    m_map->addPollMessage(true, m_slot[slot]);
    return true;
  }

  // ---- implementation internals (fingerprint and signature classification only) ----
  // g_lastPollOrder has internal linkage.  It is read through the real code: a message without poll
  // priority that gets one is placed at g_lastPollOrder + priority (Message::setPollPriority), which
  // does not modify g_lastPollOrder.  The probe message lives in its own map and is never polled.
  long long lastPollOrder() {
    if (!m_probe) {
      m_probeMap = new MessageMap(false, "", false);
      m_probeMap->setResolver(&m_resolver);
      std::istringstream in("#\nr,c,probe,,,08,b509,0dff00,,,UCH\n");
      string err;
      m_probeMap->readFromStream(&in, "probe.csv", 0, false, nullptr, &err, false, nullptr, nullptr);
      m_probe = m_probeMap->find("c", "probe", "", false);
      if (!m_probe) { fprintf(stderr, "c17: probe message not created\n"); _exit(3); }
    }
    m_probe->m_pollPriority = 0;
    m_probe->m_pollOrder = 0;
    m_probe->setPollPriority(1);
    return static_cast<long long>(m_probe->m_pollOrder) - 1;
  }

  bool heapOk() const {
    const vector<Message*> c = vp::pollQueueItems(m_map->m_pollMessages);
    for (Message* m : c) if (slotOf(m) < 0) return true;  // dangling entry: judged by queueProblem(), not dereferenced
    return std::is_heap(c.begin(), c.end(), ebusd::compareMessagePriority());
  }
  size_t queueSize() const { return vp::pollQueueItems(m_map->m_pollMessages).size(); }

  // canonical state: everything that can influence future selections, made relative
  string canon(long long g) const {
    long long base = 0;
    bool have = false;
    for (int k = 0; k < m_cfg.n; k++) {
      if (!m_slot[k] || m_slot[k]->getPollPriority() == 0) continue;
      long long o = m_slot[k]->m_pollOrder;
      if (!have || o < base) { base = o; have = true; }
    }
    if (!have) base = g;
    // dense ranks for wall-clock tie-breakers, small insertion counters verbatim
    vector<time_t> times;
    for (int k = 0; k < m_cfg.n; k++) {
      if (!m_slot[k] || m_slot[k]->getPollPriority() == 0) continue;
      if (m_slot[k]->m_lastPollTime >= 1000) times.push_back(m_slot[k]->m_lastPollTime);
    }
    std::sort(times.begin(), times.end());
    times.erase(std::unique(times.begin(), times.end()), times.end());
    string s;
    char b[96];
    for (int k = 0; k < m_cfg.n; k++) {
      if (!m_slot[k]) { s += "-|"; continue; }
      int p = static_cast<int>(m_slot[k]->getPollPriority());
      if (p == 0) { s += "0|"; continue; }
      time_t lp = m_slot[k]->m_lastPollTime;
      long long rank;
      bool isNow = false;
      if (lp >= 1000) {
        rank = 1000 + (std::lower_bound(times.begin(), times.end(), lp) - times.begin());
        isNow = lp == g_now;
      } else {
        rank = lp;
      }
      snprintf(b, sizeof(b), "%d@%lld~%lld%s|", p, static_cast<long long>(m_slot[k]->m_pollOrder) - base, rank,
               isNow ? "n" : "");
      s += b;
    }
    for (int k = 0; k < m_cfg.n; k++) if (m_cond[k]) { s += 'c'; s += static_cast<char>('0' + k); }
    snprintf(b, sizeof(b), "g%lld|q", g - base);
    s += b;
    for (Message* m : vp::pollQueueItems(m_map->m_pollMessages)) {
      int k = slotOf(m);
      s += k < 0 ? '?' : static_cast<char>('0' + k);
    }
    return s;
  }
  long long order(int k) const { return m_slot[k] ? static_cast<long long>(m_slot[k]->m_pollOrder) : -1; }

  const Cfg m_cfg;
  MessageMap* m_map;
  Message* m_slot[MAXSLOT];
  int m_req[MAXSLOT];
  bool m_cond[MAXSLOT] = {false, false, false, false};
  int m_condSerial = 0;
  NullResolver m_resolver;
  MessageMap* m_probeMap = nullptr;
  MessageMap* m_otherMap = nullptr;
  string m_midProblem;
  Message* m_probe = nullptr;
};

}  // namespace c17

#endif  // VERIF_C17_WORLD_H_
