// Virtual clock owned by the explorer.  Including this header with VCLOCK_IMPL defined in exactly
// one harness TU defines time(), clock_gettime(), usleep(), nanosleep() and (single-threaded
// harnesses only, VCLOCK_COND) pthread_cond_timedwait() in the executable, which takes precedence
// over libc for every ebusd object linked into the harness (link-time interposition).
#ifndef VERIF_VCLOCK_H_
#define VERIF_VCLOCK_H_

#include <errno.h>
#include <pthread.h>
#include <stdint.h>
#include <time.h>
#include <unistd.h>

namespace vp {
// microseconds since the virtual epoch; starts well above 0 so that "now - 5s" stays positive
extern int64_t g_vnowUs;
static const int64_t VEPOCH_US = 1700000000LL * 1000000LL;
inline void vclockReset() { g_vnowUs = VEPOCH_US; }
inline void vclockAdvanceUs(int64_t us) { g_vnowUs += us; }
inline void vclockAdvanceMs(int64_t ms) { g_vnowUs += ms * 1000; }
inline int64_t vclockMs() { return g_vnowUs / 1000; }
}  // namespace vp

#ifdef VCLOCK_IMPL
namespace vp { int64_t g_vnowUs = VEPOCH_US; }

extern "C" {
time_t time(time_t* t) {
  time_t v = (time_t)(vp::g_vnowUs / 1000000);
  if (t) *t = v;
  return v;
}
int clock_gettime(clockid_t, struct timespec* ts) {
  ts->tv_sec = (time_t)(vp::g_vnowUs / 1000000);
  ts->tv_nsec = (long)((vp::g_vnowUs % 1000000) * 1000);
  return 0;
}
int usleep(useconds_t us) {
  vp::g_vnowUs += us;
  return 0;
}
int nanosleep(const struct timespec* req, struct timespec*) {
  vp::g_vnowUs += (int64_t)req->tv_sec * 1000000 + req->tv_nsec / 1000;
  return 0;
}
#ifdef VCLOCK_COND
// single-threaded harness: nobody can signal, so a timed wait always runs into its deadline
int pthread_cond_timedwait(pthread_cond_t*, pthread_mutex_t*, const struct timespec* abstime) {
  int64_t dl = (int64_t)abstime->tv_sec * 1000000 + abstime->tv_nsec / 1000;
  if (dl > vp::g_vnowUs) vp::g_vnowUs = dl;
  return ETIMEDOUT;
}
#endif
}
#endif  // VCLOCK_IMPL

#endif  // VERIF_VCLOCK_H_
