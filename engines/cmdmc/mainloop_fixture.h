// Shared fixture of the cmdmc engine (C16, C18, C20-cmd): a real MainLoop on a real MessageMap /
// BusHandler / ScanHelper with a FakeProtocol instead of the bus, a virtual wall clock, an ACL
// file and an html root created below /verif/build/tmp/<pid>/ at run time.
//
// Nothing in here models ebusd behaviour: all objects except FakeDevice/FakeProtocol are the
// real ones, constructed the way src/ebusd/main.cpp constructs them.
#ifndef VERIF_CMDMC_MAINLOOP_FIXTURE_H_
#define VERIF_CMDMC_MAINLOOP_FIXTURE_H_

#include <config.h>  // must come first: struct options depends on HAVE_SSL etc.
#include <dirent.h>
#include <fcntl.h>
#include <signal.h>
#include <sys/mman.h>
#include <sys/stat.h>
#include <sys/types.h>
#include <sys/wait.h>
#include <fstream>
#include <functional>
#include <sstream>
#include <string>
#include <vector>
#include "ebusd/main.h"
#include "ebusd/mainloop.h"
#include "ebusd/request.h"
#include "ebusd/scan.h"
#include "ebusd/bushandler.h"
#include "lib/ebus/device.h"
#include "lib/ebus/message.h"
#include "lib/ebus/protocol.h"
#include "lib/utils/log.h"
#include "vout.h"

// ---- virtual wall clock (the code under test reads time() for cache ages / lastup) -----------
namespace fx { static time_t g_now = 1700000000; }
extern "C" time_t time(time_t* t) {
  if (t) *t = fx::g_now;
  return fx::g_now;
}

namespace fx {

using namespace ebusd;
using std::string;
using std::vector;

inline string hexOf(const SymbolString& s) {
  string o;
  char b[4];
  for (size_t i = 0; i < s.size(); i++) { snprintf(b, sizeof(b), "%02x", s[i]); o += b; }
  return o;
}

// printable rendering for logs / cases (ASCII only, deterministic)
inline string esc(const string& s) {
  string o;
  char b[8];
  for (unsigned char c : s) {
    if (c == '\\') o += "\\\\";
    else if (c == '\n') o += "\\n";
    else if (c == '\r') o += "\\r";
    else if (c >= 0x20 && c < 0x7f) o += static_cast<char>(c);
    else { snprintf(b, sizeof(b), "\\x%02x", c); o += b; }
  }
  return o;
}
inline string toHex(const string& s) { return vp::hex(reinterpret_cast<const unsigned char*>(s.data()), s.size()); }
inline string fromHex(const string& h) {
  string o;
  for (size_t i = 0; i + 1 < h.size(); i += 2) o += static_cast<char>(strtoul(h.substr(i, 2).c_str(), nullptr, 16));
  return o;
}

// ---- file helpers --------------------------------------------------------------------------
inline void mkdirs(const string& path) {
  string cur;
  for (size_t i = 0; i <= path.size(); i++) {
    if (i == path.size() || path[i] == '/') {
      if (!cur.empty()) mkdir(cur.c_str(), 0755);
    }
    if (i < path.size()) cur += path[i];
  }
}
inline void writeFile(const string& path, const string& content) {
  size_t p = path.find_last_of('/');
  if (p != string::npos) mkdirs(path.substr(0, p));
  std::ofstream f(path.c_str(), std::ios::binary | std::ios::trunc);
  f << content;
}
inline void rmTree(const string& path) {
  DIR* d = opendir(path.c_str());
  if (d) {
    struct dirent* e;
    while ((e = readdir(d)) != nullptr) {
      string n = e->d_name;
      if (n == "." || n == "..") continue;
      string p = path + "/" + n;
      struct stat st;
      if (lstat(p.c_str(), &st) == 0 && S_ISDIR(st.st_mode)) rmTree(p); else unlink(p.c_str());
    }
    closedir(d);
    rmdir(path.c_str());
  } else {
    unlink(path.c_str());
  }
}
// /verif/build/tmp/<pid>  (VERIF_TMP overrides the base for scratch use)
inline string procTmpDir() {
  const char* base = getenv("VERIF_TMP");
  string d = string(base ? base : "/verif/build/tmp") + "/" + std::to_string(getpid());
  mkdirs(d);
  return d;
}

// ---- fake device / protocol ---------------------------------------------------------------
class FakeDevice : public Device {
 public:
  const char* getName() const override { return "fake"; }
  void formatInfo(std::ostringstream* o, bool, bool prefix) override { if (prefix) *o << "fake"; }
  result_t open() override { return RESULT_OK; }
  bool isValid() override { return true; }
  result_t send(symbol_t) override { return RESULT_ERR_SEND; }
  result_t recv(unsigned int, symbol_t*, ArbitrationState*) override { return RESULT_ERR_TIMEOUT; }
  result_t startArbitration(symbol_t) override { return RESULT_ERR_SEND; }
  bool isArbitrating() const override { return false; }
  bool cancelRunningArbitration(ArbitrationState*) override { return false; }
};

// Records everything that would go to the bus.  The simulated bus participant answers a
// master-slave telegram with NN=01 and one data byte equal to the last master byte, a
// master-master or broadcast telegram with an empty slave part; queued (poll / scan) requests
// are completed with a timeout (nobody answers the scan).
class FakeProtocol : public ProtocolHandler {
 public:
  FakeProtocol(const ebus_protocol_config_t& cfg, Device* dev, ProtocolListener* l)
    : ProtocolHandler(cfg, dev, l) {}
  vector<string> sent;     // hex of every master telegram handed to sendAndWait ("S:") / addRequest ("Q:")
  bool signal = true;
  bool answering = false;  // lets the `answer` command reach its argument parser
  std::function<result_t(const MasterSymbolString&, SlaveSymbolString*)> responder;

  result_t sendAndWait(const MasterSymbolString& master, SlaveSymbolString* slave) override {
    sent.push_back("S:" + hexOf(master));
    slave->clear();
    if (!signal) return RESULT_ERR_NO_SIGNAL;
    if (responder) return responder(master, slave);
    if (master.size() < 5) return RESULT_ERR_INVALID_ARG;
    symbol_t zz = master[1];
    if (zz == BROADCAST || isMaster(zz)) return RESULT_OK;
    slave->push_back(1);
    slave->push_back(master[master.size() - 1]);
    return RESULT_OK;
  }
  result_t addRequest(BusRequest* request, bool wait) override {
    sent.push_back("Q:" + hexOf(request->getMaster()));
    SlaveSymbolString none;
    int guard = 0;
    while (request->notify(RESULT_ERR_TIMEOUT, none) && ++guard < 1000) {
      sent.push_back("Q:" + hexOf(request->getMaster()));
    }
    if (request->deleteOnFinish()) delete request;
    return RESULT_OK;
  }
  bool hasSignal() const override { return signal; }
  bool isAnswering() const override { return answering; }
  // registrations of the `answer` command: "src,dst,pb,sb,id-hex,answer-hex" per call (C15 command part)
  vector<string> answers;
  bool acceptAnswer = true;
  bool setAnswer(symbol_t srcAddress, symbol_t dstAddress, symbol_t pb, symbol_t sb, const symbol_t* id,
      size_t idLen, const SlaveSymbolString& answer) override {
    // documented contract of setAnswer: "idLen the length of the further ID bytes (maximum 4)", false for a too long id
    if (idLen > 4 || (!id && idLen > 0)) return false;
    char b[64];
    snprintf(b, sizeof(b), "%02x,%02x,%02x,%02x,", srcAddress, dstAddress, pb, sb);
    string rec = b;
    for (size_t i = 0; i < idLen; i++) { snprintf(b, sizeof(b), "%02x", id[i]); rec += b; }
    rec += "," + hexOf(answer);
    answers.push_back(rec);
    return acceptAnswer;
  }
  void injectMessage(const MasterSymbolString&, const SlaveSymbolString&) override {}
  void run() override {}
};

// ---- the world ------------------------------------------------------------------------------
struct WorldConfig {
  string csv;               // definitions (first line must be a comment: default header)
  string accessLevel;       // --accesslevel
  string aclContent;        // written to the ACL file if non-empty / useAcl
  bool useAcl = false;
  bool enableHex = false, enableDefine = false;
  unsigned pollInterval = 0;
  bool withHtml = false;    // create the html root (see makeHtmlRoot)
  bool reuseFiles = false;  // the files below tmpDir were already written by an earlier World with the same config
  bool deleteData = true;   // false for every World after the first one of a process (shared ident field set)
};

// html root: <tmp>/root/html is the configured path, <tmp>/root holds look-alike files outside.
// Every file consists of a one-line marker "IN:<relpath>" or "OUT:<relpath>".
inline void makeHtmlRoot(const string& tmp) {
  const char* inside[] = {"index.html", "x.js", "a/index.html", "a/x.js", "a/a/index.html", "a/a/x.js",
                          "index.html/x.js", "x.js/index.html", "a/a/a/x.js", "a/a/a/index.html",
                          "a/a/a/a/x.js", "a/a/a/a/index.html", "%2e%2e/x.js", "%2e%2e/index.html",
                          "%/x.js", "%25/x.js", ".%2e/x.js", "%2E%2e/x.js"};
  for (const char* f : inside) writeFile(tmp + "/root/html/" + f, string("IN:") + f + "\n");
  const char* outside[] = {"index.html", "x.js", "a/index.html", "a/x.js", "a/a/x.js", "a/a/index.html"};
  for (const char* f : outside) writeFile(tmp + "/root/" + f, string("OUT:") + f + "\n");
  // siblings of the root whose names start with the root's name (reached when the URI is glued to the root path
  // without a separating slash)
  const char* siblings[] = {"htmlx.js", "html.js", "htmlindex.html", "html-old/x.js", "html-old/index.html", "html-old/a/x.js",
                            "htmla/x.js", "htmla/index.html", "html.old/x.js", "html%2fx.js"};
  for (const char* f : siblings) writeFile(tmp + "/root/" + f, string("OUT:sibling:") + f + "\n");
  // one level further up as well
  writeFile(tmp + "/x.js", "OUT:../x.js\n");
  writeFile(tmp + "/index.html", "OUT:../index.html\n");
}

class World {
 public:
  options_t opt;
  string tmp, aclPath, htmlPath, cfgPath;
  MessageMap* messages = nullptr;
  ScanHelper* scanHelper = nullptr;
  BusHandler* busHandler = nullptr;
  FakeProtocol* protocol = nullptr;
  Queue<Request*>* queue = nullptr;
  MainLoop* loop = nullptr;
  string loadError;
  result_t loadResult = RESULT_OK;

  explicit World(const WorldConfig& c, const string& tmpDir = procTmpDir()) {
    setFacilitiesLogLevel(1 << lf_COUNT, ll_none);
    setFacilitiesLogLevel((1 << lf_COUNT) - 1, ll_none);
    tmp = tmpDir;
    aclPath = tmp + "/acl.csv";
    htmlPath = tmp + "/root/html";
    cfgPath = tmp + "/cfg";
    if (!c.reuseFiles) {
      mkdirs(cfgPath);
      if (c.withHtml) makeHtmlRoot(tmp);
      writeFile(cfgPath + "/defs.csv", c.csv);  // so that `reload` finds the same definitions
    }
    messages = new MessageMap(false, "", c.deleteData);
    scanHelper = new ScanHelper(messages, cfgPath, cfgPath + "/", "", "", nullptr, false);
    messages->setResolver(scanHelper);
    busHandler = new BusHandler(messages, scanHelper, c.pollInterval);
    ebus_protocol_config_t pc;
    memset(&pc, 0, sizeof(pc));
    pc.device = "fake";
    pc.ownAddress = 0x31;
    pc.failedSendRetries = 2;
    pc.busLostRetries = 3;
    protocol = new FakeProtocol(pc, new FakeDevice(), busHandler);
    busHandler->setProtocol(protocol);
    queue = new Queue<Request*>();
    // definitions from a string, exactly as ScanHelper would feed a file
    std::istringstream defs(c.csv);
    time_t now = g_now;
    loadResult = messages->readFromStream(&defs, "defs.csv", now, false, nullptr, &loadError);
    scanHelper->executeInstructions(busHandler);
    memset(&opt, 0, sizeof(opt));
    accessLevel_ = c.accessLevel;
    opt.device = "fake";
    opt.configPath = cfgPath.c_str();
    opt.accessLevel = accessLevel_.c_str();
    opt.aclFile = "";
    opt.htmlPath = htmlPath.c_str();
    opt.address = 0x31;
    opt.initialScan = ESC;
    opt.enableHex = c.enableHex;
    opt.enableDefine = c.enableDefine;
    opt.pollInterval = c.pollInterval;
    opt.logFile = "";
    opt.logRawFile = "";
    opt.dumpFile = "";
    opt.pidFile = "";
    opt.preferLanguage = "";
    if (c.useAcl) {
      if (!c.reuseFiles) writeFile(aclPath, c.aclContent);
      opt.aclFile = aclPath.c_str();
    }
    loop = new MainLoop(opt, busHandler, messages, scanHelper, queue);
  }
  // a new MainLoop (ACL file and options are read by its constructor) on the same objects
  void newLoop(const string& accessLevel, bool useAcl, const string& aclContent) {
    delete loop;
    accessLevel_ = accessLevel;
    opt.accessLevel = accessLevel_.c_str();
    if (useAcl) { writeFile(aclPath, aclContent); opt.aclFile = aclPath.c_str(); } else { opt.aclFile = ""; }
    loop = new MainLoop(opt, busHandler, messages, scanHelper, queue);
  }
  ~World() {  // order of main.cpp cleanup()
    delete loop;
    delete queue;
    delete protocol;
    delete busHandler;
    delete messages;
    delete scanHelper;
  }

 private:
  string accessLevel_;
};

// result of one client request through the real RequestImpl + MainLoop::decodeRequest, with the
// post-processing MainLoop::run applies before the text goes to the client
struct Reply {
  bool complete = false;   // RequestImpl::add reported a complete request
  result_t ret = RESULT_OK;
  string raw;              // what decodeRequest wrote
  string text;             // what the client would receive (TCP: error code text substituted)
  bool connected = true;
  vector<string> args;     // the split arguments (taken from a second RequestImpl, same input)
};

inline Reply runRequest(World* w, bool http, const string& wire, string* user, RequestMode* mode = nullptr) {
  Reply r;
  RequestImpl req(http);
  r.complete = req.add(wire.c_str());
  {
    RequestImpl probe(http);
    if (probe.add(wire.c_str())) probe.split(&r.args);
  }
  if (!r.complete || req.empty()) return r;
  RequestMode m;
  if (mode) m = *mode; else { m.listenMode = lm_none; m.format = OF_NONE; m.listenWithUnknown = false; m.listenOnlyUnknown = false; }
  bool reload = false;
  std::ostringstream os;
  r.ret = w->loop->decodeRequest(&req, &r.connected, &m, user, &reload, &os);
  if (mode) *mode = m;
  r.raw = os.str();
  r.text = r.raw;
  if (!http && (r.raw.empty() || r.ret != RESULT_OK)) {
    string suffix;
    if (r.ret == RESULT_EMPTY && !r.raw.empty()) suffix = r.raw;
    r.text = getResultCode(r.ret);
    if (!suffix.empty()) r.text += " " + suffix;
  }
  return r;
}
inline Reply tcp(World* w, const string& line, string* user, RequestMode* mode = nullptr) {
  return runRequest(w, false, line + "\n", user, mode);
}
inline Reply httpGet(World* w, const string& uri, string* user = nullptr) {
  string u;
  return runRequest(w, true, "GET " + uri + " HTTP/1.1\r\nHost: x\r\n\r\n", user ? user : &u);
}
inline int httpStatus(const string& text) {
  if (text.compare(0, 9, "HTTP/1.0 ") != 0) return -1;
  return atoi(text.c_str() + 9);
}
inline string httpBody(const string& text) {
  size_t p = text.find("\r\n\r\n");
  return p == string::npos ? "" : text.substr(p + 4);
}

// ---- isolated execution (fork) for sanitizer / crash oracles --------------------------------
struct ChildResult {
  int kind = 0;         // 0 ok (exit code <50), 1 exit code >= 50 / sanitizer, 2 signal
  int code = 0;         // exit code or signal number
  string report;        // normalised first sanitizer headline (no addresses)
  string detail;        // text the child placed into the shared page
  uint32_t idx = 0;     // progress index the child placed into the shared page
};
struct SharedPage { volatile uint32_t idx; volatile uint32_t status; char text[4000]; };
inline SharedPage* sharedPage() {
  static SharedPage* p = nullptr;
  if (!p) p = static_cast<SharedPage*>(mmap(nullptr, sizeof(SharedPage), PROT_READ | PROT_WRITE, MAP_SHARED | MAP_ANONYMOUS, -1, 0));
  return p;
}
inline void childSay(const string& s) {
  SharedPage* p = sharedPage();
  size_t n = std::min(s.size(), sizeof(p->text) - 1);
  memcpy(p->text, s.data(), n);
  p->text[n] = 0;
}
inline const char* sigName(int s) {
  switch (s) {
    case SIGSEGV: return "SIGSEGV"; case SIGABRT: return "SIGABRT"; case SIGBUS: return "SIGBUS";
    case SIGFPE: return "SIGFPE"; case SIGILL: return "SIGILL"; case SIGALRM: return "SIGALRM";
    case SIGKILL: return "SIGKILL"; case SIGPIPE: return "SIGPIPE"; default: return "SIG";
  }
}
// strip addresses / pids / thread ids from a sanitizer headline
inline string normaliseReport(const string& err) {
  string head;
  std::istringstream is(err);
  string line;
  while (getline(is, line)) {
    size_t p = line.find("ERROR: AddressSanitizer: ");
    if (p != string::npos) {
      string k = line.substr(p + 25);
      size_t e = k.find_first_of(" :(");
      head = "asan:" + k.substr(0, e);
      break;
    }
    p = line.find("runtime error: ");
    if (p != string::npos) {
      // "<file>:<line>:<col>: runtime error: <text>"
      string loc = line.substr(0, p);
      size_t sl = loc.find_last_of('/');
      if (sl != string::npos) loc = loc.substr(sl + 1);
      while (!loc.empty() && (loc.back() == ' ' || loc.back() == ':')) loc.pop_back();
      size_t c2 = loc.find_last_of(':');
      if (c2 != string::npos) loc = loc.substr(0, c2);  // drop the column
      string what = line.substr(p + 15);
      string w2;
      for (char ch : what) { if (ch >= '0' && ch <= '9') { if (w2.empty() || w2.back() != '#') w2 += '#'; } else if (ch == ' ') w2 += '_'; else w2 += ch; }
      if (w2.size() > 40) w2.resize(40);
      head = "ubsan:" + loc + ":" + w2;
      break;
    }
    p = line.find("Assertion '");
    if (p != string::npos && line.find("failed") != string::npos) {
      // libstdc++ assertion: "<path>/stl_vector.h:1123: ... Assertion '__n < this->size()' failed."
      string file = line.substr(0, line.find(':'));
      size_t sl = file.find_last_of('/');
      if (sl != string::npos) file = file.substr(sl + 1);
      head = "assert:" + file;
      break;
    }
    p = line.find("LeakSanitizer");
    if (p != string::npos) { head = "lsan"; break; }
    p = line.find("terminate called");
    if (p != string::npos) { head = "terminate"; break; }
  }
  return head;
}
// Run fn in a forked child.  fn returns an exit code < 50 (0 = fine); the child's stderr goes to
// a scratch file that is inspected when the child did not end normally.
inline ChildResult runIsolated(const string& errFile, unsigned budgetSeconds, const std::function<int()>& fn) {
  ChildResult cr;
  sharedPage()->text[0] = 0;
  sharedPage()->idx = 0;
  sharedPage()->status = 0;
  fflush(stdout);
  fflush(stderr);
  pid_t pid = fork();
  if (pid < 0) { perror("fork"); exit(5); }
  if (pid == 0) {
    int fd = open(errFile.c_str(), O_WRONLY | O_CREAT | O_TRUNC, 0644);
    if (fd >= 0) { dup2(fd, 2); close(fd); }
    fd = open("/dev/null", O_WRONLY);
    if (fd >= 0) { dup2(fd, 1); close(fd); }
    if (budgetSeconds) alarm(budgetSeconds);
    int rc = 49;
    try {
      rc = fn();
    } catch (const std::exception& e) {
      childSay(string("uncaught exception: ") + e.what());
      rc = 48;
    } catch (...) {
      childSay("uncaught exception");
      rc = 48;
    }
    _exit(rc);
  }
  int st = 0;
  while (waitpid(pid, &st, 0) < 0 && errno == EINTR) {}
  cr.detail = sharedPage()->text;
  if (WIFSIGNALED(st)) {
    cr.kind = 2;
    cr.code = WTERMSIG(st);
  } else {
    cr.code = WEXITSTATUS(st);
    cr.kind = 0;
  }
  cr.idx = sharedPage()->idx;
  if (cr.kind == 2 || cr.code != 0) {
    std::ifstream f(errFile.c_str());
    std::stringstream ss;
    ss << f.rdbuf();
    cr.report = normaliseReport(ss.str());
    // a sanitizer ends the process with its own exit code (ours are 0 and 10..49)
    if (cr.kind == 0 && (cr.code >= 50 || cr.code < 10 || !cr.report.empty())) cr.kind = 1;
  }
  return cr;
}

}  // namespace fx

#endif  // VERIF_CMDMC_MAINLOOP_FIXTURE_H_
