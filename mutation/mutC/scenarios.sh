#!/bin/bash
# usage: run.sh <mutant id|base> <scenario>
WT=/tmp/mutC_wt
git -C $WT checkout -- . || exit 1
if [ "$1" != base ]; then git -C $WT apply /verif/mutation/mutC/$1.diff || exit 1; fi
nice -n 15 cmake --build $WT/_build -j6 --target ebus >/dev/null 2>&1 || { echo build failed; exit 1; }
nice -n 15 g++ -std=c++11 -O1 -DHAVE_CONFIG_H -D_GNU_SOURCE -I$WT/_build -I$WT/src /tmp/mutC/scn/scn.cpp -o /tmp/mutC/scn/scn_$1 \
  $WT/_build/src/lib/ebus/libebus.a $WT/_build/src/lib/ebus/contrib/libebuscontrib.a $WT/_build/src/lib/ebus/libebus.a $WT/_build/src/lib/utils/libutils.a -lpthread 2>&1 | head -20
echo "--- $1 $2"; /tmp/mutC/scn/scn_$1 $2
git -C $WT checkout -- .
