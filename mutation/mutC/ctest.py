#!/usr/bin/env python3
"""For each given mutant: apply to the worktree, build the repository's own tests, run ctest; record the outcome."""
import os, re, subprocess, sys, time
WT = "/tmp/mutC_wt"
OUT = "/verif/mutation/mutC"
RES = "/tmp/mutC/ctest.tsv"
for id in sys.argv[1:]:
    subprocess.run(["git", "-C", WT, "checkout", "--", "."], check=True)
    if id != "base":
        r = subprocess.run(["git", "-C", WT, "apply", os.path.join(OUT, id + ".diff")])
        if r.returncode != 0:
            print(id, "APPLY FAILED", flush=True)
            continue
    t0 = time.time()
    b = subprocess.run(["nice", "-n", "15", "cmake", "--build", WT + "/_build", "-j", "6"], stdout=subprocess.PIPE, stderr=subprocess.STDOUT, text=True)
    if b.returncode != 0:
        verdict, detail = "build-failed", b.stdout[-300:].replace("\n", " | ")
    else:
        t = subprocess.run(["nice", "-n", "15", "ctest", "--test-dir", WT + "/_build", "-j4", "--timeout", "900"],
                           stdout=subprocess.PIPE, stderr=subprocess.STDOUT, text=True)
        with open("/tmp/mutC/logs/%s_ctest.log" % id, "w") as f:
            f.write(t.stdout)
        m = re.search(r"(\d+)% tests passed, (\d+) tests failed out of (\d+)", t.stdout)
        failed = re.findall(r"^\s*\d+ - (\S+) \((\w+)\)", t.stdout, re.M)
        if t.returncode == 0:
            verdict, detail = "pass", m.group(0) if m else ""
        else:
            verdict, detail = "fail", (m.group(0) if m else "") + " " + ",".join("%s(%s)" % f for f in failed)
    with open(RES, "a") as f:
        f.write("%s\t%s\t%s\t%.0f\n" % (id, verdict, detail, time.time() - t0))
    print(id, verdict, detail, "%.0fs" % (time.time() - t0), flush=True)
subprocess.run(["git", "-C", WT, "checkout", "--", "."], check=True)
