// C19: configuration round trip.
//  (a) every field list (<=3 fields, each <=3 characters over {a , " ; '}) is written by a reference
//      CSV encoder, embedded between other lines and split by the real FileReader::splitFields;
//  (a2) every text of the statement's text domain is written by the real AttributedItem::dumpString
//      and split again;
//  (b) every definition file of a bounded grammar is loaded, dumped, reloaded and dumped again:
//      the reloaded messages must have identical attributes (read from the objects, including the effective
//      divisor and the decoded text of a fixed sample telegram) and the second dump must equal the first.
//      Sweep 3 (divisors on references to templates that carry a divisor, in every field order) runs every
//      file in a forked child, because derived number types are cached process-wide in DataTypeList.
#include <algorithm>
#include <deque>
#include <functional>
#include <memory>
#include <sstream>
#include <sys/wait.h>
#include "lib/ebus/message.h"
#include "lib/ebus/data.h"
#include "lib/ebus/filereader.h"
#include "lib/ebus/result.h"
#include "lib/utils/log.h"
#include "vout.h"

using namespace ebusd;
using std::string;
using std::vector;

static vp::Result R;

static string hexs(const string& s) { return vp::hex(reinterpret_cast<const unsigned char*>(s.data()), s.size()); }
static string unhex(const string& h) {
  string o;
  for (size_t i = 0; i + 1 < h.size(); i += 2) o += (char)strtoul(h.substr(i, 2).c_str(), nullptr, 16);
  return o;
}
static string vis(const string& s) {   // printable rendering for logs
  string o = "\"";
  for (char c : s) { if (c == '\n') o += "\\n"; else o += c; }
  return o + "\"";
}

// ---------------------------------------------------------------------------------------------
// reference CSV encoder (statement: quoted fields may contain separators and doubled quotes)
// ---------------------------------------------------------------------------------------------
static string refEncodeField(const string& f) {
  if (f.find(',') == string::npos && f.find('"') == string::npos) return f;
  string o = "\"";
  for (char c : f) { if (c == '"') o += "\"\""; else o += c; }
  return o + "\"";
}
static string refEncodeLine(const vector<string>& fields) {
  string o;
  for (size_t i = 0; i < fields.size(); i++) { if (i) o += ","; o += refEncodeField(fields[i]); }
  return o;
}
static string rowStr(const vector<string>& r) {
  string o = "[";
  for (size_t i = 0; i < r.size(); i++) { if (i) o += " | "; o += r[i]; }
  return o + "]";
}

static const vector<string> LINE_BEFORE = {"x", "y"};
static const vector<string> LINE_AFTER = {"p", "q,r", "s"};

// returns rule name or ""
static string checkSplit(const vector<string>& fields, const string& encoded, bool log) {
  string text = "x,y\n" + encoded + "\np,\"q,r\",s\n";
  std::istringstream is(text);
  unsigned lineNo = 0;
  vector<string> r1, r2, r3;
  bool m1 = FileReader::splitFields(&is, &r1, &lineNo);
  bool m2 = FileReader::splitFields(&is, &r2, &lineNo);
  bool m3 = FileReader::splitFields(&is, &r3, &lineNo);
  R.transitions += 3; R.tracesValidated++;
  bool allEmpty = true;
  for (auto& f : fields) if (!f.empty()) allEmpty = false;
  if (log) {
    printf("fields %s encoded as line %s between lines \"x,y\" and \"p,\\\"q,r\\\",s\"\n", rowStr(fields).c_str(), vis(encoded).c_str());
    printf("splitFields #1 -> %d %s\nsplitFields #2 -> %d %s\nsplitFields #3 -> %d %s\n", m1, rowStr(r1).c_str(), m2, rowStr(r2).c_str(), m3, rowStr(r3).c_str());
  }
  if (r1 != LINE_BEFORE) return "line-before";
  if (encoded.empty()) {
    // a single empty field is an empty line, which the reader skips: the following line must still be split on its own
    return r2 == LINE_AFTER ? "" : "line-after";
  }
  if (allEmpty) {
    // a line of empty fields is a blank line for the reader: its own row is not judged, the next line is
    if (!(r2.empty() || r2 == fields)) return "fields";
  } else if (r2 != fields) {
    return "fields";
  }
  if (r3 != LINE_AFTER) return "line-after";
  return "";
}

static void enumStrings(const string& alpha, size_t maxLen, const std::function<void(const string&)>& fn) {
  string cur;
  std::function<void()> rec = [&]() {
    fn(cur);
    if (cur.size() >= maxLen) return;
    for (char c : alpha) { cur.push_back(c); rec(); cur.pop_back(); }
  };
  rec();
}

// class of a text for signatures
static string textClass(const string& s) {
  string c = s.find("\"\"") != string::npos ? "adjacent-quotes" : s.find('"') != string::npos ? "quote" : "";
  if (s.find(',') != string::npos) c += c.empty() ? "separator" : "+separator";
  return c.empty() ? "plain" : c;
}

// (a2) dumpString of the implementation followed by splitFields
static string checkDumpString(const string& text, bool log) {
  std::ostringstream os;
  os << "k,";
  AttributedItem::dumpString(false, text, &os);
  os << ",z\nnext,line\n";
  std::istringstream is(os.str());
  unsigned lineNo = 0;
  vector<string> r1, r2;
  FileReader::splitFields(&is, &r1, &lineNo);
  FileReader::splitFields(&is, &r2, &lineNo);
  R.transitions += 3; R.tracesValidated++;
  if (log) printf("text %s dumped as %s\nsplitFields -> %s, then %s\n", vis(text).c_str(), vis(os.str()).c_str(), rowStr(r1).c_str(), rowStr(r2).c_str());
  if (r1 != vector<string>{"k", text, "z"}) return "fields";
  if (r2 != vector<string>{"next", "line"}) return "line-after";
  return "";
}

// ---------------------------------------------------------------------------------------------
// (b) definition grammar
// ---------------------------------------------------------------------------------------------
static DataFieldTemplates* g_templates;
class TestResolver : public Resolver {
 public:
  DataFieldTemplates* getTemplates(const string&) override { return g_templates; }
  result_t loadDefinitionsFromConfigPath(FileReader*, const string&, map<string, string>*, string*, bool) override {
    return RESULT_ERR_NOTFOUND;
  }
};
static TestResolver g_resolver;

static const char* TEMPLATES[] = {
  "onoff,UCH,0=off;1=on,,state",
  "tt,D2C,,C,temp",
  "ts,tt;onoff",
  // templates that carry a divisor themselves (sweep 3)
  "tenth,UCH,10,bar,pressure",
  "cent,UIN,100",
  "recip,UIN,-10",
  "recip5,UCH,-5",
  "t16,D2C,10",
  "dset,tenth;cent",
  "rset,recip;recip5",
};

struct FKind { const char* type; const char* dv; const char* cls; };
static const FKind FKINDS[] = {
  {"UCH", "", "base"}, {"STR:3", "", "base"}, {"HEX:2", "", "base"}, {"BCD:2", "", "base"}, {"BI3:2", "", "base"},
  {"D2C", "", "base"}, {"STR:*", "", "base"}, {"HDA:3", "", "base"},
  {"UCH", "10", "divisor"}, {"D2C", "10", "divisor"}, {"UIN", "-100", "divisor"},
  {"UCH", "0=off;1=on", "values"}, {"BI0:2", "0=a;1=b;2=c", "values"},
  {"UCH", "=5", "constant"}, {"STR:2", "==ab", "constant"},
  {"tt", "", "template"}, {"ts", "", "template"}, {"tt", "10", "template"},
  // weekday types carrying their OWN value list (localized names, a partial list) instead of the implied Mon..Sun
  {"BDY", "0=Mo;1=Di;2=Mi;3=Do;4=Fr;5=Sa;6=So", "values"}, {"HDY", "1=workday;6=saturday;7=sunday", "values"},
  // ---- sweep 3 only: references to templates with a divisor, with a further divisor (product a power of ten
  //      or not, positive and reciprocal), template sets with divisor, a value list template as is ...
  {"tenth", "", "tref"}, {"tenth", "10", "tref"}, {"tenth", "3", "tref"}, {"tenth", "100", "tref"},
  {"cent", "10", "tref"}, {"cent", "3", "tref"},
  {"recip", "", "tref"}, {"recip", "-2", "tref"}, {"recip", "-10", "tref"},
  {"recip5", "-2", "tref"},
  {"t16", "", "tref"}, {"t16", "10", "tref"},
  {"dset", "", "tsetref"}, {"dset", "10", "tsetref"}, {"dset", "3", "tsetref"},
  {"rset", "", "tsetref"}, {"rset", "-2", "tsetref"},
  {"onoff", "", "tvalues"},
  {"tenth", "-2", "tref"}, {"recip", "2", "tref"},   // sign combinations the loader refuses (counted)
  // ... and the same effective types created directly from the root type (before / after the reference)
  {"UCH", "10", "direct"}, {"UCH", "100", "direct"}, {"UCH", "30", "direct"}, {"UCH", "1000", "direct"},
  {"UIN", "100", "direct"}, {"UIN", "1000", "direct"}, {"UIN", "300", "direct"},
  {"UIN", "-10", "direct"}, {"UIN", "-20", "direct"}, {"UIN", "-100", "direct"},
  {"UCH", "-5", "direct"}, {"UCH", "-10", "direct"},
  {"D2C", "10", "direct"}, {"D2C", "100", "direct"},
};
static const size_t NFK_ALL = sizeof(FKINDS) / sizeof(FKINDS[0]);
static const size_t NFK = 20;        // kinds of sweeps 1 and 2
static const size_t NFK_DIV0 = 20;   // first kind of sweep 3
static const char* MKINDS[] = {"r", "r1", "r5", "r9", "w", "u", "uw", "r2", "r3", "r4", "r6", "r7", "r8"};
static const size_t NMK_QUICK = 7, NMK = 13;
struct Addr { const char* qq; const char* zz; };
static const Addr ADDRS[] = {{"", "08"}, {"", "08;09"}, {"", "fe"}, {"", ""}, {"10", "08"}, {"", "10"}};
static const size_t NADDR = 6;
static const char* IDS[] = {"", "0d", "0d0100", "0d0100:2;0d0200:3", "0d0100;0d0200", "01:8;02:2;03"};
static const size_t NID = 6;

struct FieldSpec { size_t kind; char part; string name, unit, comment; };
struct FileSpec {
  size_t mk, addr, id;
  string comment;
  vector<FieldSpec> fields;
  bool pristine = false;   // run in a forked child with an untouched DataTypeList cache
  FileSpec() : mk(0), addr(0), id(0) {}
  FileSpec(size_t m, size_t a, size_t i, const string& c, const vector<FieldSpec>& f) : mk(m), addr(a), id(i), comment(c), fields(f) {}
};

static string fileText(const FileSpec& f) {
  vector<string> cols = {MKINDS[f.mk], "cir", "msg", f.comment, ADDRS[f.addr].qq, ADDRS[f.addr].zz, "b509", IDS[f.id]};
  for (auto& fs : f.fields) {
    cols.push_back(fs.name);
    cols.push_back(fs.part == 'd' ? "" : string(1, fs.part));
    cols.push_back(FKINDS[fs.kind].type);
    cols.push_back(FKINDS[fs.kind].dv);
    cols.push_back(fs.unit);
    cols.push_back(fs.comment);
  }
  return "\n" + refEncodeLine(cols) + "\n";
}

// case string: m=<mk>;a=<addr>;i=<id>;c=<hex comment>;f=<kind><part><n|u>.<hex unit>.<hex comment>/...
static string caseOf(const FileSpec& f) {
  string s = string(f.pristine ? "k=pfile" : "k=file") + ";m=" + std::to_string(f.mk) + ";a=" + std::to_string(f.addr) + ";i=" + std::to_string(f.id) + ";c=" + hexs(f.comment) + ";f=";
  for (size_t i = 0; i < f.fields.size(); i++) {
    auto& fs = f.fields[i];
    if (i) s += "/";
    s += std::to_string(fs.kind) + fs.part + "." + hexs(fs.name) + "." + hexs(fs.unit) + "." + hexs(fs.comment);
  }
  return s;
}
static bool parseFileCase(std::map<string, string>& m, FileSpec* f) {
  f->mk = (size_t)atoi(m["m"].c_str()); f->addr = (size_t)atoi(m["a"].c_str()); f->id = (size_t)atoi(m["i"].c_str());
  if (f->mk >= NMK || f->addr >= NADDR || f->id >= NID) return false;
  f->comment = unhex(m["c"]);
  std::istringstream is(m["f"]);
  string tok;
  while (getline(is, tok, '/')) {
    if (tok.empty()) continue;
    FieldSpec fs;
    size_t p = 0;
    while (p < tok.size() && isdigit((unsigned char)tok[p])) p++;
    if (p == 0 || p >= tok.size()) return false;
    fs.kind = (size_t)atoi(tok.substr(0, p).c_str());
    if (fs.kind >= NFK_ALL) return false;
    fs.part = tok[p];
    vector<string> parts;
    std::istringstream ps(tok.substr(p + 1));
    string x;
    while (getline(ps, x, '.')) parts.push_back(x);
    while (parts.size() < 4) parts.push_back("");
    fs.name = unhex(parts[1]); fs.unit = unhex(parts[2]); fs.comment = unhex(parts[3]);
    f->fields.push_back(fs);
  }
  return true;
}

// attribute view of a loaded message (read through the objects, not through dump)
typedef vector<std::pair<string, string>> Attrs;
static string idHex(const vector<symbol_t>& id) { return vp::hex(id.data(), id.size()); }
static void fieldAttrs(const SingleDataField* f, size_t i, Attrs* a) {
  string p = "field" + std::to_string(i) + ".";
  a->push_back({p + "name", f->getName(-1).empty() && !f->isIgnored() ? f->m_name : f->m_name});
  a->push_back({p + "part", f->getPartType() == pt_masterData ? "m" : f->getPartType() == pt_slaveData ? "s" : "any"});
  const DataType* t = f->getDataType();
  a->push_back({p + "layout", t->getId() + "/len" + std::to_string(f->m_length) + "/bits" + std::to_string(t->getBitCount())
                + (t->isNumeric() ? "/first" + std::to_string(reinterpret_cast<const NumberDataType*>(t)->getFirstBit()) : "")});
  a->push_back({p + "divisor", t->isNumeric() ? std::to_string(reinterpret_cast<const NumberDataType*>(t)->getDivisor()) : "-"});
  string vals = "-", cst = "-";
  if (auto vl = dynamic_cast<const ValueListDataField*>(f)) {
    vals = "";
    for (auto& kv : vl->m_values) vals += std::to_string(kv.first) + "=" + kv.second + ";";
  }
  if (auto cf = dynamic_cast<const ConstantDataField*>(f)) cst = string(cf->m_verify ? "==" : "=") + cf->m_value;
  a->push_back({p + "values", vals});
  a->push_back({p + "constant", cst});
  a->push_back({p + "unit", f->getAttribute("unit")});
  a->push_back({p + "comment", f->getAttribute("comment")});
}
static Attrs messageAttrs(const Message* m) {
  Attrs a;
  a.push_back({"direction", string(m->isPassive() ? "passive" : "active") + (m->isWrite() ? "-write" : "-read")});
  a.push_back({"circuit", m->getCircuit()});
  a.push_back({"name", m->getName()});
  char b[16];
  snprintf(b, sizeof(b), "%02x", m->getSrcAddress()); a.push_back({"source", b});
  snprintf(b, sizeof(b), "%02x", m->getDstAddress()); a.push_back({"destination", b});
  a.push_back({"id", idHex(m->m_id)});
  string chain = "-";
  if (m->getCount() > 1) {
    const ChainedMessage* c = static_cast<const ChainedMessage*>(m);
    chain = "";
    for (size_t i = 0; i < c->m_ids.size(); i++) chain += idHex(c->m_ids[i]) + ":" + std::to_string(c->m_lengths[i]) + ";";
  }
  a.push_back({"chain", chain});
  a.push_back({"pollpriority", std::to_string(m->getPollPriority())});
  a.push_back({"comment", m->getAttribute("comment")});
  const DataField* d = m->m_data;
  if (auto set = dynamic_cast<const DataFieldSet*>(d)) {
    a.push_back({"fieldcount", std::to_string(set->m_fields.size())});
    for (size_t i = 0; i < set->m_fields.size(); i++) fieldAttrs(set->m_fields[i], i, &a);
  } else if (auto sf = dynamic_cast<const SingleDataField*>(d)) {
    a.push_back({"fieldcount", "1"});
    fieldAttrs(sf, 0, &a);
  }
  return a;
}

// decoded text of a fixed sample telegram (same bytes for both generations): the data of the message as a
// client sees it; result code and text are compared, whatever they are
static string sampleDecode(Message* m) {
  MasterSymbolString ms;
  SlaveSymbolString ss;
  ms.push_back(0x31);
  ms.push_back(m->getDstAddress() == SYN ? (symbol_t)0x08 : m->getDstAddress());
  const vector<symbol_t>& id = m->getCount() > 1 ? static_cast<ChainedMessage*>(m)->m_ids[0] : m->m_id;
  ms.push_back(id[0]); ms.push_back(id[1]);
  ms.push_back(0);
  for (size_t i = 2; i < id.size(); i++) ms.push_back(id[i]);
  ss.push_back(0);
  for (unsigned i = 0; i < 24; i++) {   // valid BCD digits, valid date 11.12.13
    unsigned v = 11 + i;
    symbol_t b = (symbol_t)(((v / 10) << 4) | (v % 10));
    ms.push_back(b); ss.push_back(b);
  }
  ms.adjustHeader(); ss.adjustHeader();
  m->m_lastMasterData = ms;
  m->m_lastSlaveData = ss;
  std::ostringstream out;
  result_t r = m->decodeLastData(pt_any, false, nullptr, -1, OF_NAMES, &out);
  R.transitions++;
  return string(getResultCode(r)) + ": " + out.str();
}

struct Gen {
  std::unique_ptr<MessageMap> map;
  result_t result;
  string error;
  vector<Message*> msgs;
  string dump;
};
static void loadDump(const string& text, Gen* g) {
  g->map.reset(new MessageMap(false, "", false));
  g->map->setResolver(&g_resolver);
  std::istringstream is(text);
  g->result = g->map->readFromStream(&is, "c19", 0, false, nullptr, &g->error);
  std::deque<Message*> q;
  g->map->findAll("", "", "*", false, true, true, true, true, false, 0, 0, false, &q);
  g->msgs.assign(q.begin(), q.end());
  std::ostringstream os;
  g->map->dump(false, OF_NONE, &os);
  g->dump = os.str();
  R.transitions += 2;
}

static string fieldClass(const FileSpec& f, const string& attr) {
  // class of the field an attribute belongs to, for the signature
  if (attr.compare(0, 5, "field") == 0 && isdigit((unsigned char)attr[5])) {
    // template sets expand: map back conservatively to the class of the first spec
    return f.fields.empty() ? "none" : FKINDS[f.fields[std::min<size_t>((size_t)(attr[5] - '0'), f.fields.size() - 1)].kind].cls;
  }
  return "message";
}
static string stripIndex(const string& attr) {
  size_t p = attr.find('.');
  if (attr.compare(0, 5, "field") == 0 && p != string::npos) return "field." + attr.substr(p + 1);
  return attr;
}

struct Ctx { bool log = false; bool violated = false; string sigSuffix; };
static void report(Ctx* c, const string& sig0, const string& detail, const string& rcase) {
  string sig = sig0 + c->sigSuffix;
  c->violated = true;
  if (c->log) printf("VIOLATES %s: %s\n", sig.c_str(), detail.c_str());
  else R.violation(sig, detail, rcase);
}

// returns 0 rejected, 1 explored
static int runFile(Ctx* c, const FileSpec& f) {
  string text = fileText(f);
  string cs = caseOf(f);
  {
    // files whose texts contain two adjacent double quotes get their own signature class
    bool adj = f.comment.find("\"\"") != string::npos;
    for (auto& fs : f.fields) if (fs.unit.find("\"\"") != string::npos || fs.comment.find("\"\"") != string::npos) adj = true;
    c->sigSuffix = adj ? "/text-adjacent-quotes" : "";
  }
  bool chained = f.id >= 3;
  const char* mcls = chained ? "chained" : "plain";
  Gen g0, g1, g2;
  loadDump(text, &g0);
  R.evaluations++;
  if (c->log) printf("generation 0 file:%sload -> %s %s, %u message(s)\n", text.c_str(), getResultCode(g0.result), g0.error.c_str(), (unsigned)g0.msgs.size());
  if (g0.result != RESULT_OK || g0.msgs.empty()) {
    // generated file not accepted by the loader: outside the statement, counted per reason
    string e = g0.error;
    size_t p = e.find("ERR:");
    string why = p == string::npos ? "other" : e.substr(p + 5);
    for (char& ch : why) if (isdigit((unsigned char)ch)) ch = '#';
    R.count("files_rejected_by_loader");
    R.count("rejected: " + why);
    // the only rows of this grammar that the documented format does not promise to load: data that does not fit the
    // explicit chain lengths / the length limit, and a divisor whose sign cannot be combined with the template's
    bool hasRemainder = false;
    for (auto& fs : f.fields) if (string(FKINDS[fs.kind].type) == "STR:*") hasRemainder = true;
    // (the classes are recognised by the STRUCTURE of the generated row, never by the loader's error code or message
    // text: how a refusal is worded is not part of any statement.  Whether a chained / remainder row really exceeds
    // its capacity is C09's subject, which computes the lengths independently.)
    bool lengthClass = f.id >= 3 || hasRemainder;
    bool signClass = false;
    for (auto& fs : f.fields) {
      string ty = FKINDS[fs.kind].type, ar = FKINDS[fs.kind].dv;
      if (f.pristine && ((ty == "tenth" && ar == "-2") || (ty == "recip" && ar == "2"))) signClass = true;
    }
    if (!lengthClass && !signClass) {
      string w;
      for (char ch : why.substr(0, why.find(','))) w += isalnum((unsigned char)ch) ? ch : '-';
      report(c, string("C19/universe-shrunk/") + mcls + "/" + w, "a definition file that is valid by the documented CSV format is not loaded: " + g0.error, cs);
    }
    return 0;
  }
  R.count("files_loaded");
  R.distinct(vp::fnv(g0.dump));
  if (c->log) printf("dump 1:\n%s", g0.dump.c_str());
  // the generated text against what was loaded (reference CSV writer -> loader), text attributes only
  {
    Attrs a = messageAttrs(g0.msgs[0]);
    for (auto& kv : a) if (kv.first == "comment" && kv.second != f.comment)
      report(c, string("C19/load-text/message-comment/") + mcls, "message comment written as " + vis(f.comment) + " loaded as " + vis(kv.second), cs);
    // (a template reference inherits unit and comment of the template: not compared with the written text)
    if (f.fields.size() == 1 && FKINDS[f.fields[0].kind].cls[0] != 't') {
      for (auto& kv : a) {
        if (kv.first == "field0.unit" && kv.second != f.fields[0].unit) report(c, string("C19/load-text/field-unit/") + FKINDS[f.fields[0].kind].cls, "unit written as " + vis(f.fields[0].unit) + " loaded as " + vis(kv.second), cs);
        if (kv.first == "field0.comment" && kv.second != f.fields[0].comment) report(c, string("C19/load-text/field-comment/") + FKINDS[f.fields[0].kind].cls, "comment written as " + vis(f.fields[0].comment) + " loaded as " + vis(kv.second), cs);
      }
    }
  }
  loadDump(g0.dump, &g1);
  R.tracesValidated++;
  if (c->log) printf("reload of dump 1 -> %s %s, %u message(s)\ndump 2:\n%s", getResultCode(g1.result), g1.error.c_str(), (unsigned)g1.msgs.size(), g1.dump.c_str());
  if (g1.result != RESULT_OK) {
    string e = g1.error;
    size_t p = e.find("ERR:");
    string code = p == string::npos ? "error" : e.substr(p + 5);
    code = code.substr(0, code.find(','));   // result code only, not the description (which contains the text)
    string s;
    for (char ch : code) s += isalnum((unsigned char)ch) ? ch : '-';
    report(c, string("C19/reload-failed/") + mcls + "/" + (f.fields.empty() ? "nofield" : FKINDS[f.fields[0].kind].cls) + "/" + s, "the dump of a loaded definition set does not load: " + g1.error, cs);
    return 1;
  }
  if (g1.msgs.size() != g0.msgs.size()) {
    report(c, string("C19/message-count/") + mcls, std::to_string(g0.msgs.size()) + " message(s) dumped, " + std::to_string(g1.msgs.size()) + " reloaded", cs);
    return 1;
  }
  for (size_t i = 0; i < g0.msgs.size(); i++) {
    Attrs a0 = messageAttrs(g0.msgs[i]), a1 = messageAttrs(g1.msgs[i]);
    a0.push_back({"decoded-sample", sampleDecode(g0.msgs[i])});
    a1.push_back({"decoded-sample", sampleDecode(g1.msgs[i])});
    if (c->log) for (auto& kv : a0) printf("  %s: %s\n", kv.first.c_str(), vis(kv.second).c_str());
    std::map<string, string> m1(a1.begin(), a1.end());
    bool countDiffers = a0.size() != a1.size();
    for (auto& kv : a0) {
      auto it = m1.find(kv.first);
      string v1 = it == m1.end() ? "<missing>" : it->second;
      if (v1 != kv.second) {
        if (countDiffers && kv.first != "fieldcount") continue;   // report the field count only
        string cls = kv.first == "decoded-sample" ? (f.fields.empty() ? string(mcls) : string(FKINDS[f.fields[0].kind].cls))
                     : fieldClass(f, kv.first) == "message" ? string(mcls) : fieldClass(f, kv.first);
        report(c, "C19/attr-changed/" + stripIndex(kv.first) + "/" + cls,
               kv.first + " is " + vis(kv.second) + " after load, " + vis(v1) + " after dump and reload", cs);
      }
    }
  }
  if (g1.dump != g0.dump) {
    report(c, string("C19/dump-not-idempotent/") + mcls + "/" + (f.fields.empty() ? "nofield" : FKINDS[f.fields[0].kind].cls), "dump(load(dump(M))) differs from dump(M)", cs);
  }
  return 1;
}

static bool loadTemplates() {
  g_templates = new DataFieldTemplates();
  string text = "\n";
  for (auto t : TEMPLATES) text += string(t) + "\n";
  std::istringstream is(text);
  string err;
  result_t r = g_templates->readFromStream(&is, "c19tpl", 0, false, nullptr, &err);
  if (r != RESULT_OK) { fprintf(stderr, "templates: %s %s\n", getResultCode(r), err.c_str()); return false; }
  return true;
}

static string oneLine(const string& s) {
  string o;
  for (char ch : s) o += (ch == '\n' || ch == '\t' || ch == '\r') ? ' ' : ch;
  return o;
}

// run one file in a forked child: the child has never touched DataTypeList (the parent must not have either),
// loads the templates itself and reports counters / violations through a pipe.
// log: the child prints the observation log itself and its exit code is the verdict (replay)
static int runFileInChild(const FileSpec& f, bool log) {
  int fd[2];
  if (pipe(fd) != 0) { perror("pipe"); exit(4); }
  fflush(stdout);
  pid_t pid = fork();
  if (pid < 0) { perror("fork"); exit(4); }
  if (pid == 0) {
    close(fd[0]);
    R.violations.clear(); R.counters.clear(); R.distinctSet.clear();
    R.evaluations = R.transitions = R.tracesValidated = 0;
    if (!loadTemplates()) _exit(5);
    Ctx c; c.log = log;
    runFile(&c, f);
    if (log) { printf(c.violated ? "VIOLATES\n" : "OK\n"); fflush(stdout); _exit(c.violated ? 1 : 0); }
    std::ostringstream os;
    os << "N\t" << R.evaluations << "\t" << R.transitions << "\t" << R.tracesValidated << "\n";
    for (auto& kv : R.counters) os << "C\t" << oneLine(kv.first) << "\t" << kv.second << "\n";
    for (uint64_t h : R.distinctSet) os << "D\t" << h << "\n";
    for (auto& kv : R.violations) os << "V\t" << kv.first << "\t" << oneLine(kv.second.detail) << "\t" << kv.second.rcase << "\n";
    string out = os.str();
    size_t off = 0;
    while (off < out.size()) { ssize_t w = write(fd[1], out.data() + off, out.size() - off); if (w <= 0) break; off += (size_t)w; }
    close(fd[1]);
    _exit(0);
  }
  close(fd[1]);
  string in;
  char buf[4096];
  ssize_t n;
  while ((n = read(fd[0], buf, sizeof(buf))) > 0) in.append(buf, (size_t)n);
  close(fd[0]);
  int st = 0;
  waitpid(pid, &st, 0);
  if (log) return WIFEXITED(st) ? WEXITSTATUS(st) : 3;
  if (!WIFEXITED(st) || WEXITSTATUS(st) != 0) {
    R.evaluations++;
    R.violation("C19/child-crashed/" + string(f.fields.empty() ? "nofield" : FKINDS[f.fields[0].kind].cls),
                "load/dump/reload of a definition file ended the process (status " + std::to_string(st) + ")", caseOf(f));
    return 0;
  }
  std::istringstream is(in);
  string line;
  while (getline(is, line)) {
    vector<string> t;
    size_t pos = 0;
    while (true) { size_t e = line.find('\t', pos); t.push_back(line.substr(pos, e == string::npos ? string::npos : e - pos)); if (e == string::npos) break; pos = e + 1; }
    if (t[0] == "N" && t.size() >= 4) { R.evaluations += strtoull(t[1].c_str(), 0, 10); R.transitions += strtoull(t[2].c_str(), 0, 10); R.tracesValidated += strtoull(t[3].c_str(), 0, 10); }
    else if (t[0] == "C" && t.size() >= 3) R.count(t[1], strtoull(t[2].c_str(), 0, 10));
    else if (t[0] == "D" && t.size() >= 2) R.distinct(strtoull(t[1].c_str(), 0, 10));
    else if (t[0] == "V" && t.size() >= 4) R.violation(t[1], t[2], t[3]);
  }
  return 1;
}

static int replay(const string& cstr) {
  auto m = vp::parseCase(cstr);
  string k = m["k"];
  if (k == "split") {
    vector<string> fields;
    std::istringstream is(m["f"]);
    string tok;
    int n = atoi(m["n"].c_str());
    while (getline(is, tok, '.')) fields.push_back(unhex(tok));
    while ((int)fields.size() < n) fields.push_back("");
    string r = checkSplit(fields, refEncodeLine(fields), true);
    printf(r.empty() ? "OK\n" : "VIOLATES %s\n", r.c_str());
    return r.empty() ? 0 : 1;
  }
  if (k == "dumpstr") {
    string r = checkDumpString(unhex(m["t"]), true);
    printf(r.empty() ? "OK\n" : "VIOLATES %s\n", r.c_str());
    return r.empty() ? 0 : 1;
  }
  if (k == "pfile") {
    FileSpec f;
    if (!parseFileCase(m, &f)) { printf("bad case\n"); return 2; }
    f.pristine = true;
    return runFileInChild(f, true);
  }
  if (k == "file") {
    FileSpec f;
    if (!parseFileCase(m, &f)) { printf("bad case\n"); return 2; }
    if (!loadTemplates()) return 5;
    Ctx c; c.log = true;
    runFile(&c, f);
    printf(c.violated ? "VIOLATES\n" : "OK\n");
    return c.violated ? 1 : 0;
  }
  printf("bad case\n");
  return 2;
}

int main(int argc, char** argv) {
  vp::Args A = vp::parseArgs(argc, argv);
  setFacilitiesLogLevel(1 << lf_COUNT, ll_none);
  // reference encoder self-test
  if (refEncodeLine({"a", "b,c", "d\"e", ""}) != "a,\"b,c\",\"d\"\"e\"," || refEncodeField("\"") != "\"\"\"\"") { fprintf(stderr, "reference encoder self-test failed\n"); return 5; }
  if (A.replay) return replay(A.replayCase);
  R.setDeadline(A);
  bool th = A.thorough();
  uint64_t idx = 0;
  bool stop = false;
  auto mine = [&]() { return (int)(idx++ % (uint64_t)A.nparts) == A.part; };

  // ---- (b) sweep 3, first of all: this process has not touched DataTypeList yet, so every forked child starts
  //      with a pristine derived-type cache.  Field lists = all sequences (every order) of 1..2 (thorough 3)
  //      items out of: references to templates that carry a divisor with a further divisor, template sets with
  //      divisor, a value list template, and the same effective types defined directly on the root type.
  {
    size_t maxLen = (size_t)A.getInt("divfields", th ? 3 : 2);
    const size_t shapes[][3] = {{0, 0, 2}, {4, 2, 1}};   // r to 08 with ID 0d0100 (slave data), w to broadcast (master data)
    vector<size_t> cur;
    uint64_t nfiles = 0;
    std::function<void()> rec = [&]() {
      if (stop) return;
      if (!cur.empty()) {
        for (auto& sh : shapes) {
          if (!mine()) continue;
          if (R.expired()) { stop = true; return; }
          FileSpec f(sh[0], sh[1], sh[2], "", {});
          f.pristine = true;
          for (size_t i = 0; i < cur.size(); i++) {
            char nm[8]; snprintf(nm, sizeof(nm), "v%u", (unsigned)i);
            f.fields.push_back(FieldSpec{cur[i], 'd', nm, i == 0 ? "mbar" : "", ""});
          }
          runFileInChild(f, false);
          nfiles++;
        }
      }
      if (cur.size() >= maxLen) return;
      for (size_t k = NFK_DIV0; k < NFK_ALL; k++) { cur.push_back(k); rec(); cur.pop_back(); }
    };
    rec();
    R.count("pristine_child_files", nfiles);
    FileSpec ex(0, 0, 2, "", {FieldSpec{NFK_DIV0 + 1, 'd', "v0", "mbar", ""}, FieldSpec{NFK_DIV0 + 21, 'd', "v1", "", ""}});
    R.sample("(b) sweep 3, each file in a forked child with a pristine type cache, templates tenth=UCH/10, recip=UIN/-10, ...: " + fileText(ex).substr(1));
  }
  if (!loadTemplates()) return 5;

  // ---- (a) reference encoder -> splitFields
  {
    vector<string> strs;
    enumStrings("a,\";'", 3, [&](const string& s) { strs.push_back(s); });
    vector<string> strs4;
    if (th) enumStrings("a,\";'", 4, [&](const string& s) { strs4.push_back(s); });
    auto one = [&](const vector<string>& fields) {
      if (!mine()) return;
      R.evaluations++;
      string enc = refEncodeLine(fields);
      bool special = enc.find('"') != string::npos;
      if (special) R.distinct(vp::fnv(enc));
      string r = checkSplit(fields, enc, false);
      if (!r.empty()) {
        string fs;
        for (size_t i = 0; i < fields.size(); i++) { if (i) fs += "."; fs += hexs(fields[i]); }
        bool q = false, sep = false;
        for (auto& f : fields) { if (f.find('"') != string::npos) q = true; if (f.find(',') != string::npos) sep = true; }
        R.violation("C19/split/" + r + "/" + (q ? (sep ? "quote+separator" : "quote") : sep ? "separator" : "plain"),
                    "fields " + rowStr(fields) + " written as " + vis(enc) + " are not split back", "k=split;n=" + std::to_string(fields.size()) + ";f=" + fs);
      }
    };
    for (auto& a : strs) { one({a}); }
    for (auto& a : strs) for (auto& b : strs) one({a, b});
    for (auto& a : strs) { if (R.expired()) { stop = true; break; } for (auto& b : strs) for (auto& c : strs) one({a, b, c}); }
    for (auto& a : strs4) { if (R.expired()) { stop = true; break; } one({a}); for (auto& b : strs4) one({a, b}); }
    R.sample("(a) fields [a\"a | ,; | '] -> line " + refEncodeLine({"a\"a", ",;", "'"}) + " between two other lines -> splitFields x3");
  }
  // ---- (a2) dumpString -> splitFields over the text domain of the statement (no double quote)
  {
    enumStrings("a,;' \"", th ? 6 : 5, [&](const string& s) {
      if (!s.empty() && (s.front() == ' ' || s.back() == ' ')) return;   // leading/trailing blanks are outside the statement
      if (!mine()) return;
      R.evaluations++;
      R.distinct(vp::fnv("ds" + s));
      string r = checkDumpString(s, false);
      if (!r.empty()) R.violation("C19/dumpstring/" + r + "/" + textClass(s), "text " + vis(s) + " written by dumpString is not split back", "k=dumpstr;t=" + hexs(s));
    });
    R.sample("(a2) dumpString(\"it's, a;b\") embedded as middle field -> splitFields");
  }
  // ---- (b) definition files
  Ctx ctx;
  auto file = [&](const FileSpec& f) {
    if (stop) return;
    if (!mine()) return;
    if ((idx & 255) == 0 && R.expired()) { stop = true; return; }
    runFile(&ctx, f);
  };
  auto validCombo = [&](size_t mk, size_t id) {
    bool passive = MKINDS[mk][0] == 'u';
    return !(passive && id >= 3);   // chained passive definitions are not part of the format
  };
  // sweep 1: structure. message kind x addressing x id x field lists (kind x part), fixed texts
  {
    size_t nmk = th ? NMK : NMK_QUICK;
    const char parts[] = {'d', 'm', 's'};
    for (size_t mk = 0; mk < nmk && !stop; mk++) for (size_t ad = 0; ad < NADDR; ad++) for (size_t id = 0; id < NID; id++) {
      if (!validCombo(mk, id)) continue;
      FileSpec f{mk, ad, id, "msg comment", {}};
      file(f);
      for (size_t k0 = 0; k0 < NFK; k0++) for (char p0 : parts) {
        f.fields = {FieldSpec{k0, p0, "f0", "u", "c"}};
        file(f);
        for (size_t k1 = 0; k1 < NFK; k1++) for (char p1 : parts) {
          f.fields = {FieldSpec{k0, p0, "f0", "u", "c"}, FieldSpec{k1, p1, "", "", ""}};
          file(f);
        }
      }
    }
    // three fields over a reduced message set
    if (th) {
      const size_t combos[][3] = {{0, 0, 2}, {4, 2, 1}, {5, 0, 2}, {1, 1, 3}, {4, 0, 5}, {6, 4, 0}};
      for (auto& cb : combos) for (size_t k0 = 0; k0 < NFK && !stop; k0++) for (char p0 : parts) for (size_t k1 = 0; k1 < NFK; k1++) for (char p1 : parts)
        for (size_t k2 = 0; k2 < NFK; k2++) for (char p2 : parts) {
          FileSpec f{cb[0], cb[1], cb[2], "", {FieldSpec{k0, p0, "f0", "u", ""}, FieldSpec{k1, p1, "", "", "c"}, FieldSpec{k2, p2, "f2", "", ""}}};
          file(f);
        }
    }
    R.sample("(b) file: " + fileText(FileSpec{1, 1, 3, "msg comment", {FieldSpec{9, 's', "f0", "u", "c"}, FieldSpec{11, 'd', "", "", ""}}}).substr(1));
  }
  // sweep 2: texts. message comment x unit x field comment over all strings of the text alphabet
  {
    vector<string> texts;
    enumStrings("a,;' \"", th ? 3 : 2, [&](const string& s) {
      if (!s.empty() && (s.front() == ' ' || s.back() == ' ')) return;
      texts.push_back(s);
    });
    struct Combo { size_t mk, ad, id, kind; };
    vector<Combo> combos = {{0, 0, 2, 0}, {4, 2, 0, 11}, {5, 4, 1, 13}, {1, 1, 3, 15}};
    if (th) { combos.push_back({6, 0, 2, 8}); combos.push_back({4, 3, 5, 1}); }
    // thorough: the first three shapes with all texts of length <= 3, the others with length <= 2
    vector<string> shortTexts;
    for (auto& t : texts) if (t.size() <= 2) shortTexts.push_back(t);
    for (size_t ci = 0; ci < combos.size(); ci++) {
      auto& cb = combos[ci];
      const vector<string>& tx = ci < 3 ? texts : shortTexts;
      for (auto& t1 : tx) { if (stop) break; for (auto& t2 : tx) for (auto& t3 : tx) {
        FileSpec f{cb.mk, cb.ad, cb.id, t1, {FieldSpec{cb.kind, 'd', "f0", t2, t3}}};
        file(f);
      } }
    }
    R.sample("(b) texts: message comment, unit and field comment each over all " + std::to_string(texts.size()) + " strings over {a , ; ' \" blank}, e.g. " + fileText(FileSpec{0, 0, 2, "a,'", {FieldSpec{0, 'd', "f0", ";a", "',"}}}).substr(1));
  }
  R.write(A.out);
  return 0;
}
