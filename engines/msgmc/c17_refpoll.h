// C17 reference: what the statement "polling is starvation-free and proportional to priority" demands
// of a sequence of selections over a fixed set of messages with priorities p_i (unperturbed run).
// Written from the property statement and the documented algorithm (virtual-time / stride polling:
// every message owns a virtual time of its next poll, the smallest is polled and advanced by its
// priority; a message that newly gets a priority is placed at "last polled virtual time + priority").
//
// For that algorithm, with v = smallest virtual time and every o_i in [v, v + p_i] (which every
// selection, priority change and insertion of the documented algorithm preserves):
//  (W) before m is selected, another message j can only be selected at virtual times <= o_m, that is
//      at most floor(p_m/p_j)+1 times.  Bound used: sum_{j!=m}(ceil(p_m/p_j)+2)  (one spare per
//      message for ties).
//  (F) in a run of T selections with D = advance of the smallest virtual time, n_i = D/p_i + d_i with
//      |d_i| <= 1, hence with H = sum 1/p_j and e_i = T/(p_i H):
//      |n_i - e_i| <= 1 + (N-2)/(p_i H) <= N-1  <= 3 for N <= 4.   Bound used: 3.
//  (E) equal priorities: |n_i - n_j| <= 2.
// The bounds depend on the priorities only, never on the length of the history.
#ifndef VERIF_C17_REFPOLL_H_
#define VERIF_C17_REFPOLL_H_

#include <math.h>
#include <stdio.h>
#include <string>
#include <vector>

namespace c17 {

struct RefPoll {
  std::vector<int> prio;  // priorities of the polled messages (index = position in this vector)
  explicit RefPoll(const std::vector<int>& p) : prio(p) {}
  long sumPrio() const { long s = 0; for (int p : prio) s += p; return s; }
  long runLength() const { return 40 * sumPrio(); }
  long waitBound(size_t m) const {
    long b = 0;
    for (size_t j = 0; j < prio.size(); j++) {
      if (j == m) continue;
      b += (prio[m] + prio[j] - 1) / prio[j] + 2;
    }
    return b;
  }
  double expected(size_t i, long T) const {
    double h = 0;
    for (int p : prio) h += 1.0 / p;
    return T * (1.0 / prio[i]) / h;
  }
  static double freqTolerance() { return 3.0; }
  static long equalTolerance() { return 2; }

  struct Finding { std::string rule; size_t msg; std::string detail; };
  // seq: indexes into prio, or -1 for "no message returned"
  std::vector<Finding> judge(const std::vector<int>& seq) const {
    std::vector<Finding> out;
    char b[200];
    size_t N = prio.size();
    long T = static_cast<long>(seq.size());
    std::vector<long> n(N, 0), last(N, -1), maxGap(N, 0);
    for (long k = 0; k < T; k++) {
      int s = seq[k];
      if (s < 0 || s >= static_cast<int>(N)) {
        snprintf(b, sizeof(b), "selection %ld returned no pollable message", k);
        out.push_back({"null-selection", 0, b});
        return out;
      }
      long gap = k - last[s] - 1;
      if (gap > maxGap[s]) maxGap[s] = gap;
      last[s] = k;
      n[s]++;
    }
    for (size_t m = 0; m < N; m++) {
      long gap = T - 1 - last[m];
      if (gap > maxGap[m]) maxGap[m] = gap;
      if (N > 1 && maxGap[m] > waitBound(m)) {
        snprintf(b, sizeof(b), "message #%zu (priority %d) waited %ld selections, bound %ld", m, prio[m], maxGap[m], waitBound(m));
        out.push_back({"wait-bound", m, b});
      }
    }
    for (size_t i = 0; i < N; i++) {
      double e = expected(i, T);
      if (fabs(n[i] - e) > freqTolerance() + 1e-9) {
        snprintf(b, sizeof(b), "message #%zu (priority %d) selected %ld times in %ld selections, expected %.2f +-%.0f", i, prio[i], n[i], T, e, freqTolerance());
        out.push_back({"frequency", i, b});
      }
    }
    for (size_t i = 0; i < N; i++) for (size_t j = i + 1; j < N; j++) {
      if (prio[i] != prio[j]) continue;
      long d = n[i] - n[j];
      if (d < 0) d = -d;
      if (d > equalTolerance()) {
        snprintf(b, sizeof(b), "messages #%zu and #%zu (both priority %d) selected %ld and %ld times", i, j, prio[i], n[i], n[j]);
        out.push_back({"equal-priority", i, b});
      }
    }
    return out;
  }
};

// ---- self test: the ideal algorithm must satisfy the monitor from every state that keeps
// o_i in [v, v+p_i], with either tie-break; hand-made unfair schedulers must be caught ------------
inline bool refPollSelfTest(std::string* why) {
  static const int PR[4] = {1, 2, 3, 9};
  char b[200];
  for (int N = 1; N <= 4; N++) {
    int tuples = 1;
    for (int i = 0; i < N; i++) tuples *= 4;
    for (int t = 0; t < tuples; t++) {
      std::vector<int> p(N);
      int x = t;
      for (int i = 0; i < N; i++) { p[i] = PR[x % 4]; x /= 4; }
      RefPoll ref(p);
      long T = ref.runLength();
      // all start offsets o_i in [0, p_i] for N <= 3, the corners and the middle for N = 4
      std::vector<std::vector<long> > choices(N);
      for (int i = 0; i < N; i++) {
        if (N <= 3) { for (long o = 0; o <= p[i]; o++) choices[i].push_back(o); }
        else { choices[i].push_back(0); if (p[i] > 1) choices[i].push_back(p[i] / 2); choices[i].push_back(p[i]); }
      }
      std::vector<size_t> idx(N, 0);
      while (true) {
        std::vector<long> o0(N);
        bool hasMin = false;
        for (int i = 0; i < N; i++) { o0[i] = choices[i][idx[i]]; if (o0[i] == 0) hasMin = true; }
        if (hasMin) {
          for (int tie = 0; tie < 2; tie++) {
            std::vector<long> o = o0;
            std::vector<int> seq;
            for (long k = 0; k < T; k++) {
              int best = -1;
              for (int i = 0; i < N; i++) {
                if (best < 0 || o[i] < o[best] || (o[i] == o[best] && tie == 1)) best = i;
              }
              o[best] += p[best];
              seq.push_back(best);
            }
            std::vector<RefPoll::Finding> f = ref.judge(seq);
            if (!f.empty()) {
              snprintf(b, sizeof(b), "ideal algorithm rejected (N=%d tuple=%d tie=%d): %s %s", N, t, tie, f[0].rule.c_str(), f[0].detail.c_str());
              *why = b;
              return false;
            }
          }
        }
        int c = 0;
        while (c < N && ++idx[c] >= choices[c].size()) { idx[c] = 0; c++; }
        if (c >= N) break;
      }
    }
  }
  {  // negative: round robin ignoring priorities 1 and 9
    RefPoll ref({1, 9});
    std::vector<int> seq;
    for (long k = 0; k < ref.runLength(); k++) seq.push_back(static_cast<int>(k % 2));
    bool freq = false;
    for (auto& f : ref.judge(seq)) if (f.rule == "frequency") freq = true;
    if (!freq) { *why = "round robin over priorities 1,9 not rejected by the frequency rule"; return false; }
  }
  {  // negative: one message never selected
    RefPoll ref({2, 2, 3});
    std::vector<int> seq;
    for (long k = 0; k < ref.runLength(); k++) seq.push_back(static_cast<int>(k % 2));
    bool wait = false;
    for (auto& f : ref.judge(seq)) if (f.rule == "wait-bound") wait = true;
    if (!wait) { *why = "starved message not rejected by the wait-bound rule"; return false; }
  }
  {  // negative: burst - correct frequencies overall but a long gap
    RefPoll ref({1, 1});
    std::vector<int> seq;
    long T = ref.runLength();
    for (long k = 0; k < T; k++) seq.push_back(k < T / 2 ? 0 : 1);
    bool wait = false;
    for (auto& f : ref.judge(seq)) if (f.rule == "wait-bound") wait = true;
    if (!wait) { *why = "burst schedule not rejected by the wait-bound rule"; return false; }
  }
  {  // negative: equal priorities served 2:1
    RefPoll ref({3, 3});
    std::vector<int> seq;
    for (long k = 0; k < ref.runLength(); k++) seq.push_back(k % 3 == 2 ? 1 : 0);
    bool eq = false;
    for (auto& f : ref.judge(seq)) if (f.rule == "equal-priority") eq = true;
    if (!eq) { *why = "2:1 service of equal priorities not rejected"; return false; }
  }
  {  // negative: no message
    RefPoll ref({1, 2});
    std::vector<int> seq(10, 0);
    seq[3] = -1;
    bool nul = false;
    for (auto& f : ref.judge(seq)) if (f.rule == "null-selection") nul = true;
    if (!nul) { *why = "missing selection not rejected"; return false; }
  }
  return true;
}

}  // namespace c17

#endif  // VERIF_C17_REFPOLL_H_
