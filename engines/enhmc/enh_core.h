// enhmc core: the real EnhancedDevice on the real FileTransport as a copyable configuration, the
// consumption-pattern driver that calls Device::recv the way a client does, and the observation
// record (three projections).  Used by the stateless executor (mode A, also --replay-case) and by
// the state-merging explorer (mode B).
#ifndef VERIF_ENH_CORE_H_
#define VERIF_ENH_CORE_H_

#include <string>
#include <vector>
#include "enh_env.h"
#include "enh_ref.h"

namespace core {

using ebusd::ArbitrationState;
using ebusd::EnhancedDevice;
using ebusd::result_t;
using ebusd::symbol_t;

static const unsigned RECV_TIMEOUT = 10;   // ms, the ">0" timeout of the consumption patterns
static const uint8_t ARB_ADDR = 0x31;      // own master address used for startArbitration
static const uint8_t FLUSH1 = 0x70, FLUSH2 = 0x71;  // sentinel bytes of the flush suffix
static const int STEP_CAP = 96;            // recv calls per driver loop before "no progress"

// consumption patterns
enum { PAT_HANDLER = 0,  // recv(t); while RESULT_CONTINUE: recv(0)      (DirectProtocolHandler::run)
       PAT_ALWAYS_T = 1, // recv(t) only: RESULT_CONTINUE is ignored, buffered bytes wait for new data
       PAT_POLL0 = 2,    // recv(0) until it times out, then recv(t): the buffer is always drained first
       NPAT = 3 };
// start states
enum { S_INIT = 0,   // transport just opened: INIT sent, RESETTED not yet seen
       S_READY = 1,  // RESETTED(features=1) already received: info id 0 requested by the device
       S_LATE = 2,   // as S_READY but 10 s later: a RESETTED now is a self-reset of the adapter
       NSTART = 3 };

struct Mode {
  int start, arb, pat;
  bool san;  // C20 variant: longer well-formed suffix instead of the plain flush
};

// ---- observation ---------------------------------------------------------------------------
static const int MAXSYM = 24, MAXARB = 24, MAXNOTE = 40;
struct Obs {
  uint8_t nsyms, narbs, nnotes;
  bool closed;       // the implementation closed the transport (adapter self-reset)
  bool noProgress;   // step cap hit
  bool overflow;     // observation arrays too small (harness limit)
  uint8_t reopens;   // C20 variant: number of times the transport was re-opened after a close
  int8_t badResult;  // unexpected negative result other than timeout while the transport is open
  int8_t closeSyms;  // closed: number of symbols returned before the closing call
  int16_t closingSym;  // closed: symbol returned by the closing call or -1
  uint8_t closeArbs;
  uint8_t arbBad;    // a running arbitration ended with error (2) / timeout (5) before any byte that may cause it had been read
  uint16_t syms[MAXSYM];
  uint8_t arbs[MAXARB];
  uint16_t notes[MAXNOTE];
  void clear() { memset(this, 0, sizeof(*this)); closingSym = -1; }
  bool sameSyms(const Obs& o) const { return nsyms == o.nsyms && !memcmp(syms, o.syms, nsyms * sizeof(syms[0])); }
  bool sameArbs(const Obs& o) const { return narbs == o.narbs && !memcmp(arbs, o.arbs, narbs); }
  bool sameNotes(const Obs& o) const { return nnotes == o.nnotes && !memcmp(notes, o.notes, nnotes * sizeof(notes[0])); }
  bool same(const Obs& o) const {
    return closed == o.closed && reopens == o.reopens && noProgress == o.noProgress && badResult == o.badResult && closeSyms == o.closeSyms &&
           closingSym == o.closingSym && closeArbs == o.closeArbs && arbBad == o.arbBad && sameSyms(o) && sameArbs(o) && sameNotes(o);
  }
};

// text -> id without building a std::string for texts seen before
inline int internFast(bool error, const char* message) {
  static int table[1024];  // id+1, open addressing on the text hash
  size_t len = strlen(message);
  uint64_t h = 1469598103934665603ULL ^ (error ? 0x45 : 0x49);
  for (size_t i = 0; i < len; i++) { h ^= static_cast<unsigned char>(message[i]); h *= 1099511628211ULL; }
  for (unsigned probe = 0; probe < 1024; probe++) {
    int& slot = table[(h + probe) & 1023];
    if (slot == 0) {
      std::string s = error ? "E:" : "I:";
      s += message;
      int id = env::internText(s);
      if (env::g_texts.size() < 700) slot = id + 1;
      return id;
    }
    const std::string& t = env::g_texts[slot - 1];
    if (t.size() == len + 2 && t[0] == (error ? 'E' : 'I') && !memcmp(t.data() + 2, message, len)) return slot - 1;
  }
  std::string s = error ? "E:" : "I:";
  s += message;
  return env::internText(s);
}

// status listener writing into the current observation
class ObsRecorder : public ebusd::DeviceListener {
 public:
  Obs* obs = nullptr;
  int closedAt = -1;
  void notifyDeviceData(const symbol_t*, size_t, bool) override {}
  void notifyDeviceStatus(bool error, const char* message) override {
    if (!obs) return;
    if (env::g_closed && closedAt < 0) closedAt = obs->nnotes;
    if (obs->nnotes >= MAXNOTE) { obs->overflow = true; return; }
    obs->notes[obs->nnotes++] = static_cast<uint16_t>(internFast(error, message));
  }
};
static ObsRecorder g_rec;

// ---- the implementation objects as a value --------------------------------------------------
// Objects live in pooled slots (placement new) so that copying a configuration costs no heap
// traffic; copies are made with the implicit member-wise copy constructors of the real classes.
struct Slot {
  alignas(16) unsigned char dev[sizeof(EnhancedDevice)];
  alignas(16) unsigned char tr[sizeof(env::SimTransport)];
  Slot* next;
};
static Slot* g_freeSlots = nullptr;
struct Impl {
  env::SimTransport* t = nullptr;
  EnhancedDevice* d = nullptr;
  Slot* slot = nullptr;
};
static uint64_t g_clones = 0;
inline Slot* takeSlot() {
  Slot* s = g_freeSlots;
  if (s) { g_freeSlots = s->next; return s; }
  return new Slot();
}
inline Impl freshImpl() {
  Impl i;
  i.slot = takeSlot();
  // members the constructors leave uninitialised (m_infoBuf, termios padding ...) read as zero: the
  // configuration key compares them, stale pool content would only prevent merging and make counts vary
  memset(i.slot->dev, 0, sizeof(i.slot->dev));
  memset(i.slot->tr, 0, sizeof(i.slot->tr));
  i.t = new (i.slot->tr) env::SimTransport();
  i.d = new (i.slot->dev) EnhancedDevice(i.t);
  i.d->setListener(&g_rec);
  return i;
}
inline Impl cloneImpl(const Impl& o) {
  Impl i;
  i.slot = takeSlot();
  i.t = new (i.slot->tr) env::SimTransport(*o.t);
  i.d = new (i.slot->dev) EnhancedDevice(*o.d);  // implicit member-wise copy: picks up every field
  i.d->m_transport = i.t;
  i.t->m_listener = static_cast<ebusd::TransportListener*>(i.d);
  g_clones++;
  return i;
}
inline void dropImpl(Impl* i) {
  if (i->d) {
    i->d->m_transport = nullptr;  // the transport lives in the slot, ~BaseDevice must not delete it
    i->d->~EnhancedDevice();
    i->t->~SimTransport();        // keeps the sentinel "open": no close(), no notification
    i->slot->next = g_freeSlots;
    g_freeSlots = i->slot;
  }
  i->d = nullptr;
  i->t = nullptr;
  i->slot = nullptr;
}

// ---- a configuration: implementation + environment clock + driver state + observation --------
struct Cfg {
  Impl impl;
  uint64_t clock = env::BASE_MS;
  bool lastCont = false;     // last recv returned RESULT_CONTINUE
  bool lastZeroTmo = true;   // last call was recv(0) and timed out (or nothing was called yet)
  int lastResult = 0;
  bool arbRunning = false;   // startArbitration was called and no terminal state has been reported yet
  env::ReadMonitor mon = {0, 0, 0};  // reference scanner state over the bytes read so far
  Obs obs;
  // label of the partition that produced it (for the replay case)
  uint32_t cuts = 0, gaps = 0;  // bit j: boundary between stream byte j-1 and j is a chunk boundary / with timeout
  int delivered = 0;
  bool trailingGap = false;
};
inline Cfg cloneCfg(const Cfg& c) {
  Cfg n = c;
  n.impl = cloneImpl(c.impl);
  return n;
}

static uint64_t g_calls = 0;  // Device::recv calls made (implementation steps)
static bool g_reopenOnClose = false;  // C20 variant

// make c the configuration the environment stubs act on
inline void activate(Cfg* c) {
  env::g_nowMs = c->clock;
  env::g_closed = false;
  env::g_starved = false;
  g_rec.obs = &c->obs;
  g_rec.closedAt = -1;
  env::g_mon = c->mon;
}
inline void deactivate(Cfg* c) {
  c->clock = env::g_nowMs;
  c->mon = env::g_mon;
}

inline void call(Cfg* c, unsigned tmo) {
  Obs& o = c->obs;
  ArbitrationState st = ebusd::as_none;  // the protocol handler passes a fresh as_none to every recv
  symbol_t v = 0;
  uint8_t symsBefore = o.nsyms, arbsBefore = o.narbs;
  result_t r = c->impl.d->recv(tmo, &v, &st);
  g_calls++;
  int sym = -1;
  if (r >= ebusd::RESULT_OK) {
    sym = v | (st == ebusd::as_won ? ref::WON : st == ebusd::as_lost ? ref::LOST : 0);
  }
  c->lastResult = r;
  c->lastCont = r == ebusd::RESULT_CONTINUE;
  c->lastZeroTmo = tmo == 0 && r < 0;
  bool closedThisCall = env::g_closed;
  if (env::g_closed && g_reopenOnClose) {
    // C20 variant: behave like the protocol handler, which re-opens an invalid device and goes on
    env::g_closed = false;
    g_rec.closedAt = -1;
    if (o.reopens < 255) o.reopens++;
    c->impl.t->open();
  } else if (env::g_closed) {
    o.closed = true;
    o.closeSyms = static_cast<int8_t>(symsBefore);
    o.closeArbs = arbsBefore;
    o.closingSym = static_cast<int16_t>(sym);
    if (g_rec.closedAt >= 0 && g_rec.closedAt < o.nnotes) o.nnotes = static_cast<uint8_t>(g_rec.closedAt);
    return;
  }
  if (sym >= 0) {
    if (o.nsyms >= MAXSYM) o.overflow = true; else o.syms[o.nsyms++] = static_cast<uint16_t>(sym);
  }
  if (st == ebusd::as_won || st == ebusd::as_lost || st == ebusd::as_error || st == ebusd::as_timeout) {
    if (o.narbs >= MAXARB) o.overflow = true; else o.arbs[o.narbs++] = static_cast<uint8_t>(st);
    // synchronous monitor: only a reset/error/undefined/malformed item that has been READ may cancel a
    // running arbitration, and a timeout needs at least one SYN symbol read
    if (c->arbRunning && !o.arbBad) {
      if (st == ebusd::as_error && !env::g_mon.sawCause) o.arbBad = static_cast<uint8_t>(st);
      if (st == ebusd::as_timeout && !env::g_mon.sawSyn) o.arbBad = static_cast<uint8_t>(st);
    }
    c->arbRunning = false;
  }
  if (r < 0 && r != ebusd::RESULT_ERR_TIMEOUT && !closedThisCall) o.badResult = static_cast<int8_t>(r);
}

inline unsigned nextTimeout(const Cfg& c, int pat) {
  switch (pat) {
    case PAT_HANDLER: return c.lastCont ? 0 : RECV_TIMEOUT;
    case PAT_ALWAYS_T: return RECV_TIMEOUT;
    default: return c.lastZeroTmo ? RECV_TIMEOUT : 0;
  }
}
inline bool stopped(const Cfg& c) { return c.obs.closed || c.obs.badResult || c.obs.noProgress; }

// consume what is queued on the descriptor the way the pattern does; stops right before a recv(t)
// that would find the descriptor empty.  Returns true when a poll inside a call found it empty
// (i.e. one receive timeout elapsed inside the loop).
inline bool runLoop(Cfg* c, int pat) {
  bool starved = false;
  int steps = 0;
  while (!stopped(*c)) {
    unsigned tmo = nextTimeout(*c, pat);
    if (tmo > 0 && env::fdEmpty()) break;
    env::g_starved = false;
    call(c, tmo);
    starved = starved || env::g_starved;
    if (++steps > STEP_CAP) { c->obs.noProgress = true; break; }
  }
  return starved;
}
// one receive timeout with nothing arriving (precondition: descriptor empty, next call is recv(t))
inline void gap(Cfg* c, int pat) {
  if (stopped(*c)) return;
  call(c, RECV_TIMEOUT);
  runLoop(c, pat);
}
// take everything out of the transport buffer, then let one more timeout pass
// A recv(0) that returns a timeout is not the end: an item without a symbol (e.g. an undefined command,
// of which the implementation consumes only the first byte per call) was possibly consumed.  The drain
// goes on until a call neither returns a symbol nor shortens the transport buffer (harness control only,
// read through -fno-access-control; stopping too early could only show up as a false "lost" alarm).
inline void drain(Cfg* c) {
  for (int i = 0; i < STEP_CAP && !stopped(*c); i++) {
    size_t before = c->impl.t->m_bufLen;
    call(c, 0);
    if (c->lastResult < 0 && c->impl.t->m_bufLen >= before) break;
    if (i == STEP_CAP - 1) c->obs.noProgress = true;
  }
  if (!stopped(*c)) call(c, RECV_TIMEOUT);
}
inline void pushFlush(const Mode& m) {
  static const uint8_t suffix[3] = {0x55, 0xc6, 0xaa};  // plain 55, RECEIVED aa
  uint8_t b = FLUSH1;
  env::fdPush(&b, 1);
  if (m.san) env::fdPush(suffix, 3);
  b = FLUSH2;
  env::fdPush(&b, 1);
}
// C20 variant: the judged suffix arrives after everything before it has been processed (input that was
// already buffered when the implementation closed the transport on an adapter reset is discarded by
// design and is not "subsequent" input): a second, identical suffix after the drain
inline void secondSuffix(Cfg* c, const Mode& m) {
  if (!m.san || stopped(*c)) return;
  pushFlush(m);
  runLoop(c, m.pat);
  drain(c);
}
// bytes the reference sees after the stream
inline void appendFlush(const Mode& m, std::vector<uint8_t>* s) {
  s->push_back(FLUSH1);
  if (m.san) { s->push_back(0x55); s->push_back(0xc6); s->push_back(0xaa); }
  s->push_back(FLUSH2);
}

// fresh objects brought into the start state of the mode; the observation starts empty afterwards
inline Cfg initialCfg(const Mode& m) {
  Cfg c;
  env::resetAll();
  c.obs.clear();
  c.impl = freshImpl();
  activate(&c);
  c.impl.t->open();  // real FileTransport::open -> openInternal -> notifyTransportStatus -> INIT request
  if (m.start >= S_READY) {
    static const uint8_t hello[2] = {0xc0, 0x81};  // RESETTED, features: additional infos
    env::fdPush(hello, 2);
    call(&c, RECV_TIMEOUT);
    if (m.start == S_LATE) env::g_nowMs += 10000;
  }
  if (m.arb) c.impl.d->startArbitration(ARB_ADDR);
  deactivate(&c);
  c.arbRunning = m.arb != 0;
  c.mon = env::ReadMonitor{0, 0, 0};  // the prelude is not part of the judged stream
  c.obs.clear();
  c.lastCont = false;
  c.lastZeroTmo = true;
  c.lastResult = 0;
  return c;
}

// canonical key of a configuration: every field of the device and of the transport (read through
// -fno-access-control) plus the observation so far.  The sub-second part of the clock is left out:
// the code under test only uses time() in whole seconds, and every run checks that less than one
// second of virtual time passes (see clockOk).
struct KeyBuf {
  size_t n = 0;
  char b[1024];
  void put(const void* p, size_t k) { if (n + k <= sizeof(b)) { memcpy(b + n, p, k); n += k; } else { n = sizeof(b) + 1; } }
  void puts(const std::string& s) { uint32_t k = static_cast<uint32_t>(s.size()); put(&k, 4); put(s.data(), s.size()); }
  bool ok() const { return n <= sizeof(b); }
  bool equals(const std::string& s) const { return s.size() == n && !memcmp(s.data(), b, n); }
  bool equals(const KeyBuf& o) const { return o.n == n && !memcmp(o.b, b, n); }
};
inline void implKey(const Cfg& c, KeyBuf* k) {
  const EnhancedDevice* d = c.impl.d;
  const env::SimTransport* t = c.impl.t;
  k->put(&d->m_arbitrationMaster, sizeof(d->m_arbitrationMaster));
  k->put(&d->m_arbitrationCheck, sizeof(d->m_arbitrationCheck));
  k->put(&d->m_resetTime, sizeof(d->m_resetTime));
  k->put(&d->m_resetRequested, 1);
  k->put(&d->m_extraFeatures, 1);
  k->put(&d->m_infoReqTime, sizeof(d->m_infoReqTime));
  k->put(&d->m_infoLen, sizeof(d->m_infoLen));
  k->put(&d->m_infoPos, sizeof(d->m_infoPos));
  k->put(d->m_infoBuf, sizeof(d->m_infoBuf));
  k->puts(d->m_enhInfoVersion);
  k->put(&d->m_enhInfoIsWifi, 1);
  k->put(&d->m_enhInfoIdRequestNeeded, 1);
  k->put(&d->m_enhInfoIdRequested, 1);
  k->puts(d->m_enhInfoId);
  k->puts(d->m_enhInfoTemperature);
  k->puts(d->m_enhInfoSupplyVoltage);
  k->puts(d->m_enhInfoBusVoltage);
  k->put(&t->m_fd, sizeof(t->m_fd));
  k->put(&t->m_bufLen, sizeof(t->m_bufLen));
  if (t->m_buffer && t->m_bufLen <= t->m_bufSize) k->put(t->m_buffer, t->m_bufLen);
  uint64_t sec = c.clock / 1000;
  k->put(&sec, 8);
}
inline void cfgKey(const Cfg& c, KeyBuf* k) {
  k->n = 0;
  implKey(c, k);
  const Obs& o = c.obs;
  uint8_t flags[8] = {o.closed, o.noProgress, static_cast<uint8_t>(o.badResult), static_cast<uint8_t>(o.closeSyms),
                      static_cast<uint8_t>(o.closingSym & 0xff), static_cast<uint8_t>(o.closingSym >> 8),
                      static_cast<uint8_t>(o.closeArbs | (o.arbBad << 5)),
                      static_cast<uint8_t>((c.lastCont ? 1 : 0) | (c.lastZeroTmo ? 2 : 0) | (o.reopens << 2))};
  k->put(flags, 8);
  k->put(&c.mon, sizeof(c.mon));
  k->put(&o.nsyms, 1);
  k->put(o.syms, o.nsyms * sizeof(o.syms[0]));
  k->put(&o.narbs, 1);
  k->put(o.arbs, o.narbs);
  k->put(&o.nnotes, 1);
  k->put(o.notes, o.nnotes * sizeof(o.notes[0]));
}

// ---- a stream with its partition ---------------------------------------------------------------
struct Part {
  std::vector<uint8_t> s;
  uint32_t cuts = 0, gaps = 0;
  bool trailingGap = false;
};
// "55c0-81_31" : '-' chunk boundary, '_' chunk boundary followed by one receive timeout,
// a trailing '_' = one receive timeout between the stream and the flush suffix
inline std::string partText(const Part& p) {
  std::string o;
  char b[4];
  for (size_t i = 0; i < p.s.size(); i++) {
    if (i && (p.cuts >> i & 1)) o += (p.gaps >> i & 1) ? '_' : '-';
    snprintf(b, sizeof(b), "%02x", p.s[i]);
    o += b;
  }
  if (p.trailingGap) o += '_';
  return o;
}
inline bool parsePart(const std::string& t, Part* p) {
  p->s.clear();
  p->cuts = p->gaps = 0;
  p->trailingGap = false;
  size_t i = 0;
  while (i < t.size()) {
    if (t[i] == '-' || t[i] == '_') {
      if (i + 1 >= t.size()) {
        if (t[i] != '_') return false;
        p->trailingGap = true;
        i++;
        continue;
      }
      if (p->s.empty() || p->s.size() >= 30) return false;
      p->cuts |= 1u << p->s.size();
      if (t[i] == '_') p->gaps |= 1u << p->s.size();
      i++;
      continue;
    }
    if (i + 1 >= t.size() || !isxdigit(t[i]) || !isxdigit(t[i + 1])) return false;
    p->s.push_back(static_cast<uint8_t>(strtoul(t.substr(i, 2).c_str(), nullptr, 16)));
    i += 2;
  }
  return p->s.size() <= 30;
}

// ---- mode A: one execution from scratch -----------------------------------------------------------
inline Obs runStateless(const Mode& m, const Part& p, bool* clockOk = nullptr) {
  Cfg c = initialCfg(m);
  uint64_t startClock = c.clock;
  activate(&c);
  int n = static_cast<int>(p.s.size());
  int pos = 0;
  bool flushed = false;
  while (pos < n && !stopped(c)) {
    // queue all chunks up to the next boundary with a timeout
    bool endsWithGap = false;
    while (pos < n) {
      int e = pos + 1;
      while (e < n && !(p.cuts >> e & 1)) e++;
      env::fdPush(p.s.data() + pos, e - pos);
      bool g = e < n && (p.gaps >> e & 1);
      pos = e;
      if (g) { endsWithGap = true; break; }
    }
    if (pos >= n && !p.trailingGap) {
      pushFlush(m);
      flushed = true;
      runLoop(&c, m.pat);
    } else {
      (void)endsWithGap;
      bool starved = runLoop(&c, m.pat);
      if (!starved) gap(&c, m.pat);
    }
  }
  if (!flushed && !stopped(c)) {
    if (n == 0 && p.trailingGap) gap(&c, m.pat);
    pushFlush(m);
    runLoop(&c, m.pat);
  }
  drain(&c);
  secondSuffix(&c, m);
  deactivate(&c);
  if (clockOk) *clockOk = c.clock - startClock < 900;
  env::fdClear();
  g_rec.obs = nullptr;
  Obs o = c.obs;
  dropImpl(&c.impl);
  return o;
}

}  // namespace core

#endif  // VERIF_ENH_CORE_H_
