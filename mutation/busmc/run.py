#!/usr/bin/env python3
"""Run the planned quick checks for the given mutants (strictly sequential)."""
import os, re, subprocess, sys, time

WT = "/tmp/mutA_wt"
OUT = "/verif/mutation/busmc"
LOGS = "/tmp/mutA/logs"
RES = os.path.join(OUT, "results.tsv")
os.makedirs(LOGS, exist_ok=True)

plan = {}
order = []
for line in open("/tmp/mutA/plan.tsv"):
    p = line.rstrip("\n").split("\t")
    if len(p) < 5:
        continue
    plan[p[0]] = p
    order.append(p[0])

ids = sys.argv[1:] or order
override = {}
# allow "m17:C01,C20" to override the check list
ids2 = []
for a in ids:
    if ":" in a:
        i, c = a.split(":")
        override[i] = c.split(",")
        ids2.append(i)
    else:
        ids2.append(a)

if not os.path.exists(RES):
    with open(RES, "w") as f:
        f.write("id\tfile\tfunction\tchange\tcheck\texit\tverdict\texhaustive\twall_s\tfirst_signature\n")

for id in ids2:
    p = plan[id]
    checks = override.get(id) or p[4].split()
    subprocess.run(["git", "-C", WT, "checkout", "--", "."], check=True)
    r = subprocess.run(["git", "-C", WT, "apply", os.path.join(OUT, id + ".diff")])
    if r.returncode != 0:
        print(id, "APPLY FAILED"); continue
    for chk in checks:
        t0 = time.time()
        env = dict(os.environ, VERIF_REPO=WT)
        r = subprocess.run(["nice", "-n", "15", "bin/vcheck", chk, "quick"], cwd="/verif", env=env,
                           stdout=subprocess.PIPE, stderr=subprocess.PIPE, text=True, errors="replace")
        wall = time.time() - t0
        with open(os.path.join(LOGS, "%s_%s.log" % (id, chk)), "w") as f:
            f.write(r.stdout + "\n--- stderr\n" + r.stderr[-20000:])
        sig = ""
        m = re.search(r"^\s+signature: (.*)$", r.stdout, re.M)
        if m:
            sig = m.group(1).strip()
        ex = ""
        m = re.search(r"exhaustive=(\w+)", r.stdout)
        if m:
            ex = m.group(1)
        if r.returncode == 1 and "VIOLATION" in r.stdout:
            verdict = "caught"
        elif r.returncode == 0:
            verdict = "survived"
        else:
            verdict = "harness-error"
            m = re.search(r"HARNESS-ERROR.*", r.stdout + r.stderr)
            sig = (m.group(0)[:300] if m else ("exit %d: " % r.returncode) + (r.stderr[-300:].replace("\n", " | ")))
        with open(RES, "a") as f:
            f.write("\t".join([id, p[1], p[2], p[3], chk, str(r.returncode), verdict, ex, "%.0f" % wall, sig.replace("\t", " ")]) + "\n")
        print("%s %s exit=%d %s exhaustive=%s wall=%.0fs %s" % (id, chk, r.returncode, verdict, ex, wall, sig[:200]), flush=True)
        if verdict == "caught":
            break
subprocess.run(["git", "-C", WT, "checkout", "--", "."], check=True)
