// C15 (command part): the `answer` client command registers exactly the answer the client described.
//
// busmc explores how the handler behaves for a given table of registered answers; this harness closes the
// other half of "the telegrams it was configured for": every `answer` command line of a bounded grammar is
// pushed through the real RequestImpl::add/split and MainLoop::decodeRequest/executeAnswer, and the call that
// reaches ProtocolHandler::setAnswer (recorded by FakeProtocol) is compared with a reference reading of the
// command's own usage text:
//
//   answer [-m] [-s QQ] [-d ZZ] PBSB[ID]* [DD]*
//     -m     destination is a master            -s QQ  source address to limit to
//     -d ZZ  override destination address (instead of own address)
//     PB SB  primary/secondary command byte     ID     further ID bytes (setAnswer: at most 4)
//     DD     data bytes (only length used with -m)
//
// Reference: the line is valid iff every -s value is a two-digit hex master address, every -d value a two-digit
// hex address other than SYN/ESC, PBSB[ID] an even-length hex string of 2..6 bytes, DD absent or an even-length
// hex string, and nothing follows.  A valid line registers exactly once: source = QQ (SYN = any when absent),
// destination = ZZ, or without -d the own master address with -m and the own slave address otherwise, PB, SB,
// the ID bytes, and the answer NN DD.. with NN = number of DD bytes.  An invalid line registers nothing; when the
// command is not enabled (hex commands off or the handler not answering) nothing is registered either.
// Three-valued: DD of 16 bytes (legal NN, but refused by the implementation), one-digit addresses, hex strings
// of odd length, `-d fe`, and `-m` together with a slave `-d` are left open.
#include <algorithm>
#include "mainloop_fixture.h"

using namespace ebusd;
using namespace fx;
using std::string;
using std::vector;

static vp::Result R;

struct Opt { char kind; string val; };  // kind: 'm', 's', 'd'

struct Case {
  vector<Opt> opts;
  string id;       // "" = missing
  string dd;       // "" = missing
  bool extra = false;
  int gate = 0;    // 0 enabled, 1 hex commands disabled, 2 handler not answering, 3 setAnswer refuses
};

static string caseString(const Case& c) {
  string s = "o=";
  for (auto& o : c.opts) { s += o.kind; if (o.kind != 'm') s += ":" + o.val; s += ","; }
  s += ";id=" + c.id + ";dd=" + c.dd + ";x=" + (c.extra ? "1" : "0") + ";g=" + std::to_string(c.gate);
  return s;
}
static Case parseCaseString(const string& s) {
  Case c;
  auto m = vp::parseCase(s);
  string o = m["o"];
  size_t pos = 0;
  while (pos < o.size()) {
    size_t e = o.find(',', pos);
    if (e == string::npos) e = o.size();
    string t = o.substr(pos, e - pos);
    if (!t.empty()) {
      Opt op;
      op.kind = t[0];
      if (t.size() > 2) op.val = t.substr(2);
      c.opts.push_back(op);
    }
    pos = e + 1;
  }
  c.id = m["id"]; c.dd = m["dd"]; c.extra = m["x"] == "1"; c.gate = atoi(m["g"].c_str());
  return c;
}
static string lineOf(const Case& c) {
  string l = "answer";
  for (auto& o : c.opts) {
    l += string(" -") + o.kind;
    if (o.kind != 'm') l += " " + o.val;
  }
  if (!c.id.empty()) l += " " + c.id;
  if (!c.dd.empty()) l += " " + c.dd;
  if (c.extra) l += " ff";
  return l;
}

// ---- reference -----------------------------------------------------------------------------------
static bool isHexStr(const string& s) {
  if (s.empty()) return false;
  for (char ch : s) if (!isxdigit(static_cast<unsigned char>(ch))) return false;
  return true;
}
static bool refMaster(unsigned a) {
  auto nib = [](unsigned n) { return n == 0 || n == 1 || n == 3 || n == 7 || n == 15; };
  return nib(a >> 4) && nib(a & 15);
}
enum Verdict { V_VALID, V_INVALID, V_OPEN };
struct Expect { Verdict v = V_VALID; string why; string record; };

static Expect reference(const Case& c) {
  Expect e;
  auto bad = [&](const string& w) { if (e.v != V_INVALID) { e.v = V_INVALID; e.why = w; } };
  auto open = [&](const string& w) { if (e.v == V_VALID) { e.v = V_OPEN; e.why = w; } };
  unsigned src = 0xaa, dst = 0x100;
  bool m = false;
  for (auto& o : c.opts) {
    if (o.kind == 'm') { m = true; continue; }
    if (!isHexStr(o.val) || o.val.size() > 2) { bad(string("bad-") + o.kind + "-value"); continue; }
    if (o.val.size() < 2) { open("one-digit-address"); continue; }
    unsigned a = static_cast<unsigned>(strtoul(o.val.c_str(), nullptr, 16));
    if (o.kind == 's') {
      if (!refMaster(a)) bad("source-not-master"); else src = a;
    } else {
      if (a == 0xaa || a == 0xa9) bad("destination-syn-esc");
      else if (a == 0xfe) open("destination-broadcast");
      else dst = a;
    }
  }
  if (c.id.empty()) bad("no-id");
  else if (!isHexStr(c.id)) bad("id-not-hex");
  else if (c.id.size() % 2) open("id-odd-length");
  else if (c.id.size() / 2 < 2) bad("id-too-short");
  else if (c.id.size() / 2 > 6) bad("id-too-long");
  if (!c.dd.empty()) {
    if (!isHexStr(c.dd)) bad("data-not-hex");
    else if (c.dd.size() % 2) open("data-odd-length");
    else if (c.dd.size() / 2 > 16) bad("data-too-long");
    else if (c.dd.size() / 2 == 16) open("data-16-bytes");
  }
  if (c.extra) bad("trailing-argument");
  if (e.v == V_INVALID) return e;
  if (dst == 0x100) dst = m ? 0x31 : 0x36;
  else if (m && !refMaster(dst)) open("-m-with-slave-destination");
  if (e.v == V_OPEN) return e;
  char b[32];
  snprintf(b, sizeof(b), "%02x,%02x,", src, dst);
  string idl = c.id;
  for (auto& ch : idl) ch = static_cast<char>(tolower(ch));
  string ddl = c.dd;
  for (auto& ch : ddl) ch = static_cast<char>(tolower(ch));
  snprintf(b + strlen(b), sizeof(b) - strlen(b), "%s,%s,", idl.substr(0, 2).c_str(), idl.substr(2, 2).c_str());
  char nn[8];
  snprintf(nn, sizeof(nn), "%02x", static_cast<unsigned>(ddl.size() / 2));
  e.record = string(b) + idl.substr(4) + "," + nn + ddl;
  return e;
}

// ---- universe ------------------------------------------------------------------------------------
static const char* SVALS[] = {"10", "ff", "03", "08", "fe", "aa", "zz", "100", "1", "F7"};
static const char* DVALS[] = {"08", "10", "36", "31", "fe", "aa", "a9", "zz", "100", "f", "EC"};
static const char* IDS[] = {"", "b5", "b509", "b5090d", "b5090d01", "b5090d0102", "b5090d010203", "b5090d01020304",
                            "b50", "b5zz", "B509A9AA", "0704", "fe01"};
static const char* DDS[] = {"", "00", "0102", "a9aa55", "000102030405060708090a0b0c0d0e",
                            "000102030405060708090a0b0c0d0e0f", "000102030405060708090a0b0c0d0e0f10", "012", "0x", "0A"};

static vector<vector<Opt>> optionLists() {
  vector<vector<Opt>> out;
  out.push_back({});
  vector<char> kinds = {'m', 's', 'd'};
  // every permutation of every non-empty subset of {m, s, d}, with every value combination
  for (int mask = 1; mask < 8; mask++) {
    vector<char> sub;
    for (int i = 0; i < 3; i++) if (mask & (1 << i)) sub.push_back(kinds[i]);
    std::sort(sub.begin(), sub.end());
    do {
      vector<vector<Opt>> cur = {{}};
      for (char k : sub) {
        vector<vector<Opt>> next;
        for (auto& p : cur) {
          if (k == 'm') { auto q = p; q.push_back({'m', ""}); next.push_back(q); }
          else if (k == 's') for (auto v : SVALS) { auto q = p; q.push_back({'s', v}); next.push_back(q); }
          else for (auto v : DVALS) { auto q = p; q.push_back({'d', v}); next.push_back(q); }
        }
        cur = next;
      }
      out.insert(out.end(), cur.begin(), cur.end());
    } while (std::next_permutation(sub.begin(), sub.end()));
  }
  return out;
}

// ---- one case ------------------------------------------------------------------------------------
static World* g_world[2] = {nullptr, nullptr};  // [0] hex commands enabled, [1] disabled

static World* world(bool hexEnabled) {
  int i = hexEnabled ? 0 : 1;
  if (!g_world[i]) {
    WorldConfig wc;
    wc.csv = "# type,circuit,name,comment,qq,zz,pbsb,id,field,part,type,divisor,unit,comment\nr,c,m,,,08,b509,0d,f,,UCH,,,\n";
    wc.enableHex = hexEnabled;
    wc.deleteData = (g_world[0] == nullptr && g_world[1] == nullptr);
    g_world[i] = new World(wc, procTmpDir() + (hexEnabled ? "/h1" : "/h0"));
  }
  return g_world[i];
}

static string optShape(const Case& c) {
  string s;
  for (auto& o : c.opts) s += o.kind;
  return s.empty() ? "none" : s;
}

// returns "" or the violated rule; log receives the observation
static string runCase(const Case& c, string* log, string* cls) {
  World* w = world(c.gate != 1);
  w->protocol->answering = c.gate != 2;
  w->protocol->acceptAnswer = c.gate != 3;
  w->protocol->answers.clear();
  size_t sentBefore = w->protocol->sent.size();
  string user;
  Reply r = tcp(w, lineOf(c), &user);
  R.transitions++;
  Expect e = reference(c);
  *cls = optShape(c) + "/" + (e.v == V_VALID ? "valid" : e.why);
  string obs;
  for (auto& a : w->protocol->answers) obs += "[" + a + "]";
  if (log) {
    *log += "line: " + lineOf(c) + "\n";
    *log += string("gate: ") + (c.gate == 0 ? "enabled" : c.gate == 1 ? "hex commands disabled" : c.gate == 2 ? "handler not answering" : "setAnswer refuses") + "\n";
    *log += string("reference: ") + (e.v == V_VALID ? "valid, registers " + e.record : e.v == V_INVALID ? "invalid (" + e.why + "), registers nothing" : "left open (" + e.why + ")") + "\n";
    *log += "observed registrations: " + (obs.empty() ? string("none") : obs) + "\n";
    *log += "reply: " + esc(r.text) + "\n";
  }
  if (w->protocol->sent.size() != sentBefore) return "sent-to-bus";
  if (w->protocol->answers.size() > 1) return "registered-twice";
  if (c.gate == 1 || c.gate == 2) {
    if (!w->protocol->answers.empty()) return "registered-when-disabled";
    return "";
  }
  if (e.v == V_OPEN) return "";
  if (e.v == V_INVALID) {
    if (!w->protocol->answers.empty()) return "registered-invalid";
    return "";
  }
  if (w->protocol->answers.empty()) return "not-registered";
  if (w->protocol->answers[0] != e.record) return "wrong-registration";
  bool errorReply = r.ret != RESULT_OK || r.text.compare(0, 3, "ERR") == 0;
  if (c.gate == 3 && !errorReply) return "refusal-not-reported";
  if (c.gate == 0 && errorReply) return "error-reply-for-registered";
  return "";
}

int main(int argc, char** argv) {
  vp::Args A = vp::parseArgs(argc, argv);
  if (A.replay) {
    Case c = parseCaseString(A.replayCase);
    string log, cls;
    string rule = runCase(c, &log, &cls);
    printf("%s", log.c_str());
    printf("verdict: %s\n", rule.empty() ? "ok" : rule.c_str());
    return rule.empty() ? 0 : 1;
  }
  R.setDeadline(A);
  // reference self-test on hand cases
  {
    Case c; c.id = "b5090d"; c.dd = "0102";
    if (reference(c).record != "aa,36,b5,09,0d,020102") { fprintf(stderr, "reference self-test 1: %s\n", reference(c).record.c_str()); return 3; }
    c.opts = {{'m', ""}, {'s', "10"}};
    if (reference(c).record != "10,31,b5,09,0d,020102") { fprintf(stderr, "reference self-test 2\n"); return 3; }
    c.opts = {{'d', "08"}}; c.dd = "";
    if (reference(c).record != "aa,08,b5,09,0d,00") { fprintf(stderr, "reference self-test 3\n"); return 3; }
    c.opts = {{'s', "08"}};
    if (reference(c).v != V_INVALID) { fprintf(stderr, "reference self-test 4\n"); return 3; }
  }
  auto opts = optionLists();
  uint64_t idx = 0;
  bool stop = false;
  for (auto& ol : opts) {
    for (auto id : IDS) {
      for (auto dd : DDS) {
        for (int extra = 0; extra < 2 && !stop; extra++) {
          for (int gate = 0; gate < 4; gate++) {
            // the gates other than "enabled" only on the lines without a trailing argument
            if (gate != 0 && extra) continue;
            if (static_cast<int>(idx++ % A.nparts) != A.part) continue;
            if ((idx & 0xff) == 0 && R.expired()) { stop = true; break; }
            Case c;
            c.opts = ol; c.id = id; c.dd = dd; c.extra = extra != 0; c.gate = gate;
            // positional arguments: a later one can only be written when the earlier ones are present
            if (c.id.empty() && (!c.dd.empty() || c.extra)) continue;
            if (c.dd.empty() && c.extra) continue;
            string cls;
            string rule = runCase(c, nullptr, &cls);
            R.evaluations++;
            R.tracesValidated++;
            R.distinct(lineOf(c));
            R.count(reference(c).v == V_VALID ? "valid" : reference(c).v == V_INVALID ? "invalid" : "open");
            if (R.evaluations % 20011 == 1) R.sample(lineOf(c) + " -> " + (reference(c).v == V_VALID ? reference(c).record : reference(c).why));
            if (!rule.empty()) {
              string log;
              runCase(c, &log, &cls);
              R.violation("C15/answer-command/" + rule + "/" + cls, log, caseString(c));
            }
          }
        }
      }
    }
  }
  R.write(A.out);
  return 0;
}
