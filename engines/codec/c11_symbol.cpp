// C11: CRC, escaping and address classes follow the eBUS specification.
// Exhaustive enumeration of finite input domains against a bitwise reference.
#include <algorithm>
#include <functional>
#include "lib/ebus/symbol.h"
#include "lib/ebus/result.h"
#include "vout.h"

using namespace ebusd;
using std::string;
using std::vector;

// ---- reference (written from the statement, not from symbol.cpp) ---------------------------
// CRC-8, generator x^8+x^7+x^4+x^3+x+1 (0x19B), init 0, MSB first, bitwise polynomial division
static unsigned refCrcStep(unsigned crc, unsigned byte) {
  for (int bit = 7; bit >= 0; bit--) {
    unsigned in = (byte >> bit) & 1;
    unsigned top = (crc >> 7) & 1;
    crc = ((crc << 1) & 0xff) | in;
    if (top) crc ^= 0x9b;
  }
  return crc;
}
static vector<unsigned char> refEscape(const vector<unsigned char>& raw) {
  vector<unsigned char> o;
  for (unsigned char c : raw) {
    if (c == 0xA9) { o.push_back(0xA9); o.push_back(0x00); }
    else if (c == 0xAA) { o.push_back(0xA9); o.push_back(0x01); }
    else o.push_back(c);
  }
  return o;
}
static unsigned refCrc(const vector<unsigned char>& raw) {
  unsigned crc = 0;
  for (unsigned char c : refEscape(raw)) crc = refCrcStep(crc, c);
  return crc;
}
// returns false if the escaped sequence is invalid
static bool refUnescape(const vector<unsigned char>& esc, vector<unsigned char>* out) {
  out->clear();
  for (size_t i = 0; i < esc.size(); i++) {
    if (esc[i] == 0xAA) return false;
    if (esc[i] == 0xA9) {
      if (i + 1 >= esc.size()) return false;
      i++;
      if (esc[i] == 0x00) out->push_back(0xA9);
      else if (esc[i] == 0x01) out->push_back(0xAA);
      else return false;
    } else {
      out->push_back(esc[i]);
    }
  }
  return true;
}
static bool refNibble(unsigned n) { return n == 0 || n == 1 || n == 3 || n == 7 || n == 0xF; }
static bool refIsMaster(unsigned a) { return refNibble(a & 15) && refNibble(a >> 4); }

static string hx(const vector<unsigned char>& v) { return vp::hex(v.data(), v.size()); }

static vp::Result R;

static bool checkCrcStep(unsigned crc, unsigned sym, bool log) {
  symbol_t c = (symbol_t)crc;
  SymbolString::updateCrc((symbol_t)sym, &c);
  unsigned ref = refCrcStep(crc, sym);
  if (log) printf("updateCrc(crc=%02x,sym=%02x) impl=%02x ref=%02x\n", crc, sym, c, ref);
  return c == ref;
}
static bool checkCalc(const vector<unsigned char>& raw, bool log) {
  MasterSymbolString m;
  for (unsigned char c : raw) m.push_back(c);
  unsigned impl = m.calcCrc(), ref = refCrc(raw);
  SlaveSymbolString s;
  for (unsigned char c : raw) s.push_back(c);
  unsigned impl2 = s.calcCrc();
  if (log) printf("calcCrc(%s) impl=%02x/%02x ref=%02x\n", hx(raw).c_str(), impl, impl2, ref);
  return impl == ref && impl2 == ref;
}
// parseHexEscaped on an escaped byte sequence
static bool checkParse(const vector<unsigned char>& esc, bool log) {
  vector<unsigned char> want;
  bool ok = refUnescape(esc, &want);
  MasterSymbolString m;
  result_t r = m.parseHexEscaped(hx(esc));
  vector<unsigned char> got(m.data(), m.data() + m.size());
  if (log) printf("parseHexEscaped(%s) impl=%d [%s] ref=%s [%s]\n", hx(esc).c_str(), r, hx(got).c_str(),
                  ok ? "ok" : "reject", hx(want).c_str());
  if (ok) return r == RESULT_OK && got == want;
  return r != RESULT_OK;
}
// "Parse the (escaped) hex string and ADD all symbols" (symbol.h): parsing onto a string that already holds symbols -
// also unescaped A9/AA symbols - appends exactly the parsed symbols and leaves the stored ones alone; acceptance does
// not depend on what is already stored.  kind: 0 master/escaped, 1 slave/escaped, 2 master/plain hex, 3 slave/plain hex
static bool checkAppend(const vector<unsigned char>& prefix, const vector<unsigned char>& str, int kind, bool log) {
  vector<unsigned char> want;
  bool escaped = kind < 2;
  bool ok = true;
  if (escaped) ok = refUnescape(str, &want); else want = str;
  MasterSymbolString ms;
  SlaveSymbolString ss;
  SymbolString* t = (kind & 1) ? static_cast<SymbolString*>(&ss) : static_cast<SymbolString*>(&ms);
  for (unsigned char c : prefix) t->push_back(c);
  result_t r = escaped ? t->parseHexEscaped(hx(str)) : t->parseHex(hx(str));
  vector<unsigned char> got(t->data(), t->data() + t->size());
  vector<unsigned char> full = prefix;
  full.insert(full.end(), want.begin(), want.end());
  unsigned crcImpl = t->calcCrc(), crcRef = refCrc(full);
  if (log) printf("%s string holding [%s], %s(%s): impl=%d [%s] crc=%02x; reference %s [%s] crc=%02x\n", (kind & 1) ? "slave" : "master",
                  hx(prefix).c_str(), escaped ? "parseHexEscaped" : "parseHex", hx(str).c_str(), r, hx(got).c_str(), crcImpl,
                  ok ? "ok" : "reject", hx(full).c_str(), crcRef);
  if (!ok) return r != RESULT_OK;
  return r == RESULT_OK && got == full && crcImpl == crcRef;
}
static bool checkRoundTrip(const vector<unsigned char>& raw, bool log) {
  MasterSymbolString m;
  result_t r = m.parseHexEscaped(hx(refEscape(raw)));
  vector<unsigned char> got(m.data(), m.data() + m.size());
  MasterSymbolString p;
  result_t r2 = p.parseHex(hx(raw));
  vector<unsigned char> got2(p.data(), p.data() + p.size());
  if (log) printf("roundtrip(%s) esc impl=%d [%s], plain impl=%d [%s]\n", hx(raw).c_str(), r, hx(got).c_str(), r2, hx(got2).c_str());
  return r == RESULT_OK && got == raw && r2 == RESULT_OK && got2 == raw;
}
static string addrFacts(unsigned a) {
  char b[200];
  snprintf(b, sizeof(b), "addr=%02x isMaster=%d isSlaveMaster=%d slave=%02x master=%02x number=%u valid=%d/%d",
           a, isMaster((symbol_t)a), isSlaveMaster((symbol_t)a), getSlaveAddress((symbol_t)a),
           getMasterAddress((symbol_t)a), getMasterNumber((symbol_t)a), isValidAddress((symbol_t)a, true),
           isValidAddress((symbol_t)a, false));
  return b;
}
// returns "" if fine, else rule name
static string checkAddr(unsigned a) {
  bool rm = refIsMaster(a);
  if (isMaster((symbol_t)a) != rm) return "isMaster";
  bool rsm = refIsMaster((a + 256 - 5) & 0xff);
  if (isSlaveMaster((symbol_t)a) != rsm) return "isSlaveMaster";
  bool special = a == 0xAA || a == 0xA9;
  if (isValidAddress((symbol_t)a, true) != !special) return "isValidAddress";
  if (isValidAddress((symbol_t)a, false) != (!special && a != 0xFE)) return "isValidAddress-nobroadcast";
  unsigned num = getMasterNumber((symbol_t)a);
  if (rm) {
    if (num < 1 || num > 25) return "masterNumber-range";
    if (getSlaveAddress((symbol_t)a) != ((a + 5) & 0xff)) return "slaveOfMaster";
    if (getMasterAddress((symbol_t)a) != a) return "masterOfMaster";
    if (getMasterAddress((symbol_t)((a + 5) & 0xff)) != a) return "masterOfSlave";
    unsigned s = (a + 5) & 0xff;
    if (refIsMaster(s) || s == 0xAA || s == 0xA9 || s == 0xFE) return "slaveAddressClass";
  } else {
    if (num != 0) return "masterNumber-nonmaster";
    if (rsm) {
      if (getMasterAddress((symbol_t)a) != ((a + 256 - 5) & 0xff)) return "masterOfSlave";
      if (getSlaveAddress((symbol_t)a) != a) return "slaveOfSlave";
    } else {
      if (getMasterAddress((symbol_t)a) != 0xAA) return "masterOfOther";
    }
  }
  unsigned sl = getSlaveAddress((symbol_t)a);
  if (sl == 0xA9 || (special && sl != 0xAA)) return "slaveOfSpecial";
  unsigned ma = getMasterAddress((symbol_t)a);
  if (ma != 0xAA && !refIsMaster(ma)) return "masterResultNotMaster";
  return "";
}
static string checkAddrGlobal() {
  // bijection number <-> master, consistent with arbitration priority (low nibble = priority
  // class, high nibble = sub address; both ordered 0<1<3<7<F)
  vector<unsigned> masters;
  for (unsigned a = 0; a < 256; a++) if (isMaster((symbol_t)a)) masters.push_back(a);
  if (masters.size() != 25) return "masterCount";
  std::set<unsigned> nums;
  for (unsigned a : masters) nums.insert(getMasterNumber((symbol_t)a));
  if (nums.size() != 25 || *nums.begin() != 1 || *nums.rbegin() != 25) return "numberBijection";
  for (unsigned a : masters) for (unsigned b : masters) {
    bool prioLess = std::make_pair(a & 15, a >> 4) < std::make_pair(b & 15, b >> 4);
    bool numLess = getMasterNumber((symbol_t)a) < getMasterNumber((symbol_t)b);
    if (prioLess != numLess) return "numberPriorityOrder";
  }
  std::set<unsigned> slaves;
  for (unsigned a : masters) slaves.insert(getSlaveAddress((symbol_t)a));
  if (slaves.size() != 25) return "slaveBijection";
  return "";
}

static int replay(const string& c) {
  auto m = vp::parseCase(c);
  string k = m["k"];
  bool ok = true;
  auto bytes = [&](const string& h) { vector<unsigned char> v; for (size_t i = 0; i + 1 < h.size(); i += 2) v.push_back((unsigned char)strtoul(h.substr(i, 2).c_str(), 0, 16)); return v; };
  if (k == "step") ok = checkCrcStep(strtoul(m["crc"].c_str(), 0, 16), strtoul(m["sym"].c_str(), 0, 16), true);
  else if (k == "calc") ok = checkCalc(bytes(m["raw"]), true);
  else if (k == "parse") ok = checkParse(bytes(m["esc"]), true);
  else if (k == "rt") ok = checkRoundTrip(bytes(m["raw"]), true);
  else if (k == "append") ok = checkAppend(bytes(m["pre"]), bytes(m["str"]), atoi(m["kind"].c_str()), true);
  else if (k == "addr") { unsigned a = strtoul(m["a"].c_str(), 0, 16); string r = checkAddr(a); printf("%s rule=%s\n", addrFacts(a).c_str(), r.c_str()); ok = r.empty(); }
  else if (k == "addrglobal") { string r = checkAddrGlobal(); printf("global rule=%s\n", r.c_str()); ok = r.empty(); }
  printf(ok ? "OK\n" : "VIOLATES\n");
  return ok ? 0 : 1;
}

// enumerate all strings over alphabet up to maxLen
static void enumStrings(const vector<unsigned char>& alpha, size_t maxLen, const std::function<void(const vector<unsigned char>&)>& fn) {
  vector<unsigned char> cur;
  std::function<void()> rec = [&]() {
    fn(cur);
    if (cur.size() >= maxLen) return;
    for (unsigned char c : alpha) { cur.push_back(c); rec(); cur.pop_back(); }
  };
  rec();
}

int main(int argc, char** argv) {
  vp::Args A = vp::parseArgs(argc, argv);
  if (A.replay) return replay(A.replayCase);
  char b[128];
  // 1. all (crc, symbol) steps
  for (unsigned crc = 0; crc < 256; crc++) for (unsigned sym = 0; sym < 256; sym++) {
    R.evaluations++; R.distinct(((uint64_t)1 << 32) | (crc << 8) | sym);
    if (!checkCrcStep(crc, sym, false)) {
      snprintf(b, sizeof(b), "k=step;crc=%02x;sym=%02x", crc, sym);
      R.violation("C11/crc-step", "table step differs from polynomial division", b);
    }
  }
  R.sample("updateCrc: all 65536 (crc,symbol) pairs vs bitwise division by 0x19B");
  // 2. addresses
  for (unsigned a = 0; a < 256; a++) {
    R.evaluations++; R.distinct(((uint64_t)2 << 32) | a);
    string r = checkAddr(a);
    if (!r.empty()) { snprintf(b, sizeof(b), "k=addr;a=%02x", a); R.violation("C11/addr/" + r, addrFacts(a), b); }
  }
  { string r = checkAddrGlobal(); R.evaluations++; if (!r.empty()) R.violation("C11/addr/" + r, "global address relation", "k=addrglobal"); }
  R.sample(addrFacts(0x31)); R.sample(addrFacts(0x36)); R.sample(addrFacts(0xaa));
  // 3. calcCrc + round trip: all strings len<=2 over all bytes, len<=L over the special alphabet
  vector<unsigned char> all; for (unsigned i = 0; i < 256; i++) all.push_back((unsigned char)i);
  vector<unsigned char> special = {0x00, 0x01, 0xA8, 0xA9, 0xAA, 0xAB, 0xFF};
  size_t L = A.thorough() ? 8 : 6;
  auto rawCase = [&](const vector<unsigned char>& s) {
    R.evaluations += 2; R.distinct(vp::fnv(s.data(), s.size(), 77));
    if (!checkCalc(s, false)) R.violation("C11/calcCrc", "calcCrc differs from CRC over escaped sequence", "k=calc;raw=" + hx(s));
    if (!checkRoundTrip(s, false)) R.violation("C11/roundtrip", "parse(escape(s)) != s", "k=rt;raw=" + hx(s));
  };
  enumStrings(all, 2, rawCase);
  enumStrings(special, L, rawCase);
  if (A.thorough()) enumStrings(all, 3, rawCase);
  R.sample("calcCrc/roundtrip e.g. raw=" + hx({0x10, 0xA9, 0xAA}) + " escaped=" + hx(refEscape({0x10, 0xA9, 0xAA})));
  // 4. parseHexEscaped on all escaped strings len<=3 over all bytes, len<=L over alphabet
  auto escCase = [&](const vector<unsigned char>& s) {
    R.evaluations++; R.distinct(vp::fnv(s.data(), s.size(), 99));
    if (!checkParse(s, false)) {
      vector<unsigned char> w; bool ok = refUnescape(s, &w);
      R.violation(string("C11/parseEscaped/") + (ok ? "valid-mishandled" : "invalid-accepted"), "parseHexEscaped disagrees with reference", "k=parse;esc=" + hx(s));
    }
  };
  enumStrings(all, A.thorough() ? 3 : 2, escCase);
  if (!A.thorough()) {
    // length 3 over all bytes restricted to strings containing at least one of A9/AA (others are trivially literal)
    for (unsigned x = 0; x < 256; x++) for (unsigned y = 0; y < 256; y++) for (unsigned z = 0; z < 256; z++) {
      if (x != 0xA9 && x != 0xAA && y != 0xA9 && y != 0xAA && z != 0xA9 && z != 0xAA) continue;
      escCase({(unsigned char)x, (unsigned char)y, (unsigned char)z});
    }
  }
  enumStrings(special, L, escCase);
  R.sample("parseHexEscaped e.g. 'a9' dangling, 'aa' bare, 'a902' invalid pair, 'a900a901' -> a9aa");
  // 5. parsing appends: every stored prefix of length<=2 (thorough 3) over the special alphabet x every string of length<=3
  //    (thorough 4) over it, escaped and plain, master and slave strings
  {
    vector<vector<unsigned char>> prefixes, strs;
    enumStrings(special, A.thorough() ? 3 : 2, [&](const vector<unsigned char>& x) { prefixes.push_back(x); });
    enumStrings(special, A.thorough() ? 4 : 3, [&](const vector<unsigned char>& x) { strs.push_back(x); });
    for (auto& pre : prefixes) for (auto& st : strs) for (int kind = 0; kind < 4; kind++) {
      R.evaluations++;
      R.distinct(vp::fnv(st.data(), st.size(), vp::fnv(pre.data(), pre.size(), 1234 + kind)));
      if (!checkAppend(pre, st, kind, false)) {
        vector<unsigned char> w; bool ok = kind >= 2 || refUnescape(st, &w);
        bool special = false;
        for (unsigned char c : pre) if (c == 0xA9 || c == 0xAA) special = true;
        R.violation(string("C11/parse-append/") + (kind < 2 ? "escaped" : "plain") + (ok ? "/valid-mishandled" : "/invalid-accepted") +
                    (pre.empty() ? "/fresh" : special ? "/stored-a9aa" : "/stored-other"),
                    "parsing onto a string that already holds symbols does not append exactly the parsed symbols",
                    "k=append;kind=" + std::to_string(kind) + ";pre=" + hx(pre) + ";str=" + hx(st));
      }
    }
    R.sample("append e.g. string holding [a9] + parseHexEscaped('00') -> [a9 00]; [10 aa] + parseHex('a9') -> [10 aa a9]");
  }
  R.write(A.out);
  return 0;
}
