"""cmdmc engine, part A: C16 (access levels), C18 (request parsing), command/HTTP/CSV part of C20."""

CHECKS = {}
ENGINES = [
    {"name": "cmdmc", "path": "engines/cmdmc", "serves_properties": ["C16", "C18", "C20"],
     "kind_free_text": "bounded-exhaustive enumeration of client requests (TCP command lines, HTTP request lines, "
                       "MQTT topics, CSV definition text, ACL files) through the real RequestImpl / "
                       "MainLoop::decodeRequest / MessageMap / StringReplacer against reference models written from "
                       "the property statements; FakeProtocol records what would go to the bus"},
]

_FIX = ["engines/cmdmc/mainloop_fixture.h"]

CHECKS["C16"] = {
    "engine": "cmdmc", "design_ref": "5/C16",
    "level": "exploration",
    "level_text": "every (message level, granted list) pair of the finite domain is evaluated on the real "
                  "Message::checkLevel / hasLevel, and every combination of small ACL x authentication state x "
                  "message level x command form is executed through the real RequestImpl + MainLoop::decodeRequest "
                  "on a real MessageMap, compared with a token-membership reference and with the telegrams a "
                  "FakeProtocol records; nothing is sampled",
    "level_note": "trusts the reference predicate (self-tested on hand cases) and the fixture (FakeProtocol instead of "
                  "the bus, virtual time()); level names longer than 3 characters, lists longer than 3 entries and ACLs "
                  "with more than one user are outside the bound; the privileged hex / find -l commands and lists mixing "
                  "'*' with names are outside the statement",
    "technique": "bounded-exhaustive enumeration of inputs and configurations on the real code against a reference predicate",
    "rule": "LISTEN: the real MainLoop::run() is executed in the harness thread on a queue fed by the requests themselves "
            "(auth / listen [-v|-u|-U] / bus data for every message / the empty request of a listening connection): the update "
            "lines sent to the client must be exactly those of the messages its granted list contains (5 levels incl. prefixes "
            "and suffixes of each other x 8 default lists from the ACL or --accesslevel x 8 user lists x 4 authentication states). "
            "A: all level names over {a,b} of length<=2 (thorough {a,b,c}, <=3) plus the empty level x all granted lists "
            "of <=3 such names, the empty list and '*' -> Message::checkLevel and Message::hasLevel. "
            "B: every ACL {default entry from the ACL '*' row | from --accesslevel} x default list x user list (lists of "
            "<=2 names, empty, '*'; thorough: both lists together <=3 names, --accesslevel only with user lists of <=1 name) plus {no default entry} x "
            "user lists of <=3 names; x authentication {none, right secret, wrong secret, missing secret, unknown user} x "
            "every message level x 16 forms {read NAME, read -c C NAME, read -f -c C NAME, read -m 86400 NAME, read -h, "
            "read -f -h, read -p, write -c, write -h, HTTP /data/C/NAME?required, HTTP /data/C/NAME (cached), "
            "HTTP ...?maxage=60, HTTP ...?poll=, find NAME, find -d NAME, find -d -h NAME} x 5 prior histories on the same "
            "MainLoop {nothing; message just seen on the bus (fresh cached data); seen 400 s ago (older than the default "
            "max age); an authorised other session just read/wrote it; the same client issued the same request just "
            "before}; plus listing forms {find, find -w, find -a -d, HTTP /data/C?write=1, DataSink::notifyUpdate} x "
            "{no data, every message with fresh cached data}. A denied client must get the value neither from the bus "
            "nor from the cache in any history. Further dimensions on reduced form sets (per ACL, auth none/right secret): "
            "LEVEL SOURCE - the same levels assigned by a level column of an own header and by four kinds of default rows "
            "(*r,#L on a file-name circuit; *r,circuit#L; both with a file-name circuit suffix) x 7 forms x 2 histories and "
            "listings; OPTIONS - 18 forms crossing read/write by name and -h with -s QQ, -d ZZ, -c, -v, -n, FIELD and the "
            "passive message read by name / HTTP x 2 histories; SECRETS - user u has secret 'sE', a second user another "
            "one: wrong secrets that are a prefix, an extension, a case variant, empty, the other user's secret and the "
            "other user's name with u's secret x 4 forms x 2 histories; LEVEL NAMES include the case variants A, aA (Ab); "
            "CONDITIONAL VARIANTS - one name with two variants of different levels x both selector states. Second run: the "
            "REAL MqttHandler (libmosquitto stubbed at link time) with the levels of ACL user mqtt or the default entry x "
            "level x {get, get?prio, set, list, get of a passive message, update notification}. distinct = distinct (form, history, auth, level, effective list, default "
            "source) tuples resp. (level, list) pairs; states = ACL files.",
    "assumptions": [
        "granted iff the message has no level, or the granted list is '*', or the level equals one ';'-separated entry "
        "of the list (message.h documents the semicolon); the effective list is the user's ACL entry after a successful "
        "auth, otherwise the default entry (ACL '*' row or --accesslevel)",
        "an HTTP request whose credentials do not authenticate may be refused as a whole (403) instead of being served "
        "with the default levels: both grant at most the default levels",
        "the bus is a FakeProtocol answering every master-slave telegram; time() is a virtual clock; prior histories are "
        "one step deep (one earlier event per case) and every case starts from reset message state",
    ],
    "runs": [{
        "harness": "c16_levels", "sources": ["engines/cmdmc/c16_levels.cpp"], "deps": _FIX,
        "variant": "plain", "libset": "full",
        "quick": {"parts": 16, "deadline": 300,
                  "bounds": "levels over {a,b} len<=2 + A, aA; 586 lists x 9 levels; 4002 ACLs (lower case lists of <=2 names fully crossed; with case variants together <=3 names) x (9 levels x (16 forms x 5 histories [2 for the 3 failing auth states] + 18 option forms x 2) + 5 further level sources + wrong-secret family + conditional variants)"},
        "thorough": {"parts": 16, "deadline": 2700,
                     "bounds": "levels over {a,b,c} len<=3 + A, aA, Ab; lists of <=3 of 42 names x 43 levels; ACL names over {a,b,c} len<=2 + A, aA, lists together <=3 names; all forms x all histories for all 5 auth states + the further dimensions"},
    }, {
        "harness": "mqtt_real", "sources": ["engines/cmdmc/mqtt_real.cpp"], "deps": _FIX,
        "variant": "plain", "libset": "full",
        "quick": {"parts": 8, "deadline": 120, "args": ["--mode", "levels"], "bounds": "real MqttHandler: default lists of <=1 name x mqtt user lists of <=2 names / no mqtt user x 9 levels x 6 forms"},
        "thorough": {"parts": 16, "deadline": 600, "args": ["--mode", "levels"], "bounds": "as quick with names over {a,b,c} len<=2 + case variants"},
    }, {
        "harness": "c16_listen", "sources": ["engines/cmdmc/c16_listen.cpp"], "deps": _FIX,
        "variant": "plain", "libset": "full",
        "quick": {"parts": 16, "deadline": 200, "bounds": "REAL MainLoop::run(): {default levels from the ACL '*' row | --accesslevel} x 8 default lists x 8 user lists x 4 authentication states x 4 listen forms; 5 message levels incl. prefixes / suffixes of each other"},
        "thorough": {"parts": 16, "deadline": 600, "bounds": "as quick (enumerated completely in both tiers)"},
    }],
}

CHECKS["C18"] = {
    "engine": "cmdmc", "design_ref": "5/C18",
    "level": "exploration",
    "level_text": "every input of three finite domains is pushed through the real RequestImpl::add/split, "
                  "MainLoop::decodeRequest/executeGet (on a real temporary html root) and StringReplacer::parse/get/match "
                  "and compared with what a reference client encoded; nothing is sampled",
    "level_note": "trusts the reference encoder/decoder (RefPercent self-tested on hand cases); longer arguments, URIs "
                  "and other alphabets are outside the bound; the 'random longer ones' of the quantifier text are not "
                  "generated (no sampling in this framework)",
    "technique": "bounded-exhaustive enumeration of client encodings on the real parsers against reference encoders",
    "rule": "a: all argument vectors of <=3 arguments, each <=3 characters over {a,b,blank,\",'} (quick: <=3 args of <=2 "
            "chars and <=2 args of <=3 chars), each written in every admissible encoding (plain if it needs no quotes, "
            "quoted with either quote character that does not close early) with 1..3 blanks between -> add/split must "
            "return the vector. b: all URIs '/'+<=5 (quick 4) segments from {'', '.', '..', %2e, %2E%2e, .%2e, "
            "%252e%252e, %2f, ..%2f, %25, %, %4, %zz, a, x.js, index.html} with and without a query holding escapes, "
            "and all raw URIs of length<=7 (quick 6) over {%,2,5,e,f,/,.,a} -> path/query from add/split must equal "
            "RefPercent (each well-formed escape decoded once; a request with a malformed escape may be refused with "
            "400), and a 200 answer never carries the marker of a file outside the html root. c: templates = optional "
            "constant prefix + permutation of a non-empty subset of %circuit/%name/%field separated by constants from "
            "{'/', 'ebusd/', '/x/', '1/' (a digit directly behind a variable)} + optional suffix ('/s', '2'), in %x and %{x} notation; "
            "a template that names only the three known fields (a variable without braces extends over letters and '_') must be "
            "accepted; those that are matchable x identifier "
            "triples over {a,ab,b_1} (thorough + x, ebusd; field also empty when last) x {get,set,list}: "
            "match(get(c,n,f)) after stripping the direction the way MqttHandler does returns the triple. "
            "d (delivery): every request of a and b is additionally handed to RequestImpl::add with CRLF line ends whole, "
            "cut between CR and LF of each line end (and of all at once), b also whole with LF; a sub-universe (TCP <=2 "
            "args x <=2 chars, thorough <=3 args; HTTP URIs of <=1 segment, thorough <=2, with/without header line) with "
            "LF and CRLF in EVERY cut into <=3 pieces and byte by byte; command lines and HTTP requests of every length "
            "200..800 (plain and quoted last argument, long URI, long header) in 255 byte pieces as Connection::run "
            "receives them: the arguments must equal what the client encoded and the request must be reported complete "
            "by exactly the piece carrying the terminating LF; every ordered sequence of 2 (thorough 3) requests from a "
            "set of 7 command lines / 4 HTTP requests through ONE RequestImpl with setResult/waitResponse in between (as "
            "Connection::run). b also: URIs that do not start with '/' (prefixes '', -old/, .old/, x, ., %2f, a/, index + "
            "<=3 segments) against marker files that are SIBLINGS of the html root (htmlx.js, html-old/x.js, ...), a query "
            "holding '?' and %3f, and all raw URIs of length<=5 (thorough 6) over {/,a,?,&,=,%,3,f}. Second run: the REAL "
            "MqttHandler (libmosquitto stubbed at link time, template set through the real --mqtttopic option parser, one "
            "child per template): topic built from the template for (c,n,f) + /get or /set must make the handler send the "
            "telegram of message (c,n). "
            "distinct = distinct vectors / URIs / (template, triple).",
    "assumptions": [
        "a token is a maximal run of non-blank characters; a quoted argument ends at the first token ending with the "
        "opening quote character (a lone quote as first token only opens); arguments no encoding can express are skipped",
        "a '%' not followed by two hex digits is not an escape: it stays literally or the request is refused (400)",
        "a line ends with LF or CRLF, the CR of a CRLF line end is not part of the last argument; the byte stream may "
        "be cut anywhere between two add() calls (one add per recv of <=255 bytes); a CR that is not part of a line end "
        "is not generated",
        "MQTT: the handler strips the text after the last '/' as direction before matching (as notifyMqttTopic does); "
        "only variables present in the template are compared",
    ],
    "runs": [{
        "harness": "c18_parse", "sources": ["engines/cmdmc/c18_parse.cpp"], "deps": _FIX,
        "variant": "plain", "libset": "full",
        "quick": {"parts": 16, "deadline": 240, "bounds": "a: <=3 args x <=2 chars, <=2 args x <=3 chars; b: <=4 segments, raw <=6; c: 3 identifiers; d: LF/CRLF x {whole, CR|LF cuts} on all of a,b + all <=3-piece cuts on the sub-universe + lengths 200..800 in 255 byte pieces"},
        "thorough": {"parts": 16, "deadline": 800, "bounds": "a: <=3 args x <=3 chars; b: <=5 segments, raw <=7; c: 5 identifiers; d: as quick on the thorough universes, sub-universe <=3 args / <=2 segments"},
    }, {
        "harness": "mqtt_real", "sources": ["engines/cmdmc/mqtt_real.cpp"], "deps": _FIX,
        "variant": "plain", "libset": "full",
        "quick": {"parts": 16, "deadline": 120, "args": ["--mode", "topics"], "bounds": "real MqttHandler: 624 templates with %circuit and %name through the real --mqtttopic parser (one child each) x 27 triples x get/set/list"},
        "thorough": {"parts": 16, "deadline": 600, "args": ["--mode", "topics"], "bounds": "as quick"},
    }],
}

# ---- C20, command / HTTP / CSV part (the orchestrator assembles CHECKS["C20"] from several engines) ----
C20_CMD_RULE = ("cmd: every TCP command line of <=3 tokens from a 44-token alphabet (all 22 command words, options, names, "
                "hex strings of odd/even length, empty quotes, over-long number, '-', a definition), thorough also every "
                "4-token line of the 10 commands whose usage admits >=3 arguments; the same lines of <=2 (thorough 3) tokens "
                "in direct mode; every HISTORY of 2..3 (thorough 4) of 15 state-changing command lines on one daemon (definitions "
                "added, replaced under another key incl. the key of a scan message, telegrams injected, scan, cache reads, reload); "
                "every HTTP request line 'GET <concatenation of <=3 (thorough 4) of 26 URI tokens incl. %, "
                "%n, %s, %*s> HTTP/1.1'; every assignment of 30 CSV column tokens to 2-3 (thorough 3) holes of 11 line frames "
                "fed to the template loader, the message loader and the define/decode/encode commands; shapes: lines of <=4 "
                "tokens from {empty token (= leading/trailing/double blanks, blanks only), \"a, b\", '', \", read, main}; every "
                "command word x 28 option spellings of all usage texts x 5 tails; 4- and 5-token lines extending 'write -c main', "
                "'read -c main', ... by every token; HTTP request lines of 17 shapes (no version, no URI, lower case method, "
                "doubled blanks, other method, ...) x 5 URIs x LF/CRLF x with/without header; and every string of length<=7 "
                "(thorough 8) over {a,blank,\",'} as a command line / <=6 over {/,a,%,2,?,blank} as request URI through "
                "RequestImpl::add+split alone (whole and in two pieces) on the sanitised build. Each case runs on "
                "a freshly built daemon state in a forked child (ASan+UBSan build; one fork per batch of 48 cases, every "
                "alarm re-judged alone in a child of its own), followed by a fixed probe and the destructors. "
                "distinct = distinct inputs.")
C20_CMD_ASSUMPTIONS = [
    "cmd part: 'arbitrary' command lines / HTTP requests / CSV text are covered up to the stated token alphabets and lengths; "
    "one request per fresh daemon state (no multi-request histories); FakeProtocol answers every telegram; time() is virtual",
    "cmd part: oracle = no ASan/UBSan report, no signal, no uncaught exception, 10 s alarm() budget, and the probe (forced "
    "read, decode, encode, passive reception + cached read, write, HTTP read of known definitions) answers as in the "
    "pristine state",
]
C20_CMD_RUNS = [{
    "harness": "c20_cmd", "sources": ["engines/cmdmc/c20_cmd.cpp"], "deps": _FIX,
    "variant": "san", "libset": "full",
    # libstdc++ itself is not instrumented: an out-of-range vector/string index inside std:: code is invisible to
    # ASan, so the ebusd objects of this run are compiled with the libstdc++ assertions (abort on a bad index)
    "obj_flags": ["-D_GLIBCXX_ASSERTIONS"], "flags": ["-D_GLIBCXX_ASSERTIONS"],
    "quick": {"parts": 16, "deadline": 150,
              "bounds": "tcp <=3 tokens of 44 (direct mode <=2); http <=3 of 26 URI tokens; csv 30 tokens x 2-3 holes x 11 frames; shapes (blank/quote lines, CMD -X lines, 4/5-token extensions, 17 request line shapes, all strings <=7 over {a,blank,\",'} through RequestImpl)"},
    "thorough": {"parts": 16, "deadline": 2700,
                 "bounds": "tcp <=3 tokens of 44 + 4-token lines of 10 commands (direct mode <=3); http <=4 of 26 URI tokens; csv 30 tokens x 3 holes x 11 frames; shapes as quick (strings <=8)"},
}]


# ---- C15, command part: the `answer` command registers what the client described (appended to busmc's C15 in checks.py) ----
C15_CMD_RUN = {
    "harness": "c15_answercmd", "sources": ["engines/cmdmc/c15_answercmd.cpp"], "deps": _FIX, "libset": "full",
    "quick": {"parts": 8, "deadline": 120,
              "bounds": "all permutations of all subsets of {-m, -s QQ, -d ZZ} x 10 QQ x 11 ZZ values x 13 id strings x 10 data strings "
                        "x {trailing argument} x {enabled, hex commands off, handler not answering, setAnswer refuses}"},
    "thorough": {"parts": 16, "deadline": 600, "bounds": "as quick (the grammar is enumerated completely in both tiers)"},
}
C15_CMD_RULE = ("command part: every `answer` command line of the grammar [-m] [-s QQ] [-d ZZ] (all orders, all subsets; QQ/ZZ over "
                "master, slave, broadcast, SYN, ESC, non-hex, three-digit, one-digit and upper-case values) PBSB[ID] (0..7 bytes, odd "
                "length, non-hex, bytes a9/aa) [DD] (absent, 1..17 bytes, odd, non-hex) [trailing argument] through the real "
                "RequestImpl + MainLoop::decodeRequest/executeAnswer: the call reaching ProtocolHandler::setAnswer (recorded by "
                "FakeProtocol) must be exactly the registration the usage text describes (source or any, destination or own "
                "master/slave address, PB, SB, ID, NN+DD), an invalid line or a disabled command registers nothing, nothing is sent")
