#!/usr/bin/env python3
"""Generate first-order mutants as unified diffs (one textual replacement each) against /repo HEAD.
Uses a private scratch copy of the four files, never touches /repo or the worktree."""
import os, subprocess, sys, shutil, tempfile

REPO = "/repo"
OUT = "/verif/mutation/busmc"
PD = "src/lib/ebus/protocol_direct.cpp"
PR = "src/lib/ebus/protocol.cpp"
DT = "src/lib/ebus/device_trans.cpp"
Q = "src/lib/utils/queue.h"

# id, file, function, description, old, new, checks (in order)
M = []
def m(id, f, fn, desc, old, new, checks):
    M.append((id, f, fn, desc, old, new, checks))

# ---------------- handleSend
m("m01", PD, "handleSend/bs_ready", "arbitration is started although the lock counter has not expired (dropped `&& m_remainLockCount == 0`)",
  "if (!m_device->isArbitrating() && m_currentRequest == nullptr && m_remainLockCount == 0) {",
  "if (!m_device->isArbitrating() && m_currentRequest == nullptr) {", "C03 C02 C01")
m("m02", PD, "handleSend/bs_recvCmdAck", "receive timeout of bs_recvCmdAck uses SEND_TIMEOUT instead of slaveRecvTimeout (timeout constant of the wrong state)",
  "  case bs_recvCmdAck:\n    timeout = m_config.slaveRecvTimeout;\n    break;",
  "  case bs_recvCmdAck:\n    timeout = SEND_TIMEOUT;\n    break;", "C02 C01 C03")
m("m03", PD, "handleSend/bs_sendCmdAck", "answering side always sends ACK for a received command (NAK operand dropped)",
  "  case bs_sendCmdAck:\n    if (m_currentAnswering) {\n      sendSymbol = m_crcValid ? ACK : NAK;",
  "  case bs_sendCmdAck:\n    if (m_currentAnswering) {\n      sendSymbol = ACK;", "C15")
m("m04", PD, "handleSend/escape", "escape substitutes swapped when sending (ESC->01, SYN->00)",
  "sendSymbol = (symbol_t)(sendSymbol == ESC ? 0x00 : 0x01);",
  "sendSymbol = (symbol_t)(sendSymbol == ESC ? 0x01 : 0x00);", "C02")
m("m05", PD, "handleSend/escape", "the master CRC is sent unescaped (escape handling skipped in bs_sendCmdCrc)",
  "if (m_state != bs_sendSyn && (sendSymbol == ESC || sendSymbol == SYN)) {",
  "if (m_state != bs_sendSyn && m_state != bs_sendCmdCrc && (sendSymbol == ESC || sendSymbol == SYN)) {", "C02")
m("m06", PD, "handleSend/escape", "the CRC of an own slave response is sent unescaped (escape handling skipped in bs_sendResCrc)",
  "if (m_state != bs_sendSyn && (sendSymbol == ESC || sendSymbol == SYN)) {",
  "if (m_state != bs_sendSyn && m_state != bs_sendResCrc && (sendSymbol == ESC || sendSymbol == SYN)) {", "C15 C03 C20")
m("m07", PD, "handleSend/bs_ready", "clean-up of a stale current request in bs_skip/bs_ready dropped",
  "    if (m_currentRequest != nullptr) {\n      setState(bs_ready, RESULT_ERR_TIMEOUT);  // just to be sure an old BusRequest is cleaned up\n    }\n",
  "", "C02 C03 C01")
# ---------------- handleReceive: AUTO-SYN
m("m08", PD, "handleReceive/AUTO-SYN", "AUTO-SYN is generated after any timeout in bs_skip/bs_noSignal (dropped `timeout >= m_generateSynInterval`)",
  "      && timeout >= m_generateSynInterval && (m_state == bs_noSignal || m_state == bs_skip)) {",
  "      && (m_state == bs_noSignal || m_state == bs_skip)) {", "C03 C01")
m("m09", PD, "handleReceive/AUTO-SYN", "AUTO-SYN is generated in read-only mode too (dropped `!m_config.readOnly &&`)",
  "  } else if (!m_config.readOnly && result == RESULT_ERR_TIMEOUT && m_generateSynInterval > 0",
  "  } else if (result == RESULT_ERR_TIMEOUT && m_generateSynInterval > 0", "C03 C01 C20")
m("m10", PD, "handleReceive/AUTO-SYN", "a wrong echo of the own AUTO-SYN is accepted (ebusd becomes SYN generator although its SYN collided)",
  "      logError(lf_bus, \"received %2.2x instead of AUTO-SYN symbol\", recvSymbol);\n      return setState(bs_noSignal, result);",
  "      logError(lf_bus, \"received %2.2x instead of AUTO-SYN symbol\", recvSymbol);", "C03 C01")
# ---------------- handleReceive: arbitration results
m("m11", PD, "handleReceive/as_lost", "a lost arbitration reported by the device no longer takes the request out of the queue (no bus-lost accounting / notification)",
  "      if (m_currentRequest == nullptr) {\n        BusRequest *startRequest = m_nextRequests.peek();\n        if (startRequest != nullptr && m_nextRequests.remove(startRequest)) {\n          m_currentRequest = startRequest;  // force the failed request to be notified\n        }\n      }\n      setState(m_state, RESULT_ERR_BUS_LOST);\n      break;\n    case as_won:",
  "      setState(m_state, RESULT_ERR_BUS_LOST);\n      break;\n    case as_won:", "C03 C02 C04")
m("m12", PD, "handleReceive/error result", "in bs_noSignal a timeout switches to bs_skip (dropped `|| m_state == bs_noSignal`)",
  "      // at least one full second has passed since last received symbol\n      || m_state == bs_noSignal) {",
  "      // at least one full second has passed since last received symbol\n      ) {", "C03 C04 C01")
m("m57", PD, "handleReceive/as_lost", "missing `break` after the lost-arbitration branch: falls through into the as_won branch",
  "      setState(m_state, RESULT_ERR_BUS_LOST);\n      break;\n    case as_won:  // implies RESULT_OK",
  "      setState(m_state, RESULT_ERR_BUS_LOST);\n    case as_won:  // implies RESULT_OK", "C03")
# ---------------- handleReceive: SYN
m("m13", PD, "handleReceive/SYN", "a SYN followed by buffered data no longer locks the next arbitration (dropped set of m_remainLockCount)",
  "    if (result == RESULT_CONTINUE) {\n      if (m_remainLockCount == 0) {\n        m_remainLockCount = 1;  // avoid starting arbitration when more data is already buffered\n      }\n    } else if (!sending) {",
  "    if (result == RESULT_CONTINUE) {\n    } else if (!sending) {", "C03 C01 C02")
m("m14", PD, "handleReceive/SYN", "lock counter is decremented also after SYN/address/SYN (dropped `&& m_command.size() != 1`)",
  "      if (m_remainLockCount > 0 && m_command.size() != 1) {",
  "      if (m_remainLockCount > 0) {", "C03 C02")
# ---------------- echo check / crc / escape
m("m15", PD, "handleReceive/echo check", "after an echo mismatch the handler goes to bs_ready instead of bs_skip (wrong state in transition)",
  "    if (recvSymbol != sentSymbol) {\n      return setState(bs_skip, RESULT_ERR_SYMBOL);\n    }\n    measureLatency(sentTime, &recvTime);",
  "    if (recvSymbol != sentSymbol) {\n      return setState(bs_ready, RESULT_ERR_SYMBOL);\n    }\n    measureLatency(sentTime, &recvTime);", "C03 C02 C01")
m("m16", PD, "handleReceive/crc update", "running CRC is not updated while sending the own slave response (bs_sendRes missing in the list)",
  "  case bs_sendCmd:\n  case bs_sendRes:\n    SymbolString::updateCrc(recvSymbol, &m_crc);",
  "  case bs_sendCmd:\n    SymbolString::updateCrc(recvSymbol, &m_crc);", "C15")
m("m17", PD, "handleReceive/unescape", "escape pair A9 02 is accepted (as AA): `recvSymbol > 0x01` became `> 0x02`",
  "      if (recvSymbol > 0x01) {\n        return setState(bs_skip, RESULT_ERR_ESC);",
  "      if (recvSymbol > 0x02) {\n        return setState(bs_skip, RESULT_ERR_ESC);", "C01 C15 C02 C20")
m("m18", PD, "handleReceive/bs_noSignal", "first symbol after signal loss switches to bs_ready instead of bs_skip (a telegram is accepted without a preceding SYN)",
  "  case bs_noSignal:\n    return setState(bs_skip, result);\n\n  case bs_skip:\n    return result;",
  "  case bs_noSignal:\n    return setState(bs_ready, result);\n\n  case bs_skip:\n    return result;", "C01 C03 C20")
# ---------------- receive command
m("m19", PD, "handleReceive/bs_recvCmd", "the source of a repeated master part (after NAK) is no longer checked to be a master address",
  "    if ((m_command.size() == 0 && !isMaster(recvSymbol))\n    || (m_command.size() == 1 && !isValidAddress(recvSymbol))) {",
  "    if ((m_command.size() == 1 && !isValidAddress(recvSymbol))) {", "C01 C15")
m("m20", PD, "handleReceive/bs_recvCmd", "destination address is no longer validated (ZZ = escaped A9/AA accepted)",
  "    if ((m_command.size() == 0 && !isMaster(recvSymbol))\n    || (m_command.size() == 1 && !isValidAddress(recvSymbol))) {",
  "    if ((m_command.size() == 0 && !isMaster(recvSymbol))) {", "C01 C20")
m("m21", PD, "messageCompleted", "self-addressed telegrams (QQ == ZZ) are reported",
  "  if (srcAddress == dstAddress) {\n    logError(lf_bus, \"invalid self-addressed message from %2.2x\", srcAddress);\n    return;\n  }",
  "  if (srcAddress == dstAddress) {\n    logError(lf_bus, \"invalid self-addressed message from %2.2x\", srcAddress);\n  }", "C01 C20")
m("m22", PD, "handleReceive/bs_recvCmdCrc", "a second wrong command CRC (repetition) is treated like the first one (dropped `if (m_repeat) -> skip`)",
  "    if (m_repeat) {\n      return setState(bs_skip, RESULT_ERR_CRC);\n    }\n    m_currentAnswering = getAnswer();  // send the NAK when being the addressed participant",
  "    m_currentAnswering = getAnswer();  // send the NAK when being the addressed participant", "C15 C01")
m("m23", PD, "handleReceive/bs_recvCmdAck", "an ACK after a command with wrong CRC is accepted (dropped `!m_crcValid` check)",
  "    if (recvSymbol == ACK) {\n      if (!m_crcValid) {\n        return setState(bs_skip, RESULT_ERR_ACK);\n      }\n      if (m_currentRequest != nullptr) {",
  "    if (recvSymbol == ACK) {\n      if (m_currentRequest != nullptr) {", "C01")
m("m24", PD, "handleReceive/bs_recvCmdAck", "any symbol other than ACK is treated as NAK (`== NAK` became `!= ACK`)",
  "      return setState(bs_recvRes, result);\n    }\n    if (recvSymbol == NAK) {\n      if (!m_repeat) {\n        m_repeat = true;\n        m_crc = 0;",
  "      return setState(bs_recvRes, result);\n    }\n    if (recvSymbol != ACK) {\n      if (!m_repeat) {\n        m_repeat = true;\n        m_crc = 0;", "C01 C02")
# ---------------- receive response
m("m25", PD, "handleReceive/bs_recvResCrc", "after the second bad response CRC of an own request the handler goes to bs_skip instead of bs_sendSyn (no closing SYN)",
  "      if (m_currentRequest != nullptr) {\n        return setState(bs_sendSyn, RESULT_ERR_CRC);\n      }",
  "      if (m_currentRequest != nullptr) {\n        return setState(bs_skip, RESULT_ERR_CRC);\n      }", "C02 C03")
m("m26", PD, "handleReceive/bs_recvResAck", "an ACK after a response with wrong CRC is accepted (dropped `!m_crcValid` check)",
  "  case bs_recvResAck:\n    if (recvSymbol == ACK) {\n      if (!m_crcValid) {\n        return setState(bs_skip, RESULT_ERR_ACK);\n      }\n      messageCompleted();",
  "  case bs_recvResAck:\n    if (recvSymbol == ACK) {\n      messageCompleted();", "C01 C15")
m("m27", PD, "handleReceive/bs_recvResAck", "repeating the own response after NAK does not reset m_nextSendPos",
  "        if (m_currentAnswering) {\n          m_nextSendPos = 0;\n          return setState(bs_sendRes, RESULT_ERR_NAK, true);",
  "        if (m_currentAnswering) {\n          return setState(bs_sendRes, RESULT_ERR_NAK, true);", "C15")
m("m28", PD, "handleReceive/bs_sendResAck", "after a sent NAK the response is always re-read (`if (!m_repeat)` became `if (true)`)",
  "    if (!m_crcValid) {\n      if (!m_repeat) {\n        m_repeat = true;\n        m_response.clear();\n        return setState(bs_recvRes, RESULT_ERR_NAK, true);",
  "    if (!m_crcValid) {\n      if (true) {\n        m_repeat = true;\n        m_response.clear();\n        return setState(bs_recvRes, RESULT_ERR_NAK, true);", "C02 C03")
m("m29", PD, "handleReceive/bs_sendCmdAck", "after sending a NAK for a received command the running CRC is not reset",
  "        m_repeat = true;\n        m_crc = 0;\n        m_command.clear();\n        return setState(bs_recvCmd, RESULT_ERR_NAK, true);",
  "        m_repeat = true;\n        m_command.clear();\n        return setState(bs_recvCmd, RESULT_ERR_NAK, true);", "C15")
m("m30", PD, "handleReceive/bs_sendCmdAck", "m_repeat is not reset before sending the own response (a NAK-ed command consumes the repetition of the response)",
  "    m_nextSendPos = 0;\n    m_repeat = false;\n    return setState(bs_sendRes, result);",
  "    m_nextSendPos = 0;\n    return setState(bs_sendRes, result);", "C15 C03")
# ---------------- setState
m("m31", PD, "setState", "one bus-lost retry too many (`<` became `<=`)",
  "getBusLostRetries() < m_config.busLostRetries) {", "getBusLostRetries() <= m_config.busLostRetries) {", "C03 C02 C04")
m("m32", PD, "setState", "arbitration state of the device is not reset when a request is given up in bs_skip",
  "    if (state == bs_skip) {\n      m_device->startArbitration(SYN);  // reset arbitration state\n    }\n", "", "C03 C02 C04")
m("m33", PD, "setState", "m_currentAnswering is not reset in bs_ready/bs_skip (dropped reset)",
  "    m_nextSendPos = 0;\n    m_currentAnswering = false;\n  } else if", "    m_nextSendPos = 0;\n  } else if", "C15 C20 C01 C03")
m("m34", PD, "setState", "m_crcValid is not reset in bs_ready/bs_skip (dropped reset)",
  "    m_crc = 0;\n    m_crcValid = false;\n    m_response.clear();", "    m_crc = 0;\n    m_response.clear();", "C01 C02 C15")
m("m35", PD, "setState", "per-telegram fields are reset only when entering bs_ready, not bs_skip",
  "  if (state == bs_ready || state == bs_skip) {\n    m_command.clear();", "  if (state == bs_ready) {\n    m_command.clear();", "C01 C03 C15 C02")
# ---------------- answers
m("m36", PD, "getAnswer", "master-destination answers match when id length + tail length <= NN (`==` became `<=`)",
  "if (len+it->second.getDataSize() == m_command[4]) {", "if (len+it->second.getDataSize() <= m_command[4]) {", "C15")
m("m37", PD, "setAnswer", "answers with a 4 byte id are rejected (`idLen > 4` became `idLen >= 4`)",
  "|| idLen > 4 ||", "|| idLen >= 4 ||", "C15")
m("m38", PD, "getAnswer", "prefix search stops at id length 1 (`len == 0` became `len <= 1`): answers without id are not found for telegrams with data",
  "    if (len == 0) {\n      break;\n    }\n    // reduce the key", "    if (len <= 1) {\n      break;\n    }\n    // reduce the key", "C15")
m("m56", PD, "handleReceive/bs_ready", "lock count after a lost arbitration seen by the handler itself set to 0 instead of 2/1",
  "m_remainLockCount = isMaster(recvSymbol) ? 2 : 1;  // number of SYN to wait for before next send try",
  "m_remainLockCount = 0;  // number of SYN to wait for before next send try", "C03 C02")
# ---------------- protocol.cpp
m("m39", PR, "addRequest", "requests are accepted in read-only mode",
  "  if (m_config.readOnly) {\n    return RESULT_ERR_DEVICE;\n  }\n  m_nextRequests.push(request);", "  m_nextRequests.push(request);", "C03 C04")
m("m40", PR, "sendAndWait", "one send attempt too few (`failedSendRetries + 1` became `failedSendRetries`)",
  "int sendRetries = m_config.failedSendRetries + 1;", "int sendRetries = m_config.failedSendRetries;", "C04")
m("m41", PR, "sendAndWait", "the result of the request is not taken over (the waiter returns RESULT_OK whenever the request was finished)",
  "    if (success) {\n      result = request.m_result;\n    }\n", "", "C04")
# ---------------- device_trans.cpp plain
m("m42", DT, "PlainDevice::recv", "arbitration address is written although more data is buffered behind the SYN (dropped `len == 1 &&`)",
  "    if (len == 1 && arbitrationState) {\n      // arbitration executed by ebusd itself", "    if (arbitrationState) {\n      // arbitration executed by ebusd itself", "C03 C01")
m("m43", DT, "PlainDevice::recv", "m_arbitrationCheck is not reset after the arbitration result (dropped reset)",
  "          *arbitrationState = *value == m_arbitrationMaster ? as_won : as_lost;\n          m_arbitrationMaster = SYN;\n          m_arbitrationCheck = 0;",
  "          *arbitrationState = *value == m_arbitrationMaster ? as_won : as_lost;\n          m_arbitrationMaster = SYN;", "C02 C03 C04")
m("m44", DT, "BaseDevice::cancelRunningArbitration", "m_arbitrationCheck is not reset when a running arbitration is cancelled (dropped reset)",
  "  m_arbitrationMaster = SYN;\n  m_arbitrationCheck = 0;\n  return true;", "  m_arbitrationMaster = SYN;\n  return true;", "C04 C03 C20")
m("m45", DT, "PlainDevice::recv", "a SYN read while the own arbitration address is being checked re-arms the arbitration instead of counting as lost",
  "    if (*value != SYN || m_arbitrationMaster == SYN || m_arbitrationCheck) {", "    if (*value != SYN || m_arbitrationMaster == SYN) {", "C03 C02")
# ---------------- device_trans.cpp enhanced
m("m46", DT, "EnhancedDevice::startArbitration", "m_arbitrationCheck is not set after START was sent",
  "      return result;\n    }\n    m_arbitrationCheck = 1;\n  }\n  return RESULT_OK;", "      return result;\n    }\n  }\n  return RESULT_OK;", "C03 C14 C02")
m("m47", DT, "handleEnhancedBufferedData", "a complete two-byte sequence at the end of the buffer is treated as incomplete (`<` became `<=`)",
  "if (kind == ENH_BYTE1 && len < pos + 2) {", "if (kind == ENH_BYTE1 && len <= pos + 2) {", "C14 C01")
m("m48", DT, "handleEnhancedBufferedData/STARTED", "m_arbitrationCheck is not reset by STARTED/FAILED (dropped reset)",
  "        m_arbitrationMaster = SYN;\n        m_arbitrationCheck = 0;\n        *value = data;", "        m_arbitrationMaster = SYN;\n        *value = data;", "C02 C03 C04 C14")
m("m49", DT, "handleEnhancedBufferedData/RECEIVED", "arbitration timeout already at the second SYN (`< 3` became `< 2`)",
  "if (m_arbitrationCheck < 3) {", "if (m_arbitrationCheck < 2) {", "C14 C03 C02")
m("m50", DT, "handleEnhancedBufferedData/RECEIVED", "m_arbitrationMaster is not reset when the arbitration timed out (dropped reset)",
  "            *arbitrationState = as_timeout;\n            m_arbitrationMaster = SYN;\n            m_arbitrationCheck = 0;",
  "            *arbitrationState = as_timeout;\n            m_arbitrationCheck = 0;", "C14 C03 C04")
m("m51", DT, "EnhancedDevice::notifyTransportStatus", "m_arbitrationCheck is not reset when the transport was closed (dropped reset)",
  "    m_arbitrationMaster = SYN;\n    m_arbitrationCheck = 0;\n  }\n  return result;", "    m_arbitrationMaster = SYN;\n  }\n  return result;", "C04 C20")
m("m52", DT, "handleEnhancedBufferedData", "the byte following a dangling first byte is parsed again instead of being dropped",
  "        m_listener->notifyDeviceStatus(true, \"missing enhanced byte 2\");\n      }\n      continue;",
  "        m_listener->notifyDeviceStatus(true, \"missing enhanced byte 2\");\n      }\n      pos--;\n      continue;", "C14 C01")
m("m53", DT, "handleEnhancedBufferedData", "a second plain byte in the buffer is not announced (RESULT_OK instead of RESULT_CONTINUE)",
  "      if (valueSet) {\n        more = true;\n        break;\n      }\n      *value = ch;", "      if (valueSet) {\n        break;\n      }\n      *value = ch;", "C14 C01 C03")
# ---------------- queue.h
m("m54", Q, "Queue::remove", "a waiting remove() gives up at the first one-second timeout (`ret != 0 && ret != ETIMEDOUT` became `ret != 0`)",
  "if (ret != 0 && ret != ETIMEDOUT) {", "if (ret != 0) {", "C04")
m("m55", Q, "Queue::push", "push wakes only one waiter (broadcast became signal)",
  "pthread_cond_broadcast(&m_cond);", "pthread_cond_signal(&m_cond);", "C04")


def main():
    os.makedirs(OUT, exist_ok=True)
    tmp = tempfile.mkdtemp(prefix="mutA_gen")
    ok = True
    plan = []
    for (id, f, fn, desc, old, new, checks) in sorted(M):
        a = os.path.join(tmp, "a", f); b = os.path.join(tmp, "b", f)
        for p in (a, b):
            os.makedirs(os.path.dirname(p), exist_ok=True)
        src = subprocess.run(["git", "-C", REPO, "show", "HEAD:" + f], stdout=subprocess.PIPE, text=True, check=True).stdout
        n = src.count(old)
        if n != 1:
            print("ERROR %s: pattern occurs %d times" % (id, n)); ok = False; continue
        open(a, "w").write(src)
        open(b, "w").write(src.replace(old, new))
        r = subprocess.run(["diff", "-u", "--label", "a/" + f, "--label", "b/" + f, a, b], stdout=subprocess.PIPE, text=True)
        with open(os.path.join(OUT, id + ".diff"), "w") as o:
            o.write("# %s  %s:%s\n# %s\n" % (id, f, fn, desc))
            o.write(r.stdout)
        plan.append("\t".join([id, f, fn, desc, checks]))
    open(os.path.join("/tmp/mutA", "plan.tsv"), "w").write("\n".join(plan) + "\n")
    shutil.rmtree(tmp)
    print("generated %d mutants, ok=%s" % (len(plan), ok))
    return 0 if ok else 1

if __name__ == "__main__":
    sys.exit(main())
