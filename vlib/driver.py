#!/usr/bin/env python3
"""Generic check driver: build harnesses from /repo's working tree, run them over partitions,
merge results, classify violations against known_findings.json, confirm each new violation by
two fresh-process replays, write evidence, print VIOLATION / KNOWN-FINDING lines."""
import fnmatch
import hashlib
import json
import os
import subprocess
import sys
import time
from concurrent.futures import ThreadPoolExecutor

from . import build
from .checks import CHECKS

VERIF = build.VERIF
EVID = os.path.join(VERIF, "evidence")
REPLAYS = os.path.join(VERIF, "replays")
if os.path.realpath(build.REPO) != "/repo":
    # a run against a scratch tree must not overwrite the evidence / replays of the real tree
    EVID = os.path.join(build.BUILD, "evidence")
    REPLAYS = os.path.join(build.BUILD, "replays")
MAXPROC = int(os.environ.get("VERIF_JOBS", "16"))
LAST_STDERR = ""


def load_findings(pid):
    out = []
    paths = [os.path.join(VERIF, "known_findings.json")]
    d = os.path.join(VERIF, "known_findings.d")
    if os.path.isdir(d):
        paths += sorted(os.path.join(d, fn) for fn in os.listdir(d) if fn.endswith(".json"))
    for path in paths:
        if not os.path.exists(path):
            continue
        with open(path) as f:
            data = json.load(f)
        out += [e for e in data.get("findings", []) if e.get("property") == pid and e.get("status") == "open"]
    return out


def harness_exe(run):
    return build.build_harness(run["harness"], run["sources"], run.get("variant", "plain"),
                               run.get("libset", "core"), run.get("flags", ()), run.get("libs", ()),
                               run.get("obj_flags", ()), run.get("std", "-std=c++17"),
                               run.get("deps", ()))


def run_env(run):
    env = dict(os.environ)
    if run.get("variant") == "san":
        env.setdefault("ASAN_OPTIONS", "detect_leaks=%d:abort_on_error=0:halt_on_error=1:allocator_may_return_null=1"
                       % (1 if run.get("leaks") else 0))
        env.setdefault("UBSAN_OPTIONS", "print_stacktrace=1:halt_on_error=1")
    if run.get("variant") == "tsan":
        env["TSAN_OPTIONS"] = "report_signal_unsafe=0:" + run.get("tsan_options", "exitcode=0")
    for k, v in run.get("env", {}).items():
        env[k] = v
    return env


def run_parts(pid, run, tier, tmpdir):
    exe = harness_exe(run)
    t = run.get(tier) or run.get("quick")
    nparts = t.get("parts", 1)
    args = [str(a) for a in t.get("args", [])]
    deadline = t.get("deadline", 0)
    env = run_env(run)
    outs = []

    def one(i):
        out = os.path.join(tmpdir, "%s-%s-%d.json" % (pid, run["harness"], i))
        cmd = [exe, "--tier", tier, "--part", str(i), "--nparts", str(nparts), "--out", out] + args
        if deadline:
            cmd += ["--deadline", str(deadline)]
        hard = (deadline * 1.5 + 120) if deadline else t.get("hard_timeout", 7200)
        try:
            r = subprocess.run(cmd, stdout=subprocess.PIPE, stderr=subprocess.PIPE, text=True, env=env,
                               timeout=hard, errors="replace")
        except subprocess.TimeoutExpired:
            # every harness polls its deadline and stops on its own; a partition that is still running at 1.5 x deadline
            # + 120 s is stuck inside the code under test (an endless loop on an input of the enumerated domain): that is
            # a violation ("terminates"), not a harness error.  Replay = the partition with the same limit.
            if deadline:
                return (i, {"exhaustive": False, "violations": [{
                    "sig": "%s/hang/%s/partition-exceeds-time-limit" % (pid, run["harness"]), "count": 1,
                    "case": PARTCASE + json.dumps({"args": cmd[1:], "limit": hard}),
                    "detail": "partition %d of %s did not end within %d s (its own deadline is %d s): the code under test "
                              "does not return on an input of the enumerated domain" % (i, run["harness"], hard, deadline)}],
                    "caps": ["partition %d stuck" % i]}, None)
            return (i, None, "hard timeout after %ds: %s" % (hard, " ".join(cmd)))
        if r.returncode != 0 or not os.path.exists(out):
            how = death_kind(r.returncode, r.stderr)
            if how:
                # the partition was killed inside the code under test (signal, sanitizer, libstdc++ assertion,
                # uncaught exception): run it once more; the same death twice is a deterministic crash of the
                # implementation on an input of the enumerated domain, reported as a violation (not as a harness error)
                try:
                    r2 = subprocess.run(cmd, stdout=subprocess.PIPE, stderr=subprocess.PIPE, text=True, env=env,
                                        timeout=hard, errors="replace")
                    if death_kind(r2.returncode, r2.stderr) == how:
                        return (i, {"exhaustive": False, "violations": [{
                            "sig": "%s/crash/%s/%s" % (pid, run["harness"], how), "count": 1,
                            "case": PARTCASE + json.dumps(cmd[1:]),
                            "detail": "partition %d of %s died twice with %s; stderr tail: %s"
                                      % (i, run["harness"], how, r2.stderr[-1500:])}],
                            "caps": ["partition %d ended by a crash of the code under test" % i]}, None)
                except subprocess.TimeoutExpired:
                    pass
            return (i, None, "harness exit %d: %s\nstdout: %s\nstderr: %s" %
                    (r.returncode, " ".join(cmd), r.stdout[-3000:], r.stderr[-3000:]))
        with open(out) as f:
            res = json.load(f)
        os.unlink(out)
        return (i, res, None)

    with ThreadPoolExecutor(min(MAXPROC, nparts)) as ex:
        outs = list(ex.map(one, range(nparts)))
    return exe, outs


def merge(results):
    m = {"evaluations": 0, "transitions": 0, "traces_validated": 0, "states": 0, "distinct": 0,
         "exhaustive": True, "caps": [], "notes": [], "samples": [], "counters": {}, "violations": {}}
    for res in results:
        for k in ("evaluations", "transitions", "traces_validated", "states", "distinct"):
            m[k] += res.get(k, 0)
        m["exhaustive"] = m["exhaustive"] and res.get("exhaustive", False)
        for c in res.get("caps", []):
            if c not in m["caps"]:
                m["caps"].append(c)
        for c in res.get("notes", []):
            if c not in m["notes"]:
                m["notes"].append(c)
        for s in res.get("samples", []):
            if len(m["samples"]) < 8 and s not in m["samples"]:
                m["samples"].append(s)
        for k, v in res.get("counters", {}).items():
            m["counters"][k] = m["counters"].get(k, 0) + v
        for v in res.get("violations", []):
            cur = m["violations"].get(v["sig"])
            if cur is None:
                m["violations"][v["sig"]] = dict(v)
            else:
                cur["count"] += v["count"]
                if len(v["case"]) < len(cur["case"]):
                    cur["case"], cur["detail"] = v["case"], v["detail"]
    return m


PARTCASE = "@partition "


def death_kind(rc, stderr):
    """classifies the death of a harness process inside the code under test; '' for an ordinary harness exit"""
    if rc is None or rc == 0:
        return ""
    if rc < 0:
        return "signal-%d" % -rc
    tail = stderr[-6000:]
    if "AddressSanitizer" in tail:
        return "asan"
    if "runtime error:" in tail:
        return "ubsan"
    if "terminate called" in tail or "Assertion" in tail and "/include/c++/" in tail:
        return "abort"
    return ""


def replay_partition(exe, run, case):
    """a crash of a whole partition is replayed by running that partition again: exit 1 iff it dies the same way"""
    args = json.loads(case[len(PARTCASE):])
    limit = 7200
    if isinstance(args, dict):  # a stuck partition: {"args": [...], "limit": seconds}
        limit = args["limit"]
        args = args["args"]
    out = os.path.join(build.BUILD, "tmp", "replay-part-%d.json" % os.getpid())
    os.makedirs(os.path.dirname(out), exist_ok=True)
    if "--out" in args:
        args[args.index("--out") + 1] = out
    try:
        r = subprocess.run([exe] + args, stdout=subprocess.PIPE, stderr=subprocess.PIPE, text=True,
                           env=run_env(run), timeout=limit, errors="replace")
    except subprocess.TimeoutExpired:
        return (1, "partition did not end within %d s\n" % limit) if limit != 7200 else (124, "partition replay timed out")
    global LAST_STDERR
    LAST_STDERR = r.stderr
    how = death_kind(r.returncode, r.stderr)
    if os.path.exists(out):
        os.unlink(out)
    return (1, "partition died: %s\n" % how) if how else (0, "partition ended normally (exit %d)\n" % r.returncode)


def replay_once(exe, run, case):
    if case.startswith(PARTCASE):
        return replay_partition(exe, run, case)
    env = run_env(run)
    try:
        r = subprocess.run([exe, "--replay-case", case], stdout=subprocess.PIPE, stderr=subprocess.PIPE,
                           text=True, env=env, timeout=600, errors="replace")
    except subprocess.TimeoutExpired:
        return 124, "replay timed out"
    # only stdout must be deterministic (sanitizer reports on stderr contain addresses)
    global LAST_STDERR
    LAST_STDERR = r.stderr
    return r.returncode, r.stdout


def write_evidence(pid, chk, tier, seed, wall, cov, nviol):
    os.makedirs(EVID, exist_ok=True)
    ev = {
        "property_id": pid, "tier": tier, "seed": seed, "level": chk["level"],
        "coverage": cov, "assumptions": chk.get("assumptions", []), "wall_s": round(wall, 2),
        "violations": nviol,
    }
    tmp = os.path.join(EVID, pid + ".json.tmp")
    with open(tmp, "w") as f:
        json.dump(ev, f, indent=1)
    os.rename(tmp, os.path.join(EVID, pid + ".json"))


def check(pid, tier):
    t0 = time.time()
    chk = CHECKS[pid]
    seed = int(os.environ.get("VERIF_SEED", "0") or 0)
    tmpdir = os.path.join(build.BUILD, "tmp")
    os.makedirs(tmpdir, exist_ok=True)
    findings = load_findings(pid)
    per_run = []
    broken = []
    allv = []  # (run, exe, violation)
    total = None
    for run in chk["runs"]:
        if tier == "quick" and run.get("thorough_only"):
            continue
        exe, outs = run_parts(pid, run, tier, tmpdir)
        good = [o[1] for o in outs if o[1] is not None]
        for o in outs:
            if o[2]:
                broken.append(o[2])
        m = merge(good)
        per_run.append((run, m))
        for sig, v in sorted(m["violations"].items()):
            allv.append((run, exe, v))
    if broken:
        for b in broken:
            sys.stderr.write("HARNESS-ERROR property=%s %s\n" % (pid, b))
        print("HARNESS-ERROR property=%s (%d partition(s) failed, no verdict)" % (pid, len(broken)))
        return 2
    # classify
    known_hit = {}
    new = []
    for run, exe, v in allv:
        hit = None
        for fnd in findings:
            pats = fnd["signature"] if isinstance(fnd["signature"], list) else [fnd["signature"]]
            if any(fnmatch.fnmatchcase(v["sig"], p) for p in pats):
                hit = fnd
                break
        if hit is not None:
            known_hit.setdefault(hit["id"], [hit, 0, []])
            known_hit[hit["id"]][1] += v["count"]
            known_hit[hit["id"]][2].append(v["sig"])
        else:
            new.append((run, exe, v))
    rc = 0
    reported = []
    for run, exe, v in new[:int(os.environ.get("VERIF_MAX_REPORT", "12"))]:
        if v["case"].startswith(PARTCASE):
            c1, o1 = 1, v["detail"].split(";")[0] + "\n"   # died twice already (run_parts)
            c2, o2 = c1, o1
        else:
            c1, o1 = replay_once(exe, run, v["case"])
            c2, o2 = replay_once(exe, run, v["case"])
        if c1 != 1 or c2 != 1 or o1 != o2:
            sys.stderr.write("HARNESS-ERROR property=%s violation %s did not replay deterministically "
                             "(exit %d/%d, same output: %s)\n--- first\n%s\n--- second\n%s\n"
                             % (pid, v["sig"], c1, c2, o1 == o2, o1[-3000:], o2[-3000:]))
            print("HARNESS-ERROR property=%s nondeterministic replay of %s" % (pid, v["sig"]))
            rc = max(rc, 2)
            continue
        d = os.path.join(REPLAYS, pid)
        os.makedirs(d, exist_ok=True)
        name = hashlib.sha1(v["sig"].encode()).hexdigest()[:12] + ".json"
        path = os.path.join(d, name)
        with open(path, "w") as f:
            json.dump({"property": pid, "harness": run["harness"], "signature": v["sig"],
                       "count": v["count"], "detail": v["detail"], "case": v["case"],
                       "observation": o1[-8000:], "stderr": LAST_STDERR[-4000:]}, f, indent=1)
        print("VIOLATION property=%s replay=%s" % (pid, path))
        print("  signature: %s (x%d)\n  %s" % (v["sig"], v["count"], v["detail"][:600]))
        reported.append(v["sig"])
        rc = max(rc, 1)
    if reported:
        rc = 1  # a deterministically replayed violation decides; non-reproducible ones were only logged above
    if len(new) > len(reported) and rc == 1:
        print("  (%d further unlisted violation signature(s) not written out)" % (len(new) - len(reported)))
    for fid, (fnd, cnt, sigs) in sorted(known_hit.items()):
        print("KNOWN-FINDING: property=%s %s [%s; %d case(s)]" % (pid, fnd["what"], fid, cnt))
    # evidence
    cov = {"evaluations": 0, "distinct_nontrivial": 0, "states": 0, "transitions": 0,
           "traces_validated_against_impl": 0, "exhaustive": True, "samples": [], "caps": [],
           "rule": chk["rule"], "runs": []}
    for run, m in per_run:
        cov["evaluations"] += m["evaluations"]
        cov["distinct_nontrivial"] += m["distinct"]
        cov["states"] += m["states"]
        cov["transitions"] += m["transitions"]
        cov["traces_validated_against_impl"] += m["traces_validated"]
        cov["exhaustive"] = cov["exhaustive"] and m["exhaustive"]
        cov["caps"] += [c for c in m["caps"] if c not in cov["caps"]]
        for s in m["samples"]:
            if len(cov["samples"]) < 10:
                cov["samples"].append(s)
        t = run.get(tier) or run.get("quick")
        cov["runs"].append({"harness": run["harness"], "variant": run.get("variant", "plain"),
                            "args": t.get("args", []), "parts": t.get("parts", 1),
                            "bounds": t.get("bounds", ""),
                            "evaluations": m["evaluations"], "states": m["states"],
                            "transitions": m["transitions"], "distinct": m["distinct"],
                            "exhaustive": m["exhaustive"], "counters": m["counters"], "notes": m["notes"]})
    cov["known_findings_observed"] = sorted(known_hit.keys())
    cov["unlisted_violation_signatures"] = [v["sig"] for _, _, v in new][:50]
    cov["repo_tree_hash"] = build.tree_hash()
    if chk.get("explanation"):
        cov["explanation"] = chk["explanation"]
    write_evidence(pid, chk, tier, seed, time.time() - t0, cov, len(new))
    print("%s %s: evaluations=%d states=%d transitions=%d distinct=%d exhaustive=%s known=%d new=%d wall=%.1fs"
          % (pid, tier, cov["evaluations"], cov["states"], cov["transitions"], cov["distinct_nontrivial"],
             cov["exhaustive"], len(known_hit), len(new), time.time() - t0))
    return rc


def replay(pid, path):
    with open(path) as f:
        rp = json.load(f)
    chk = CHECKS[pid]
    for run in chk["runs"]:
        if run["harness"] == rp["harness"]:
            exe = harness_exe(run)
            c, o = replay_once(exe, run, rp["case"])
            sys.stdout.write(o)
            sys.stderr.write(LAST_STDERR[-6000:])
            return c
    print("no harness %s for %s" % (rp["harness"], pid))
    return 2


def main(argv):
    if len(argv) < 3:
        print("usage: vcheck <ID> quick|thorough | vcheck <ID> --replay <file> | vcheck <ID> --case <string> [harness]")
        return 2
    pid = argv[1]
    if pid not in CHECKS:
        print("unknown property " + pid)
        return 2
    if argv[2] == "--replay":
        return replay(pid, argv[3])
    if argv[2] == "--case":
        chk = CHECKS[pid]
        runs = [r for r in chk["runs"] if len(argv) < 5 or r["harness"] == argv[4]]
        exe = harness_exe(runs[0])
        c, o = replay_once(exe, runs[0], argv[3])
        sys.stdout.write(o)
        return c
    tier = argv[2]
    if tier not in ("quick", "thorough"):
        tier = os.environ.get("VERIF_TIER", "quick")
    return check(pid, tier)
