// C07 reference side: exact decimal arithmetic on digit strings, the numeric type table written
// from the type descriptions (comments of the type list / eBUS type definitions), a strict
// number grammar with a three-valued well-formedness verdict, and reference raw decoding.
// Nothing in this file calls into ebusd.
#ifndef VERIF_C07_REF_H_
#define VERIF_C07_REF_H_

#include <stdint.h>
#include <string.h>
#include <algorithm>
#include <string>
#include <vector>

namespace c07 {

typedef __int128 i128;
typedef unsigned __int128 u128;

// ---------------------------------------------------------------- magnitude strings (MSD first)
inline std::string stripLead(const std::string& s) {
  size_t i = 0;
  while (i < s.size() && s[i] == '0') i++;
  return s.substr(i);
}
inline int cmpMag(const std::string& a, const std::string& b) {  // both stripped
  if (a.size() != b.size()) return a.size() < b.size() ? -1 : 1;
  int c = a.compare(b);
  return c < 0 ? -1 : (c > 0 ? 1 : 0);
}
inline std::string addMag(const std::string& a, const std::string& b) {
  std::string r;
  int carry = 0;
  size_t i = a.size(), j = b.size();
  while (i > 0 || j > 0 || carry) {
    int s = carry;
    if (i > 0) s += a[--i] - '0';
    if (j > 0) s += b[--j] - '0';
    r.push_back(static_cast<char>('0' + s % 10));
    carry = s / 10;
  }
  std::reverse(r.begin(), r.end());
  return stripLead(r);
}
inline std::string subMag(const std::string& a, const std::string& b) {  // a >= b
  std::string r;
  int borrow = 0;
  size_t i = a.size(), j = b.size();
  while (i > 0) {
    int s = (a[--i] - '0') - borrow - (j > 0 ? b[--j] - '0' : 0);
    if (s < 0) { s += 10; borrow = 1; } else { borrow = 0; }
    r.push_back(static_cast<char>('0' + s));
  }
  std::reverse(r.begin(), r.end());
  return stripLead(r);
}
inline std::string mulMagSmall(const std::string& a, uint64_t k) {
  if (a.empty() || k == 0) return "";
  std::string r;
  u128 carry = 0;
  for (size_t i = a.size(); i > 0; i--) {
    u128 s = (u128)(a[i - 1] - '0') * k + carry;
    r.push_back(static_cast<char>('0' + (int)(s % 10)));
    carry = s / 10;
  }
  while (carry) { r.push_back(static_cast<char>('0' + (int)(carry % 10))); carry /= 10; }
  std::reverse(r.begin(), r.end());
  return stripLead(r);
}
inline std::string divMagSmall(const std::string& a, uint64_t k, uint64_t* rem) {
  std::string r;
  u128 cur = 0;
  for (char c : a) {
    cur = cur * 10 + (c - '0');
    r.push_back(static_cast<char>('0' + (int)(cur / k)));
    cur %= k;
  }
  *rem = (uint64_t)cur;
  return stripLead(r);
}
inline std::string u128ToMag(u128 v) {
  std::string r;
  while (v) { r.push_back(static_cast<char>('0' + (int)(v % 10))); v /= 10; }
  std::reverse(r.begin(), r.end());
  return r;
}

// ---------------------------------------------------------------- exact decimal number
struct Dec {
  bool neg = false;
  std::string m;  // magnitude digits, no leading zeros, "" = 0
  long e = 0;     // value = +-m * 10^e
  Dec() {}
  static Dec fromI(i128 v) {
    Dec d;
    if (v < 0) { d.neg = true; d.m = u128ToMag((u128)(-(v + 1)) + 1); } else { d.m = u128ToMag((u128)v); }
    return d;
  }
  bool isZero() const { return m.empty(); }
  void norm() {
    m = stripLead(m);
    if (m.empty()) { neg = false; e = 0; return; }
    size_t z = 0;
    while (z < m.size() && m[m.size() - 1 - z] == '0') z++;
    if (z) { m.erase(m.size() - z); e += static_cast<long>(z); }
  }
  Dec abs() const { Dec d = *this; d.neg = false; return d; }
  Dec negated() const { Dec d = *this; if (!d.isZero()) d.neg = !d.neg; return d; }
  bool isInteger() const { Dec d = *this; d.norm(); return d.isZero() || d.e >= 0; }
  // number of significant digits + exponent gives the magnitude order
  long order() const { return isZero() ? -100000 : static_cast<long>(m.size()) + e; }
};
inline void alignMag(const Dec& a, const Dec& b, std::string* sa, std::string* sb, long* e) {
  *e = std::min(a.e, b.e);
  *sa = a.isZero() ? "" : a.m + std::string(static_cast<size_t>(a.e - *e), '0');
  *sb = b.isZero() ? "" : b.m + std::string(static_cast<size_t>(b.e - *e), '0');
}
inline int cmpAbs(const Dec& a, const Dec& b) {
  if (a.isZero() || b.isZero()) return a.isZero() ? (b.isZero() ? 0 : -1) : 1;
  if (a.order() != b.order()) {
    // orders are only comparable after stripping leading zeros, which m guarantees
    return a.order() < b.order() ? -1 : 1;
  }
  std::string sa, sb; long e;
  alignMag(a, b, &sa, &sb, &e);
  return cmpMag(sa, sb);
}
inline int cmp(const Dec& a, const Dec& b) {
  bool an = a.neg && !a.isZero(), bn = b.neg && !b.isZero();
  if (an != bn) return an ? -1 : 1;
  int c = cmpAbs(a, b);
  return an ? -c : c;
}
inline Dec add(const Dec& a, const Dec& b) {
  std::string sa, sb; long e;
  alignMag(a, b, &sa, &sb, &e);
  Dec r; r.e = e;
  bool an = a.neg && !a.isZero(), bn = b.neg && !b.isZero();
  if (an == bn) { r.m = addMag(sa, sb); r.neg = an; }
  else {
    int c = cmpMag(stripLead(sa), stripLead(sb));
    if (c == 0) { r.m = ""; }
    else if (c > 0) { r.m = subMag(sa, sb); r.neg = an; }
    else { r.m = subMag(sb, sa); r.neg = bn; }
  }
  r.norm();
  return r;
}
inline Dec sub(const Dec& a, const Dec& b) { return add(a, b.negated()); }
inline Dec mulU(const Dec& a, uint64_t k) { Dec r = a; r.m = mulMagSmall(a.m, k); r.norm(); return r; }
inline Dec shift10(const Dec& a, long by) { Dec r = a; if (!r.isZero()) r.e += by; return r; }
// a / k when the quotient is a finite decimal within maxExtra extra digits; ok=false otherwise
inline Dec divExact(const Dec& a, uint64_t k, bool* ok, int maxExtra = 60) {
  Dec r = a;
  uint64_t rem = 0;
  std::string cur = a.m;
  long e = a.e;
  for (int i = 0; i <= maxExtra; i++) {
    std::string q = divMagSmall(cur, k, &rem);
    if (rem == 0) { r.m = q; r.e = e; r.norm(); *ok = true; return r; }
    cur.push_back('0');
    e--;
  }
  *ok = false;
  return r;
}
// floor(|a| / k) + 1 as integer Dec (used for tolerances)
inline Dec divCeilAbs(const Dec& a, uint64_t k) {
  Dec t = a.abs();
  std::string s = t.isZero() ? "" : (t.e >= 0 ? t.m + std::string(static_cast<size_t>(t.e), '0')
                                             : (static_cast<long>(t.m.size()) + t.e > 0 ? t.m.substr(0, t.m.size() + t.e) : ""));
  uint64_t rem;
  Dec r; r.m = addMag(divMagSmall(s, k, &rem), "1");
  return r;
}
// plain decimal text without exponent
inline std::string toPlain(const Dec& a0) {
  Dec a = a0; a.norm();
  if (a.isZero()) return "0";
  std::string s;
  if (a.e >= 0) { s = a.m + std::string(static_cast<size_t>(a.e), '0'); }
  else {
    long point = static_cast<long>(a.m.size()) + a.e;
    if (point > 0) s = a.m.substr(0, point) + "." + a.m.substr(point);
    else s = "0." + std::string(static_cast<size_t>(-point), '0') + a.m;
  }
  return (a.neg ? "-" : "") + s;
}
inline long double toLD(const Dec& a) {
  if (a.isZero()) return 0.0L;
  std::string s = (a.neg ? "-" : "") + a.m + "e" + std::to_string(a.e);
  return strtold(s.c_str(), nullptr);
}

// ---------------------------------------------------------------- number grammar (three-valued)
enum WF { WF_NO = 0, WF_MAYBE = 1, WF_YES = 2 };
struct Parsed {
  WF wf = WF_NO;
  Dec v;             // value under the decimal reading
  bool hasAlt = false;
  Dec alt;           // value under the C octal reading (superfluous leading zero)
  bool isHex = false;
  bool blanks = false;
  bool nullToken = false;  // exactly "-"
};
inline bool isDig(char c) { return c >= '0' && c <= '9'; }
inline int hexVal(char c) {
  if (c >= '0' && c <= '9') return c - '0';
  if (c >= 'a' && c <= 'f') return c - 'a' + 10;
  if (c >= 'A' && c <= 'F') return c - 'A' + 10;
  return -1;
}
// strict: [+-] digits [. digits] [eE [+-] digits]  |  [+-] 0[xX] hexdigits
// maybe:  surrounding blanks, "12." / ".5", superfluous leading zeros
inline Parsed parseNumber(const std::string& text) {
  Parsed p;
  if (text == "-") { p.nullToken = true; return p; }
  size_t b = 0, e = text.size();
  while (b < e && (text[b] == ' ' || text[b] == '\t')) b++;
  while (e > b && (text[e - 1] == ' ' || text[e - 1] == '\t')) e--;
  p.blanks = b > 0 || e < text.size();
  std::string s = text.substr(b, e - b);
  if (s.empty()) return p;
  size_t i = 0;
  bool neg = false, maybe = p.blanks;
  if (s[i] == '+' || s[i] == '-') { neg = s[i] == '-'; i++; }
  if (i + 1 < s.size() && s[i] == '0' && (s[i + 1] == 'x' || s[i + 1] == 'X')) {
    i += 2;
    if (i >= s.size()) return p;
    Dec v;
    for (; i < s.size(); i++) {
      int h = hexVal(s[i]);
      if (h < 0) return p;
      v.m = addMag(mulMagSmall(v.m, 16), h ? std::to_string(h) : std::string());
    }
    v.neg = neg; v.norm();
    p.v = v; p.isHex = true; p.wf = maybe ? WF_MAYBE : WF_YES;
    return p;
  }
  size_t is = i;
  while (i < s.size() && isDig(s[i])) i++;
  std::string ip = s.substr(is, i - is), fp;
  bool hasPoint = false;
  if (i < s.size() && s[i] == '.') {
    hasPoint = true; i++;
    size_t fs = i;
    while (i < s.size() && isDig(s[i])) i++;
    fp = s.substr(fs, i - fs);
  }
  if (ip.empty() && fp.empty()) return p;
  if (ip.empty() || (hasPoint && fp.empty())) maybe = true;  // ".5" or "12."
  long ex = 0;
  bool hasExp = false;
  if (i < s.size() && (s[i] == 'e' || s[i] == 'E')) {
    hasExp = true; i++;
    bool en = false;
    if (i < s.size() && (s[i] == '+' || s[i] == '-')) { en = s[i] == '-'; i++; }
    size_t es = i;
    while (i < s.size() && isDig(s[i])) i++;
    if (i == es) return p;
    std::string ed = stripLead(s.substr(es, i - es));
    if (ed.size() > 6) ex = 9999999; else ex = ed.empty() ? 0 : atol(ed.c_str());
    if (en) ex = -ex;
  }
  if (i != s.size()) return p;
  Dec v;
  v.m = stripLead(ip + fp);
  v.e = ex - static_cast<long>(fp.size());
  v.neg = neg;
  v.norm();
  p.v = v;
  if (ip.size() > 1 && ip[0] == '0') {
    maybe = true;
    // C reading: octal if no point/exponent and all digits < 8; otherwise "0" followed by garbage
    if (!hasPoint && !hasExp) {
      bool oct = true;
      for (char c : ip) if (c > '7') oct = false;
      if (oct) {
        Dec a;
        for (char c : ip) a.m = addMag(mulMagSmall(a.m, 8), c == '0' ? "" : std::string(1, c));
        a.neg = neg; a.norm();
        p.alt = a; p.hasAlt = true;
      }
    }
  }
  p.wf = maybe ? WF_MAYBE : WF_YES;
  return p;
}

// ---------------------------------------------------------------- type table (from the type descriptions)
struct RefType {
  const char* id;     // as written in a definition (with :len where the length selects the type)
  int bits;
  bool sig, bcd, hcd, rev, req, isFloat, isBits, dayList;
  int firstBit;       // bit types
  uint32_t repl;      // replacement pattern (unused when req)
  int64_t minRaw, maxRaw;  // representable range as signed raw values (non-float)
  int builtinDiv;     // divisor that is part of the type
  const char* cls;    // signature class
};
inline std::vector<RefType> typeTable() {
  std::vector<RefType> t;
  auto add = [&](const char* id, int bits, const char* fl, uint32_t repl, int64_t mn, int64_t mx, int div, const char* cls) {
    RefType r{id, bits, strchr(fl, 's') != 0, strchr(fl, 'b') != 0, strchr(fl, 'h') != 0, strchr(fl, 'r') != 0,
              strchr(fl, 'q') != 0, strchr(fl, 'f') != 0, false, strchr(fl, 'd') != 0, 0, repl, mn, mx, div, cls};
    t.push_back(r);
  };
  // unsigned decimal in BCD, 0000 - 9999 (fixed length), most significant byte first
  add("PIN", 16, "br", 0xffff, 0, 9999, 1, "pin");
  add("UCH", 8, "", 0xff, 0, 254, 1, "u8");
  add("U1L", 8, "q", 0, 0, 255, 1, "u8");
  add("BCD", 8, "b", 0xff, 0, 99, 1, "bcd");
  add("BCD:1", 8, "b", 0xff, 0, 99, 1, "bcd");
  add("BCD:2", 16, "b", 0xffff, 0, 9999, 1, "bcd");
  add("BCD:3", 24, "b", 0xffffff, 0, 999999, 1, "bcd");
  add("BCD:4", 32, "b", 0xffffffff, 0, 99999999, 1, "bcd");
  add("HCD", 32, "bhq", 0, 0, 99999999, 1, "hcd");
  add("HCD:4", 32, "bhq", 0, 0, 99999999, 1, "hcd");
  add("HCD:1", 8, "bhq", 0, 0, 99, 1, "hcd");
  add("HCD:2", 16, "bhq", 0, 0, 9999, 1, "hcd");
  add("HCD:3", 24, "bhq", 0, 0, 999999, 1, "hcd");
  add("SCH", 8, "s", 0x80, -127, 127, 1, "s8");
  add("S1L", 8, "sq", 0, -128, 127, 1, "s8");
  add("D1B", 8, "s", 0x80, -127, 127, 1, "s8");
  add("D1C", 8, "", 0xff, 0, 200, 2, "u8");
  add("D2B", 16, "s", 0x8000, -32767, 32767, 256, "s16");
  add("D2C", 16, "s", 0x8000, -32767, 32767, 16, "s16");
  add("FLT", 16, "s", 0x8000, -32767, 32767, 1000, "s16");
  add("FLR", 16, "sr", 0x8000, -32767, 32767, 1000, "s16");
  add("EXP", 32, "sf", 0x7fc00000, 0, 0, 1, "float");
  add("EXR", 32, "sfr", 0x7fc00000, 0, 0, 1, "float");
  add("UIN", 16, "", 0xffff, 0, 65534, 1, "u16");
  add("UIR", 16, "r", 0xffff, 0, 65534, 1, "u16");
  add("U2L", 16, "q", 0, 0, 65535, 1, "u16");
  add("U2B", 16, "qr", 0, 0, 65535, 1, "u16");
  add("SIN", 16, "s", 0x8000, -32767, 32767, 1, "s16");
  add("SIR", 16, "sr", 0x8000, -32767, 32767, 1, "s16");
  add("S2L", 16, "sq", 0, -32768, 32767, 1, "s16");
  add("S2B", 16, "sqr", 0, -32768, 32767, 1, "s16");
  add("U3N", 24, "", 0xffffff, 0, 16777214, 1, "u24");
  add("U3R", 24, "r", 0xffffff, 0, 16777214, 1, "u24");
  add("U3L", 24, "q", 0, 0, 16777215, 1, "u24");
  add("U3B", 24, "qr", 0, 0, 16777215, 1, "u24");
  add("S3N", 24, "s", 0x800000, -8388607, 8388607, 1, "s24");
  add("S3R", 24, "sr", 0x800000, -8388607, 8388607, 1, "s24");
  add("S3L", 24, "sq", 0, -8388608, 8388607, 1, "s24");
  add("S3B", 24, "sqr", 0, -8388608, 8388607, 1, "s24");
  add("ULG", 32, "", 0xffffffff, 0, 4294967294LL, 1, "u32");
  add("ULR", 32, "r", 0xffffffff, 0, 4294967294LL, 1, "u32");
  add("U4L", 32, "q", 0, 0, 4294967295LL, 1, "u32");
  add("U4B", 32, "qr", 0, 0, 4294967295LL, 1, "u32");
  add("SLG", 32, "s", 0x80000000, -2147483647LL, 2147483647LL, 1, "s32");
  add("SLR", 32, "sr", 0x80000000, -2147483647LL, 2147483647LL, 1, "s32");
  add("S4L", 32, "sq", 0, -2147483648LL, 2147483647LL, 1, "s32");
  add("S4B", 32, "sqr", 0, -2147483648LL, 2147483647LL, 1, "s32");
  // weekday types carry a forced value list Mon..Sun
  add("BDY", 8, "d", 0x07, 0, 6, 1, "list");
  add("HDY", 8, "d", 0x00, 1, 7, 1, "list");
  // bit types BIx[:n]: n bits starting at bit x of one byte, no replacement
  static std::vector<std::string> names;
  if (names.empty()) {
    for (int x = 0; x < 8; x++) for (int n = 1; x + n <= 8 && n <= 7; n++) {
      if (x == 7 && n > 1) continue;
      char b[16];
      if (x == 7) snprintf(b, sizeof(b), "BI7"); else snprintf(b, sizeof(b), "BI%d:%d", x, n);
      names.push_back(b);
    }
  }
  for (const std::string& nm : names) {
    int x = nm[2] - '0';
    int n = nm.size() > 3 ? nm[4] - '0' : 1;
    RefType r{nm.c_str(), n, false, false, false, false, true, false, true, false, x, 0, 0, (1 << n) - 1, 1, "bits"};
    t.push_back(r);
  }
  return t;
}

// reference decoding of the raw value from the written bytes
// returns false if the bytes are not a valid encoding (BCD digit > 9, HCD byte > 99)
inline bool refRaw(const RefType& t, const unsigned char* p, size_t n, int64_t* out, bool* isRepl) {
  *isRepl = false;
  if (t.isBits) {
    *out = (p[0] >> t.firstBit) & ((1 << t.bits) - 1);
    return true;
  }
  std::vector<unsigned char> b(p, p + n);
  if (t.rev) std::reverse(b.begin(), b.end());  // now least significant first
  if (t.bcd) {
    if (!t.req) {
      // a replacement byte anywhere marks the null value for BCD types
      for (unsigned char c : b) if (c == (t.repl & 0xff)) { *isRepl = true; }
      if (*isRepl) { *out = 0; return true; }
    }
    int64_t v = 0, mul = 1;
    for (unsigned char c : b) {
      int d;
      if (t.hcd) { if (c > 99) return false; d = c; }
      else { if ((c >> 4) > 9 || (c & 15) > 9) return false; d = (c >> 4) * 10 + (c & 15); }
      v += d * mul; mul *= 100;
    }
    *out = v;
    return true;
  }
  uint64_t u = 0;
  for (size_t i = 0; i < b.size(); i++) u |= (uint64_t)b[i] << (8 * i);
  if (!t.req && u == t.repl) *isRepl = true;
  if (t.sig && (u >> (t.bits - 1)) & 1) *out = (int64_t)u - ((int64_t)1 << t.bits); else *out = (int64_t)u;
  return true;
}

}  // namespace c07
#endif  // VERIF_C07_REF_H_
