// C10: fields of a message are laid out as defined and do not influence each other.
// All sequences of up to N field definitions over a type alphabet, every master/slave split;
// owned bits are discovered black-box by encoding with one field varied; then
//  (1) length notions agree, (2) whole decode == composition of single-field decodes of own bytes,
//  (3) flipping a non-owned bit never changes a field's decoded text/formatting,
//  (4) encoding a value changes only owned bits (and equals the single-field encoding).
#include <errno.h>
#include <algorithm>
#include <functional>
#include <sstream>
#include "lib/ebus/data.h"
#include "lib/ebus/datatype.h"
#include "lib/ebus/message.h"
#include "lib/ebus/result.h"
#include "lib/ebus/symbol.h"
#include "vout.h"

using namespace ebusd;
using std::string;
using std::vector;

static vp::Result R;
static DataFieldTemplates* g_templates = nullptr;

// ---- field type alphabet; sizes and bit ranges are taken from the type definitions ------------
struct FT {
  const char* type;
  int bytes;        // full-byte types: number of bytes; bit types: 1
  bool bit;         // owns a bit range of one byte
  int firstBit, nbits;
  bool ign, var;
  char kind;        // signature shape letter
  vector<string> vals;  // 3 valid values in canonical text form (bit types: generated)
  bool ext = false;     // extended alphabet: quick only in sequences of length <= 2, thorough up to 3
};
static vector<FT> g_alpha;
// The statement does not say whether the 6-bit time type TTH is a bit field (may share its byte, owns
// bits 0-5) or a full-byte field (owns its byte, never shares): both readings are tried and a sequence
// only fails if it is inconsistent under both.
static int g_subByte = -1;
static bool g_subByteAsBits = false;
static FT g_subByteBits;
static const FT& FTof(int t) { return (g_subByteAsBits && t == g_subByte) ? g_subByteBits : g_alpha[t]; }
static void initAlphabet() {
  auto full = [&](const char* t, int bytes, char kind, vector<string> vals) { g_alpha.push_back(FT{t, bytes, false, 0, 0, false, false, kind, vals}); };
  auto bits = [&](const char* t, int fb, int n) {
    int mx = (1 << n) - 1;
    vector<string> v = {"0", std::to_string(mx), std::to_string(n == 1 ? 1 : (0x55 & mx))};
    g_alpha.push_back(FT{t, 1, true, fb, n, false, false, 'B', v});
  };
  full("UCH", 1, 'N', {"0", "254", "85"});
  full("SCH", 1, 'N', {"0", "-1", "85"});
  full("UIN", 2, 'N', {"0", "65534", "21845"});
  full("SIN", 2, 'N', {"0", "-1", "21845"});
  full("U3N", 3, 'N', {"0", "16777214", "5592405"});
  full("ULG", 4, 'N', {"0", "4294967294", "1431655765"});
  full("D2C", 2, 'N', {"0.00", "-0.06", "100.50"});
  full("BCD", 1, 'N', {"0", "99", "42"});
  full("BCD:2", 2, 'N', {"0", "9999", "1234"});
  bits("BI0", 0, 1); bits("BI0:3", 0, 3); bits("BI0:7", 0, 7); bits("BI1", 1, 1);
  bits("BI3:2", 3, 2); bits("BI4:4", 4, 4); bits("BI7", 7, 1);
  g_alpha.push_back(FT{"IGN:1", 1, false, 0, 0, true, false, 'I', {}});
  g_alpha.push_back(FT{"IGN:2", 2, false, 0, 0, true, false, 'I', {}});
  full("STR:2", 2, 'S', {"ab", "YZ", "q1"});
  full("HEX:2", 2, 'X', {"00 00", "ff ff", "a5 5a"});
  full("BDA:3", 3, 'Y', {"01.01.2000", "31.12.2099", "-.-.2005"});
  full("BTI", 3, 'D', {"00:00:00", "23:59:59", "12:34:56"});
  full("TTM", 1, 'D', {"00:00", "23:50", "12:00"});
  full("HDY", 1, 'L', {"Mon", "Sun", "Thu"});
  // explicit divisors ("type/divisor") and IEEE float types: their formatting (fixed / default float format,
  // precision) is the state a following field must not inherit; float values need several significant digits
  full("UCH/10", 1, 'N', {"0.0", "25.4", "8.5"});
  full("UIN/-10", 2, 'N', {"0", "655340", "218450"});
  full("EXP", 4, 'F', {"3.14159", "-1234.56", "0.001"});
  full("EXR", 4, 'F', {"0.25", "3.14159", "-1234.56"});
  full("EXP/10", 4, 'F', {"3.1415901", "-0.2500000", "0.0010000"});
  // extended alphabet (types whose printing has own code paths): minutes, date+time, day count, a value list
  // ("type/k=name+k=name": bit flips reach unlisted values), a date without weekday in binary
  full("MIN", 2, 'D', {"00:01", "23:59", "12:34"});
  full("DTM", 4, 'D', {"01.01.2009 00:01", "31.12.2099 23:59", "15.06.2050 12:34"});
  full("DAY", 2, 'D', {"01.01.2000", "31.12.2050", "15.06.2020"});
  full("HDA:3", 3, 'Y', {"01.01.2000", "31.12.2099", "-.-.2012"});
  full("UCH/0=off+1=on+254=max", 1, 'L', {"off", "max", "on"});
  for (size_t k = g_alpha.size() - 5; k < g_alpha.size(); k++) g_alpha[k].ext = true;
  // bit fields with a divisor (a derived type of the bit type: same bit position as the plain one)
  // bit fields reached through a template (a derived type of the bit type: same bit position as the plain one)
  bits("flag7", 7, 1);
  g_alpha.back().ext = true;
  bits("bits32", 3, 2);
  g_alpha.back().ext = true;
  // truncated time in 6 bits of one byte (see above)
  g_subByte = (int)g_alpha.size();
  g_alpha.push_back(FT{"TTH", 1, false, 0, 0, false, false, 'T', {"00:00", "23:00", "10:30"}});
  g_subByteBits = FT{"TTH", 1, true, 0, 6, false, false, 'T', {"00:00", "23:00", "10:30"}};
  // variable length string, only admissible as last field of its part
  g_alpha.push_back(FT{"STR:*", 0, false, 0, 0, false, true, 'V', {"", "bcd", "XY"}});  // the empty value still spans one (padding) byte
}
static int g_varIndex = -1;

struct FieldDef { int t; char part; };  // part 'm' or 's'
typedef vector<FieldDef> Seq;

static string seqStr(const Seq& s) {
  string o;
  for (size_t i = 0; i < s.size(); i++) { if (i) o += ","; o += g_alpha[s[i].t].type; o += "."; o += s[i].part; }
  return o;
}
static string shapeOf(const Seq& s) {
  string o;
  for (auto& f : s) o += g_alpha[f.t].kind;
  return o;
}

static const DataField* createFields(const Seq& s, const vector<string>* names = nullptr) {
  vector<std::map<string, string>> rows(s.size());
  for (size_t i = 0; i < s.size(); i++) {
    rows[i]["name"] = names ? (*names)[i] : "f" + std::to_string(i);
    rows[i]["part"] = string(1, s[i].part);
    string ty = g_alpha[s[i].t].type;
    size_t slash = ty.find('/');
    rows[i]["type"] = ty.substr(0, slash);
    if (slash != string::npos) {
      string arg = ty.substr(slash + 1);
      if (arg.find('=') != string::npos) { std::replace(arg.begin(), arg.end(), '+', ';'); rows[i]["values"] = arg; }
      else rows[i]["divisor"] = arg;
    }
  }
  const DataField* f = nullptr;
  string err;
  errno = 0;
  result_t r = DataField::create(false, false, false, MAX_POS, g_templates, &rows, &err, &f);
  if (r != RESULT_OK) return nullptr;
  return f;
}

typedef vector<unsigned char> Bytes;
struct Enc { result_t res = RESULT_OK; Bytes m, s; size_t usedM = 0, usedS = 0; };

static void loadM(MasterSymbolString* ms, const Bytes& d) {
  for (unsigned char c : {0x10, 0x08, 0xb5, 0x09}) ms->push_back(c);
  ms->push_back((unsigned char)d.size());
  for (unsigned char c : d) ms->push_back(c);
}
static void loadS(SlaveSymbolString* ss, const Bytes& d) {
  ss->push_back((unsigned char)d.size());
  for (unsigned char c : d) ss->push_back(c);
}

static Enc encodeInput(const DataField* f, const string& in);
// the token list (non-ignored fields in definition order, master part first then slave)
static vector<string> tokensOf(const Seq& seq, const vector<string>& vals) {
  vector<string> t;
  for (char part : {'m', 's'}) for (size_t i = 0; i < seq.size(); i++) {
    if (seq[i].part != part || g_alpha[seq[i].t].ign) continue;
    t.push_back(vals[i]);
  }
  return t;
}
static string joinTokens(const vector<string>& t, size_t count) {
  string in;
  for (size_t i = 0; i < count && i < t.size(); i++) { if (i) in += UI_FIELD_SEPARATOR; in += t[i]; }
  return in;
}
static Enc encode(const DataField* f, const Seq& seq, const vector<string>& vals) {
  vector<string> t = tokensOf(seq, vals);
  return encodeInput(f, joinTokens(t, t.size()));
}
static Enc encodeInput(const DataField* f, const string& in) {
  Enc e;
  MasterSymbolString ms; loadM(&ms, {});
  SlaveSymbolString ss; loadS(&ss, {});
  std::istringstream is(in);
  errno = 0;
  e.res = f->write(UI_FIELD_SEPARATOR, 0, &is, &ms, &e.usedM);
  R.transitions++;
  if (e.res == RESULT_OK) { errno = 0; e.res = f->write(UI_FIELD_SEPARATOR, 0, &is, &ss, &e.usedS); R.transitions++; }
  for (size_t i = 5; i < ms.size(); i++) e.m.push_back(ms[i]);
  for (size_t i = 1; i < ss.size(); i++) e.s.push_back(ss[i]);
  return e;
}

struct Dec { result_t res; string text; };
// decode both parts onto one stream the way a message decode does (master part then slave part)
static Dec decodeWhole(const DataField* f, const Bytes& m, const Bytes& s, OutputFormat fmt, const char* fieldName = nullptr) {
  MasterSymbolString ms; loadM(&ms, m);
  SlaveSymbolString ss; loadS(&ss, s);
  std::ostringstream os;
  errno = 0;
  result_t r = f->read(ms, 0, false, fieldName, -1, fmt, -1, &os);
  R.transitions++;
  if (r >= RESULT_OK) {
    result_t r2 = f->read(ss, 0, !os.str().empty(), fieldName, -1, fmt, -1, &os);
    R.transitions++;
    if (r2 < RESULT_OK) r = r2; else if (r == RESULT_EMPTY) r = r2;
  }
  return Dec{r, os.str()};
}

// ---- one sequence ------------------------------------------------------------------------------
struct Bitset {  // owned bits of one part: byte index -> mask; var fields own everything from 'from'
  std::map<size_t, unsigned> mask;
  bool openEnded = false; size_t from = 0;
  bool has(size_t byte, int bit) const {
    if (openEnded && byte >= from) return true;
    auto it = mask.find(byte);
    return it != mask.end() && (it->second >> bit) & 1;
  }
  bool empty() const { return mask.empty() && !openEnded; }
  size_t minByte() const { return openEnded && (mask.empty() || from < mask.begin()->first) ? from : mask.begin()->first; }
  size_t maxByte() const { return mask.rbegin()->first; }
};

struct Finding { string rule, detail, ctx; };

static const OutputFormat FORMATS[] = {OF_NONE, OF_NAMES, OF_JSON | OF_NAMES, OF_NUMERIC, OF_JSON | OF_NAMES | OF_VALUENAME, OF_JSON};
static const char* FORMAT_NAMES[] = {"plain", "names", "json", "numeric", "json-valuename", "json-nonames"};

class SeqCheck {
 public:
  SeqCheck(const Seq& s, bool deep, bool light = false) : seq(s), n(s.size()), deep(deep), nv(s.size() >= 4 ? 2 : 3), light(light) {}
  bool light;  // only the cheap structural oracles (lengths of the uniform encodings, barrier rule)
  bool refLayout = false;  // light mode: additionally whole decode == composition, positions from the field sizes
  int nv;  // values per field used for the combinations (2 for the longest sequences)
  ~SeqCheck() { delete whole; for (auto a : alone) delete a; }
  vector<Finding> out;
  // ctx: kinds of the fields of the affected part (or of both parts "m_s" when part == 0)
  string partShape(char part) const { string o; for (size_t i = 0; i < n; i++) if (seq[i].part == part) o += ft(i).kind; return o; }
  void fail(const string& rule, const string& detail, char part = 0) {
    if (out.size() < 40) out.push_back(Finding{rule, detail, part ? partShape(part) : partShape('m') + "_" + partShape('s')});
  }

  Seq seq; size_t n; bool deep;
  const DataField* whole = nullptr;
  vector<const DataField*> alone;
  vector<Bitset> owned;
  bool overlapDefs = false;
  vector<string> log;

  const FT& ft(size_t i) const { return FTof(seq[i].t); }
  const Bytes& partOf(const Enc& e, size_t i) const { return seq[i].part == 'm' ? e.m : e.s; }

  vector<string> valuesFor(const vector<int>& idx) const {
    vector<string> v(n);
    for (size_t i = 0; i < n; i++) if (!ft(i).ign) v[i] = ft(i).vals[idx[i]];
    return v;
  }
  static string hx(const Bytes& b) { return vp::hex(b.data(), b.size()); }

  bool run() {
    whole = createFields(seq);
    if (!whole) {
      // every sequence of the enumerated universe is valid by the documented definition format
      R.count("definitions_refused");
      fail("config-rejected", "valid field definition sequence refused by DataField::create");
      return false;
    }
    R.count("definitions");
    if (light) {
      checkLight(); checkBarriers();
      if (refLayout) {
        // long sequences of full-byte fields with at most isolated sub-byte fields: positions follow from the sizes
        owned.assign(n, Bitset());
        size_t offM = 0, offS = 0;
        for (size_t i = 0; i < n; i++) {
          Seq one = {seq[i]};
          vector<string> nm = {"f" + std::to_string(i)};
          alone.push_back(ft(i).ign ? nullptr : createFields(one, &nm));
          size_t& off = seq[i].part == 'm' ? offM : offS;
          for (int b = 0; b < ft(i).bytes; b++) owned[i].mask[off + b] = 0xff;
          off += ft(i).bytes;
        }
        for (int u = 0; u < nv; u++) {
          vector<int> c(n, 0);
          for (size_t i = 0; i < n; i++) if (!ft(i).ign) c[i] = u;
          Enc e = encode(whole, seq, valuesFor(c));
          if (e.res == RESULT_OK) checkDecode(e.m, e.s, "values");
        }
      }
      return true;
    }
    for (size_t i = 0; i < n; i++) {
      Seq one = {seq[i]};
      vector<string> nm = {"f" + std::to_string(i)};
      alone.push_back(ft(i).ign ? nullptr : createFields(one, &nm));
    }
    vector<int> base(n, 0);
    Enc e0 = encode(whole, seq, valuesFor(base));
    R.evaluations++;
    if (e0.res != RESULT_OK) { fail("encode-fails", string("valid values rejected: ") + getResultCode(e0.res)); return true; }
    discover(e0, base);
    checkLengths(e0);
    checkBarriers();
    checkSelection();
    checkEncodings();
    checkOmitted();
    return true;
  }

  // (7) an input that ends before every field got a value: the omitted trailing values are empty values - whatever an
  // empty value means for the type (padding, replacement, or a refusal), it must be the same as for the explicitly
  // empty tokens, and in particular nothing of the values given before may show up in the omitted fields
  void checkOmitted() {
    for (int u = 0; u < nv; u++) {
      vector<int> c(n, u);
      vector<string> t = tokensOf(seq, valuesFor(c));
      for (size_t drop = 1; drop <= 2 && drop < t.size(); drop++) {
        size_t keep = t.size() - drop;
        string shortIn = joinTokens(t, keep);
        string fullIn = shortIn;
        for (size_t k = 0; k < drop; k++) fullIn += UI_FIELD_SEPARATOR;
        Enc a = encodeInput(whole, shortIn), b = encodeInput(whole, fullIn);
        R.evaluations++;
        bool same = (a.res == RESULT_OK) == (b.res == RESULT_OK) && (a.res != RESULT_OK || (a.m == b.m && a.s == b.s));
        if (!same) {
          fail("omitted-value-differs-from-empty", "input '" + shortIn + "' -> " + getResultCode(a.res) + " m=" + hx(a.m) + " s=" + hx(a.s) +
               ", input '" + fullIn + "' -> " + getResultCode(b.res) + " m=" + hx(b.m) + " s=" + hx(b.s));
          return;
        }
      }
    }
  }

  // (6) addressing a single field: the counts per part / per name, the name and field by index, and the decode
  // of one field selected by name or by message-wide index (as Message::decodeLastData does it: master part
  // first, then slave part) must be the values of exactly that field - ignored fields are never counted.
  // Reference: the definition list itself.  The index order is only fixed when no slave field is defined
  // before a master field, other sequences are checked by name and count only.
  void checkSelection() {
    vector<size_t> vis;   // non-ignored fields in definition order
    size_t nm = 0, ns = 0;
    bool canonical = true, seenSlave = false;
    for (size_t i = 0; i < n; i++) {
      if (seq[i].part == 's') seenSlave = true; else if (seenSlave) canonical = false;
      if (ft(i).ign) continue;
      vis.push_back(i);
      (seq[i].part == 'm' ? nm : ns)++;
    }
    R.evaluations++;
    if (whole->getCount(pt_any, nullptr) != vis.size() || whole->getCount(pt_masterData, nullptr) != nm || whole->getCount(pt_slaveData, nullptr) != ns) {
      fail("field-count", "getCount any/master/slave = " + std::to_string(whole->getCount(pt_any, nullptr)) + "/" + std::to_string(whole->getCount(pt_masterData, nullptr)) + "/" +
           std::to_string(whole->getCount(pt_slaveData, nullptr)) + ", defined (not ignored) " + std::to_string(vis.size()) + "/" + std::to_string(nm) + "/" + std::to_string(ns));
    }
    for (size_t i = 0; i < n; i++) {
      string nmi = "f" + std::to_string(i);
      size_t want = ft(i).ign ? 0 : 1;
      PartType own = seq[i].part == 'm' ? pt_masterData : pt_slaveData, other = seq[i].part == 'm' ? pt_slaveData : pt_masterData;
      if (whole->getCount(pt_any, nmi.c_str()) != want || whole->getCount(own, nmi.c_str()) != want || whole->getCount(other, nmi.c_str()) != 0) {
        fail("field-count", "getCount by name " + nmi + " (" + ft(i).type + "." + seq[i].part + ") any/own/other part = " + std::to_string(whole->getCount(pt_any, nmi.c_str())) + "/" +
             std::to_string(whole->getCount(own, nmi.c_str())) + "/" + std::to_string(whole->getCount(other, nmi.c_str())) + ", expected " + std::to_string(want) + "/" + std::to_string(want) + "/0");
        return;
      }
    }
    for (size_t k = 0; k <= vis.size(); k++) {
      string gn = whole->getName((ssize_t)k);
      const SingleDataField* gf = whole->getField((ssize_t)k);
      string wantName = k < vis.size() ? "f" + std::to_string(vis[k]) : "";
      if (gn != wantName || (gf != nullptr) != (k < vis.size()) || (gf && gf->getName(-1) != wantName)) {
        fail("field-by-index", "getName/getField(" + std::to_string(k) + ") = '" + gn + "'/" + (gf ? "'" + gf->getName(-1) + "'" : string("none")) + ", expected '" + wantName + "'");
        return;
      }
    }
    // decode of one selected field through a real Message
    std::map<string, string> attrs;
    vector<symbol_t> id = {0xb5, 0x09};
    Message msg("", "c", "", "n", false, false, attrs, SYN, 0x08, id, whole, false);
    vector<size_t> order;  // message-wide index order: master part fields, then slave part fields
    for (char part : {'m', 's'}) for (size_t i : vis) if (seq[i].part == part) order.push_back(i);
    static const OutputFormat fmts[] = {OF_NONE, OF_NAMES, OF_JSON | OF_NAMES};
    for (int u = 0; u < nv; u++) {
      vector<int> c(n, 0);
      for (size_t i = 0; i < n; i++) if (!ft(i).ign) c[i] = u;
      Enc e = encode(whole, seq, valuesFor(c));
      if (e.res != RESULT_OK) return;
      MasterSymbolString ms; loadM(&ms, e.m);
      SlaveSymbolString ss; loadS(&ss, e.s);
      msg.storeLastData(ms, ss);
      // the numeric reader (conditions, numeric data sinks) walks the same layout: the raw value of every plain
      // unsigned / bit field selected by name must be the value that was encoded
      {
        vector<string> vals = valuesFor(c);
        for (size_t i : vis) {
          string ty = ft(i).type;
          bool plainInt = ty == "UCH" || ty == "UIN" || ty == "U3N" || ty == "ULG" || (ft(i).bit && ty.find('/') == string::npos && ty.compare(0, 2, "BI") == 0);
          if (!plainInt) continue;
          unsigned int raw = 0;
          string nm = "f" + std::to_string(i);
          result_t rr = seq[i].part == 'm' ? whole->read(ms, 0, nm.c_str(), -1, &raw) : whole->read(ss, 0, nm.c_str(), -1, &raw);
          R.transitions++;
          unsigned long want = strtoul(vals[i].c_str(), nullptr, 10);
          if (overlapDefs) continue;  // overlapping bit ranges: values are OR-ed together (don't-care)
          if (rr != RESULT_OK || raw != want) {
            fail("numeric-read", "numeric read of " + nm + " (" + ty + "." + seq[i].part + ") from m=" + hx(e.m) + " s=" + hx(e.s) + " gives " + (rr != RESULT_OK ? string(getResultCode(rr)) : std::to_string(raw)) + ", encoded value " + vals[i]);
            return;
          }
        }
      }
      for (OutputFormat fmt : fmts) {
        for (size_t k = 0; k <= order.size(); k++) {
          for (int byName = 0; byName < 2; byName++) {
            if (!byName && !canonical) continue;
            if (byName && k == order.size()) continue;
            std::ostringstream got;
            string nmk = k < order.size() ? "f" + std::to_string(order[k]) : "";
            errno = 0;
            result_t r = byName ? msg.decodeLastData(pt_any, false, nmk.c_str(), -1, fmt, &got)
                                : msg.decodeLastData(pt_any, false, nullptr, (ssize_t)k, fmt, &got);
            R.evaluations++; R.tracesValidated++; R.transitions++;
            string what = byName ? "by name " + nmk : "by index " + std::to_string(k);
            if (k == order.size()) {
              if (r >= RESULT_OK && !got.str().empty()) fail("select-decode", "decode " + what + " (beyond the last field) gives '" + got.str() + "'");
              continue;
            }
            size_t i = order[k];
            size_t lo = owned[i].empty() ? 0 : owned[i].minByte();
            const Bytes& d = seq[i].part == 'm' ? e.m : e.s;
            if (owned[i].empty() || !alone[i]) continue;
            size_t len = ft(i).var ? (d.size() > lo ? d.size() - lo : 0) : (size_t)ft(i).bytes;
            Bytes own;
            for (size_t b = lo; b < lo + len && b < d.size(); b++) own.push_back(d[b]);
            std::ostringstream exp;
            result_t re;
            if (seq[i].part == 'm') { MasterSymbolString a; loadM(&a, own); re = alone[i]->read(a, 0, false, byName ? nmk.c_str() : nullptr, byName ? -1 : 0, fmt, -1, &exp); }
            else { SlaveSymbolString a; loadS(&a, own); re = alone[i]->read(a, 0, false, byName ? nmk.c_str() : nullptr, byName ? -1 : 0, fmt, -1, &exp); }
            if (re < RESULT_OK) continue;  // overlapping definitions may encode undecodable values (don't-care)
            if (r < RESULT_OK || got.str() != exp.str()) {
              fail("select-decode", "decode " + what + " (" + ft(i).type + "." + seq[i].part + ") of m=" + hx(e.m) + " s=" + hx(e.s) + " gives " + (r < RESULT_OK ? string(getResultCode(r)) : "'" + got.str() + "'") +
                   ", that field alone '" + exp.str() + "'");
              return;
            }
          }
        }
      }
    }
  }

  // light mode: written length == usedLength == getLength, and the written bytes are readable
  void checkLight() {
    for (int u = 0; u < nv; u++) {
      vector<int> c(n, 0);
      for (size_t i = 0; i < n; i++) if (!ft(i).ign) c[i] = u;
      Enc e = encode(whole, seq, valuesFor(c));
      R.evaluations++; R.tracesValidated++;
      if (e.res != RESULT_OK) { fail("encode-fails", string("valid values rejected: ") + getResultCode(e.res)); return; }
      R.distinct(vp::fnv(seqStr(seq) + "|" + hx(e.m) + "|" + hx(e.s)));
      for (char part : {'m', 's'}) {
        const Bytes& d = part == 'm' ? e.m : e.s;
        size_t used = part == 'm' ? e.usedM : e.usedS;
        PartType pt = part == 'm' ? pt_masterData : pt_slaveData;
        if (d.size() != used) fail("length-written", string("part ") + part + ": usedLength " + std::to_string(used) + " but " + std::to_string(d.size()) + " byte(s) written", part);
        size_t lg = whole->getLength(pt, d.size());
        if (lg != d.size()) fail("length-computed", string("part ") + part + ": getLength(" + std::to_string(d.size()) + ")=" + std::to_string(lg) + " but " + std::to_string(d.size()) + " byte(s) written", part);
      }
      // values of bit fields whose declared ranges intersect are OR-ed together and need not decode (don't-care)
      bool mayOverlap = false;
      for (size_t i = 0; i < n; i++) for (size_t j = i + 1; j < n; j++) {
        if (seq[i].part != seq[j].part) continue;
        const FT& a = FTof(seq[i].t); const FT& b = FTof(seq[j].t);
        bool ab = a.bit || seq[i].t == g_subByte, bb = b.bit || seq[j].t == g_subByte;
        int af = a.bit ? a.firstBit : 0, an = a.bit ? a.nbits : 6, bf = b.bit ? b.firstBit : 0, bn = b.bit ? b.nbits : 6;
        if (ab && bb && af < bf + bn && bf < af + an) mayOverlap = true;
      }
      if (mayOverlap) continue;
      Dec w = decodeWhole(whole, e.m, e.s, OF_NONE);
      if (w.res < RESULT_OK) fail("length-consumed", string("read of the written bytes fails: ") + getResultCode(w.res));
    }
  }

  // (5) a full-byte field is a layout barrier: nothing can share a byte across it, so the fields behind it
  // must be laid out exactly as if they stood alone - whatever precedes the barrier.  For every full-byte
  // field F of a part: bytes(prefix..F ; suffix) == bytes(prefix..F) ++ bytes(suffix), same for getLength.
  void checkBarriers() {
    for (char part : {'m', 's'}) {
      vector<size_t> idx;
      for (size_t i = 0; i < n; i++) if (seq[i].part == part) idx.push_back(i);
      PartType pt = part == 'm' ? pt_masterData : pt_slaveData;
      for (size_t k = 0; k + 1 < idx.size(); k++) {
        const FT& f = ft(idx[k]);
        if (f.bit || f.var) continue;
        Seq pre, suf;
        for (size_t j = 0; j <= k; j++) pre.push_back(seq[idx[j]]);
        for (size_t j = k + 1; j < idx.size(); j++) suf.push_back(seq[idx[j]]);
        const DataField* P = createFields(pre);
        const DataField* S = createFields(suf);
        if (!P || !S) { delete P; delete S; continue; }
        bool hasVar = false;
        for (auto& x : suf) if (FTof(x.t).var) hasVar = true;
        if (!hasVar) {
          size_t lw = whole->getLength(pt, MAX_POS), lp = P->getLength(pt, MAX_POS), ls = S->getLength(pt, MAX_POS);
          R.evaluations++;
          if (lw != lp + ls) fail("layout-depends-on-fields-before-full-byte-field", string("part ") + part + ": getLength " + std::to_string(lw) + " but " + std::to_string(lp) + " up to " + f.type +
                                  " (field " + std::to_string(idx[k]) + ") + " + std::to_string(ls) + " for the fields behind it alone", part);
        }
        for (int u = 0; u < nv; u++) {
          vector<int> c(n, 0);
          for (size_t i = 0; i < n; i++) if (!ft(i).ign) c[i] = u;
          vector<string> all = valuesFor(c), vp_, vs_;
          for (size_t j = 0; j <= k; j++) vp_.push_back(all[idx[j]]);
          for (size_t j = k + 1; j < idx.size(); j++) vs_.push_back(all[idx[j]]);
          Enc ew = encode(whole, seq, all), ep = encode(P, pre, vp_), es = encode(S, suf, vs_);
          R.evaluations++; R.tracesValidated++;
          if (ew.res != RESULT_OK || ep.res != RESULT_OK || es.res != RESULT_OK) continue;  // reported elsewhere
          Bytes w = part == 'm' ? ew.m : ew.s, a = part == 'm' ? ep.m : ep.s, b = part == 'm' ? es.m : es.s;
          Bytes ab = a; ab.insert(ab.end(), b.begin(), b.end());
          if (w != ab) {
            fail("layout-depends-on-fields-before-full-byte-field", string("part ") + part + ": encoded " + hx(w) + " but " + hx(a) + " up to " + f.type + " (field " + std::to_string(idx[k]) +
                 ") followed by " + hx(b) + " for the fields behind it alone", part);
            break;
          }
          // and the concatenation decodes like the whole
          Bytes om = part == 'm' ? ew.s : ew.m;
          Dec dw = part == 'm' ? decodeWhole(whole, ab, ew.s, OF_NONE) : decodeWhole(whole, ew.m, ab, OF_NONE);
          Dec d0 = decodeWhole(whole, ew.m, ew.s, OF_NONE);
          if (dw.res != d0.res || dw.text != d0.text) { fail("layout-depends-on-fields-before-full-byte-field", string("part ") + part + ": decode differs", part); break; }
        }
        delete P; delete S;
      }
    }
  }

  // owned bits: encode with one field varied over its domain, all others at their first value
  void discover(const Enc& e0, const vector<int>& base) {
    owned.assign(n, Bitset());
    for (size_t i = 0; i < n; i++) {
      if (ft(i).ign) continue;
      vector<string> dom;
      if (ft(i).kind == 'B') for (int v = 0; v < (1 << ft(i).nbits); v++) dom.push_back(std::to_string(v));
      else dom = ft(i).vals;
      for (const string& dv : dom) {
        vector<string> vals = valuesFor(base);
        vals[i] = dv;
        Enc e = encode(whole, seq, vals);
        R.evaluations++;
        if (e.res != RESULT_OK) { fail("encode-fails", "valid value '" + dv + "' of " + ft(i).type + " rejected: " + getResultCode(e.res)); continue; }
        const Bytes& a = partOf(e0, i); const Bytes& b = partOf(e, i);
        const Bytes& oa = seq[i].part == 'm' ? e0.s : e0.m; const Bytes& ob = seq[i].part == 'm' ? e.s : e.m;
        if (oa != ob) fail("encode-touches-other-part", string("varying ") + ft(i).type + " changed the other part");
        size_t L = std::max(a.size(), b.size());
        for (size_t k = 0; k < L; k++) {
          unsigned x = (k < a.size() ? a[k] : 0x100) ^ (k < b.size() ? b[k] : 0x100);
          if (k >= a.size() || k >= b.size()) x = 0xff;
          if (x) owned[i].mask[k] |= x & 0xff;
        }
      }
      if (owned[i].mask.empty()) { fail("field-owns-no-bits", string("no encoded bit depends on the value of ") + ft(i).type + " (field " + std::to_string(i) + ")", seq[i].part); continue; }
      if (ft(i).var) { owned[i].openEnded = true; owned[i].from = owned[i].mask.begin()->first; }
      else if (!ft(i).bit) {
        // a full-byte field owns whole bytes
        size_t lo = owned[i].mask.begin()->first, hi = owned[i].mask.rbegin()->first;
        for (size_t k = lo; k <= hi; k++) owned[i].mask[k] = 0xff;
        if (hi - lo + 1 != (size_t)ft(i).bytes) {
          fail("owned-bytes-count", string(ft(i).type) + " owns " + std::to_string(hi - lo + 1) + " byte(s), type size is " + std::to_string(ft(i).bytes), seq[i].part);
        }
      } else {
        if (owned[i].mask.size() != 1) fail("owned-bytes-count", string(ft(i).type) + " bit field spans more than one byte", seq[i].part);
        unsigned want = ((1u << ft(i).nbits) - 1) << ft(i).firstBit;
        unsigned got = owned[i].mask.begin()->second;
        if (got & ~want) fail("bit-position", string(ft(i).type) + " changes bits outside its declared bit range", seq[i].part);
      }
    }
    // ownership must be disjoint unless the definitions themselves overlap (bit ranges intersect)
    for (size_t i = 0; i < n; i++) for (size_t j = i + 1; j < n; j++) {
      if (seq[i].part != seq[j].part || owned[i].empty() || owned[j].empty()) continue;
      bool inter = false;
      for (auto& kv : owned[i].mask) for (int b = 0; b < 8; b++) if ((kv.second >> b) & 1 && owned[j].has(kv.first, b)) inter = true;
      if (owned[j].openEnded) for (auto& kv : owned[i].mask) if (kv.first >= owned[j].from) inter = true;
      if (!inter) continue;
      bool declared = ft(i).bit && ft(j).bit && ft(i).firstBit < ft(j).firstBit + ft(j).nbits && ft(j).firstBit < ft(i).firstBit + ft(i).nbits;
      // a bit field directly following a bit field with the same first bit is the same position of the
      // NEXT byte (e.g. BI0;BI7;BI0 and BI0;BI0 are two bytes), it can never share the byte
      bool adjacent = true;
      for (size_t k = i + 1; k < j; k++) if (seq[k].part == seq[i].part) adjacent = false;
      if (declared && adjacent && ft(i).firstBit == ft(j).firstBit)
        fail("same-position-shares-byte", string(ft(i).type) + " and the directly following " + ft(j).type + " (fields " + std::to_string(i) + "," + std::to_string(j) + ") start at the same bit of the same byte", seq[i].part);
      if (declared) overlapDefs = true;
      else fail("owned-overlap", string(ft(i).type) + " and " + ft(j).type + " (fields " + std::to_string(i) + "," + std::to_string(j) + ") change the same bits", seq[i].part);
    }
    if (overlapDefs) R.count("sequences_with_overlapping_definitions");
  }

  // (1) the length notions agree and fields follow each other without gaps
  void checkLengths(const Enc& e0) {
    for (char part : {'m', 's'}) {
      PartType pt = part == 'm' ? pt_masterData : pt_slaveData;
      const Bytes& d = part == 'm' ? e0.m : e0.s;
      size_t used = part == 'm' ? e0.usedM : e0.usedS;
      bool hasVar = false, any = false;
      for (size_t i = 0; i < n; i++) if (seq[i].part == part) { any = true; if (ft(i).var) hasVar = true; }
      if (d.size() != used) fail("length-written", string("part ") + part + ": usedLength " + std::to_string(used) + " but " + std::to_string(d.size()) + " byte(s) written", part);
      size_t lg = whole->getLength(pt, d.size());
      if (lg != d.size()) fail("length-computed", string("part ") + part + ": getLength(" + std::to_string(d.size()) + ")=" + std::to_string(lg) + " but " + std::to_string(d.size()) + " byte(s) written", part);
      if (!hasVar) {
        size_t lmax = whole->getLength(pt, MAX_POS);
        if (lmax != d.size()) fail("length-computed", string("part ") + part + ": getLength(MAX)=" + std::to_string(lmax) + " but " + std::to_string(d.size()) + " byte(s) written", part);
      }
      if (!any) continue;
      // consumed by read: all bytes needed, one byte less is refused
      {
        MasterSymbolString ms; SlaveSymbolString ss;
        std::ostringstream os;
        result_t r;
        if (part == 'm') { loadM(&ms, d); r = whole->read(ms, 0, false, nullptr, -1, OF_NONE, -1, &os); }
        else { loadS(&ss, d); r = whole->read(ss, 0, false, nullptr, -1, OF_NONE, -1, &os); }
        if (r < RESULT_OK) fail("length-consumed", string("part ") + part + ": read of the written bytes fails: " + getResultCode(r), part);
        if (!d.empty() && !hasVar) {
          Bytes t(d.begin(), d.end() - 1);
          MasterSymbolString ms2; SlaveSymbolString ss2;
          std::ostringstream os2;
          if (part == 'm') { loadM(&ms2, t); r = whole->read(ms2, 0, false, nullptr, -1, OF_NONE, -1, &os2); }
          else { loadS(&ss2, t); r = whole->read(ss2, 0, false, nullptr, -1, OF_NONE, -1, &os2); }
          if (r >= RESULT_OK) fail("length-consumed", string("part ") + part + ": read succeeds with one byte less than written", part);
        }
        R.transitions += 2;
      }
      // positions: no gaps between consecutive fields of the part
      size_t expectNext = 0;   // first byte a following full-byte field must start at
      long prevBitByte = -1;   // byte of the directly preceding bit field (sharing allowed), else -1
      for (size_t i = 0; i < n; i++) {
        if (seq[i].part != part) continue;
        if (ft(i).ign) { expectNext += ft(i).bytes; prevBitByte = -1; continue; }
        if (owned[i].empty()) { prevBitByte = -1; expectNext = (size_t)-1; continue; }
        size_t lo = owned[i].minByte();
        if (expectNext != (size_t)-1) {
          bool ok = lo == expectNext || (ft(i).bit && prevBitByte >= 0 && lo == (size_t)prevBitByte);
          if (!ok) fail("position-gap", string(ft(i).type) + " (field " + std::to_string(i) + ") starts at byte " + std::to_string(lo) + ", expected " + std::to_string(expectNext) + (prevBitByte >= 0 && ft(i).bit ? " or the shared byte" : ""), seq[i].part);
        }
        if (ft(i).var) { expectNext = (size_t)-1; continue; }
        size_t hi = owned[i].maxByte();
        if (ft(i).bit) { hi = lo; prevBitByte = (long)lo; } else { hi = lo + ft(i).bytes - 1; prevBitByte = -1; }
        expectNext = hi + 1;
      }
      if (!hasVar && expectNext != (size_t)-1 && expectNext != d.size())
        fail("length-spanned", string("part ") + part + ": fields span " + std::to_string(expectNext) + " byte(s), written " + std::to_string(d.size()), part);
    }
  }

  // expected decode by composing the single-field decodes of each field's own bytes
  Dec compose(const Bytes& m, const Bytes& s, OutputFormat fmt) {
    std::ostringstream os;
    result_t res = RESULT_EMPTY;
    bool sep = false;
    for (char part : {'m', 's'}) {
      const Bytes& d = part == 'm' ? m : s;
      bool found = false;
      if (part == 's') sep = !os.str().empty();
      for (size_t i = 0; i < n; i++) {
        if (seq[i].part != part || ft(i).ign) continue;
        if (owned[i].empty() || !alone[i]) return Dec{RESULT_ERR_INVALID_ARG, "?"};
        size_t lo = owned[i].minByte();
        size_t len = ft(i).var ? (d.size() > lo ? d.size() - lo : 0) : (size_t)ft(i).bytes;
        Bytes own;
        for (size_t k = lo; k < lo + len && k < d.size(); k++) own.push_back(d[k]);
        std::ostringstream one;  // a fresh stream: formatting state must not leak between fields
        result_t r;
        errno = 0;
        // JSON without names: the key is the index of the field among the non-ignored fields of the definition
        ssize_t key = -1;
        if ((fmt & OF_JSON) && !(fmt & OF_NAMES) && n > 1) { key = 0; for (size_t j = 0; j < i; j++) if (!ft(j).ign) key++; }
        if (part == 'm') { MasterSymbolString ms; loadM(&ms, own); r = alone[i]->read(ms, 0, sep, nullptr, -1, fmt, key, &one); }
        else { SlaveSymbolString ss; loadS(&ss, own); r = alone[i]->read(ss, 0, sep, nullptr, -1, fmt, key, &one); }
        R.transitions++;
        if (r < RESULT_OK) return Dec{r, ""};
        os << one.str();
        if (r != RESULT_EMPTY) { found = true; sep = true; }
      }
      if (found) res = RESULT_OK;
    }
    return Dec{res, os.str()};
  }

  void checkDecode(const Bytes& m, const Bytes& s, const string& what, bool allFormats = true) {
    for (size_t k = 0; k < sizeof(FORMATS) / sizeof(FORMATS[0]); k++) {
      if (!allFormats && k != 0 && k != 2) continue;
      Dec w = decodeWhole(whole, m, s, FORMATS[k]);
      Dec c = compose(m, s, FORMATS[k]);
      R.evaluations++;
      R.tracesValidated++;
      bool same = (w.res < RESULT_OK || c.res < RESULT_OK) ? w.res == c.res : (w.text == c.text);
      if (!same) {
        fail(string("decode-composition/") + FORMAT_NAMES[k], what + " m=" + hx(m) + " s=" + hx(s) + ": whole=" + (w.res < 0 ? getResultCode(w.res) : "'" + w.text + "'") +
             " composed=" + (c.res < 0 ? getResultCode(c.res) : "'" + c.text + "'"));
        return;
      }
    }
  }

  void checkEncodings() {
    for (size_t i = 0; i < n; i++) if (!ft(i).ign && owned[i].empty()) return;  // already reported
    // all value combinations
    vector<vector<int>> combos;
    vector<int> idx(n, 0);
    std::function<void(size_t)> rec = [&](size_t i) {
      if (i == n) { combos.push_back(idx); return; }
      if (ft(i).ign) { idx[i] = 0; rec(i + 1); return; }
      for (int v = 0; v < nv; v++) { idx[i] = v; rec(i + 1); }
    };
    rec(0);
    std::map<vector<int>, Enc> encs;
    for (auto& c : combos) {
      Enc e = encode(whole, seq, valuesFor(c));
      R.evaluations++;
      if (e.res != RESULT_OK) { fail("encode-fails", "valid value combination rejected: " + string(getResultCode(e.res))); return; }
      encs[c] = e;
      R.distinct(vp::fnv(seqStr(seq) + "|" + hx(e.m) + "|" + hx(e.s)));
    }
    // (4) changing one field's value changes only bits that field owns
    for (auto& c : combos) for (size_t i = 0; i < n; i++) {
      if (ft(i).ign || c[i] != 0) continue;
      for (int v = 1; v < nv; v++) {
        vector<int> c2 = c; c2[i] = v;
        const Enc& a = encs[c]; const Enc& b = encs[c2];
        for (char part : {'m', 's'}) {
          const Bytes& x = part == 'm' ? a.m : a.s; const Bytes& y = part == 'm' ? b.m : b.s;
          size_t L = std::max(x.size(), y.size());
          for (size_t k = 0; k < L; k++) {
            unsigned df = (k < x.size() && k < y.size()) ? (x[k] ^ y[k]) : 0xff;
            for (int bt = 0; bt < 8; bt++) if ((df >> bt) & 1) {
              if (part != seq[i].part || !owned[i].has(k, bt)) {
                fail("encode-changes-foreign-bit", string("changing ") + ft(i).type + " (field " + std::to_string(i) + ") from '" + ft(i).vals[0] + "' to '" + ft(i).vals[v] +
                     "' changes bit " + std::to_string(bt) + " of byte " + std::to_string(k) + " in part " + part + ": " + hx(x) + " -> " + hx(y), seq[i].part);
                goto next_field;
              }
            }
          }
        }
      }
      next_field:;
    }
    // (4b) the whole encoding carries each field's single-field encoding in its owned bits
    if (!overlapDefs) {
      for (auto& c : combos) {
        const Enc& e = encs[c];
        for (size_t i = 0; i < n; i++) {
          if (ft(i).ign || !alone[i]) continue;
          Seq one = {seq[i]};
          vector<string> v1 = {ft(i).vals[c[i]]};
          Enc a = encode(alone[i], one, v1);
          if (a.res != RESULT_OK) { fail("encode-fails", string("single field ") + ft(i).type + " rejects '" + v1[0] + "'"); continue; }
          const Bytes& wb = seq[i].part == 'm' ? e.m : e.s;
          const Bytes& ab2 = seq[i].part == 'm' ? a.m : a.s;
          size_t lo = owned[i].minByte();
          bool same = true;
          for (size_t k = 0; k < ab2.size(); k++) {
            unsigned mask = ft(i).bit ? (((1u << ft(i).nbits) - 1) << ft(i).firstBit) : 0xff;
            if (lo + k >= wb.size() || ((wb[lo + k] ^ ab2[k]) & mask)) same = false;
          }
          if (ft(i).var && lo + ab2.size() != wb.size()) same = false;
          if (!same) { fail("encode-differs-from-single", string(ft(i).type) + " (field " + std::to_string(i) + ") value '" + v1[0] + "': whole " + hx(wb) + " single " + hx(ab2) + " at byte " + std::to_string(lo), seq[i].part); break; }
        }
      }
    }
    // (2) decode of the whole == composition of single-field decodes, on every value combination
    for (auto& c : combos) checkDecode(encs[c].m, encs[c].s, "values");
    // (3) flipping a bit: fields that do not own it keep result and text; whole == composition on the flipped data
    for (int u = 0; u < nv; u++) {
      vector<int> c(n, 0);
      for (size_t i = 0; i < n; i++) if (!ft(i).ign) c[i] = u;
      const Enc& e = encs[c];
      vector<Dec> ref(n);
      for (size_t i = 0; i < n; i++) if (!ft(i).ign) ref[i] = decodeWhole(whole, e.m, e.s, OF_NAMES, ("f" + std::to_string(i)).c_str());
      for (char part : {'m', 's'}) {
        const Bytes& d = part == 'm' ? e.m : e.s;
        for (size_t k = 0; k < d.size(); k++) for (int bt = 0; bt < 8; bt++) {
          Bytes fm = e.m, fs = e.s;
          (part == 'm' ? fm : fs)[k] ^= (unsigned char)(1 << bt);
          for (size_t i = 0; i < n; i++) {
            if (ft(i).ign) continue;
            if (seq[i].part == part && owned[i].has(k, bt)) continue;
            Dec g = decodeWhole(whole, fm, fs, OF_NAMES, ("f" + std::to_string(i)).c_str());
            R.evaluations++;
            if (g.res != ref[i].res || g.text != ref[i].text) {
              fail("foreign-bit-changes-decode", string("flipping bit ") + std::to_string(bt) + " of byte " + std::to_string(k) + " in part " + part + " (not owned by " + ft(i).type +
                   ", field " + std::to_string(i) + ") changes its decode from '" + ref[i].text + "' to " + (g.res < 0 ? getResultCode(g.res) : "'" + g.text + "'") + " data m=" + hx(e.m) + " s=" + hx(e.s), seq[i].part);
            }
          }
          if (deep || u == 0) checkDecode(fm, fs, "flipped", deep);
        }
      }
    }
  }
};

// Every sequence starts from the pristine derived-type cache, so that a verdict never depends on the sequences
// checked before in the same process (and the fresh-process replay of a single case sees the same thing).
static std::set<string> g_baseKeys;
static void resetTypeCache() {
  DataTypeList* L = DataTypeList::getInstance();
  for (auto it = L->m_typesById.begin(); it != L->m_typesById.end();) {
    if (g_baseKeys.count(it->first)) { ++it; continue; }
    const DataType* dt = it->second;
    L->m_cleanupTypes.remove(dt);
    delete dt;
    it = L->m_typesById.erase(it);
  }
}

// runs the checks under both readings of the sub-byte time type; findings only if both are inconsistent
static bool g_refLayout = false;
static vector<Finding> checkSeq(const Seq& s, bool deep, bool* overlap, string* reading, bool light = false) {
  bool hasSub = false;
  for (auto& f : s) if (f.t == g_subByte) hasSub = true;
  g_subByteAsBits = false;
  resetTypeCache();
  vector<Finding> a;
  { SeqCheck sc(s, deep, light); sc.refLayout = g_refLayout; sc.run(); a = sc.out; if (overlap) *overlap = sc.overlapDefs; }
  if (reading) *reading = "";
  if (a.empty() || !hasSub) return a;
  g_subByteAsBits = true;
  resetTypeCache();
  vector<Finding> b;
  { SeqCheck sc(s, deep, light); sc.refLayout = g_refLayout; sc.run(); b = sc.out; }
  g_subByteAsBits = false;
  if (b.empty()) { R.count("subbyte_type_consistent_only_as_bit_field"); return b; }
  // inconsistent under both readings: report the bit-field reading (the one the type's bit count suggests)
  if (reading) *reading = "TTH read as 6-bit field (as full-byte field: " + a[0].rule + ")";
  return b;
}

// ---- enumeration -------------------------------------------------------------------------------
static bool admissible(const Seq& s) {
  // a variable length field only as the last field of its part
  for (size_t i = 0; i < s.size(); i++) if (g_alpha[s[i].t].var) {
    for (size_t j = i + 1; j < s.size(); j++) if (s[j].part == s[i].part) return false;
  }
  return true;
}

static Seq parseSeq(const string& f) {
  Seq s;
  size_t pos = 0;
  while (pos < f.size()) {
    size_t e = f.find(',', pos);
    if (e == string::npos) e = f.size();
    string tok = f.substr(pos, e - pos);
    size_t dot = tok.rfind('.');
    string ty = tok.substr(0, dot);
    for (size_t t = 0; t < g_alpha.size(); t++) if (ty == g_alpha[t].type) s.push_back(FieldDef{(int)t, tok[dot + 1]});
    pos = e + 1;
  }
  return s;
}

static int replay(const string& c) {
  auto m = vp::parseCase(c, ';');
  Seq s = parseSeq(m["f"]);
  printf("field sequence: %s\n", seqStr(s).c_str());
  bool hasSub = false;
  for (auto& f : s) if (f.t == g_subByte) hasSub = true;
  string want = m["rule"];
  bool hit = false, allBad = true;
  for (int reading = 0; reading < (hasSub ? 2 : 1); reading++) {
    g_subByteAsBits = reading == 1;
    if (hasSub) printf("--- reading TTH as %s\n", reading ? "6-bit field that may share its byte" : "full-byte field");
    SeqCheck sc(s, true, m["light"] == "1");
    sc.refLayout = m["light"] == "1" && s.size() > 6;
    if (!sc.run()) {
      printf("definition refused by DataField::create\n");
      for (auto& f : sc.out) { printf("VIOLATES rule=%s: %s\n", f.rule.c_str(), f.detail.c_str()); if (want.empty() || f.rule == want) hit = true; }
      if (reading == 0 && hasSub) continue;
      return hit ? 1 : 0;
    }
    for (size_t i = 0; i < s.size() && i < sc.owned.size(); i++) {
      printf("field %zu %s part %c owns:", i, FTof(s[i].t).type, s[i].part);
      if (FTof(s[i].t).ign) printf(" (ignored)");
      else for (auto& kv : sc.owned[i].mask) printf(" byte%zu/mask%02x", kv.first, kv.second);
      if (!FTof(s[i].t).ign && sc.owned[i].openEnded) printf(" ..end");
      printf("\n");
    }
    for (auto& f : sc.out) { printf("VIOLATES rule=%s: %s\n", f.rule.c_str(), f.detail.c_str()); if (reading == (hasSub ? 1 : 0) && (want.empty() || f.rule == want)) hit = true; }
    if (sc.out.empty()) { printf("consistent\n"); allBad = false; }
  }
  g_subByteAsBits = false;
  if (!(hit && allBad)) printf("OK\n");
  return hit && allBad ? 1 : 0;
}

int main(int argc, char** argv) {
  vp::Args A = vp::parseArgs(argc, argv);
  initAlphabet();
  g_templates = new DataFieldTemplates();
  {
    std::istringstream ts("# name,type,divisor/values,unit,comment\nflag7,BI7\nbits32,BI3:2\n");
    string terr;
    if (g_templates->readFromStream(&ts, "_templates.csv", 0, false, nullptr, &terr) != RESULT_OK) { fprintf(stderr, "c10: templates refused: %s\n", terr.c_str()); return 3; }
  }
  for (auto it = DataTypeList::getInstance()->begin(); it != DataTypeList::getInstance()->end(); ++it) g_baseKeys.insert(it->first);
  for (size_t t = 0; t < g_alpha.size(); t++) if (g_alpha[t].var) g_varIndex = (int)t;
  if (A.replay) return replay(A.replayCase);
  R.setDeadline(A);
  int maxLen = (int)A.getInt("maxlen", A.thorough() ? 4 : 3);
  // self-check of the value sets: every single field alone must show its declared size
  for (size_t t = 0; t < g_alpha.size(); t++) {
    if (g_alpha[t].ign) continue;
    Seq s = {FieldDef{(int)t, 'm'}};
    resetTypeCache();
    SeqCheck sc(s, false);
    sc.run();
    for (auto& f : sc.out) if (f.rule == "owned-bytes-count" || f.rule == "field-owns-no-bits" || f.rule == "encode-fails" || f.rule == "config-rejected") {
      // on the unchanged tree every value set exercises its type (checked when the alphabet was written), so a
      // failure here is caused by the implementation under test: reported as violation, partition 0 only
      if (A.part == 0) R.violation("C10/single-field/" + f.rule + "/" + string(1, g_alpha[t].kind), string("single field ") + g_alpha[t].type + ": " + f.detail, "k=seq;f=" + seqStr(s) + ";rule=" + f.rule);
    }
  }
  std::set<string> reduced = {"UCH", "UIN", "D2C", "BCD", "BI0", "BI0:3", "BI3:2", "BI7", "IGN:1", "STR:2", "HDY", "TTH", "STR:*", "UCH/10", "EXP"};
  uint64_t counter = 0;
  Seq cur;
  bool stop = false;
  std::function<void()> rec = [&]() {
    if (stop) return;
    if (!cur.empty() && admissible(cur)) {
      if ((int)(counter++ % (uint64_t)A.nparts) == A.part) {
        if ((counter & 0x3f) == 0 && R.expired()) { stop = true; return; }
        bool overlap = false; string reading;
        vector<Finding> fs = checkSeq(cur, cur.size() <= 2, &overlap, &reading);
        std::set<string> seen;
        for (auto& f : fs) {
          if (!seen.insert(f.rule + "/" + f.ctx).second) continue;
          R.violation("C10/" + f.rule + "/" + f.ctx, seqStr(cur) + ": " + f.detail + (reading.empty() ? "" : " [" + reading + "]"), "k=seq;f=" + seqStr(cur) + ";rule=" + f.rule);
        }
        if (R.samples.size() < 4 && cur.size() == 3 && (counter % 977) == 0) R.sample("sequence " + seqStr(cur) + ": owned bits discovered black-box, oracles (1)-(4) on all value combinations and all single-bit flips");
      }
    }
    if ((int)cur.size() >= maxLen) return;
    if (cur.size() == 3) {
      // sequences of length 4 only over the reduced alphabet
      for (auto& f : cur) if (!reduced.count(g_alpha[f.t].type)) return;
    }
    bool hasExt = false;
    for (auto& f : cur) if (g_alpha[f.t].ext) hasExt = true;
    int extMax = A.thorough() ? 3 : 2;
    if (hasExt && (int)cur.size() >= extMax) return;
    for (size_t t = 0; t < g_alpha.size(); t++) for (char p : {'m', 's'}) {
      if (cur.size() == 3 && !reduced.count(g_alpha[t].type)) continue;
      if (g_alpha[t].ext && (int)cur.size() >= extMax) continue;
      cur.push_back(FieldDef{(int)t, p});
      rec();
      cur.pop_back();
    }
  };
  rec();
  // Barrier family (both tiers): one bit field ; 1..2 full-byte fields ; 2 (thorough 3) bit fields, all in one
  // part (master and slave).  Longer than the general enumeration, checked with the cheap structural oracles:
  // state carried by the offset bookkeeping across full-byte fields shows up here.
  {
    vector<int> bitT, fullT;
    for (size_t t = 0; t < g_alpha.size(); t++) {
      if (g_alpha[t].var) continue;
      if (g_alpha[t].bit || (int)t == g_subByte) bitT.push_back((int)t); else fullT.push_back((int)t);
    }
    int sufLen = A.thorough() ? 3 : 2;
    auto checkFamily = [&](const Seq& q) {
      if ((int)(counter++ % (uint64_t)A.nparts) != A.part) return;
      if ((counter & 0xff) == 0 && R.expired()) { stop = true; return; }
      bool overlap = false; string reading;
      vector<Finding> fs = checkSeq(q, false, &overlap, &reading, true);
      R.count("barrier_family_sequences");
      std::set<string> seen;
      for (auto& f : fs) {
        if (!seen.insert(f.rule + "/" + f.ctx).second) continue;
        R.violation("C10/" + f.rule + "/" + f.ctx, seqStr(q) + ": " + f.detail + (reading.empty() ? "" : " [" + reading + "]"), "k=seq;light=1;f=" + seqStr(q) + ";rule=" + f.rule);
      }
    };
    for (char part : {'m', 's'}) for (int p0 : bitT) for (int nf = 1; nf <= 2; nf++) {
      vector<vector<int>> fulls;
      if (nf == 1) for (int a : fullT) fulls.push_back({a});
      else for (int a : fullT) for (int b : fullT) fulls.push_back({a, b});
      for (auto& fv : fulls) {
        vector<int> sv(sufLen, 0);
        std::function<void(int)> sufRec = [&](int d) {
          if (stop) return;
          if (d == sufLen) {
            Seq q = {FieldDef{p0, part}};
            for (int a : fv) q.push_back(FieldDef{a, part});
            for (int b : sv) q.push_back(FieldDef{bitT[b], part});
            checkFamily(q);
            return;
          }
          for (size_t b = 0; b < bitT.size(); b++) { sv[d] = (int)b; sufRec(d + 1); }
        };
        sufRec(0);
      }
    }
    // Long family (both tiers): 10 x UCH ; X ; UCH for every non-variable type X, master and slave part: more
    // than 10 fields, so that two-digit JSON keys and the stream state left by X in front of a later field occur
    g_refLayout = true;
    int uch = -1;
    for (size_t t = 0; t < g_alpha.size(); t++) if (string(g_alpha[t].type) == "UCH") uch = (int)t;
    for (char part : {'m', 's'}) for (size_t t = 0; t < g_alpha.size(); t++) {
      if (g_alpha[t].var || stop) continue;
      Seq q;
      for (int k = 0; k < 10; k++) q.push_back(FieldDef{uch, part});
      q.push_back(FieldDef{(int)t, part});
      q.push_back(FieldDef{uch, part});
      checkFamily(q);
    }
    g_refLayout = false;
    if (A.part == 0) R.sample("barrier family e.g. BI0:3.m,UIN.m,BI0:3.m,BI3:2.m: bytes behind the full-byte field must equal the encoding of the trailing fields alone");
  }
  R.write(A.out);
  return 0;
}
