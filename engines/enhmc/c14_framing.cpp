// C14: adapter framing is decoded exactly and independently of read chunking; the plain transport
// delivers bytes unchanged.  (+ the adapter-stream part of C20 with --prop C20: sanitizer build,
// wider alphabet, forked batches.)
//
// Real code in the loop: ebusd::EnhancedDevice / ebusd::PlainDevice on the real ebusd::FileTransport
// (enh_env.h serves the sentinel descriptor).  Reference: ref::RefEnhDecoder (enh_ref.h, written
// from docs/enhanced_proto.md).
//
// sub-checks (all run by one invocation, work units are dealt round-robin to the partitions):
//   enc   send / startArbitration / requestEnhancedInfo for all 256 values -> defined two-byte sequence
//   ptr   FileTransport: all operation sequences {arrive 1..8, read(0), read(t), readConsumed(k)}
//   pdev  PlainDevice on FileTransport: {arrive 1..8, recv(0), recv(t)}
//   enh   all adapter streams up to --len over the alphabet x all partitions into read chunks
//         (each boundary with or without a receive timeout) x 3 consumption patterns x 3 start
//         states x with/without startArbitration, explored with state merging (mode B); validated
//         against the stateless executor (mode A) up to --xval
#include <fcntl.h>
#include <sys/mman.h>
#include <sys/wait.h>
#include <signal.h>
#include <algorithm>
#include <functional>
#include <set>
#include "enh_core.h"
#include "enh_plain.h"
#include "vout.h"

using core::Cfg;
using core::Mode;
using core::Obs;
using core::Part;
using std::string;
using std::vector;

static vp::Result R;
static string g_pid = "C14";  // property id used in signatures

// ---- alphabets ------------------------------------------------------------------------------------
// C14 (DESIGN 5/C14): two plain bytes; first bytes of RECEIVED (data bits 10......), STARTED, FAILED,
// INFO, RESETTED, ERROR_EBUS, ERROR_HOST and of an undefined command (0x4); second bytes that give
// AA and A9 after c6, the address 31 after c8/e8, and 81 (features 1 / length 1 / overrun).
static const vector<uint8_t> ALPHA14 = {0x55, 0x31, 0xc6, 0xc8, 0xe8, 0xcc, 0xc0, 0xec, 0xf0, 0xd0, 0xaa, 0xa9, 0xb1, 0x81};
// C20: first bytes of all 16 command values (data bits 00) + cf (INFO, data bits 11) + ff, second
// bytes 80 81 90(16) 91(17) bf aa, plain 00 55 7f
// frame mode (C14): whole items, so that sequences of several two-byte frames (three RECEIVED SYN while an
// arbitration is outstanding, results and error frames between them ...) are inside the quick bound:
// plain 55 | RECEIVED aa (SYN) | INFO 01 | STARTED 31 | FAILED 31 | ERROR_EBUS overrun | RESETTED 01 |
// undefined command 4
static const vector<vector<uint8_t>> FRAMES = {{0x55}, {0xc6, 0xaa}, {0xcc, 0x81}, {0xc8, 0xb1}, {0xe8, 0xb1}, {0xec, 0x81}, {0xc0, 0x81}, {0xd0, 0x81}};
static const vector<uint8_t> ALPHA_WIDE = {0xc0, 0xc4, 0xc8, 0xcc, 0xd0, 0xd4, 0xd8, 0xdc, 0xe0, 0xe4, 0xe8, 0xec, 0xf0, 0xf4, 0xf8, 0xfc,
                                           0xcf, 0xff, 0x80, 0x81, 0x90, 0x91, 0xbf, 0xaa, 0x00, 0x55, 0x7f};

// ---- printing ---------------------------------------------------------------------------------------
static const char* arbName(int s) {
  switch (s) {
    case ebusd::as_won: return "won";
    case ebusd::as_lost: return "lost";
    case ebusd::as_error: return "error";
    case ebusd::as_timeout: return "timeout";
    default: return "?";
  }
}
static string symsOf(const Obs& o) { return ref::symsText(vector<uint16_t>(o.syms, o.syms + o.nsyms)); }
static string arbsOf(const Obs& o) {
  string s = "[";
  for (int i = 0; i < o.narbs; i++) { if (i) s += " "; s += arbName(o.arbs[i]); }
  return s + "]";
}
static string notesOf(const Obs& o) {
  string s = "[";
  for (int i = 0; i < o.nnotes; i++) { if (i) s += "; "; s += env::g_texts[o.notes[i]]; }
  return s + "]";
}
static string obsText(const Obs& o) {
  string s = "symbols=" + symsOf(o) + " arbitration=" + arbsOf(o) + " notifications=" + notesOf(o);
  if (o.closed) {
    s += " CLOSED(after " + std::to_string(o.closeSyms) + " symbols, closing call returned " +
         (o.closingSym < 0 ? string("nothing") : ref::symText(static_cast<uint16_t>(o.closingSym))) + ")";
  }
  if (o.reopens) s += " REOPENED(" + std::to_string(o.reopens) + "x)";
  if (o.arbBad) s += string(" ARB-") + arbName(o.arbBad) + "-WITHOUT-CAUSE-READ";
  if (o.noProgress) s += " NO-PROGRESS";
  if (o.badResult) s += " RESULT=" + std::to_string(o.badResult);
  if (o.overflow) s += " OBS-OVERFLOW";
  return s;
}
static string modeText(const Mode& m) {
  char b[16];
  snprintf(b, sizeof(b), "S%da%dp%d", m.start, m.arb, m.pat);
  return b;
}
static bool parseMode(const string& t, Mode* m) {
  if (t.size() != 6 || t[0] != 'S' || t[2] != 'a' || t[4] != 'p') return false;
  m->start = t[1] - '0'; m->arb = t[3] - '0'; m->pat = t[5] - '0';
  return m->start >= 0 && m->start < core::NSTART && (m->arb == 0 || m->arb == 1) && m->pat >= 0 && m->pat < core::NPAT;
}
static string caseOf(const Mode& m, const Part& p, const Part* vs = nullptr) {
  string c = string("k=") + (m.san ? "san" : "enh") + ";m=" + modeText(m) + ";s=" + core::partText(p);
  if (vs) c += ";vs=" + core::partText(*vs);
  return c;
}

// ---- oracle -----------------------------------------------------------------------------------------
struct RefInfo {
  vector<uint8_t> full;              // stream + flush suffix
  vector<ref::Events> alts;          // allowed decodings of full
  vector<ref::Syms> altSyms;
  vector<ref::Events> streamAlts;    // allowed decodings of the stream alone (for closed executions)
  bool hasReset = false, hasError = false, hasUndef = false, hasMalformed = false, hasInfo = false, hasSyn = false;
  const char* cls = "clean";
};
static bool eqSyms(const ref::Syms& a, const vector<uint16_t>& g) {
  return a.size() == g.size() && std::equal(g.begin(), g.end(), a.begin());
}
static bool eqSyms(const ref::Syms& a, const Obs& o) {
  return a.size() == o.nsyms && std::equal(o.syms, o.syms + o.nsyms, a.begin());
}
static void makeRef(const Mode& m, const uint8_t* s, int n, RefInfo* ri) {
  ri->full.assign(s, s + n);
  core::appendFlush(m, &ri->full);
  ref::RefEnhDecoder::decode(ri->full.data(), static_cast<int>(ri->full.size()), &ri->alts);
  ri->altSyms.resize(ri->alts.size());
  for (size_t a = 0; a < ri->alts.size(); a++) ref::RefEnhDecoder::symbols(ri->alts[a], &ri->altSyms[a]);
  ri->hasReset = ri->hasError = ri->hasUndef = ri->hasMalformed = ri->hasInfo = ri->hasSyn = false;
  for (auto& e : ri->alts[0]) {
    if (e.kind == ref::K_RESET) ri->hasReset = true;
    if (e.kind == ref::K_ERROR) ri->hasError = true;
    if (e.kind == ref::K_UNDEF) ri->hasUndef = true;
    if (e.kind == ref::K_STRAY || e.kind == ref::K_DANGLE) ri->hasMalformed = true;
    if (e.kind == ref::K_INFO) ri->hasInfo = true;
  }
  for (auto& a : ri->altSyms) for (uint16_t v : a) if (v == 0xaa) ri->hasSyn = true;
  for (auto& a : ri->alts) if (a.overflow) { fprintf(stderr, "reference event buffer too small\n"); exit(3); }
  ri->cls = ri->hasReset ? "reset" : ri->hasError ? "error" : ri->hasUndef ? "undef" : ri->hasMalformed ? "malformed" : ri->hasInfo ? "info" : "clean";
  ri->streamAlts.clear();
  if (ri->hasReset) ref::RefEnhDecoder::decode(s, n, &ri->streamAlts);
}
// how do the observed symbols differ from a decoding?  (input class of the signature)
static string classify(const vector<uint16_t>& got, const ref::Events& ev) {
  vector<int> symIdx;
  for (size_t i = 0; i < ev.size(); i++) if (ev[i].kind == ref::K_SYM) symIdx.push_back(static_cast<int>(i));
  auto beforeReset = [&](int k) {  // is the k-th reference symbol followed by a RESETTED frame before the next symbol?
    size_t end = k + 1 < static_cast<int>(symIdx.size()) ? symIdx[k + 1] : ev.size();
    for (size_t i = symIdx[k] + 1; i < end; i++) if (ev[i].kind == ref::K_RESET) return true;
    return false;
  };
  // same values, marks differ
  if (got.size() == symIdx.size()) {
    bool valuesSame = true, allBR = true;
    for (size_t k = 0; k < got.size(); k++) {
      if ((got[k] & 0xff) != (ev[symIdx[k]].sym & 0xff)) valuesSame = false;
      else if (got[k] != ev[symIdx[k]].sym && !beforeReset(static_cast<int>(k))) allBR = false;
    }
    if (valuesSame) return allBR ? "result-lost-before-reset" : "result-altered";
  }
  // got is a subsequence of the reference: symbols were lost.  "before-reset" if some alignment only
  // drops symbols that are followed by a RESETTED frame before the next symbol
  if (got.size() < symIdx.size()) {
    std::function<bool(size_t, size_t, bool)> match = [&](size_t g, size_t k, bool onlyBR) -> bool {
      if (k == symIdx.size()) return g == got.size();
      if (g < got.size() && got[g] == ev[symIdx[k]].sym && match(g + 1, k + 1, onlyBR)) return true;
      if (onlyBR && !beforeReset(static_cast<int>(k))) return false;
      return match(g, k + 1, onlyBR);
    };
    if (match(0, 0, true)) return "lost-before-reset";
    if (match(0, 0, false)) return "lost";
  }
  if (got.size() > symIdx.size()) {
    size_t k = 0;
    for (size_t g = 0; g < got.size() && k < symIdx.size(); g++) if (got[g] == ev[symIdx[k]].sym) k++;
    if (k == symIdx.size()) return "invented";
  }
  return "altered";
}

// is there an arbitration result (STARTED/FAILED) that is followed by a RESETTED frame before the next symbol?
static bool resultBeforeReset(const ref::Events& ev) {
  bool pending = false;
  for (auto& e : ev) {
    if (e.kind == ref::K_SYM) pending = (e.sym & (ref::WON | ref::LOST)) != 0;
    else if (e.kind == ref::K_RESET && pending) return true;
  }
  return false;
}
// One recv call reports one arbitration state: an error/timeout that is directly followed by a won/lost
// may have been replaced by it inside the same call.  The comparison therefore ignores such entries.
static void normArbs(const Obs& o, uint8_t* out, int* n) {
  *n = 0;
  for (int i = 0; i < o.narbs; i++) {
    bool soft = o.arbs[i] == ebusd::as_error || o.arbs[i] == ebusd::as_timeout;
    bool nextHard = i + 1 < o.narbs && (o.arbs[i + 1] == ebusd::as_won || o.arbs[i + 1] == ebusd::as_lost);
    if (soft && nextHard) continue;
    out[(*n)++] = o.arbs[i];
  }
}

struct Alarm { string rule, cls, detail; };

// absolute oracle on one execution
static void checkAbs(const Mode& m, const RefInfo& ri, const Obs& o, vector<Alarm>* out) {
  if (o.overflow) { out->push_back({"harness-obs-overflow", ri.cls, "observation arrays too small"}); return; }
  if (o.noProgress) out->push_back({"no-progress", ri.cls, "more than " + std::to_string(core::STEP_CAP) + " recv calls without reaching the end of the input"});
  if (o.badResult) out->push_back({"bad-result", ri.cls, "recv returned " + std::to_string(o.badResult) + " while the transport was open"});
  if (!m.san && !o.closed && !o.noProgress && !o.badResult && o.narbs == 0) {
    for (auto& a : ri.altSyms) if (eqSyms(a, o)) return;  // fast path: conforms, nothing else to judge
  }
  vector<uint16_t> got(o.syms, o.syms + o.nsyms);
  if (m.san) {
    // C20: only "a well-formed suffix is still decoded": ... 55 aa 71 at the end
    if (!o.closed && !o.noProgress && !o.badResult) {
      bool ok = got.size() >= 3 && got[got.size() - 3] == 0x55 && got[got.size() - 2] == 0xaa && got[got.size() - 1] == core::FLUSH2;
      if (!ok) out->push_back({"suffix-not-decoded", ri.cls, "the well-formed suffix 70 | 55 c6 aa | 71 sent again after the drain must end the symbols with [55 aa 71], observed " + symsOf(o)});
    }
    return;
  }
  if (!o.closed) {
    bool ok = false;
    for (auto& a : ri.altSyms) if (eqSyms(a, got)) { ok = true; break; }
    if (!ok && !o.noProgress && !o.badResult) {
      string want;
      for (size_t a = 0; a < ri.altSyms.size(); a++) { if (a) want += " or "; want += ref::symsText(ri.altSyms[a]); if (a >= 3) { want += " ..."; break; } }
      out->push_back({"ref-symbols", classify(got, ri.alts[0]), "reference decoding " + want + ", observed " + symsOf(o)});
    }
  } else {
    // compared up to the close(): some RESETTED frame q of the stream must explain it: the symbols
    // before q were all returned, the last of them possibly by the closing call itself
    bool ok = false;
    string want;
    vector<uint16_t> firstPre;
    bool haveFirst = false;
    for (auto& ev : ri.streamAlts) {
      vector<uint16_t> pre;
      for (auto& e : ev) {
        if (e.kind == ref::K_SYM) pre.push_back(e.sym);
        if (e.kind != ref::K_RESET) continue;
        if (!haveFirst) { firstPre = pre; haveFirst = true; }
        size_t k = static_cast<size_t>(o.closeSyms);
        if (k == pre.size() && std::equal(pre.begin(), pre.end(), got.begin())) ok = true;
        if (k + 1 == pre.size() && std::equal(got.begin(), got.begin() + k, pre.begin()) && o.closingSym == pre.back()) ok = true;
        if (ok) break;
      }
      if (ok) break;
    }
    if (!ok) {
      vector<uint16_t> all = got;
      if (o.closingSym >= 0) all.push_back(static_cast<uint16_t>(o.closingSym));
      string cls = "closed-without-reset";
      if (haveFirst) {
        // classify against the symbols in front of the first RESETTED frame
        ref::Events cut;
        for (auto& e : ri.streamAlts[0]) { cut.push_back(e); if (e.kind == ref::K_RESET) break; }
        if (all.size() > firstPre.size() && o.closingSym >= 0) all.pop_back();  // the closing call may return a later symbol
        cls = classify(all, cut);
      }
      out->push_back({"ref-symbols-closed", cls, "transport closed on adapter reset: symbols in front of the RESETTED frame " +
                      (haveFirst ? ref::symsText(firstPre) : string("(no RESETTED frame in the stream)")) + ", observed " + obsText(o)});
    }
  }
  // terminal arbitration states: error/timeout only for a running arbitration, and only once
  bool running = m.arb != 0;
  for (int i = 0; i < o.narbs; i++) {
    int st = o.arbs[i];
    if (st == ebusd::as_error || st == ebusd::as_timeout) {
      bool cause = st == ebusd::as_timeout ? ri.hasSyn : (ri.hasReset || ri.hasError || ri.hasUndef || ri.hasMalformed);
      if (!running) { out->push_back({"arb-invented", resultBeforeReset(ri.alts[0]) ? "result-before-reset" : ri.cls, string("arbitration ") + arbName(st) + " reported although no arbitration was running: " + arbsOf(o)}); break; }
      if (!cause) { out->push_back({"arb-cancelled-by-wellformed", ri.cls, string("running arbitration ended with ") + arbName(st) + " by a well-formed stream: " + arbsOf(o)}); break; }
    }
    running = false;
  }
  // ... and the cause must have been read already when the state is reported (synchronous scanner over
  // the bytes the implementation had read at that call)
  if (o.arbBad) {
    out->push_back({"arb-cancelled-without-cause", string(arbName(o.arbBad)) + "-" + ri.cls,
                    string("running arbitration ended with ") + arbName(o.arbBad) + " before any " +
                    (o.arbBad == ebusd::as_timeout ? "SYN symbol" : "reset/error/undefined/malformed item") + " had been read: " + arbsOf(o)});
  }
}

struct Final {
  Obs obs;
  Part part;  // s is filled lazily
};
static string slug(const string& text) {  // first words of a notification, no values
  string o;
  int words = 0;
  for (char c : text) {
    if (c == ' ' || c == ':' || c == ',') { if (!o.empty() && o.back() != '_') { o += '_'; words++; } if (words >= 4) break; continue; }
    if (isalpha(static_cast<unsigned char>(c))) o += c; else if (isdigit(static_cast<unsigned char>(c))) break;
  }
  while (!o.empty() && o.back() == '_') o.pop_back();
  return o.empty() ? "none" : o;
}
// differential oracle between two executions of the same stream (three projections, separately)
static void checkPair(const Mode& m, const RefInfo& ri, const Obs& a, const Obs& b, vector<Alarm>* out) {
  if (m.san) return;
  if (a.closed != b.closed) {
    out->push_back({"chunk-close", ri.cls, "one chunking closes the transport, the other does not"});
    return;
  }
  if (!a.sameNotes(b)) {
    // name the first notification that differs
    int i = 0;
    while (i < a.nnotes && i < b.nnotes && a.notes[i] == b.notes[i]) i++;
    string t = i < a.nnotes ? env::g_texts[a.notes[i]] : i < b.nnotes ? env::g_texts[b.notes[i]] : "";
    out->push_back({"chunk-notes", string(ri.cls) + "-" + slug(t.size() > 2 ? t.substr(2) : t), "notification sequences differ: " + notesOf(a) + " vs " + notesOf(b)});
  }
  if (a.closed) return;  // compared up to the close()
  if (!a.sameSyms(b)) {
    vector<uint16_t> ga(a.syms, a.syms + a.nsyms), gb(b.syms, b.syms + b.nsyms);
    bool okA = false, okB = false;
    for (auto& s : ri.altSyms) { if (eqSyms(s, ga)) okA = true; if (eqSyms(s, gb)) okB = true; }
    // both are allowed readings of a malformed stream (the byte after a dangling first byte may or may
    // not be swallowed): the statement does not fix which one, so this is not judged
    if (!(okA && okB)) {
      string cls = !okA ? classify(ga, ri.alts[0]) : classify(gb, ri.alts[0]);
      out->push_back({"chunk-symbols", cls, "symbol sequences differ: " + symsOf(a) + " vs " + symsOf(b)});
    }
  }
  uint8_t na[core::MAXARB], nb[core::MAXARB];
  int la = 0, lb = 0;
  normArbs(a, na, &la);
  normArbs(b, nb, &lb);
  if (la != lb || memcmp(na, nb, la)) {
    // input class.  "result-before-reset": one execution reports exactly the won/lost results of the
    // reference and the other one lacks only results that a RESETTED frame follows before the next
    // symbol.  Otherwise the class names the first differing pair of states.
    vector<uint8_t> want;       // reference results in order
    vector<bool> wantBR;        // ... followed by a RESETTED frame before the next symbol
    {
      const ref::Events& ev = ri.alts[0];
      for (size_t i = 0; i < ev.size(); i++) {
        if (ev[i].kind != ref::K_SYM || !(ev[i].sym & (ref::WON | ref::LOST))) continue;
        bool br = false;
        for (size_t j = i + 1; j < ev.size() && ev[j].kind != ref::K_SYM; j++) if (ev[j].kind == ref::K_RESET) br = true;
        want.push_back((ev[i].sym & ref::WON) ? ebusd::as_won : ebusd::as_lost);
        wantBR.push_back(br);
      }
    }
    auto results = [](const uint8_t* v, int n) {
      vector<uint8_t> r;
      for (int i = 0; i < n; i++) if (v[i] == ebusd::as_won || v[i] == ebusd::as_lost) r.push_back(v[i]);
      return r;
    };
    vector<uint8_t> ra = results(na, la), rb = results(nb, lb);
    std::function<bool(const vector<uint8_t>&, size_t, size_t)> explained = [&](const vector<uint8_t>& g, size_t gi, size_t k) -> bool {
      if (k == want.size()) return gi == g.size();
      if (gi < g.size() && g[gi] == want[k] && explained(g, gi + 1, k + 1)) return true;
      return wantBR[k] && explained(g, gi, k + 1);
    };
    string cls;
    if (ra != rb && ((ra == want && explained(rb, 0, 0)) || (rb == want && explained(ra, 0, 0)))) {
      cls = "result-before-reset";
    } else {
      int i = 0;
      while (i < la && i < lb && na[i] == nb[i]) i++;
      const char* x = i < la ? arbName(na[i]) : "none";
      const char* y = i < lb ? arbName(nb[i]) : "none";
      if (strcmp(x, y) > 0) std::swap(x, y);  // independent of which execution is the baseline
      cls = string(ri.cls) + "-" + x + "-vs-" + y;
    }
    out->push_back({"chunk-arb", cls, "terminal arbitration states differ (error/timeout directly followed by won/lost ignored): " + arbsOf(a) + " vs " + arbsOf(b)});
  }
}
static string sigOf(const Mode& m, const Alarm& a) {
  if (a.rule.compare(0, 7, "harness") == 0) return "HARNESS/" + a.rule;
  return g_pid + "/" + a.rule + "/enhS" + std::to_string(m.start) + "/" + a.cls;
}

// ---- evaluation of all executions of one stream ----------------------------------------------------------
static uint64_t g_frameStreams = 0;
static uint64_t g_finalsRun = 0, g_streams = 0, g_partsRepresented = 0, g_maxStates = 0, g_clockBad = 0;
static bool g_collectDistinct = true;

static void evaluate(const Mode& m, const uint8_t* s, int n, vector<Final>& finals) {
  static RefInfo ri;  // reused: its vectors keep their capacity
  makeRef(m, s, n, &ri);
  // distinct observations
  vector<int> dist;
  for (size_t i = 0; i < finals.size(); i++) {
    bool dup = false;
    for (int j : dist) if (finals[j].obs.same(finals[i].obs)) { dup = true; break; }
    if (!dup) dist.push_back(static_cast<int>(i));
  }
  int base = -1;
  vector<Alarm> al;
  for (int i : dist) {
    al.clear();
    checkAbs(m, ri, finals[i].obs, &al);
    if (al.empty() && base < 0) base = i;
    for (auto& a : al) {
      finals[i].part.s.assign(s, s + n);
      R.violation(sigOf(m, a), modeText(m) + " " + core::partText(finals[i].part) + ": " + a.detail, caseOf(m, finals[i].part));
    }
  }
  if (dist.size() > 1) {
    if (base < 0) base = dist[0];
    for (int i : dist) {
      if (i == base) continue;
      al.clear();
      checkPair(m, ri, finals[i].obs, finals[base].obs, &al);
      for (auto& a : al) {
        finals[i].part.s.assign(s, s + n);
        finals[base].part.s.assign(s, s + n);
        R.violation(sigOf(m, a), modeText(m) + " " + core::partText(finals[i].part) + " vs " + core::partText(finals[base].part) + ": " + a.detail,
                    caseOf(m, finals[i].part, &finals[base].part));
      }
    }
  }
  if (g_collectDistinct && n <= 5 && !finals.empty()) {
    const Obs& o = finals[dist[0]].obs;
    uint64_t h = vp::fnv(o.syms, o.nsyms * 2, 41);
    h = vp::fnv(o.arbs, o.narbs, h);
    h = vp::fnv(o.notes, o.nnotes * 2, h);
    R.distinct(h ^ (static_cast<uint64_t>(m.start) << 60));
  }
}

// ---- mode B: depth-first over streams with merging of equal configurations -----------------------------------
struct BState {
  Cfg* cfg;
  uint32_t pend;  // chunk boundaries inside the not yet delivered part s[cfg->delivered .. n)
};
struct Progress {  // what the current run is, in shared memory for the forked C20 batches
  int start, arb, pat, n;   // n = -1: info session (id, len, fill, k, style)
  int id, len, fill, k, style;
  uint8_t s[32];
  uint32_t cuts, gaps;
  int trailingGap;
};
static Progress* g_progress = nullptr;

static vector<Cfg*> g_cfgPool;
static Cfg* newCfg(const Cfg& src) {
  Cfg* c;
  if (!g_cfgPool.empty()) { c = g_cfgPool.back(); g_cfgPool.pop_back(); *c = src; } else { c = new Cfg(src); }
  c->impl = core::cloneImpl(src.impl);
  return c;
}
static void freeCfg(Cfg* c) {
  core::dropImpl(&c->impl);
  g_cfgPool.push_back(c);
}

class Explorer {
 public:
  Mode m;
  int maxLen;
  const vector<uint8_t>* alpha;
  int fix0 = -1, fix1 = -1;  // restrict to streams starting with alpha[fix0], alpha[fix1] (work unit)
  int xval = 0;              // validate against the stateless executor up to this length
  // frame mode: the stream is a sequence of at most maxTok whole items (one or two bytes each) instead
  // of single alphabet bytes; every byte prefix is still evaluated and every byte boundary can be a cut
  const vector<vector<uint8_t>>* tokens = nullptr;
  int maxTok = 0, fixTok = -1;
  uint8_t s[32];
  string keyArena[16];
  vector<std::pair<uint32_t, uint32_t>> keyIndex[16];

  void run() {
    Cfg init = core::initialCfg(m);
    vector<BState> states;
    states.push_back({&init, 0});
    node(0, states);
    core::dropImpl(&init.impl);
    env::fdClear();
    core::g_rec.obs = nullptr;
  }

 private:
  static void note(const Mode& m, const uint8_t* s, int n, uint32_t cuts, uint32_t gaps, bool tg) {
    if (!g_progress) return;
    g_progress->start = m.start; g_progress->arb = m.arb; g_progress->pat = m.pat; g_progress->n = n;
    memcpy(g_progress->s, s, n);
    g_progress->cuts = cuts; g_progress->gaps = gaps; g_progress->trailingGap = tg;
  }
  void pushChunks(int from, int n, uint32_t pend) {
    int pos = from;
    while (pos < n) {
      int e = pos + 1;
      while (e < n && !(pend >> e & 1)) e++;
      env::fdPush(s + pos, e - pos);
      pos = e;
    }
  }
  void begin(Cfg* c) {
    env::fdClear();
    core::activate(c);
  }
  // run the flush on c itself (c is used up) and record the final observation
  void finalOn(Cfg* f, int n, uint32_t cuts, uint32_t gaps, bool tg, vector<Final>* finals, int from = -1, uint32_t pend = 0) {
    begin(f);
    note(m, s, n, cuts, gaps, tg);
    uint64_t c0 = f->clock;
    if (from >= 0) pushChunks(from, n, pend);
    core::pushFlush(m);
    core::runLoop(f, m.pat);
    core::drain(f);
    core::secondSuffix(f, m);
    core::deactivate(f);
    if (f->clock - c0 >= 900) g_clockBad++;
    g_finalsRun++;
    finals->emplace_back();
    Final& fin = finals->back();
    fin.obs = f->obs;
    fin.part.cuts = cuts; fin.part.gaps = gaps; fin.part.trailingGap = tg;
  }
  // ... on a copy
  void finalOf(const Cfg& c, int n, uint32_t cuts, uint32_t gaps, bool tg, vector<Final>* finals, int from = -1, uint32_t pend = 0) {
    Cfg f = core::cloneCfg(c);
    finalOn(&f, n, cuts, gaps, tg, finals, from, pend);
    core::dropImpl(&f.impl);
  }
  bool mineAt(int n) const {  // is the node at depth n (with the current s) evaluated by this work unit?
    if (tokens) return n >= 1 || fixTok <= 0;
    if (fix0 < 0) return true;
    if (n >= 2) return true;
    if (n == 1) return fix1 == 0;
    return fix0 == 0 && fix1 == 0;
  }

  void node(int n, vector<BState>& states, int forced = -1, int ntok = 0) {
    bool eval = mineAt(n);
    bool needChildren = tokens ? (forced >= 0 || ntok < maxTok) : n < maxLen;
    vector<Cfg*> created;      // distinct configurations with all of s[0..n) delivered (kept for the children)
    // keys of every distinct configuration met at this node (arena per depth, reused)
    string& arena = keyArena[n];
    arena.clear();
    vector<std::pair<uint32_t, uint32_t>>& seenKeys = keyIndex[n];
    seenKeys.clear();
    vector<BState> extra;
    vector<Final> finals;
    finals.reserve(states.size() + 4);
    core::KeyBuf key, key2;
    auto seen = [&](const core::KeyBuf& k) {
      if (!k.ok()) { fprintf(stderr, "configuration key buffer too small\n"); exit(3); }
      for (auto& x : seenKeys) if (x.second == k.n && !memcmp(arena.data() + x.first, k.b, k.n)) return true;
      seenKeys.emplace_back(static_cast<uint32_t>(arena.size()), static_cast<uint32_t>(k.n));
      arena.append(k.b, k.n);
      return false;
    };
    // y (everything delivered) is new at this node: take its final observation, keep it for the children
    auto settle = [&](Cfg* y, uint32_t cutsL, uint32_t gapsL, bool tg) {
      if (needChildren) {
        if (eval) finalOf(*y, n, cutsL, gapsL, tg, &finals);
        created.push_back(y);
      } else {
        if (eval) finalOn(y, n, cutsL, gapsL, tg, &finals);
        freeCfg(y);
      }
    };
    if (n == 0) {
      // the empty stream: flush directly, or after one receive timeout
      Cfg* init = states[0].cfg;
      if (eval) {
        finalOf(*init, 0, 0, 0, false, &finals);
        Cfg y = core::cloneCfg(*init);
        begin(&y);
        core::gap(&y, m.pat);
        core::deactivate(&y);
        finalOn(&y, 0, 0, 0, true, &finals);
        core::dropImpl(&y.impl);
      }
    } else {
      for (size_t si = 0; si < states.size(); si++) {
        Cfg* cfg = states[si].cfg;
        uint32_t pend = states[si].pend;
        int from = cfg->delivered;
        if (core::stopped(*cfg)) {
          if (eval) {
            finals.emplace_back();
            Final& fin = finals.back();
            fin.obs = cfg->obs;
            fin.part.cuts = cfg->cuts; fin.part.gaps = cfg->gaps; fin.part.trailingGap = false;
          }
          continue;
        }
        uint32_t cutsL = cfg->cuts | pend | (from > 0 ? 1u << from : 0);
        uint32_t gapsL = cfg->gaps | ((cfg->trailingGap && from > 0) ? 1u << from : 0);
        Cfg* y = newCfg(*cfg);
        begin(y);
        note(m, s, n, cutsL, gapsL, false);
        uint64_t c0 = y->clock;
        pushChunks(from, n, pend);
        bool starved = core::runLoop(y, m.pat);
        core::deactivate(y);
        if (y->clock - c0 >= 900) g_clockBad++;
        y->delivered = n;
        y->cuts = cutsL;
        y->gaps = gapsL;
        y->trailingGap = starved;
        if (starved) {
          // a receive timeout elapsed inside the last call: y is the "boundary with timeout" variant;
          // without a timeout the same call goes on with whatever arrives next (flush or further chunks)
          if (eval) finalOf(*cfg, n, cutsL, gapsL, false, &finals, from, pend);
          if (needChildren) extra.push_back({cfg, pend | (1u << n)});
        }
        core::cfgKey(*y, &key);
        if (seen(key)) {  // same configuration as an earlier one: same future, same final observation
          freeCfg(y);
          continue;
        }
        if (!starved && !core::stopped(*y)) {
          // variant: one receive timeout after this chunk
          Cfg* y2 = newCfg(*y);
          begin(y2);
          core::gap(y2, m.pat);
          core::deactivate(y2);
          y2->trailingGap = true;
          core::cfgKey(*y2, &key2);
          if (key2.equals(key) || seen(key2)) {  // the timeout changed nothing
            freeCfg(y2);
          } else {
            settle(y2, cutsL, gapsL, true);
          }
        }
        settle(y, cutsL, gapsL, starved);
      }
    }
    if (eval) {
      g_streams++;
      if (tokens) g_frameStreams++;
      uint64_t reps = 2;
      for (int i = 1; i < n; i++) reps *= 3;
      g_partsRepresented += reps;
      if (states.size() > g_maxStates) g_maxStates = states.size();
      for (Cfg* c : created) { key.n = 0; core::implKey(*c, &key); R.state(vp::fnv(key.b, key.n, 51)); }
      if (xval && n <= xval) crossValidate(n, finals);
      evaluate(m, s, n, finals);
      if (R.samples.size() < 3 && n == 3 && s[1] != s[0] && finals.size() > 1) {
        finals[0].part.s.assign(s, s + n);
        R.sample("enh " + modeText(m) + " stream " + core::partText(finals[0].part) + " (" + std::to_string(finals.size()) + " distinct executions stand for " +
                 std::to_string(reps) + " partitions): " + obsText(finals[0].obs));
      }
    }
    if (needChildren && !R.expired()) {
      vector<BState> child;
      child.reserve(states.size() + extra.size() + created.size());
      // configurations that stopped (closed) are kept; live ones continue with a longer open chunk
      for (auto& st : states) child.push_back(st);
      for (auto& st : extra) child.push_back(st);
      for (Cfg* c : created) child.push_back({c, 0});
      if (tokens && forced >= 0) {  // second byte of the item begun at the previous level
        s[n] = static_cast<uint8_t>(forced);
        node(n + 1, child, -1, ntok);
      } else if (tokens) {
        for (size_t ti = 0; ti < tokens->size(); ti++) {
          if (n == 0 && fixTok >= 0 && static_cast<int>(ti) != fixTok) continue;
          const vector<uint8_t>& tk = (*tokens)[ti];
          s[n] = tk[0];
          node(n + 1, child, tk.size() > 1 ? tk[1] : -1, ntok + 1);
          if (R.expired()) break;
        }
      } else
      for (size_t bi = 0; bi < alpha->size(); bi++) {
        if (n == 0 && fix0 >= 0 && static_cast<int>(bi) != fix0) continue;
        if (n == 1 && fix1 >= 0 && static_cast<int>(bi) != fix1) continue;
        s[n] = (*alpha)[bi];
        node(n + 1, child);
        if (R.expired()) break;
      }
    }
    for (Cfg* c : created) freeCfg(c);
  }

  // all partitions of s[0..n) run from scratch must give exactly the set of observations mode B has
  void crossValidate(int n, const vector<Final>& finals) {
    std::set<string> a, b;
    auto ser = [](const Obs& o) {
      Cfg dummy;  // only the observation part of the key
      string k;
      k.append(reinterpret_cast<const char*>(&o.closed), 1);
      k.push_back(static_cast<char>(o.closeSyms));
      k.push_back(static_cast<char>(o.closingSym & 0xff));
      k.push_back(static_cast<char>(o.arbBad));
      k.push_back(static_cast<char>(o.nsyms));
      k.append(reinterpret_cast<const char*>(o.syms), o.nsyms * 2);
      k.push_back(static_cast<char>(o.narbs));
      k.append(reinterpret_cast<const char*>(o.arbs), o.narbs);
      k.push_back(static_cast<char>(o.nnotes));
      k.append(reinterpret_cast<const char*>(o.notes), o.nnotes * 2);
      return k;
    };
    for (auto& f : finals) b.insert(ser(f.obs));
    Part p;
    p.s.assign(s, s + n);
    uint32_t nb = n > 1 ? 1u << (n - 1) : 1;
    uint64_t runs = 0;
    for (uint32_t cm = 0; cm < nb; cm++) {
      uint32_t cuts = cm << 1;
      // all subsets of cuts as gaps
      uint32_t g = 0;
      do {
        for (int tg = 0; tg < 2; tg++) {
          p.cuts = cuts; p.gaps = g; p.trailingGap = tg != 0;
          bool clockOk = true;
          Obs o = core::runStateless(m, p, &clockOk);
          if (!clockOk) g_clockBad++;
          runs++;
          a.insert(ser(o));
        }
        g = (g - cuts) & cuts;
      } while (g != 0);
    }
    R.count("xval_stateless_executions", runs);
    R.count("xval_streams", 1);
    if (a != b) {
      p.cuts = p.gaps = 0; p.trailingGap = false;
      fprintf(stderr, "HARNESS ERROR: state-merging explorer and stateless executor disagree on %s stream %s: %zu vs %zu distinct observations\n",
              modeText(m).c_str(), core::partText(p).c_str(), b.size(), a.size());
      exit(3);
    }
  }
};

// ---- replay -------------------------------------------------------------------------------------------------
static int replayEnh(std::map<string, string>& c, bool san) {
  Mode m{0, 0, 0, san};
  Part p, q;
  if (!parseMode(c["m"], &m) || !core::parsePart(c["s"], &p)) { printf("bad case\n"); return 2; }
  m.san = san;
  core::g_reopenOnClose = san;
  bool haveVs = c.count("vs") && core::parsePart(c["vs"], &q);
  if (haveVs && q.s != p.s) { printf("bad case: vs is not a partition of the same stream\n"); return 2; }
  static const char* startNames[] = {"just opened (INIT sent, RESETTED outstanding)", "RESETTED(features=1) received, info 0 requested",
                                     "as S1, 10 s later (a RESETTED is an adapter self-reset)"};
  static const char* patNames[] = {"handler: recv(t), recv(0) while RESULT_CONTINUE", "recv(t) only", "recv(0) until timeout, then recv(t)"};
  printf("mode %s: start=%s; startArbitration(%02x)=%s; consumption=%s\n", modeText(m).c_str(), startNames[m.start], core::ARB_ADDR, m.arb ? "yes" : "no",
         patNames[m.pat]);
  RefInfo ri;
  makeRef(m, p.s.data(), static_cast<int>(p.s.size()), &ri);
  printf("stream+flush:");
  for (uint8_t b : ri.full) printf(" %02x", b);
  printf("\nreference decoding:");
  for (size_t a = 0; a < ri.altSyms.size(); a++) {
    bool dup = false;
    for (size_t b = 0; b < a; b++) if (ri.altSyms[b] == ri.altSyms[a]) dup = true;
    if (!dup) printf("%s %s", a ? " or" : "", ref::symsText(ri.altSyms[a]).c_str());
  }
  printf("\n");
  bool bad = false;
  vector<Alarm> al;
  Obs o1 = core::runStateless(m, p);
  if (m.san) printf("(the suffix 70 | 55 c6 aa | 71 is sent twice: with the stream and again after the drain; the second one is judged)\n");
  printf("chunks %s ('-' boundary, '_' boundary + receive timeout)\n  observed: %s\n", core::partText(p).c_str(), obsText(o1).c_str());
  checkAbs(m, ri, o1, &al);
  if (haveVs) {
    Obs o2 = core::runStateless(m, q);
    printf("chunks %s\n  observed: %s\n", core::partText(q).c_str(), obsText(o2).c_str());
    checkAbs(m, ri, o2, &al);
    checkPair(m, ri, o1, o2, &al);
  }
  for (auto& a : al) { printf("VIOLATES %s: %s\n", sigOf(m, a).c_str(), a.detail.c_str()); bad = true; }
  printf(bad ? "VIOLATES\n" : "OK\n");
  return bad ? 1 : 0;
}

// C20: run the case in a child, the verdict is its fate
static int replayInfo(std::map<string, string>& c);
static int replaySan(std::map<string, string>& c) {
  fflush(stdout);
  pid_t pid = fork();
  if (pid == 0) {
    int nul = open("/dev/null", O_WRONLY);
    if (nul >= 0) dup2(nul, 2);
    alarm(30);
    int rc = c["k"] == "info" ? replayInfo(c) : replayEnh(c, true);
    fflush(stdout);
    _exit(rc == 0 ? 0 : rc == 1 ? 11 : 12);
  }
  int st = 0;
  waitpid(pid, &st, 0);
  if (WIFEXITED(st) && WEXITSTATUS(st) == 0) return 0;
  if (WIFEXITED(st) && WEXITSTATUS(st) == 11) return 1;
  if (WIFSIGNALED(st)) printf("child terminated by signal %d%s\nVIOLATES\n", WTERMSIG(st), WTERMSIG(st) == SIGALRM ? " (no termination within 30 s)" : "");
  else printf("child exited with status %d (sanitizer report or abort)\nVIOLATES\n", WEXITSTATUS(st));
  return 1;
}

static int replay(const string& cs) {
  auto c = vp::parseCase(cs);
  string k = c["k"];
  string e = ref::selfTest();
  if (!e.empty()) { printf("reference self-test failed: %s\n", e.c_str()); return 2; }
  if (k == "enh") return replayEnh(c, false);
  if (k == "san" || k == "info") return replaySan(c);
  if (k == "ptr" || k == "pdev") {
    vector<uint8_t> ops;
    for (char ch : c["ops"]) ops.push_back(static_cast<uint8_t>(ch <= '9' ? ch - '0' : ch - 'a' + 10));
    plain::Outcome o = plain::runOps(ops, k == "pdev", true);
    printf("%s", o.log.c_str());
    if (!o.rule.empty()) { printf("VIOLATES plain-%s: %s\n", o.rule.c_str(), o.detail.c_str()); return 1; }
    printf("OK\n");
    return 0;
  }
  if (k == "enc") {
    string log;
    string rule = plain::checkEncode(atoi(c["what"].c_str()), static_cast<unsigned>(strtoul(c["v"].c_str(), nullptr, 16)), &log);
    printf("%s%s\n", log.c_str(), rule.empty() ? "OK" : "VIOLATES");
    return rule.empty() ? 0 : 1;
  }
  printf("unknown case kind\n");
  return 2;
}

// ---- C20: info responses of every declared length, complete and truncated ------------------------------------
// request info id, then INFO(len) followed by k data frames (k <= len+2), several chunking styles, then
// the well-formed suffix.  Streams are longer than the exhaustive bound, so they are enumerated structurally.
struct InfoCase { int id, len, fill, k, style; };
static string infoCaseText(const Mode& m, const InfoCase& ic) {
  char cs[128];
  snprintf(cs, sizeof(cs), "k=info;m=%s;id=%d;len=%d;fill=%02x;n=%d;style=%d", modeText(m).c_str(), ic.id, ic.len, ic.fill, ic.k, ic.style);
  return cs;
}
static vector<uint8_t> infoStream(const InfoCase& ic) {
  vector<uint8_t> s;
  uint8_t o[2];
  ref::encodeRequest(3, static_cast<unsigned>(ic.len), o); s.push_back(o[0]); s.push_back(o[1]);
  for (int i = 0; i < ic.k; i++) { ref::encodeRequest(3, ic.fill == 0x3f ? static_cast<unsigned>(i) : static_cast<unsigned>(ic.fill), o); s.push_back(o[0]); s.push_back(o[1]); }
  return s;
}
static Obs runInfoSession(const Mode& m, const InfoCase& ic) {
  vector<uint8_t> s = infoStream(ic);
  Cfg c = core::initialCfg(m);
  core::activate(&c);
  c.impl.d->m_infoLen = 0;  // no request pending
  c.impl.d->requestEnhancedInfo(static_cast<ebusd::symbol_t>(ic.id == 8 ? 0xfe : ic.id), false);
  // chunk styles: one chunk (at most 60 bytes per read) | bytewise | pairs shifted by one | 3-byte chunks
  size_t pos = 0;
  bool first = true;
  while (pos < s.size()) {
    size_t e = ic.style == 0 ? pos + 60 : ic.style == 1 ? pos + 1 : ic.style == 2 ? (first ? pos + 1 : pos + 2) : pos + 3;
    if (e > s.size()) e = s.size();
    first = false;
    env::fdPush(s.data() + pos, static_cast<int>(e - pos));
    pos = e;
    core::runLoop(&c, m.pat);
  }
  core::pushFlush(m);
  core::runLoop(&c, m.pat);
  core::drain(&c);
  core::secondSuffix(&c, m);
  core::deactivate(&c);
  env::fdClear();
  core::g_rec.obs = nullptr;
  Obs ob = c.obs;
  core::dropImpl(&c.impl);
  return ob;
}
static bool infoOk(const Obs& ob) {
  return !ob.closed && !ob.noProgress && !ob.badResult && ob.nsyms >= 3 && ob.nsyms <= 8 && ob.syms[ob.nsyms - 3] == 0x55 && ob.syms[ob.nsyms - 2] == 0xaa &&
         ob.syms[ob.nsyms - 1] == core::FLUSH2;
}
static void infoSessions(const Mode& m, int part, int nparts, bool thorough) {
  static const int lens[] = {0, 1, 2, 3, 5, 8, 9, 15, 16, 17, 18, 31, 63, 64, 127, 128, 200, 255};
  static const int fills[] = {0x00, 0xff, 0x08, 0x3f};
  int unit = 0;
  for (int id = 0; id <= 8; id++) {
    for (int len : lens) {
      for (int fill : fills) {
        if ((unit++ % nparts) != part) continue;
        int maxk = std::min(len + 2, 20);
        for (int k = 0; k <= maxk; k++) {
          for (int style = 0; style < (thorough ? 4 : 3); style++) {
            InfoCase ic{id, len, fill, k, style};
            if (g_progress) {
              g_progress->start = m.start; g_progress->arb = m.arb; g_progress->pat = m.pat; g_progress->n = -1;
              g_progress->id = id; g_progress->len = len; g_progress->fill = fill; g_progress->k = k; g_progress->style = style;
            }
            Obs ob = runInfoSession(m, ic);
            R.evaluations++;
            R.tracesValidated++;
            if (!infoOk(ob)) {
              R.violation(g_pid + "/suffix-not-decoded/enh-info/" + (len > 16 ? "len-beyond-buffer" : "len-within-buffer"),
                          "after an info response the suffix was not decoded: " + obsText(ob), infoCaseText(m, ic));
            }
            if (id == 0 && len == 8 && k == 9 && style == 1 && fill == 0x08 && m.pat == 0) R.sample("info id 0 len 8 complete, bytewise: " + obsText(ob));
            R.distinct(vp::fnv(ob.notes, ob.nnotes * 2, vp::fnv(&len, sizeof(len), 61)));
          }
        }
      }
    }
  }
}
static int replayInfo(std::map<string, string>& c) {
  Mode m{1, 0, 0, true};
  if (!parseMode(c["m"], &m)) { printf("bad case\n"); return 2; }
  m.san = true;
  core::g_reopenOnClose = true;
  InfoCase ic{atoi(c["id"].c_str()), atoi(c["len"].c_str()), static_cast<int>(strtoul(c["fill"].c_str(), nullptr, 16)), atoi(c["n"].c_str()), atoi(c["style"].c_str())};
  vector<uint8_t> s = infoStream(ic);
  printf("mode %s, requestEnhancedInfo(%d), then INFO(len=%d) + %d data frames (fill %02x), chunk style %d, %zu bytes, then 70 | 55 c6 aa | 71\n", modeText(m).c_str(), ic.id,
         ic.len, ic.k, ic.fill, ic.style, s.size());
  Obs ob = runInfoSession(m, ic);
  printf("observed: %s\n", obsText(ob).c_str());
  bool ok = infoOk(ob);
  printf(ok ? "OK\n" : "VIOLATES suffix-not-decoded\n");
  return ok ? 0 : 1;
}

// ---- main -----------------------------------------------------------------------------------------------------
struct Unit { int start, arb, pat, b0, b1, len; int tok = -1, ntok = 0; };  // tok >= 0: frame mode, first item FRAMES[tok]

static void runUnit(const Unit& u, bool san, const vector<uint8_t>& alpha, int /*len*/, int xval) {
  int len = u.len;
  Explorer ex;
  ex.m = Mode{u.start, u.arb, u.pat, san};
  ex.maxLen = len;
  ex.alpha = &alpha;
  ex.fix0 = u.b0;
  ex.fix1 = u.b1;
  ex.xval = xval;
  if (u.tok >= 0) {
    ex.tokens = &FRAMES;
    ex.fixTok = u.tok;
    ex.maxTok = u.ntok;
    ex.maxLen = 2 * u.ntok;
    ex.fix0 = ex.fix1 = -1;
    ex.xval = 0;
  }
  ex.run();
}

int main(int argc, char** argv) {
  vp::Args A = vp::parseArgs(argc, argv);
  setvbuf(stdout, nullptr, _IOLBF, 0);
  if (A.replay) {
    g_pid = A.replayCase.find("k=san") != string::npos || A.replayCase.find("k=info") != string::npos ? "C20" : "C14";
    return replay(A.replayCase);
  }
  R.setDeadline(A);
  string e = ref::selfTest();
  if (!e.empty()) { fprintf(stderr, "reference self-test failed: %s\n", e.c_str()); return 3; }
  g_pid = A.get("prop", "C14");
  bool san = g_pid == "C20";
  core::g_reopenOnClose = san;
  int len = static_cast<int>(A.getInt("len", san ? (A.thorough() ? 5 : 4) : (A.thorough() ? 7 : 5)));
  int xval = static_cast<int>(A.getInt("xval", san ? 0 : 4));
  string sub = A.get("sub", "all");
  const vector<uint8_t>& alpha = san ? ALPHA_WIDE : ALPHA14;
  if (len > 12) len = 12;

  if (!san) {
    if ((sub == "all" || sub == "enc") && A.part == 0) plain::encodeAll(R);
    if (sub == "all" || sub == "ptr") plain::explore(R, false, static_cast<int>(A.getInt("pdepth", 20)),
                                                      static_cast<int>(A.getInt("udepth", A.thorough() ? 6 : 5)), A.part, A.nparts);
    if (sub == "all" || sub == "pdev") plain::explore(R, true, static_cast<int>(A.getInt("pdepth", 20)),
                                                       static_cast<int>(A.getInt("udepth", A.thorough() ? 7 : 6)), A.part, A.nparts);
  }
  if (sub == "all" || sub == "enh") {
    // work units: mode x first two stream bytes
    vector<Unit> units;
    int na = static_cast<int>(alpha.size());
    // --deepmodes S0a1p0:7,S1a1p0:6,S0a0p0 : these mode combinations are explored to the given length
    // (or to --deep when no length is given), all others to --len
    int deep = static_cast<int>(A.getInt("deep", len));
    string deepModes = "," + A.get("deepmodes", "") + ",";
    if (deep > 12) deep = 12;
    auto lenOf = [&](int st, int arb, int pat) {
      size_t p = deepModes.find("," + modeText(Mode{st, arb, pat, false}));
      if (p == string::npos) return len;
      p += 7;
      int l = deep;
      if (deepModes[p] == ':') l = atoi(deepModes.c_str() + p + 1);
      else if (deepModes[p] != ',') return len;
      if (l > 12) l = 12;
      return std::max(l, len);
    };
    // the deep (expensive) units first so that they spread evenly over the partitions
    for (int b0 = 0; b0 < na; b0++) for (int b1 = 0; b1 < na; b1++)
      for (int st = 0; st < core::NSTART; st++) for (int arb = 0; arb < 2; arb++) for (int pat = 0; pat < core::NPAT; pat++)
        units.push_back({st, arb, pat, b0, b1, lenOf(st, arb, pat)});
    std::stable_sort(units.begin(), units.end(), [](const Unit& a, const Unit& b) { return a.len > b.len; });
    if (len < 2) { units.clear(); for (int st = 0; st < core::NSTART; st++) for (int arb = 0; arb < 2; arb++) for (int pat = 0; pat < core::NPAT; pat++) units.push_back({st, arb, pat, -1, -1, len}); }
    if (san) {
      g_progress = static_cast<Progress*>(mmap(nullptr, sizeof(Progress), PROT_READ | PROT_WRITE, MAP_SHARED | MAP_ANONYMOUS, -1, 0));
      g_collectDistinct = true;
    }
    // frame mode units: streams of at most --frames whole items, every mode combination
    int frames = static_cast<int>(A.getInt("frames", san ? 0 : (A.thorough() ? 5 : 4)));
    if (frames > 7) frames = 7;
    if (frames > 0 && !san) {
      vector<Unit> fu;
      for (size_t ti = 0; ti < FRAMES.size(); ti++)
        for (int st = 0; st < core::NSTART; st++) for (int arb = 0; arb < 2; arb++) for (int pat = 0; pat < core::NPAT; pat++) {
          Unit u{st, arb, pat, -1, -1, 2 * frames};
          u.tok = static_cast<int>(ti);
          u.ntok = frames;
          fu.push_back(u);
        }
      units.insert(units.begin(), fu.begin(), fu.end());
    }
    int batch = static_cast<int>(A.getInt("batch", 8));
    vector<Unit> mine;
    for (size_t i = 0; i < units.size(); i++) if (static_cast<int>(i % A.nparts) == A.part || len < 2) mine.push_back(units[i]);
    if (len < 2 && A.part != 0) mine.clear();
    if (!san) {
      for (auto& u : mine) { runUnit(u, false, alpha, len, xval); if (R.expired()) break; }
    } else {
      // forked batches: a crash / sanitizer report / hang of the child is the finding
      for (size_t i = 0; i < mine.size() && !R.expired(); i += batch) {
        fflush(stdout);
        memset(g_progress, 0, sizeof(*g_progress));
        string tmp = A.out + ".child";
        pid_t pid = fork();
        if (pid == 0) {
          int nul = open("/dev/null", O_WRONLY);
          if (nul >= 0) dup2(nul, 2);
          alarm(static_cast<unsigned>(A.getInt("alarm", 600)));
          double dl = R.deadlineAbs;
          R = vp::Result();
          R.deadlineAbs = dl;
          for (size_t j = i; j < i + batch && j < mine.size(); j++) runUnit(mine[j], true, alpha, len, 0);
          if (i == 0) {
            // info responses: info requested, with a running arbitration / 10 s after the reset
            for (int pat = 0; pat < core::NPAT; pat++) {
              infoSessions(Mode{core::S_READY, 1, pat, true}, A.part, A.nparts, A.thorough());
              infoSessions(Mode{core::S_LATE, 0, pat, true}, A.part, A.nparts, A.thorough());
            }
          }
          R.transitions = core::g_calls;
          R.evaluations += g_finalsRun;
          R.tracesValidated += g_finalsRun;
          R.count("streams", g_streams);
          R.count("partitions_represented", g_partsRepresented);
          R.write(tmp);
          _exit(0);
        }
        int st = 0;
        waitpid(pid, &st, 0);
        if (WIFEXITED(st) && WEXITSTATUS(st) == 0) {
          // merge the child's result (the JSON subset written by vp::Result::write)
          FILE* f = fopen(tmp.c_str(), "r");
          if (!f) { fprintf(stderr, "child result missing\n"); return 4; }
          string txt;
          char buf[4096];
          size_t k;
          while ((k = fread(buf, 1, sizeof(buf), f)) > 0) txt.append(buf, k);
          fclose(f);
          unlink(tmp.c_str());
          auto num = [&](const char* key) -> uint64_t {
            size_t p = txt.find(string("\"") + key + "\": ");
            return p == string::npos ? 0 : strtoull(txt.c_str() + p + strlen(key) + 4, nullptr, 10);
          };
          auto str = [&](size_t q) {  // JSON string starting after the opening quote at q
            string v;
            while (q < txt.size() && txt[q] != '"') {
              if (txt[q] == '\\' && q + 1 < txt.size()) {
                q++;
                if (txt[q] == 'n') { v += '\n'; q++; continue; }
                if (txt[q] == 'u') { v += static_cast<char>(strtoul(txt.substr(q + 1, 4).c_str(), nullptr, 16)); q += 5; continue; }
              }
              v += txt[q++];
            }
            return v;
          };
          R.evaluations += num("evaluations");
          R.transitions += num("transitions");
          R.tracesValidated += num("traces_validated");
          R.count("streams_x_modes", num("streams"));
          R.count("partitions_represented", num("partitions_represented"));
          R.count("forked_batches", 1);
          // states / distinct are per child; keep the sums as counters and a floor in the sets
          uint64_t cs = num("states"), cd = num("distinct");
          R.count("states_sum_over_batches", cs);
          for (uint64_t z = 0; z < cs && R.stateSet.size() < cs; z++) R.state(vp::fnv(&z, 8, 71));
          for (uint64_t z = 0; z < cd && R.distinctSet.size() < cd; z++) R.distinct(vp::fnv(&z, 8, 72));
          if (txt.find("\"exhaustive\": false") != string::npos && R.exhaustive) R.cap("deadline reached in a forked batch");
          size_t p = 0;
          while ((p = txt.find("{\"sig\": \"", p)) != string::npos) {
            auto field = [&](const char* name) {
              size_t q = txt.find(string("\"") + name + "\": \"", p);
              return str(q + strlen(name) + 5);
            };
            string sig = field("sig"), det = field("detail"), cas = field("case");
            size_t cq = txt.find("\"count\": ", p);
            uint64_t cnt = strtoull(txt.c_str() + cq + 9, nullptr, 10);
            R.violation(sig, det, cas);
            if (cnt > 1) R.violations[sig].count += cnt - 1;
            p += 8;
          }
          size_t sp = txt.find("\"samples\": [\"");
          if (sp != string::npos && R.samples.size() < 4) R.sample(str(sp + 13));
        } else {
          unlink(tmp.c_str());
          Mode m{g_progress->start, g_progress->arb, g_progress->pat, true};
          string cs;
          if (g_progress->n < 0) {
            cs = infoCaseText(m, InfoCase{g_progress->id, g_progress->len, g_progress->fill, g_progress->k, g_progress->style});
          } else {
            Part p;
            p.s.assign(g_progress->s, g_progress->s + g_progress->n);
            p.cuts = g_progress->cuts; p.gaps = g_progress->gaps; p.trailingGap = g_progress->trailingGap != 0;
            cs = caseOf(m, p);
          }
          bool hang = WIFSIGNALED(st) && WTERMSIG(st) == SIGALRM;
          string what = WIFSIGNALED(st) ? "child terminated by signal " + std::to_string(WTERMSIG(st)) : "child exited with status " + std::to_string(WEXITSTATUS(st));
          R.violation(g_pid + (hang ? "/hang" : "/crash") + "/enhS" + std::to_string(m.start) + "/" + (g_progress->n < 0 ? "info-session" : "stream"),
                      what + " (sanitizer report, signal or alarm) while running " + cs, cs);
        }
      }
      R.write(A.out);
      return 0;
    }
  }
  R.transitions += core::g_calls;
  R.evaluations += g_finalsRun;
  R.tracesValidated += g_finalsRun;
  R.count("enh_streams_x_modes", g_streams);
  R.count("enh_frame_mode_streams_x_modes", g_frameStreams);
  R.count("enh_partitions_represented", g_partsRepresented);
  R.count("enh_executions_run", g_finalsRun);
  R.count("enh_impl_copies", core::g_clones);
  if (g_maxStates) R.count("enh_max_live_states_per_stream_summed_over_parts", g_maxStates);
  if (g_clockBad) R.cap("virtual clock advanced by a second or more inside " + std::to_string(g_clockBad) + " runs (merging assumption void)");
  R.write(A.out);
  return 0;
}
