// The closed bus world for busmc: scenario description, simulated transport, wire / adapter
// model with deviation menus, instrumented requests and listener.  The system under test is the
// real DirectProtocolHandler + PlainDevice/EnhancedDevice; everything here is environment.
#ifndef VERIF_BUSWORLD_H_
#define VERIF_BUSWORLD_H_

#include <deque>
#include <functional>
#include <map>
#include <string>
#include <vector>
#include "busref.h"
#include "explorer.h"
#include "lib/ebus/device_trans.h"
#include "lib/ebus/protocol_direct.h"
#include "lib/ebus/transport.h"
#include "lib/utils/log.h"
#include "vclock.h"
#include "vout.h"

namespace bw {

using namespace ebusd;
using ref::Bytes;

enum { K_DEV = 1, K_CHUNK = 2, K_REQ = 3 };  // budget kinds (faults count as K_DEV unless split)

struct Seg {
  bool await;   // true: wait for n symbol writes of ebusd (echoing them); false: send bytes
  Bytes bytes;
  int n;
};
typedef std::vector<Seg> Script;

inline Seg send(const Bytes& b) { return Seg{false, b, 0}; }
inline Seg await(int n) { return Seg{true, Bytes(), n}; }
// scripted silence inside a script: one receive timeout plus extraMs (the script goes on afterwards, without a SYN)
inline Seg pause(int extraMs) { return Seg{false, Bytes(), extraMs + 1}; }
inline bool isPause(const Seg& s) { return !s.await && s.bytes.empty() && s.n > 0; }

struct ReqSpec {
  Bytes master;        // QQ ZZ PB SB NN D..
  int kind = 0;        // 0 waited (harness owned), 1 self-deleting fire-and-forget, 2 the real PollRequest on a chained message,
                       // 3 the real ScanRequest over the slaves 08 and 15 (master = its first telegram; see extraResponders)
  int restarts = 0;    // notify() asks for a restart this many times
  int resubmits = 0;   // waiter re-submits after an error result this many times (sendAndWait emulation)
  bool late = false;   // not enqueued at start: offered as ENQUEUE alternative at every read
  bool external = false;  // submitted by a client thread of the harness (schedmc), not by the world
  bool failsByScript = false;  // the scripted participant makes the exchange fail even in a fault-free environment
  Script responder;    // behaviour of the addressed participant after ebusd won arbitration
  std::vector<std::pair<uint8_t, Script>> extraResponders;  // further addresses this request talks to after a restart (scan)
};
struct AnswerSpec {
  int src;  // -1 = any (SYN)
  uint8_t dst, pb, sb;
  Bytes id;
  Bytes answer;  // slave: NN D.. ; master: tail bytes placeholder
};
struct Scenario {
  std::string name;
  uint8_t own = 0x31;
  bool readOnly = false, answer = false, genSyn = false, enhanced = false;
  unsigned lockCount = 0, busLostRetries = 2;
  unsigned enhFeatures = 0;
  std::vector<AnswerSpec> answers;
  std::vector<Script> foreign;
  std::vector<ReqSpec> reqs;
  int preSyns = 2, gapSyns = 1, tailSyns = 3;
  int k = 2, c = 1, r = 0;     // deviation / chunk / late-request budgets for this scenario
  int slices = 1;              // the exploration of this scenario is split into this many work units
  bool answerEntitlement = false;  // C03 clause (c): judged by the answer monitor in entitlement-only mode
  bool unbounded = false;      // A-mode: budgets are not a bound (the run length is), so they are not part of the state
  bool drainAtEnd = false;     // C04: force signal loss at the end
  bool faults = false;         // offer read/write error + device invalid alternatives
  bool arbContenders = true;   // offer contender alternatives at the arbitration slot
  bool chunking = true;
  bool insertDrop = true;
  bool longSilence = true;
  int stepCap = 0;             // read calls per execution before the run is cut (0 = default 600)
  bool lateEcho = true;        // offer 'echo arrives after the read timed out' at every echo
  bool staleArb = false;       // enhanced: offer an unsolicited STARTED / FAILED frame for the own address at every read
                               // (the stale answer to an earlier START); only where no write-entitlement monitor runs
  Bytes alphabet = {0x00, 0x01, 0xFF, 0xA9, 0xAA, 0x10, 0xFE, 0x55};
  Bytes contenders = {0x00, 0x01, 0x11, 0x30, 0x21};  // wire value seen at the arbitration slot
  Script winnerTelegram;       // what a winning contender continues with (without its QQ)
  int loseArbitrations = 0;    // scripted: ebusd loses this many arbitrations to scriptedContender
  uint8_t scriptedContender = 0x10;
  int silenceAtRead = 0;       // scripted: two long silences (signal loss) at this read call
  bool freezeAtLastScript = false;  // A-mode: no more deviations once the last foreign script (the probe) has started
};

// ---------------------------------------------------------------------------------------------
struct Event {
  enum K { W, ARB, R, T, ERR, REPORT, NOTIFY, ENQ, STATUS, NOTE } k;
  int a = 0, b = 0;
  std::string s;
};

class Monitor {  // interface implemented by the property monitors
 public:
  virtual ~Monitor() {}
  virtual void onWrite(uint8_t v) {}               // symbol put on the bus by ebusd (plain write / SEND)
  virtual void onArbStart(uint8_t addr) {}         // enhanced: START(addr) (addr == SYN: cancel)
  virtual void onDeliver(uint8_t v, int kind, bool more) {}   // symbol consumed by the device: 0 wire, 1 STARTED, 2 FAILED; more = further bytes already buffered
  virtual void onTimeout(int ms) {}
  virtual void onIoError(bool write) {}
  virtual void onReopen() {}
  virtual void onReport(int dir, const Bytes& m, const Bytes& s) {}
  virtual void onNotify(int req, int result, const Bytes& slave, bool restart) {}
  virtual void onEnqueue(int req) {}
  virtual void onQuiescent(bool buffered) {}       // ebusd asks for input: everything consumed is processed; buffered = more received bytes are waiting
  virtual void onEnd() {}
  virtual void onLivelock() {}                     // the run returned to one of its own states (nothing will ever change)
  virtual void onProbeStart() {}                   // A-mode: the fixed probe telegram starts now
  virtual void fingerprint(std::string* o) const {}
};

class World;

// ---------------------------------------------------------------------------------------------
class SimTransport : public Transport {
 public:
  explicit SimTransport(World* w) : Transport("sim", 10), m_world(w), m_valid(true) {}
  std::string getTransportInfo() const override { return "sim"; }
  result_t open() override;
  void close() override;
  bool isValid() override { return m_valid; }
  result_t write(const uint8_t* data, size_t len) override;
  result_t read(unsigned int timeout, const uint8_t** data, size_t* len) override;
  void readConsumed(size_t len) override;
  result_t openInternal() override { return RESULT_OK; }
  TransportListener* listener() { return m_listener; }

  World* m_world;
  bool m_valid;
  std::vector<uint8_t> m_buf;
  std::vector<int16_t> m_tag;  // per buffered byte: index into World::syms of the symbol completed by it, or -1
};

class TReq : public BusRequest {
 public:
  TReq(World* w, int idx, const MasterSymbolString& m, bool del, int restarts)
      : BusRequest(m, del), m_world(w), m_idx(idx), m_restarts(restarts) { s_live++; }
  ~TReq() override { s_live--; }
  bool notify(result_t result, const SlaveSymbolString& slave) override;
  World* m_world;
  int m_idx, m_restarts;
  static int s_live;
};

class Listener : public ProtocolListener {
 public:
  explicit Listener(World* w) : m_world(w) {}
  void notifyProtocolStatus(ProtocolState state, result_t result) override;
  void notifyProtocolSeenAddress(symbol_t address) override {}
  void notifyProtocolMessage(MessageDirection direction, const MasterSymbolString& master,
                             const SlaveSymbolString& slave) override;
  World* m_world;
};

struct DeliveredSym { uint8_t v; uint8_t kind; };

class World {
 public:
  const Scenario& sc;
  vp::Explorer& ex;
  std::vector<Monitor*> mons;
  DirectProtocolHandler* h = nullptr;
  SimTransport* tr = nullptr;
  Listener listener;
  bool logging = false;   // replay: print the event log
  std::vector<std::string> log;

  // script state
  size_t nextForeign = 0;
  int gapLeft;
  const Script* active = nullptr;
  size_t seg = 0, off = 0;
  int awaitLeft = 0;
  std::deque<uint8_t> echoQ;
  bool arbSlot = false;      // front of echoQ is a plain-device arbitration address
  int enhArmed = -1;         // enhanced: armed arbitration address, -1 none
  bool enhInitPending = false;
  bool lastSyn = false;      // last delivered wire symbol was a SYN
  bool exchange = false;     // a responder script (own exchange) is active
  int tail = 0;              // idle SYNs delivered after all work was done
  int reads = 0, steps = 0;
  bool ended = false;
  bool capHit = false;
  int leaked = 0;
  int drainLeft = 0;
  std::vector<DeliveredSym> syms;
  bool hasPendingSecond = false;
  uint8_t pendingSecond = 0;
  int16_t pendingTag = -1;
  // requests
  std::vector<MasterSymbolString> masters;
  std::vector<BusRequest*> reqObj; // nullptr once destroyed / not created (TReq, or TPoll for kind 2)
  int devCount = 0;                // adverse environment events so far (non-default choices except chunking and late requests, scripted losses/silences)
  bool timeExact = false;          // the exact time since the last received symbol is part of the state (scenarios with scripted pauses)
  void* pollCtx = nullptr;         // kind 2: message map with the chained poll message (BUSMC_WITH_POLL)
  std::vector<int> reqState;       // 0 not submitted, 1 submitted (in flight), 2 completed
  std::vector<int> resubmitsLeft;
  std::vector<int> lastResult;
  std::vector<char> collected;     // waited request was taken out of the finished queue by its waiter
  Script winnerScript;

  World(const Scenario& s, vp::Explorer& e) : sc(s), ex(e), listener(this) { gapLeft = s.preSyns; }

  // ---- life cycle ----
  void run();               // one execution of the real handler loop in this world (setup + h->run() + teardown)
  void setup();
  void teardown();
  int reqIndexOf(BusRequest* r);
  void chooseResponder(uint8_t zz);
  bool pickResponder = false;  // ebusd won an arbitration; the next symbol it writes selects the responder script
  uint8_t wonAddr = 0;
  std::function<void()> readHook;   // schedmc: scheduling point at every transport read
  bool externalBusy = false;        // schedmc: client threads still have work
  int arbLost = 0, silencesDone = 0;
  bool frozen = false;
  void enqueue(int idx);
  void note(const std::string& s) { if (logging) log.push_back(s); }

  // ---- called by the transport ----
  result_t onRead(unsigned int timeout);
  result_t onWrite(const uint8_t* data, size_t len);
  void onConsumed(size_t n);

  // ---- events to monitors ----
  void evWrite(uint8_t v) { if (ended) return; if (logging) lg("W %02x", v); for (auto m : mons) m->onWrite(v); }
  void evArb(uint8_t a) { if (ended) return; if (logging) lg("ARBSTART %02x", a); for (auto m : mons) m->onArbStart(a); }
  void evDeliver(uint8_t v, int k, bool more) { if (ended) return; if (logging) lg(k == 0 ? "R %02x%s" : k == 1 ? "R STARTED %02x%s" : "R FAILED %02x%s", v, more ? " (+)" : ""); for (auto m : mons) m->onDeliver(v, k, more); }
  void evTimeout(int ms) { if (ended) return; if (logging) lg("T %d", ms); for (auto m : mons) m->onTimeout(ms); }
  void evIoError(bool w) { if (ended) return; if (logging) lg(w ? "WRITE-ERROR" : "READ-ERROR"); for (auto m : mons) m->onIoError(w); }
  void evReport(int dir, const Bytes& m, const Bytes& s) { if (ended) return; if (logging) lg("REPORT dir=%d %s / %s", dir, ref::hex(m).c_str(), ref::hex(s).c_str()); for (auto mo : mons) mo->onReport(dir, m, s); }
  void evNotify(int req, int result, const Bytes& s, bool restart) { if (ended) return; if (logging) lg("NOTIFY req=%d result=%d slave=%s%s", req, result, ref::hex(s).c_str(), restart ? " restart" : ""); for (auto m : mons) m->onNotify(req, result, s, restart); }
  void evEnqueue(int r) { if (ended) return; if (logging) lg("ENQUEUE req=%d %s", r, ref::hex(sc.reqs[r].master).c_str()); for (auto m : mons) m->onEnqueue(r); }
  void lg(const char* fmt, ...) __attribute__((format(printf, 2, 3)));

  uint64_t stateHash();

 private:
  enum DK { D_ECHO, D_BYTE, D_SILENCE, D_END, D_PAUSE };
  struct Def { DK k; uint8_t v; };
  Def nextDefault(bool peekOnly);
  void advanceScript();
  void startScript(const Script* s);
  void abortScript();
  void deliverSym(uint8_t v, int kind);
  void deliverRaw(uint8_t b);
  void housekeeping();
  bool allDone();
  void endRun(bool natural = true);
};

}  // namespace bw

#endif  // VERIF_BUSWORLD_H_
