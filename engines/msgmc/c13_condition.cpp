// C13: conditional availability follows the referenced value through any history.
// Breadth-first search over histories {store value vector, advance the virtual clock by 1 s, query}
// of the real MessageMap / Message / Condition objects with canonical state hashing, for every
// configuration of c13_config.h, against RefCondition (available iff the most recently stored value
// satisfies the condition; resolves iff message and field of the required kind exist).
#include <algorithm>
#include <deque>
#include <functional>
#include <sstream>
#include <unordered_map>
#include "lib/ebus/message.h"
#include "lib/utils/log.h"
#include "c13_config.h"

using namespace c13;
using ebusd::Message;
using ebusd::MessageMap;
using ebusd::result_t;
using ebusd::RESULT_OK;

// ---- virtual clock ------------------------------------------------------------------------------
static const time_t T0 = 1700000000;
static time_t g_now = T0;
extern "C" time_t time(time_t* t) {
  if (t) *t = g_now;
  return g_now;
}

static vp::Result R;

// ---- operations ---------------------------------------------------------------------------------
struct Op {
  char k;     // 'S' store, 'T' clock + 1 s, 'Q' query, 'U' a request for the referenced message is built and sent but nobody answers
  int msg;    // S: referenced message
  int vec;    // S: value vector
  string str() const {
    char b[16];
    if (k == 'S') snprintf(b, sizeof(b), "S%d:%d", msg, vec); else if (k == 'U') snprintf(b, sizeof(b), "U%d", msg); else snprintf(b, sizeof(b), "%c", k);
    return b;
  }
};
static string opsStr(const vector<Op>& ops) {
  string s;
  for (size_t i = 0; i < ops.size(); i++) { if (i) s += '.'; s += ops[i].str(); }
  return s;
}
static bool parseOps(const string& s, vector<Op>* out) {
  out->clear();
  size_t pos = 0;
  while (pos < s.size()) {
    size_t e = s.find('.', pos);
    if (e == string::npos) e = s.size();
    string t = s.substr(pos, e - pos);
    pos = e + 1;
    if (t.empty()) continue;
    Op o{t[0], 0, 0};
    if (o.k == 'S') {
      if (t.size() != 4 || t[2] != ':') return false;
      o.msg = t[1] - '0';
      o.vec = t[3] - '0';
      if (o.msg < 0 || o.msg > 3 || o.vec < 0 || o.vec > 9) return false;
    } else if (o.k == 'U') {
      if (t.size() != 2) return false;
      o.msg = t[1] - '0';
      if (o.msg < 0 || o.msg > 3) return false;
    } else if ((o.k != 'T' && o.k != 'Q') || t.size() != 1) {
      return false;
    }
    out->push_back(o);
  }
  return true;
}

// ---- CSV text of a configuration ----------------------------------------------------------------
static string typeOf(char kind) {
  switch (kind) {
    case 'N': return "UCH";
    case 'W': return "UIN";
    case 'S': return "STR:2";
    case 'L': return "ULG";
    case 'i': return "IGN:1";
    case 'j': return "IGN:2";
    default: return "?";
  }
}
static string csvOf(const Config& c) {
  string s = "#\n";
  for (const MsgDef& m : c.msgs) {
    if (m.scan()) continue;
    s += string(m.part == 'u' ? "uw" : "r") + ",c," + m.name + ",,," + (m.noDst ? "" : "08") + "," + m.idHex.substr(0, 4) + "," + m.idHex.substr(4);
    for (const FieldDef& f : m.fields) s += "," + f.name + "," + (m.part == 's' ? "" : "m") + "," + typeOf(f.kind) + ",,,";
    s += "\n";
  }
  std::set<string> defined;
  auto define = [&](const Part& p) {
    if (!defined.insert(p.defName).second) return;
    const string values = p.derived ? p.baseValueText : p.valueText;
    if (p.msg >= 0 && c.msgs[static_cast<size_t>(p.msg)].scan()) s += "*[" + p.defName + "],,,," + p.fieldRef + ",08," + values + "\n";
    else s += "*[" + p.defName + "],c," + (p.msg < 0 ? string("nomsg") : c.msgs[static_cast<size_t>(p.msg)].name) + ",," + p.fieldRef + "," +
              (p.msg >= 0 && c.msgs[static_cast<size_t>(p.msg)].noDst ? "08" : "") + "," + values + "\n";
  };
  for (const Part& p : c.parts) define(p);
  if (c.alt) define(c.altPart);
  for (const Part& p : c.extras) define(p);
  string guard;
  for (const Part& p : c.parts) guard += "[" + p.condName + "]";
  s += guard + "r,c,g,,,08,b509,0d0100,x,,UCH\n";
  if (c.alt) s += "[" + c.altPart.condName + "]r,c,g,,,08,b509,0d0100,x,,UCH\n";
  if (c.family == "and" && c.parts.size() == 2 && !c.alt && c.parts[0].msg >= 0 && c.parts[0].kind != CK_SEEN && !c.parts[0].derived) {
    // a LATER message of the same file whose condition list extends the judged one by a third condition that is never
    // satisfied (a value outside the alphabet of the histories): the judged message keeps its two conditions
    const Part& p = c.parts[0];
    const MsgDef& rm = c.msgs[static_cast<size_t>(p.msg)];
    s += "*[kz],c," + rm.name + ",," + p.fieldRef + "," + (rm.noDst ? "08" : "") + "," + (p.kind == CK_STR ? "'zz'" : "250") + "\n";
    s += guard + "[kz]r,c,gz,,,08,b509,0d0102,x,,UCH\n";
  }
  return s;
}

// the data bytes of all fields (without length byte)
static string dataHex(const MsgDef& m, const ValueVector& vv) {
  string data;
  char b[16];
  for (size_t i = 0; i < m.fields.size(); i++) {
    switch (m.fields[i].kind) {
      case 'N': snprintf(b, sizeof(b), "%02x", vv[i].num & 0xff); data += b; break;
      case 'W': snprintf(b, sizeof(b), "%02x%02x", vv[i].num & 0xff, (vv[i].num >> 8) & 0xff); data += b; break;
      case 'L': snprintf(b, sizeof(b), "%02x%02x%02x%02x", vv[i].num & 0xff, (vv[i].num >> 8) & 0xff, (vv[i].num >> 16) & 0xff, (vv[i].num >> 24) & 0xff); data += b; break;
      case 'i': snprintf(b, sizeof(b), "%02x", vv[i].num & 0xff); data += b; break;        // filler byte differs from the
      case 'j': snprintf(b, sizeof(b), "%02x00", vv[i].num & 0xff); data += b; break;      // neighbouring field values
      case 'P': snprintf(b, sizeof(b), "%02x%02x", ((vv[i].num / 1000 % 10) << 4) | (vv[i].num / 100 % 10), ((vv[i].num / 10 % 10) << 4) | (vv[i].num % 10)); data += b; break;
      default: for (char ch : vv[i].str) { snprintf(b, sizeof(b), "%02x", static_cast<unsigned char>(ch)); data += b; } break;
    }
  }
  return data;
}
static string slaveHex(const MsgDef& m, const ValueVector& vv) {
  if (m.part != 's') return "00";
  string data = dataHex(m, vv);
  char b[8];
  snprintf(b, sizeof(b), "%02x", static_cast<unsigned>(data.size() / 2));
  return b + data;
}
static string masterHex(const MsgDef& m, const ValueVector& vv) {
  if (m.scan()) return "ff08070400";
  string data = m.part == 's' ? string() : dataHex(m, vv);
  char b[8];
  snprintf(b, sizeof(b), "%02x", static_cast<unsigned>(m.idHex.size() / 2 - 2 + data.size() / 2));
  return string(m.part == 'u' ? "1008" : "ff08") + m.idHex.substr(0, 4) + b + m.idHex.substr(4) + data;
}
static string vecStr(const MsgDef& m, const ValueVector& vv) {
  string s;
  char b[24];
  for (size_t i = 0; i < m.fields.size(); i++) {
    if (i) s += ";";
    if (m.fields[i].ignored()) { snprintf(b, sizeof(b), "filler(%02x%s)", vv[i].num, m.fields[i].kind == 'j' ? "00" : ""); s += b; }
    else if (m.fields[i].numeric()) { snprintf(b, sizeof(b), "%u", vv[i].num); s += m.fields[i].name + "=" + b; }
    else s += m.fields[i].name + "=" + vv[i].str;
  }
  return s;
}

// ---- the real objects -----------------------------------------------------------------------------
class NullResolver : public ebusd::Resolver {
 public:
  ebusd::DataFieldTemplates* getTemplates(const string&) override { return &m_templates; }
  result_t loadDefinitionsFromConfigPath(ebusd::FileReader*, const string&, std::map<string, string>*, string*, bool = false) override {
    return ebusd::RESULT_ERR_NOTFOUND;
  }
 private:
  ebusd::DataFieldTemplates m_templates;
};
static NullResolver g_resolver;

struct World {
  MessageMap* mm = nullptr;
  vector<Message*> ref;
  Message* g = nullptr;
  Message* gAlt = nullptr;
  result_t loadResult = RESULT_OK, resolveResult = RESULT_OK;
  string loadError, resolveError;
  ~World() { delete mm; }

  void build(const Config& c) {
    g_now = T0;
    mm = new MessageMap(false, "", false);
    mm->setResolver(&g_resolver);
    std::istringstream in(csvOf(c));
    loadResult = mm->readFromStream(&in, "cond.csv", 0, false, nullptr, &loadError, false, nullptr, nullptr);
    if (loadResult != RESULT_OK) return;
    resolveResult = mm->resolveConditions(false, &resolveError);
    std::deque<Message*> gs;
    mm->findAll("c", "g", "*", true, true, false, false, true, false, 0, 0, false, &gs);
    if (!gs.empty()) g = gs[0];
    if (gs.size() > 1) gAlt = gs[1];
    for (size_t i = 0; i < c.msgs.size(); i++) {
      const MsgDef& m = c.msgs[i];
      if (m.scan()) { ref.push_back(mm->getScanMessage(0x08)); continue; }
      // the message that receives a telegram of this kind, found the way BusHandler finds it
      ebusd::MasterSymbolString master;
      master.parseHex(masterHex(m, c.values[i][0]));
      Message* r = locate(master);
      if (!r) r = m.part == 'u' ? mm->find("c", m.name, "", false, true) : mm->find("c", m.name, "", false);
      ref.push_back(r);
    }
  }
  // BusHandler::notifyProtocolMessage: find(command), then with any destination
  Message* locate(const ebusd::MasterSymbolString& master) {
    Message* r = mm->find(master);
    if (!r) r = mm->find(master, true);
    return r;
  }
  bool store(const Config& c, int msg, int vec) {
    const MsgDef& m = c.msgs[static_cast<size_t>(msg)];
    ebusd::MasterSymbolString master;
    ebusd::SlaveSymbolString slave;
    if (master.parseHex(masterHex(m, c.values[static_cast<size_t>(msg)][static_cast<size_t>(vec)])) != RESULT_OK) return false;
    if (slave.parseHex(slaveHex(m, c.values[static_cast<size_t>(msg)][static_cast<size_t>(vec)])) != RESULT_OK) return false;
    // also the identification answer of 08 is located by its telegram, as BusHandler does for every identification
    // after the first one (the first goes to getScanMessage(08), the same object in a correct implementation)
    Message* r = locate(master);
    if (!r && m.scan()) r = ref[static_cast<size_t>(msg)];
    if (!r) return false;
    return r->storeLastData(master, slave) == RESULT_OK;
  }
  struct Obs { bool avail, availAlt; int byName, byKey; };  // by*: 0 none, 1 g, 2 gAlt, 3 something else
  Obs query() {
    Obs o{};
    o.avail = g->isAvailable();
    o.availAlt = gAlt ? gAlt->isAvailable() : false;
    auto cls = [&](Message* m) { return m == nullptr ? 0 : m == g ? 1 : m == gAlt ? 2 : 3; };
    o.byName = cls(mm->find("c", "g", "", false));
    ebusd::MasterSymbolString master;
    master.parseHex("ff08b509030d0100");
    o.byKey = cls(mm->find(master));
    return o;
  }
  // canonical state: last stored data and change-time relation per referenced message, cached verdict
  // and check-time relation per condition object
  string canon() const {
    string s;
    char b[64];
    for (Message* r : ref) {
      if (!r) { s += "?|"; continue; }
      s += r->m_lastMasterData.getStr(2, 0, false) + "/" + r->m_lastSlaveData.getStr(0, 0, false);
      time_t lc = r->getLastChangeTime();
      s += lc == 0 ? "/never|" : (g_now - lc == 0 ? "/0|" : "/1+|");
    }
    for (const auto& it : mm->m_conditions) {
      ebusd::SimpleCondition* sc = dynamic_cast<ebusd::SimpleCondition*>(it.second);
      if (!sc) continue;
      time_t lc = sc->m_message ? sc->m_message->getLastChangeTime() : 0;
      snprintf(b, sizeof(b), "%d%c%c|", sc->m_isTrue ? 1 : 0, lc > sc->m_lastCheckTime ? '>' : lc == sc->m_lastCheckTime ? '=' : '<',
               sc->m_lastCheckTime == 0 ? 'z' : 'c');
      s += b;
    }
    return s;
  }
};

// ---- reference state along a history ---------------------------------------------------------------
struct RefState {
  vector<int> last;         // per referenced message: index of the most recently stored vector, -1 never
  vector<time_t> changeSec; // second of the most recent value change
  vector<int> changesInSec; // number of value changes in that second
  time_t now = T0;
  explicit RefState(size_t n) : last(n, -1), changeSec(n, 0), changesInSec(n, 0) {}
  void apply(const Op& o) {
    if (o.k == 'T') { now++; return; }
    if (o.k != 'S') return;
    size_t m = static_cast<size_t>(o.msg);
    if (last[m] != o.vec) {
      if (changeSec[m] == now) changesInSec[m]++; else { changeSec[m] = now; changesInSec[m] = 1; }
    }
    last[m] = o.vec;
  }
  string str() const {
    string s;
    char b[16];
    for (int l : last) { snprintf(b, sizeof(b), "%d,", l); s += b; }
    return s;
  }
};

struct Expect { bool avail, availAlt; int find; };  // find: 0 none, 1 g, 2 gAlt
static Expect expectAt(const Config& c, const vector<int>& targets, int altTarget, const RefState& rs) {
  Expect e{true, false, 0};
  for (size_t i = 0; i < c.parts.size(); i++) {
    const Part& p = c.parts[i];
    int l = rs.last[static_cast<size_t>(p.msg)];
    const ValueVector* vv = l < 0 ? nullptr : &c.values[static_cast<size_t>(p.msg)][static_cast<size_t>(l)];
    if (!refPartTrue(p, targets[i], vv)) e.avail = false;
  }
  if (c.alt) {
    int l = rs.last[static_cast<size_t>(c.altPart.msg)];
    const ValueVector* vv = l < 0 ? nullptr : &c.values[static_cast<size_t>(c.altPart.msg)][static_cast<size_t>(l)];
    e.availAlt = refPartTrue(c.altPart, altTarget, vv);
  }
  e.find = e.avail ? 1 : e.availAlt ? 2 : 0;
  return e;
}

static string sigOf(const Config& c, const string& rule, const Part& p, const string& timing) {
  string s = "C13/" + rule + "/" + condClass(c) + "/" + fieldClass(c, p);
  if (!timing.empty()) s += "/" + timing;
  return s;
}

// ---- one configuration ----------------------------------------------------------------------------
struct Judged {
  bool ok = true;          // no violation
  bool explorable = false; // resolved as expected: histories make sense
  vector<int> targets;
  int altTarget = -1;
};

// checks load + resolve against the reference; log != nullptr: replay log
static Judged judgeResolve(const Config& c, const World& w, string caseStr, string* log) {
  Judged j;
  bool expectAll = true;
  const Part* firstBad = nullptr;
  for (const Part& p : c.parts) {
    int t = -1;
    int r = refResolvable(c, p, &t);
    j.targets.push_back(t);
    if (r < 0) { fprintf(stderr, "c13: configuration %s is not fixed by the statement\n", c.desc.c_str()); exit(3); }
    if (r == 0) { expectAll = false; if (!firstBad) firstBad = &p; }
  }
  if (c.alt) {
    int r = refResolvable(c, c.altPart, &j.altTarget);
    if (r <= 0) { fprintf(stderr, "c13: bad alt configuration %s\n", c.desc.c_str()); exit(3); }
  }
  bool guardOk = expectAll;  // every condition that guards a message is resolvable
  for (const Part& p : c.extras) {
    int t = -1;
    int r = refResolvable(c, p, &t);
    if (r < 0) { fprintf(stderr, "c13: configuration %s is not fixed by the statement\n", c.desc.c_str()); exit(3); }
    if (r == 0) { expectAll = false; if (!firstBad) firstBad = &p; }
  }
  const Part& blame = firstBad ? *firstBad : c.parts[0];
  char b[160];
  if (log) {
    *log += "definitions:\n" + csvOf(c);
    snprintf(b, sizeof(b), "load: %s %s\n", ebusd::getResultCode(w.loadResult), w.loadError.c_str());
    *log += b;
  }
  if (w.loadResult != RESULT_OK) {
    j.ok = false;
    R.violation(sigOf(c, "load-rejected", blame, ""), "definitions rejected at load time (" + string(ebusd::getResultCode(w.loadResult)) + " " + w.loadError + "): " + c.desc, caseStr);
    return j;
  }
  bool implOk = w.resolveResult == RESULT_OK;
  if (log) {
    snprintf(b, sizeof(b), "resolveConditions: expected %s, observed %s %s\n", expectAll ? "success" : "failure", ebusd::getResultCode(w.resolveResult), w.resolveError.c_str());
    *log += b;
  }
  if (implOk != expectAll) {
    j.ok = false;
    R.violation(sigOf(c, expectAll ? "resolve-rejected" : "resolve-accepted", blame, "") + (c.extras.empty() ? "" : "-mixed"),
                string("resolveConditions ") + (implOk ? "succeeded" : "failed (" + w.resolveError + ")") + " but the referenced message/field " +
                (expectAll ? "exists with the required kind" : "does not exist with the required kind") + ": " + c.desc, caseStr);
    return j;
  }
  // a condition that guards nothing and does not resolve must make resolveConditions fail, but the resolvable ones
  // still guard their messages
  j.explorable = guardOk && w.g != nullptr;
  for (Message* r : w.ref) if (guardOk && r == nullptr) j.explorable = false;
  if (guardOk && !j.explorable) { fprintf(stderr, "c13: objects of %s not found after load\n", c.desc.c_str()); exit(3); }
  return j;
}

// applies ops to a fresh world; returns false on harness error
struct Step {
  string canon; World::Obs obs; Expect exp; bool isQuery = false; bool mismatchAvail = false, mismatchFind = false;
  bool mismatchChange = false;  // rule change-time: the referenced message's change time is the time of its last value change
  string changeDetail;
};
static bool runHistory(const Config& c, const Judged& j, World* w, const vector<Op>& ops, RefState* rs, Step* lastStep, string* log) {
  char b[256];
  for (size_t i = 0; i < ops.size(); i++) {
    const Op& o = ops[i];
    Step st;
    if (o.k == 'S') {
      if (static_cast<size_t>(o.msg) >= c.msgs.size() || static_cast<size_t>(o.vec) >= c.values[static_cast<size_t>(o.msg)].size()) return false;
      Message* watched = w->ref[static_cast<size_t>(o.msg)];
      time_t changeBefore = watched->getLastChangeTime();
      bool valueChanges = rs->last[static_cast<size_t>(o.msg)] != o.vec;
      if (!w->store(c, o.msg, o.vec)) return false;
      time_t changeAfter = watched->getLastChangeTime();
      time_t expectChange = valueChanges ? g_now : changeBefore;
      if (changeAfter != expectChange) {
        st.mismatchChange = true;
        snprintf(b, sizeof(b), "getLastChangeTime() of the referenced message is %s%ld after storing %s value at t=+%lds, expected %s%ld",
                 changeAfter == 0 ? "" : "t=+", changeAfter == 0 ? 0L : static_cast<long>(changeAfter - T0), valueChanges ? "a different" : "the same",
                 static_cast<long>(g_now - T0), expectChange == 0 ? "" : "t=+", expectChange == 0 ? 0L : static_cast<long>(expectChange - T0));
        st.changeDetail = b;
      }
      if (log) {
        const MsgDef& m = c.msgs[static_cast<size_t>(o.msg)];
        snprintf(b, sizeof(b), "%-5s t=+%lds store %s: %s (master %s slave %s)\n", o.str().c_str(), static_cast<long>(g_now - T0), m.scan() ? "scan.08" : m.name.c_str(),
                 vecStr(m, c.values[static_cast<size_t>(o.msg)][static_cast<size_t>(o.vec)]).c_str(),
                 masterHex(m, c.values[static_cast<size_t>(o.msg)][static_cast<size_t>(o.vec)]).c_str(),
                 slaveHex(m, c.values[static_cast<size_t>(o.msg)][static_cast<size_t>(o.vec)]).c_str());
        *log += b;
        if (st.mismatchChange) *log += "      " + st.changeDetail + "   <-- MISMATCH\n";
      }
    } else if (o.k == 'U') {
      if (static_cast<size_t>(o.msg) >= c.msgs.size()) return false;
      Message* watched = w->ref[static_cast<size_t>(o.msg)];
      ebusd::MasterSymbolString ms;
      std::istringstream noInput("");
      ebusd::result_t pr = watched ? watched->prepareMaster(0, 0x31, ebusd::SYN, ';', &noInput, &ms) : ebusd::RESULT_ERR_NOTFOUND;
      if (log) { snprintf(b, sizeof(b), "%-5s t=+%lds request for %s built (%s %s), no answer arrives\n", o.str().c_str(), static_cast<long>(g_now - T0), c.msgs[static_cast<size_t>(o.msg)].name.c_str(), ebusd::getResultCode(pr), ms.getStr().c_str()); *log += b; }
    } else if (o.k == 'T') {
      g_now++;
      if (log) { snprintf(b, sizeof(b), "T     clock advances to t=+%lds\n", static_cast<long>(g_now - T0)); *log += b; }
    }
    rs->apply(o);
    if (o.k == 'Q') {
      st.isQuery = true;
      st.obs = w->query();
      st.exp = expectAt(c, j.targets, j.altTarget, *rs);
      st.mismatchAvail = st.obs.avail != st.exp.avail || (c.alt && st.obs.availAlt != st.exp.availAlt);
      st.mismatchFind = st.obs.byName != st.exp.find || st.obs.byKey != st.exp.find;
      if (log) {
        static const char* names[4] = {"none", "g", "g(alt)", "other"};
        snprintf(b, sizeof(b), "Q     t=+%lds expected available=%d find=%s | observed isAvailable=%d find(name)=%s find(telegram)=%s%s\n", static_cast<long>(g_now - T0),
                 st.exp.avail, names[st.exp.find], st.obs.avail, names[st.obs.byName], names[st.obs.byKey], (st.mismatchAvail || st.mismatchFind) ? "   <-- MISMATCH" : "");
        *log += b;
        if (c.alt) { snprintf(b, sizeof(b), "      alternative: expected available=%d observed=%d\n", st.exp.availAlt, st.obs.availAlt); *log += b; }
      }
    }
    st.canon = w->canon() + "#" + rs->str();
    if (i + 1 == ops.size() && lastStep) *lastStep = st;
  }
  return true;
}

// Timing class of a mismatch, decided by a differential run: the same history with the clock advanced
// before every store (every change in a second of its own).  The statement does not depend on time, so
// the expected verdicts are the same.  If the last query of that spread history agrees with the
// reference, the mismatch needs two changes within one second ("same-second"), otherwise "any-timing".
static string timingClass(const Config& c, const Judged& j, const vector<Op>& h) {
  vector<Op> spread;
  for (const Op& o : h) {
    if (o.k == 'S') spread.push_back({'T', 0, 0});
    spread.push_back(o);
  }
  World w;
  w.build(c);
  RefState rs(c.msgs.size());
  Step st;
  if (!runHistory(c, j, &w, spread, &rs, &st, nullptr)) { fprintf(stderr, "c13: cannot replay spread history\n"); exit(3); }
  R.transitions += spread.size();
  return (st.isQuery && (st.mismatchAvail || st.mismatchFind)) ? "any-timing" : "same-second";
}

static uint64_t g_states = 0;
static uint64_t totalViolations() {
  uint64_t n = 0;
  for (auto& kv : R.violations) n += kv.second.count;
  return n;
}

static void explore(const Config& c, int depth, bool crossCheck) {
  string base = c.desc;
  const uint64_t violationsBefore = totalViolations();
  Judged j;
  {
    World w;
    w.build(c);
    R.evaluations++;
    R.transitions++;
    j = judgeResolve(c, w, base + ";ops=", nullptr);
    R.tracesValidated++;
  }
  if (!j.explorable) { R.count(j.ok ? "configurations_not_resolvable_as_expected" : "configurations_with_resolution_violation"); return; }
  R.count("configurations_explored");
  vector<Op> alphabet;
  for (size_t m = 0; m < c.msgs.size(); m++) for (size_t v = 0; v < c.values[m].size(); v++) alphabet.push_back({'S', static_cast<int>(m), static_cast<int>(v)});
  // an unanswered poll / read of a referenced active read message whose request carries no data (nothing was received:
  // the reference state does not change, in particular a condition without values has still not "seen" the message)
  for (size_t m = 0; m < c.msgs.size(); m++) if (!c.msgs[m].scan() && c.msgs[m].part == 's' && !c.msgs[m].noDst) alphabet.push_back({'U', static_cast<int>(m), 0});
  alphabet.push_back({'T', 0, 0});
  alphabet.push_back({'Q', 0, 0});
  struct Node { vector<Op> h; string canon; };
  // canonical state -> for every operation: (successor canonical state + observation)
  std::unordered_map<string, vector<string> > visited;
  vector<Node> frontier, next;
  string initialCanon;
  {
    World w;
    w.build(c);
    RefState rs(c.msgs.size());
    Node n;
    n.canon = initialCanon = w.canon() + "#" + rs.str();
    visited[n.canon];
    frontier.push_back(n);
    g_states++;
    R.state(c.desc + "#" + n.canon);
  }
  size_t stateCount = 1;
  for (int d = 0; d < depth && !frontier.empty(); d++) {
    next.clear();
    for (const Node& node : frontier) {
      if (R.expired()) return;
      vector<string>& succ = visited[node.canon];
      succ.resize(alphabet.size());
      for (size_t a = 0; a < alphabet.size(); a++) {
        vector<Op> h = node.h;
        h.push_back(alphabet[a]);
        World w;
        w.build(c);
        RefState rs(c.msgs.size());
        Step st;
        // replay the known history, assert the canonical state, then take the new step
        vector<Op> prefix(node.h);
        Step pre;
        if (!runHistory(c, j, &w, prefix, &rs, &pre, nullptr)) { fprintf(stderr, "c13: cannot replay %s ops=%s\n", c.desc.c_str(), opsStr(prefix).c_str()); exit(3); }
        string before = w.canon() + "#" + rs.str();
        if (before != node.canon) { fprintf(stderr, "c13: canonical state not reproduced on replay of %s ops=%s\n", c.desc.c_str(), opsStr(prefix).c_str()); exit(3); }
        vector<Op> one(1, alphabet[a]);
        if (!runHistory(c, j, &w, one, &rs, &st, nullptr)) { fprintf(stderr, "c13: cannot apply %s\n", alphabet[a].str().c_str()); exit(3); }
        R.evaluations++;
        R.transitions += h.size();
        if (st.mismatchChange) {
          R.tracesValidated++;
          R.violation(sigOf(c, "change-time-mismatch", c.parts[0], ""), st.changeDetail + " after " + opsStr(h) + ": " + c.desc, base + ";ops=" + opsStr(h));
        }
        if (st.isQuery) {
          R.tracesValidated++;
          string cs = base + ";ops=" + opsStr(h);
          char b[200];
          string tc = (st.mismatchAvail || st.mismatchFind) ? timingClass(c, j, h) : string();
          if (st.mismatchAvail) {
            snprintf(b, sizeof(b), "isAvailable()=%d but the most recently stored value makes the guard %s", st.obs.avail, st.exp.avail ? "true" : "false");
            R.violation(sigOf(c, "avail-mismatch", c.parts[0], tc), string(b) + " after " + opsStr(h) + ": " + c.desc, cs);
          } else if (st.mismatchFind) {
            snprintf(b, sizeof(b), "find(name)=%d find(telegram)=%d expected %d (0 none,1 g,2 alternative)", st.obs.byName, st.obs.byKey, st.exp.find);
            R.violation(sigOf(c, "find-mismatch", c.parts[0], tc), string(b) + " after " + opsStr(h) + ": " + c.desc, cs);
          }
        }
        char ob[32];
        snprintf(ob, sizeof(ob), "|%d%d%d%d", st.isQuery ? st.obs.avail : 9, st.isQuery ? st.obs.availAlt : 9, st.isQuery ? st.obs.byName : 9, st.isQuery ? st.obs.byKey : 9);
        succ[a] = st.canon + ob;
        if (visited.find(st.canon) != visited.end()) { R.count("revisits"); continue; }
        visited[st.canon];
        stateCount++;
        g_states++;
        R.state(c.desc + "#" + st.canon);
        R.distinct(c.desc + "#" + st.canon);
        if (R.samples.size() < 4 && d == 3) R.sample(c.desc + " ops=" + opsStr(h) + " -> state " + st.canon);
        Node n;
        n.h = h;
        n.canon = st.canon;
        next.push_back(n);
      }
    }
    frontier.swap(next);
    if (frontier.empty()) {
      R.count("configurations_closed_to_fixpoint");
      char b[48];
      snprintf(b, sizeof(b), "fixpoint_at_depth_%d", d + 1);
      R.count(b);
    }
  }
  // Cross-check of the canonical abstraction (quick bound of the design): enumerate ALL histories up to
  // depth 4 without pruning and require that every step agrees with the successor table built by the
  // hashed search (same successor state and same observation from the same canonical state).
  if (crossCheck) {
    int cd = std::min(depth, 4);
    vector<Op> h;
    bool abandon = false;
    std::function<void(const string&, int)> rec = [&](const string& canonHere, int left) {
      if (left == 0 || abandon) return;
      auto it = visited.find(canonHere);
      if (it == visited.end() || it->second.empty()) return;  // state at the search horizon: no table
      for (size_t a = 0; a < alphabet.size(); a++) {
        h.push_back(alphabet[a]);
        World w;
        w.build(c);
        RefState rs(c.msgs.size());
        Step st;
        if (!runHistory(c, j, &w, h, &rs, &st, nullptr)) { fprintf(stderr, "c13: cross-check replay failed\n"); exit(3); }
        char ob[32];
        snprintf(ob, sizeof(ob), "|%d%d%d%d", st.isQuery ? st.obs.avail : 9, st.isQuery ? st.obs.availAlt : 9, st.isQuery ? st.obs.byName : 9, st.isQuery ? st.obs.byKey : 9);
        if (it->second[a] != st.canon + ob) {
          if (totalViolations() > violationsBefore) {
            // the monitor already reported violations for this configuration: behaviour beyond the canonical state is a
            // consequence of the defect; the self-test of the abstraction only fires when no rule did
            R.count("crosscheck_differences_after_violations");
            h.pop_back();
            abandon = true;
            return;
          }
          fprintf(stderr, "c13: canonical state abstraction unsound for %s ops=%s: %s vs %s\n", c.desc.c_str(), opsStr(h).c_str(), it->second[a].c_str(), (st.canon + ob).c_str());
          exit(3);
        }
        R.count("stateless_histories_cross_checked");
        R.transitions += h.size();
        rec(st.canon, left - 1);
        if (abandon) return;
        h.pop_back();
      }
    };
    rec(initialCanon, cd);
  }
}

// ---- self-test of the reference tables ---------------------------------------------------------------
// independent evaluation of the documented value-list syntax (";" separated: n, a-b, <n, >n, <=n, >=n)
static bool docEval(const string& text, unsigned v) {
  size_t pos = 0;
  while (pos <= text.size()) {
    size_t e = text.find(';', pos);
    if (e == string::npos) e = text.size();
    string t = text.substr(pos, e - pos);
    pos = e + 1;
    if (t.empty()) continue;
    if (t[0] == '<' || t[0] == '>') {
      bool incl = t.size() > 1 && t[1] == '=';
      unsigned n = static_cast<unsigned>(strtoul(t.c_str() + (incl ? 2 : 1), nullptr, 10));
      if (t[0] == '<' ? (incl ? v <= n : v < n) : (incl ? v >= n : v > n)) return true;
    } else {
      size_t dash = t.find('-');
      if (dash != string::npos) {
        unsigned a = static_cast<unsigned>(strtoul(t.substr(0, dash).c_str(), nullptr, 10)), b = static_cast<unsigned>(strtoul(t.c_str() + dash + 1, nullptr, 10));
        if (a <= v && v <= b) return true;
      } else if (v == static_cast<unsigned>(strtoul(t.c_str(), nullptr, 10))) {
        return true;
      }
    }
  }
  return false;
}
static bool selfTest(string* why) {
  for (const Shape& s : shapes()) {
    if (s.kind != CK_NUM) continue;
    for (unsigned v = 0; v <= 6; v++) {
      bool inTable = std::find(s.nums.begin(), s.nums.end(), v) != s.nums.end();
      bool inAlphabet = v >= 1 && v <= 4;
      if (inAlphabet && docEval(s.text, v) != inTable) { *why = string("shape table ") + s.name + " disagrees with its text"; return false; }
    }
  }
  for (const Shape& s : bigShapes()) {
    for (unsigned v : {0u, 2u, 3u, 65534u, 65535u, 65536u, 65537u, 4294967293u, 4294967294u}) {
      bool inAlphabet = v == BIGS[0] || v == BIGS[1] || v == BIGS[2] || v == BIGS[3];
      bool inTable = std::find(s.nums.begin(), s.nums.end(), v) != s.nums.end();
      if (inAlphabet && docEval(s.text, v) != inTable) { *why = string("shape table ") + s.name + " disagrees with its text"; return false; }
    }
  }
  // hand traces for resolution
  struct { const char* desc; int expect; } rt[] = {
    {"fam=simple;lay=N;shape=list;ref=n0", 1}, {"fam=simple;lay=N;shape=list;ref=u", 1}, {"fam=simple;lay=N;shape=list;ref=x", 0},
    {"fam=simple;lay=NN;shape=list;ref=u", 1}, {"fam=simple;lay=NS;shape=list;ref=n1", 0}, {"fam=simple;lay=SN;shape=string;ref=n0", 1},
    {"fam=simple;lay=SN;shape=string;ref=n1", 0}, {"fam=simple;lay=N;shape=seen;ref=nomsg", 0}, {"fam=simple;lay=SN;shape=seen;ref=u", 1},
    {"fam=scan;shape=ge;ref=n2", 1}, {"fam=scan;shape=ge;ref=n1", 0}, {"fam=scan;shape=string;ref=n1", 1},
  };
  for (auto& t : rt) {
    Config c = makeConfig(t.desc);
    int tf;
    if (!c.valid || refResolvable(c, c.parts[0], &tf) != t.expect) { *why = string("resolution hand trace failed: ") + t.desc; return false; }
  }
  // hand traces for availability: "<3" on field f1 of layout SN
  Config c = makeConfig("fam=simple;lay=SN;shape=lt;ref=n1");
  int tf = -1;
  refResolvable(c, c.parts[0], &tf);
  if (tf != 1) { *why = "target field"; return false; }
  ValueVector v(2);
  v[0].str = "ab";
  v[1].num = 2;
  if (!refPartTrue(c.parts[0], tf, &v)) { *why = "2 < 3 must satisfy"; return false; }
  v[1].num = 3;
  if (refPartTrue(c.parts[0], tf, &v)) { *why = "3 < 3 must not satisfy"; return false; }
  if (refPartTrue(c.parts[0], tf, nullptr)) { *why = "never stored must not satisfy"; return false; }
  // the rotated decoys must make a wrong field visible for every numeric shape
  for (const Shape& s : shapes()) {
    if (s.kind != CK_NUM) continue;
    Config c2 = makeConfig(string("fam=simple;lay=NN;shape=") + s.name + ";ref=n0");
    bool differs = false;
    for (const ValueVector& vv : c2.values[0]) if (c2.parts[0].numTrue.count(vv[0].num) != c2.parts[0].numTrue.count(vv[1].num)) differs = true;
    if (!differs) { *why = string("decoy does not distinguish for shape ") + s.name; return false; }
  }
  // filler bytes: reading the judged field from the offset of the filler in front of it (or skipping a filler of a
  // different length) must change the verdict for at least one stored vector, for every numeric shape
  for (const Shape& s : shapes()) {
    if (s.kind != CK_NUM) continue;
    for (const char* d : {"lay=iN;ref=n1", "lay=jN;ref=n1", "lay=NiN;ref=n2", "lay=jW;ref=n1", "lay=NjW;ref=n2"}) {
      Config c2 = makeConfig(string("fam=simple;shape=") + s.name + ";" + d);
      int t2 = -1;
      if (!c2.valid || refResolvable(c2, c2.parts[0], &t2) != 1) { *why = string("filler layout not resolvable: ") + d; return false; }
      bool differs = false;
      for (const ValueVector& vv : c2.values[0]) {
        unsigned filler = vv[static_cast<size_t>(t2) - 1].num, value = vv[static_cast<size_t>(t2)].num;
        if (filler == value) { *why = "filler byte equals the field value"; return false; }
        if (c2.parts[0].numTrue.count(filler) != c2.parts[0].numTrue.count(value)) differs = true;
      }
      if (!differs) { *why = string("filler does not distinguish for shape ") + s.name + " " + d; return false; }
    }
  }
  {  // unnamed with a leading filler: the first field that is not ignored
    Config c3 = makeConfig("fam=simple;lay=jNS;shape=ge;ref=u");
    int t3 = -1;
    if (!c3.valid || refResolvable(c3, c3.parts[0], &t3) != 1 || t3 != 1) { *why = "unnamed behind a leading filler"; return false; }
    Config c4 = makeConfig("fam=simple;lay=iS;shape=ge;ref=u");
    if (!c4.valid || refResolvable(c4, c4.parts[0], &t3) != -1) { *why = "unnamed numeric on a message without any numeric field stays open"; return false; }
    Config c5 = makeConfig("fam=simple;lay=SN;shape=ge;ref=u");
    if (!c5.valid || refResolvable(c5, c5.parts[0], &t3) != 1 || t3 != 1) { *why = "unnamed numeric with a string field first: the one numeric field"; return false; }
    Config c6 = makeConfig("fam=simple;lay=SNN;shape=ge;ref=u");
    if (!c6.valid || refResolvable(c6, c6.parts[0], &t3) != -1) { *why = "unnamed numeric, string first, two numeric fields: open"; return false; }
  }
  return true;
}

static int replay(const string& cs) {
  size_t p = cs.find(";ops=");
  if (p == string::npos) { printf("bad case string\n"); return 2; }
  Config c = makeConfig(cs.substr(0, p));
  vector<Op> ops;
  if (!c.valid || !parseOps(cs.substr(p + 5), &ops)) { printf("bad case string\n"); return 2; }
  printf("case: %s\n", cs.c_str());
  World w;
  w.build(c);
  string log;
  Judged j = judgeResolve(c, w, cs, &log);
  printf("%s", log.c_str());
  if (!j.ok) { printf("VIOLATES (resolution)\n"); return 1; }
  if (!j.explorable) { printf("OK (not resolvable, as expected)\n"); return 0; }
  RefState rs(c.msgs.size());
  bool bad = false;
  string tc;
  log.clear();
  for (size_t i = 0; i < ops.size(); i++) {
    vector<Op> one(1, ops[i]);
    Step st;
    if (!runHistory(c, j, &w, one, &rs, &st, &log)) { printf("%shistory cannot be replayed\n", log.c_str()); return 2; }
    if (st.mismatchChange) bad = true;
    if (st.isQuery && (st.mismatchAvail || st.mismatchFind)) {
      bad = true;
      time_t keep = g_now;
      tc = timingClass(c, j, vector<Op>(ops.begin(), ops.begin() + static_cast<long>(i) + 1));
      g_now = keep;
    }
  }
  printf("%s", log.c_str());
  if (bad) printf("timing class of the last mismatch: %s (%s)\n", tc.c_str(), tc == "same-second" ? "it disappears when every store happens in a second of its own" : "it persists when every store happens in a second of its own");
  printf(bad ? "VIOLATES\n" : "OK\n");
  return bad ? 1 : 0;
}

int main(int argc, char** argv) {
  vp::Args A = vp::parseArgs(argc, argv);
  ebusd::setFacilitiesLogLevel(1 << ebusd::lf_COUNT, ebusd::ll_none);
  string why;
  if (!selfTest(&why)) { fprintf(stderr, "c13: reference self-test failed: %s\n", why.c_str()); return 3; }
  if (A.replay) return replay(A.replayCase);
  R.setDeadline(A);
  int depth = static_cast<int>(A.getInt("depth", A.thorough() ? 8 : 6));
  long cross = A.getInt("crosscheck", 1);
  vector<string> descs = enumerate(A.thorough());
  size_t done = 0;
  for (size_t i = 0; i < descs.size(); i++) {
    if (static_cast<int>(i % static_cast<size_t>(A.nparts)) != A.part) continue;
    if (R.expired()) break;
    Config c = makeConfig(descs[i]);
    if (!c.valid) { fprintf(stderr, "c13: bad descriptor %s\n", descs[i].c_str()); return 3; }
    explore(c, depth, cross != 0);
    done++;
  }
  R.count("configurations", done);
  char b[200];
  snprintf(b, sizeof(b), "depth=%d configurations=%zu; every configuration: all histories up to depth 4 re-executed without pruning and compared step by step with the hashed search", depth, descs.size());
  R.note(b);
  R.sample("fam=simple;lay=NS;shape=lt;ref=n0 means: message ref with fields f0:UCH,f1:STR:2; condition *[k],c,ref,,f0,,<3; guarded message [k]r,c,g");
  R.write(A.out);
  return 0;
}
