// Common result / argument plumbing for all verification harnesses.
// A harness is run as
//   harness --tier quick|thorough [--part i --nparts n] [--deadline sec] --out result.json
//   harness --replay-case "<case string>"      (prints the observation log, exit 1 if it violates)
// and writes one JSON object that bin/vcheck merges over parts.
#ifndef VERIF_VOUT_H_
#define VERIF_VOUT_H_

#include <stdint.h>
#include <stdio.h>
#include <stdlib.h>
#include <string.h>
#include <sys/syscall.h>
#include <time.h>
#include <unistd.h>
#include <map>
#include <set>
#include <string>
#include <unordered_set>
#include <vector>

namespace vp {

// wall clock that is immune to the harness' own clock_gettime/time interposition
inline double rawNow() {
  struct timespec ts;
  syscall(SYS_clock_gettime, CLOCK_MONOTONIC, &ts);
  return static_cast<double>(ts.tv_sec) + ts.tv_nsec / 1e9;
}

inline uint64_t fnv(const void* data, size_t len, uint64_t h = 1469598103934665603ULL) {
  const unsigned char* p = static_cast<const unsigned char*>(data);
  for (size_t i = 0; i < len; i++) {
    h ^= p[i];
    h *= 1099511628211ULL;
  }
  return h;
}
inline uint64_t fnv(const std::string& s, uint64_t h = 1469598103934665603ULL) {
  return fnv(s.data(), s.size(), h);
}

inline std::string jsonEscape(const std::string& s) {
  std::string o;
  char buf[8];
  for (size_t i = 0; i < s.size(); i++) {
    unsigned char c = static_cast<unsigned char>(s[i]);
    if (c == '"' || c == '\\') {
      o += '\\';
      o += static_cast<char>(c);
    } else if (c == '\n') {
      o += "\\n";
    } else if (c == '\t') {
      o += "\\t";
    } else if (c < 0x20 || c >= 0x7f) {
      snprintf(buf, sizeof(buf), "\\u%04x", c);
      o += buf;
    } else {
      o += static_cast<char>(c);
    }
  }
  return o;
}

inline std::string hex(const unsigned char* p, size_t n) {
  std::string o;
  char b[4];
  for (size_t i = 0; i < n; i++) {
    snprintf(b, sizeof(b), "%02x", p[i]);
    o += b;
  }
  return o;
}

struct Violation {
  uint64_t count;
  std::string detail;  // human readable: expected vs observed
  std::string rcase;   // replay case string (harness specific)
};

struct Args {
  std::string tier = "quick";
  int part = 0, nparts = 1;
  double deadline = 0;  // seconds of wall time this process may use (0 = none)
  std::string out;
  std::string replayCase;
  bool replay = false;
  std::map<std::string, std::string> opt;  // any other --key value
  bool thorough() const { return tier == "thorough"; }
  std::string get(const std::string& k, const std::string& d = "") const {
    auto it = opt.find(k);
    return it == opt.end() ? d : it->second;
  }
  long getInt(const std::string& k, long d) const {
    auto it = opt.find(k);
    return it == opt.end() ? d : strtol(it->second.c_str(), nullptr, 0);
  }
};

inline Args parseArgs(int argc, char** argv) {
  Args a;
  for (int i = 1; i < argc; i++) {
    std::string k = argv[i];
    std::string v = (i + 1 < argc) ? argv[i + 1] : "";
    if (k == "--tier") { a.tier = v; i++; }
    else if (k == "--part") { a.part = atoi(v.c_str()); i++; }
    else if (k == "--nparts") { a.nparts = atoi(v.c_str()); i++; }
    else if (k == "--deadline") { a.deadline = atof(v.c_str()); i++; }
    else if (k == "--out") { a.out = v; i++; }
    else if (k == "--replay-case") { a.replayCase = v; a.replay = true; i++; }
    else if (k.size() > 2 && k[0] == '-' && k[1] == '-') { a.opt[k.substr(2)] = v; i++; }
  }
  return a;
}

class Result {
 public:
  uint64_t evaluations = 0;   // executions / cases
  uint64_t transitions = 0;   // implementation steps taken
  uint64_t tracesValidated = 0;
  bool exhaustive = true;
  std::vector<std::string> caps;
  std::vector<std::string> samples;
  std::vector<std::string> notes;
  std::map<std::string, uint64_t> counters;
  std::map<std::string, Violation> violations;
  std::unordered_set<uint64_t> stateSet;
  std::unordered_set<uint64_t> distinctSet;
  size_t maxSamples = 6;
  double t0 = rawNow();
  double deadlineAbs = 0;

  void setDeadline(const Args& a) { if (a.deadline > 0) deadlineAbs = t0 + a.deadline; }
  // returns true once the deadline passed (and records the cap once)
  bool expired() {
    if (deadlineAbs <= 0) return false;
    if (rawNow() < deadlineAbs) return false;
    if (exhaustive) { exhaustive = false; caps.push_back("deadline reached"); }
    return true;
  }
  void cap(const std::string& what) { exhaustive = false; caps.push_back(what); }
  bool state(uint64_t h) { return stateSet.insert(h).second; }
  bool state(const std::string& s) { return stateSet.insert(fnv(s)).second; }
  bool distinct(uint64_t h) { return distinctSet.insert(h).second; }
  bool distinct(const std::string& s) { return distinctSet.insert(fnv(s)).second; }
  void sample(const std::string& s) { if (samples.size() < maxSamples) samples.push_back(s); }
  void note(const std::string& s) { notes.push_back(s); }
  void count(const std::string& k, uint64_t n = 1) { counters[k] += n; }
  // record a violation; only the first detail/replay per signature is kept
  void violation(const std::string& sig, const std::string& detail, const std::string& rcase) {
    auto it = violations.find(sig);
    if (it == violations.end()) {
      violations[sig] = Violation{1, detail, rcase};
    } else {
      it->second.count++;
      // prefer the shortest replay case (simplest counterexample)
      if (rcase.size() < it->second.rcase.size()) {
        it->second.detail = detail;
        it->second.rcase = rcase;
      }
    }
  }

  void write(const std::string& path) const {
    FILE* f = path.empty() ? stdout : fopen(path.c_str(), "w");
    if (!f) { perror("open result"); exit(4); }
    fprintf(f, "{\n \"evaluations\": %llu,\n \"transitions\": %llu,\n \"traces_validated\": %llu,\n",
            (unsigned long long)evaluations, (unsigned long long)transitions,
            (unsigned long long)tracesValidated);
    fprintf(f, " \"states\": %llu,\n \"distinct\": %llu,\n \"exhaustive\": %s,\n \"wall_s\": %.3f,\n",
            (unsigned long long)stateSet.size(), (unsigned long long)distinctSet.size(),
            exhaustive ? "true" : "false", rawNow() - t0);
    fprintf(f, " \"caps\": [");
    for (size_t i = 0; i < caps.size(); i++) fprintf(f, "%s\"%s\"", i ? ", " : "", jsonEscape(caps[i]).c_str());
    fprintf(f, "],\n \"notes\": [");
    for (size_t i = 0; i < notes.size(); i++) fprintf(f, "%s\"%s\"", i ? ", " : "", jsonEscape(notes[i]).c_str());
    fprintf(f, "],\n \"samples\": [");
    for (size_t i = 0; i < samples.size(); i++) fprintf(f, "%s\"%s\"", i ? ", " : "", jsonEscape(samples[i]).c_str());
    fprintf(f, "],\n \"counters\": {");
    bool first = true;
    for (auto& kv : counters) {
      fprintf(f, "%s\"%s\": %llu", first ? "" : ", ", jsonEscape(kv.first).c_str(), (unsigned long long)kv.second);
      first = false;
    }
    fprintf(f, "},\n \"violations\": [");
    first = true;
    for (auto& kv : violations) {
      fprintf(f, "%s\n  {\"sig\": \"%s\", \"count\": %llu, \"detail\": \"%s\", \"case\": \"%s\"}",
              first ? "" : ",", jsonEscape(kv.first).c_str(), (unsigned long long)kv.second.count,
              jsonEscape(kv.second.detail).c_str(), jsonEscape(kv.second.rcase).c_str());
      first = false;
    }
    fprintf(f, "]\n}\n");
    if (f != stdout) fclose(f);
  }
};

// split "a=1;b=2" style case strings
inline std::map<std::string, std::string> parseCase(const std::string& s, char sep = ';') {
  std::map<std::string, std::string> m;
  size_t pos = 0;
  while (pos <= s.size()) {
    size_t e = s.find(sep, pos);
    if (e == std::string::npos) e = s.size();
    std::string kv = s.substr(pos, e - pos);
    size_t q = kv.find('=');
    if (q != std::string::npos) m[kv.substr(0, q)] = kv.substr(q + 1);
    pos = e + 1;
  }
  return m;
}

}  // namespace vp

#endif  // VERIF_VOUT_H_
