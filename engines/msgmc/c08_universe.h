// C08: universe of message definitions built to collide in MessageMap's 64-bit key
// (same PBSB, shared ID prefixes of length 0..7, equal XOR folds beyond 4 ID bytes, any/specific
// source, any/specific/broadcast/master destination, read/write/passive, chained IDs).
#ifndef VERIF_C08_UNIVERSE_H_
#define VERIF_C08_UNIVERSE_H_

#include <stdint.h>
#include <string>
#include <vector>

namespace c08 {

typedef std::vector<uint8_t> Bytes;

enum Kind { K_READ, K_WRITE, K_PASSIVE_READ, K_PASSIVE_WRITE };

static const unsigned ANY = 0x100;  // "no particular address" in a definition

struct Def {
  Kind kind;
  unsigned src;               // ANY or master address
  unsigned dst;               // ANY or address
  std::vector<Bytes> parts;   // ID bytes beyond PBSB; >1 entry = chained
  bool core;                  // member of the reduced universe used for the largest subset size
  int cond = 0;               // 0 unconditional, 1 = [isA] (code == 1), 2 = [isB] (code == 2)
  bool condPool = false;      // unconditional partner of the conditional definitions in the availability pass
  bool shape = false;         // chained definition of the chain-shape pass (>= 3 parts, prefix structure varied)
  uint8_t pb = 0xb5, sb = 0x09;   // command bytes
  bool implicit = false;      // not a CSV row: identification message created by MessageMap::getScanMessage(dst)
  bool optional = false;      // built-in message outside the key map (generic / broadcast scan): may be returned, never required
  bool editPool = false;      // member of the edit pass (remove / replacing add)
  bool passive() const { return kind == K_PASSIVE_READ || kind == K_PASSIVE_WRITE; }
  bool write() const { return kind == K_WRITE || kind == K_PASSIVE_WRITE; }
  bool chained() const { return parts.size() > 1; }
  size_t idLen() const { return parts[0].size(); }
};

static const uint8_t PB = 0xb5, SB = 0x09;

inline Bytes hx(const char* s) {
  Bytes b;
  for (size_t i = 0; s[i] && s[i + 1]; i += 2) {
    char t[3] = {s[i], s[i + 1], 0};
    b.push_back((uint8_t)strtoul(t, nullptr, 16));
  }
  return b;
}

inline std::string toHex(const Bytes& b) {
  std::string o;
  char t[4];
  for (uint8_t c : b) { snprintf(t, sizeof(t), "%02x", c); o += t; }
  return o;
}

inline std::vector<Def> universe() {
  std::vector<Def> u;
  auto add = [&](Kind k, unsigned src, unsigned dst, std::vector<const char*> ids, bool core) {
    Def d; d.kind = k; d.src = src; d.dst = dst; d.core = core;
    for (auto s : ids) d.parts.push_back(hx(s));
    u.push_back(d);
  };
  // ID ladder 0..7 with shared prefixes (active read to slave 08)
  add(K_READ, ANY, 0x08, {""}, true);                      // 0
  add(K_READ, ANY, 0x08, {"0d"}, true);                    // 1
  add(K_READ, ANY, 0x08, {"0d01"}, true);                  // 2
  add(K_READ, ANY, 0x08, {"0d0100"}, true);                // 3
  add(K_READ, ANY, 0x08, {"0d010002"}, true);              // 4
  add(K_READ, ANY, 0x08, {"0d01000203"}, true);            // 5
  add(K_READ, ANY, 0x08, {"0d0100020304"}, true);          // 6
  add(K_READ, ANY, 0x08, {"0d010002030405"}, false);       // 7
  // equal XOR fold (ID byte 4 folds onto byte 0, 5 onto 1, 6 onto 2)
  add(K_READ, ANY, 0x08, {"0e01000200"}, true);            // 8  same key as 5
  add(K_READ, ANY, 0x08, {"0d0500020300"}, true);          // 9  same key as 6
  add(K_READ, ANY, 0x08, {"0d010502030400"}, false);       // 10 same key as 7
  // direction / source variants on shared IDs
  add(K_WRITE, ANY, 0x08, {"0d0100"}, true);               // 11
  add(K_PASSIVE_READ, ANY, 0x08, {"0d0100"}, true);        // 12
  add(K_PASSIVE_READ, 0x10, 0x08, {"0d0100"}, true);       // 13
  add(K_PASSIVE_READ, 0x03, 0x08, {"0d01"}, true);         // 14
  add(K_PASSIVE_WRITE, ANY, 0x08, {"0d0100"}, true);       // 15
  add(K_PASSIVE_READ, 0x10, 0x08, {"0d010002"}, false);    // 16
  add(K_WRITE, ANY, 0x08, {"0d01"}, true);                 // 17
  add(K_PASSIVE_READ, ANY, 0x08, {"0d"}, false);           // 18
  // destination variants
  add(K_READ, ANY, ANY, {"0d0100"}, true);                 // 19
  add(K_PASSIVE_READ, ANY, ANY, {"0d0100"}, true);         // 20
  add(K_WRITE, ANY, ANY, {"0d01"}, false);                 // 21
  add(K_PASSIVE_READ, 0x10, ANY, {"0d010002"}, false);     // 22
  add(K_PASSIVE_READ, ANY, 0xfe, {"0d0100"}, true);        // 23
  add(K_WRITE, ANY, 0xfe, {"0d01"}, false);                // 24
  add(K_PASSIVE_WRITE, ANY, 0xfe, {"0d010002"}, false);    // 25
  add(K_READ, ANY, 0x30, {"0d0100"}, true);                // 26
  add(K_WRITE, ANY, 0x30, {"0d01"}, false);                // 27
  add(K_PASSIVE_READ, ANY, 0x30, {"0d0100"}, false);       // 28
  add(K_READ, 0x10, 0x08, {"0d0100"}, true);               // 29 active with its own source given
  // chained
  add(K_READ, ANY, 0x08, {"0d0100", "0d0200"}, true);      // 30 common prefix 0d
  add(K_READ, ANY, 0x08, {"0d01", "0d02"}, true);          // 31 common prefix 0d
  add(K_WRITE, ANY, 0x08, {"0d0100", "0d0200"}, true);     // 32
  add(K_READ, ANY, ANY, {"0d0100", "0d0200"}, true);       // 33
  add(K_READ, ANY, 0x08, {"0d01000203", "0d01000204"}, true);      // 34 common prefix 0d010002
  add(K_READ, ANY, 0x08, {"0d", "0e"}, true);              // 35 empty common prefix
  add(K_READ, ANY, 0x08, {"0d0100020304", "0d0500020304"}, true);  // 36 prefix 0d, 6 byte IDs
  add(K_WRITE, ANY, 0xfe, {"0d0100", "0d0200"}, true);     // 37
  add(K_PASSIVE_READ, ANY, 0x08, {"0e01000200"}, false);   // 38
  add(K_WRITE, ANY, 0x08, {"0d01000203"}, false);          // 39
  // conditional definitions (indices >= FIRST_CONDITIONAL): same direction/QQ/ZZ/PBSB/ID as others, differing
  // in their condition only; explored in the availability pass together with the condPool partners
  add(K_READ, ANY, 0x08, {"0d0100"}, false); u.back().cond = 1;               // 40 [isA] twin of 3 and 41
  add(K_READ, ANY, 0x08, {"0d0100"}, false); u.back().cond = 2;               // 41 [isB]
  add(K_READ, ANY, 0x08, {"0d01"}, false); u.back().cond = 1;                 // 42 [isA] shorter ID
  add(K_WRITE, ANY, 0x08, {"0d0100"}, false); u.back().cond = 2;              // 43 [isB] write
  add(K_PASSIVE_READ, ANY, 0x08, {"0d0100"}, false); u.back().cond = 2;       // 44 [isB] passive
  add(K_READ, ANY, 0x08, {"0d0100", "0d0200"}, false); u.back().cond = 1;     // 45 [isA] chained
  add(K_PASSIVE_READ, ANY, 0x08, {"0d0100"}, false); u.back().cond = 1;       // 46 [isA] passive twin of 44
  // chained definitions with three and more parts (indices >= FIRST_SHAPE): the common prefix of all parts differs
  // from the prefix shared by the first and the last (or any two) parts; explored in the chain-shape pass together
  // with the condPool partners
  add(K_READ, ANY, 0x08, {"0d0001", "0d0102", "0d0003"}, false); u.back().shape = true;          // 47 middle part deviates first (common 0d)
  add(K_READ, ANY, 0x08, {"0d0001", "0d0003", "0d0102"}, false); u.back().shape = true;          // 48 last part deviates first
  add(K_WRITE, ANY, 0x08, {"0d01000203", "0d01010203", "0d01000204"}, false); u.back().shape = true;  // 49 5 byte IDs, common 0d01
  add(K_READ, ANY, 0x08, {"0d0200", "0d0100", "0d0101"}, false); u.back().shape = true;          // 50 first part differs from the others
  add(K_READ, ANY, 0x08, {"0d01", "0e01", "0d02"}, false); u.back().shape = true;                // 51 nothing in common
  add(K_READ, ANY, ANY, {"0d0100", "0d0201", "0d0102", "0d0200"}, false); u.back().shape = true;  // 52 four parts, wildcard destination
  // identification ("scan", command 07 04) messages that every MessageMap owns or creates per address
  add(K_READ, ANY, 0x08, {""}, false); u.back().implicit = true; u.back().pb = 0x07; u.back().sb = 0x04;   // 53 scan.08
  add(K_READ, ANY, 0x15, {""}, false); u.back().implicit = true; u.back().pb = 0x07; u.back().sb = 0x04;   // 54 scan.15
  add(K_READ, ANY, ANY, {""}, false); u.back().implicit = true; u.back().optional = true; u.back().pb = 0x07; u.back().sb = 0x04;    // 55 generic scan message
  add(K_WRITE, ANY, 0xfe, {""}, false); u.back().implicit = true; u.back().optional = true; u.back().pb = 0x07; u.back().sb = 0x04;  // 56 broadcast scan message
  for (int i : {0, 1, 2, 3, 4, 11, 12, 13, 19, 30, 31, 32}) u[i].condPool = true;
  // edit pass: fold twins (5/8/39 share one key class), direction and chained neighbours, conditional twins
  for (int i : {2, 3, 5, 8, 39, 11, 12, 30, 31, 40, 41, 44, 46}) u[i].editPool = true;
  return u;
}

static const int FIRST_CONDITIONAL = 40;
static const int FIRST_SHAPE = 47;
static const int FIRST_IMPLICIT = 53;
static const int GENERIC_SCAN = 55, BROADCAST_SCAN = 56;
// lines loaded before the definitions of a map that contains conditional definitions: the message the
// conditions refer to (other PBSB than the universe) and the two conditions
static const char* const COND_PRELUDE[] = {
  "r,c,code,,,08,b5ff,43,,,UCH",
  "*[isA],c,code,,,,1",
  "*[isB],c,code,,,,2",
};

inline std::string defLine(const Def& d, size_t idx) {
  char b[64];
  std::string s;
  if (d.implicit) {
    if (d.optional) return d.dst == ANY ? "(built-in generic identification message 07 04)" : "(built-in broadcast identification message 07 04)";
    snprintf(b, sizeof(b), "getScanMessage(%02x)  (identification message 07 04 for that address)", d.dst);
    return b;
  }
  if (d.cond) s += d.cond == 1 ? "[isA]" : "[isB]";
  s += d.kind == K_READ ? "r" : d.kind == K_WRITE ? "w" : d.kind == K_PASSIVE_READ ? "u" : "uw";
  snprintf(b, sizeof(b), ",c,n%02u,,", (unsigned)idx);
  s += b;
  if (d.src != ANY) { snprintf(b, sizeof(b), "%02x", d.src); s += b; }
  s += ",";
  if (d.dst != ANY) { snprintf(b, sizeof(b), "%02x", d.dst); s += b; }
  s += ",b509,";
  for (size_t i = 0; i < d.parts.size(); i++) {
    if (i) s += ";";
    s += toHex(d.parts[i]);
  }
  return s;
}

}  // namespace c08

#endif  // VERIF_C08_UNIVERSE_H_
