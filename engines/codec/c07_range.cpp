// C07: writes are range-safe (never wrapped, truncated or silently changed).
// Exhaustive cross product (numeric type variants) x (boundary text grammar) executed on the real
// DataField::create / write / read, judged by an exact decimal reference (c07_ref.h).
#include <errno.h>
#include <math.h>
#include <functional>
#include <sstream>
#include "lib/ebus/data.h"
#include "lib/ebus/datatype.h"
#include "lib/ebus/result.h"
#include "lib/ebus/symbol.h"
#include "c07_ref.h"
#include "vout.h"

using namespace ebusd;
using namespace c07;
using std::string;
using std::vector;

static vp::Result R;
static DataFieldTemplates* g_templates = nullptr;
static vector<RefType> g_types;

// ------------------------------------------------------------------------------------ variants
struct Variant {
  const RefType* t = nullptr;
  string div;     // extra divisor column ("" = none)
  string values;  // value list column ("" = none)
  string range;   // range column ("" = none)
  // derived reference parameters
  int64_t d = 1;          // effective divisor (>0 divide, <0 multiply by -d)
  bool hasCfg = false;
  int64_t cfgLo = 0, cfgHi = 0;      // configured range as raw values
  long double fLo = 0, fHi = 0;      // float types: configured range in value terms
  vector<std::pair<int64_t, string>> list;  // value list
  bool isList() const { return !list.empty(); }
  string key() const { return string(t->id) + "|" + div + "|" + values + "|" + range; }
};

static const RefType* findType(const string& id) {
  for (const RefType& t : g_types) if (id == t.id) return &t;
  return nullptr;
}

static string valueTextOfRaw(i128 raw, int64_t d, bool* ok) {
  *ok = true;
  Dec r = Dec::fromI(raw);
  if (d > 0) return toPlain(divExact(r, (uint64_t)d, ok));
  return toPlain(mulU(r, (uint64_t)(-d)));
}

static bool effectiveDivisor(const RefType& t, const string& div, int64_t* d) {
  int64_t extra = div.empty() ? 1 : atoll(div.c_str());
  int64_t b = t.builtinDiv;
  if (b != 1) {
    if (extra == 1) { *d = b; return true; }
    if (extra < 0) return false;  // reciprocal on a fractional type is not a valid definition
    *d = b * extra;
  } else {
    *d = extra;
  }
  if (*d > 1000000000LL || *d < -1000000000LL) return false;
  return true;
}

static vector<Variant> buildVariants(bool thorough) {
  vector<Variant> out;
  vector<string> divs = {"", "10", "100", "1000", "-10", "-100"};
  if (thorough) {
    for (const char* s : {"2", "5", "16", "256", "10000", "1000000", "1000000000", "-2", "-1000", "-1000000000", "3", "7"}) divs.push_back(s);
  }
  for (const RefType& t : g_types) {
    if (t.dayList) {
      Variant v; v.t = &t;
      for (int i = 0; i < 7; i++) v.list.push_back({t.minRaw + i, string("MonTueWedThuFriSatSun").substr(3 * i, 3)});
      out.push_back(v);
      continue;
    }
    for (const string& dv : divs) {
      int64_t d;
      if (!effectiveDivisor(t, dv, &d)) continue;
      if (t.isBits && !dv.empty()) continue;  // keep bit types plain (divisor on bits adds nothing)
      Variant v; v.t = &t; v.div = dv; v.d = d;
      out.push_back(v);
      if (t.isBits) continue;
      // derived ranges, given as raw bounds and written into the definition as exact value texts
      vector<vector<int64_t>> rr;
      if (t.isFloat) {
        Variant a = v; a.range = "-1.5-2.5"; a.hasCfg = true; a.fLo = -1.5L; a.fHi = 2.5L; out.push_back(a);
        if (thorough) { Variant b = v; b.range = "0-1000000:0.5"; b.hasCfg = true; b.fLo = 0; b.fHi = 1000000.0L; out.push_back(b); }
        continue;
      }
      if (t.sig) {
        rr.push_back({-100, 100, 0});
        rr.push_back({-50, -10, 5});
        // all sign combinations of the bounds, and ranges that touch a limit of the type
        rr.push_back({10, 100, 0});
        rr.push_back({0, 50, 0});
        rr.push_back({5, t.maxRaw, 0});
        rr.push_back({t.minRaw, -5, 0});
        if (t.bits >= 16 && thorough) rr.push_back({-30000, 30000, 0});
        if (t.bits == 32) rr.push_back({-2000000000LL, 2000000000LL, 0});
      } else {
        rr.push_back({10, t.bcd && t.bits == 8 ? 90 : 100, 0});
        rr.push_back({0, 50, 5});
        if (t.bits >= 16 && thorough && !t.bcd) rr.push_back({1000, 60000, 0});
        if (t.bits == 32 && !t.bcd) rr.push_back({1000, 4000000000LL, 0});
      }
      for (auto& r : rr) {
        bool ok1, ok2, ok3 = true;
        string a = valueTextOfRaw(r[0], d, &ok1), b = valueTextOfRaw(r[1], d, &ok2), c;
        if (r[2]) c = valueTextOfRaw(r[2], d, &ok3);
        if (!ok1 || !ok2 || !ok3) continue;
        Variant w = v;
        w.range = a + "-" + b + (r[2] ? ":" + c : "");
        w.hasCfg = true; w.cfgLo = r[0]; w.cfgHi = r[1];
        out.push_back(w);
      }
    }
    // value lists on integer types - also on types with a built-in divisor (D1C, D2B, D2C, FLT ...): the keys of a
    // value list are RAW values, a numeric text selects the entry with that key whatever the type's divisor is
    if (!t.isBits && !t.isFloat && !t.bcd) {
      bool wide = t.bits >= 16;
      Variant v; v.t = &t;
      if (t.builtinDiv != 1 && t.builtinDiv > 1 && t.builtinDiv != 100 && t.builtinDiv <= t.maxRaw) {
        // one key equals the built-in divisor: a numeric text scaled like a value of the type would land on another entry
        int64_t D = t.builtinDiv;
        v.values = "0=off;1=on;" + std::to_string(D) + "=dd;100=max";
        v.list = {{0, "off"}, {1, "on"}, {D, "dd"}, {100, "max"}};
        std::sort(v.list.begin(), v.list.end());
      } else if (t.sig || t.builtinDiv != 1) { v.values = "0=off;1=on;100=max"; v.list = {{0, "off"}, {1, "on"}, {100, "max"}}; }
      else if (wide) { v.values = "0=off;1=on;254=max;1000=big"; v.list = {{0, "off"}, {1, "on"}, {254, "max"}, {1000, "big"}}; }
      else { v.values = "0=off;1=on;254=max"; v.list = {{0, "off"}, {1, "on"}, {254, "max"}}; }
      out.push_back(v);
    }
  }
  return out;
}

// ------------------------------------------------------------------------------------ text grammar
struct Text { string s; const char* form; };

static void boundaryInts(const Variant& v, bool thorough, vector<i128>* out) {
  const RefType& t = *v.t;
  std::set<string> seen;
  auto add = [&](i128 b) {
    string k = toPlain(Dec::fromI(b));
    if (seen.insert(k).second) out->push_back(b);
  };
  for (int64_t b : {(int64_t)0, (int64_t)1, (int64_t)-1, (int64_t)2, (int64_t)42}) add(b);
  if (!t.isFloat) {
    for (i128 b : {(i128)t.minRaw - 1, (i128)t.minRaw, (i128)t.maxRaw, (i128)t.maxRaw + 1}) add(b);
    if (v.hasCfg) for (i128 b : {(i128)v.cfgLo - 1, (i128)v.cfgLo, (i128)v.cfgHi, (i128)v.cfgHi + 1}) add(b);
    if (!t.req) {
      add((i128)t.repl);
      if (t.sig) add((i128)t.repl - ((i128)1 << t.bits));
    }
    for (auto& kv : v.list) { add(kv.first); add(kv.first + 1); }
  }
  vector<int> ks = {7, 8, 15, 16, 23, 24, 31, 32, 63, 64};
  if (thorough) { ks.clear(); for (int k = 1; k <= 64; k++) ks.push_back(k); ks.push_back(65); ks.push_back(80); }
  for (int k : ks) {
    i128 p = (i128)1 << k;
    for (i128 b : {p - 1, p, p + 1}) { add(b); add(-b); }
    if (!t.isFloat && !t.isBits && t.bits < k && k <= 64) {
      // an in-range value shifted by 2^k (what a modular wrap would map back into the range)
      add(p + 5); add(-(p - 5));
    }
  }
}

static string upper(string s) { for (char& c : s) c = (char)toupper(c); return s; }

static void textsForValue(const Dec& v0, vector<Text>* out) {
  Dec v = v0; v.norm();
  string c = toPlain(v);
  bool neg = v.neg;
  string mag = neg ? c.substr(1) : c;
  string sg = neg ? "-" : "";
  out->push_back({c, "plain"});
  if (!neg) out->push_back({"+" + c, "plus"});
  if (v.isZero() && !neg) out->push_back({"-0", "plain"});
  if (v.isInteger()) {
    out->push_back({c + ".0", "frac"});
    out->push_back({c + ".5", "frac"});
    out->push_back({c + ".9", "frac"});
    out->push_back({c + ".0000000000000000000000000", "frac"});
    out->push_back({c + ".4999999999999999999999999", "frac"});
    out->push_back({c + ".", "point-only"});
    // hexadecimal form
    {
      string h;
      std::string m = v.e >= 0 ? v.m + string((size_t)v.e, '0') : v.m;
      if (m.empty()) h = "0";
      while (!m.empty()) { uint64_t rem; m = divMagSmall(m, 16, &rem); h.insert(h.begin(), "0123456789abcdef"[rem]); }
      out->push_back({sg + "0x" + h, "hex"});
      out->push_back({sg + "0X" + upper(h), "hex"});
      out->push_back({sg + "0x" + h + "g", "garbage-tail"});
      out->push_back({sg + "0x" + h + ".x", "garbage-tail"});
    }
    out->push_back({c + ",5", "garbage-tail"});
  } else {
    out->push_back({c + "0", "frac"});
    out->push_back({c + "5", "frac"});
    size_t dot = mag.find('.');
    if (dot != string::npos && mag.substr(0, dot) == "0") out->push_back({sg + mag.substr(dot), "point-only"});
  }
  // exponent forms with the same value
  out->push_back({c + "e0", "exp"});
  out->push_back({c + "E+0", "exp"});
  out->push_back({toPlain(shift10(v, 1)) + "e-1", "exp"});
  out->push_back({toPlain(shift10(v, -1)) + "e1", "exp"});
  out->push_back({toPlain(shift10(v, 2)) + "E-02", "exp"});
  if (!v.isZero()) {
    long sh = (long)v.m.size() + v.e - 1;  // scientific normal form d.ddd e sh
    out->push_back({toPlain(shift10(v, -sh)) + "e" + std::to_string(sh), "exp"});
  }
  // blanks
  out->push_back({" " + c, "blank-lead"});
  out->push_back({c + " ", "blank-trail"});
  out->push_back({" " + c + " ", "blank-both"});
  out->push_back({"\t" + c, "blank-lead"});
  // trailing / leading garbage
  for (const char* g : {"x", ".x", "e", "e+", "e1x", " 1", "-", ";", "%", "f", "L", "u", ".5.5", "..", "abc", "_0", " x"})
    out->push_back({c + g, "garbage-tail"});
  for (const char* g : {"x", "=", "$", "--", "+-", "-+", "e", "."}) out->push_back({g + c, g[0] == '.' && v.isInteger() && !neg ? "point-only" : "garbage-head"});
  // superfluous leading zeros (value ambiguous under C conventions)
  out->push_back({sg + "0" + mag, "lead0"});
  out->push_back({sg + "00" + mag, "lead0"});
  if (v.isInteger() && mag.size() < 25) out->push_back({sg + string(25 - mag.size(), '0') + mag, "lead0"});
  // up to 25 digits: pad with zeros to a 25 digit integer (value scaled), and 25 nines
  if (v.isInteger() && !v.isZero() && mag.size() < 25) out->push_back({sg + mag + string(25 - mag.size(), '0'), "pad25"});
}

static void globalTexts(vector<Text>* out) {
  for (const char* s : {"", " ", "  ", "\t"}) out->push_back({s, "empty"});
  for (const char* s : {"-", "+", "--1", "-+1", "+-1", "- 1", "-.", ".", "-e1"}) out->push_back({s, "sign-only"});
  for (const char* s : {"e", "e5", "E5", "x", "0x", "0x-1", "0xg", "x10", "true", "on", "null", "NULL", "one", "#1", "1 2", "1,000", "1_000", "1'000", "(1)", "1/2", "2*3", "1+1"})
    out->push_back({s, "word"});
  for (const char* s : {"nan", "NaN", "NAN", "-nan", "+nan", "nan(1)", "nanx", "1nan"}) out->push_back({s, "nan"});
  for (const char* s : {"inf", "INF", "Inf", "-inf", "+inf", "infinity", "-Infinity", "INFINITY", "1e999", "-1e999", "1e400", "1e99999999999", "0x1p99999"})
    out->push_back({s, "inf"});
  for (const char* s : {"1e-999", "-1e-999", "0e0", "0e999", "0.0e-999"}) out->push_back({s, "tiny"});
  out->push_back({"9999999999999999999999999", "pad25"});
  out->push_back({"-9999999999999999999999999", "pad25"});
  out->push_back({"1000000000000000000000000", "pad25"});
  out->push_back({"0.0000000000000000000000001", "tiny"});
  out->push_back({"99999999999999999999", "pad25"});
  out->push_back({"-99999999999999999999", "pad25"});
}

static vector<Text> genTexts(const Variant& v, bool thorough) {
  vector<Text> raw, out;
  vector<i128> bs;
  boundaryInts(v, thorough, &bs);
  for (i128 b : bs) {
    Dec asValue = Dec::fromI(b);
    textsForValue(asValue, &raw);
    if (v.d != 1 && !v.t->isFloat) {
      // the same boundary in the raw domain: value = b / d (or b * |d|)
      bool ok = true;
      Dec val = v.d > 0 ? divExact(asValue, (uint64_t)v.d, &ok) : mulU(asValue, (uint64_t)(-v.d));
      if (ok) textsForValue(val, &raw);
      if (ok && v.d > 0) {
        // half a step beyond the boundary
        Dec half = divExact(Dec::fromI(1), (uint64_t)v.d * 2, &ok);
        if (ok) { textsForValue(add(val, half), &raw); }
      }
    }
  }
  globalTexts(&raw);
  for (auto& kv : v.list) {
    const string& n = kv.second;
    for (string s : {n, upper(n), n + "x", n.substr(0, n.size() - 1), " " + n, n + " ", n + ";" + n, "=" + n})
      raw.push_back({s, "name"});
  }
  if (v.isList()) for (const char* s : {"none", "o", "Monday", "off;on", "0=off"}) raw.push_back({s, "name"});
  std::set<string> seen;
  for (auto& t : raw) if (seen.insert(t.s).second) out.push_back(t);
  return out;
}

// ------------------------------------------------------------------------------------ implementation access
static const DataField* createField(const Variant& v, string* err) {
  vector<std::map<string, string>> rows(1);
  rows[0]["name"] = "x";
  rows[0]["part"] = "m";
  rows[0]["type"] = v.t->id;
  if (!v.div.empty()) rows[0]["divisor"] = v.div;
  if (!v.values.empty()) rows[0]["values"] = v.values;
  if (!v.range.empty()) rows[0]["range"] = v.range;
  const DataField* f = nullptr;
  errno = 0;
  result_t r = DataField::create(true, false, false, MAX_POS, g_templates, &rows, err, &f);
  if (r != RESULT_OK) { if (err->empty()) *err = getResultCode(r); else *err = string(getResultCode(r)) + ": " + *err; return nullptr; }
  return f;
}

struct Obs {
  result_t wr = RESULT_OK;
  vector<unsigned char> bytes;
  result_t rd = RESULT_OK;
  string decoded;
};
static Obs runWrite(const DataField* f, const string& text) {
  Obs o;
  MasterSymbolString m;
  for (unsigned char c : {0x10, 0xfe, 0xff, 0xff, 0x00}) m.push_back(c);
  std::istringstream in(text);
  size_t used = 0;
  errno = 0;  // C07 judges single operations from a clean thread state (history effects are C12)
  o.wr = f->write(UI_FIELD_SEPARATOR, 0, &in, &m, &used);
  R.transitions++;
  if (o.wr != RESULT_OK) return o;
  for (size_t i = 5; i < m.size(); i++) o.bytes.push_back(m[i]);
  m.adjustHeader();
  std::ostringstream os;
  errno = 0;
  o.rd = f->read(m, 0, false, nullptr, -1, OF_NONE, -1, &os);
  R.transitions++;
  o.decoded = os.str();
  return o;
}

// ------------------------------------------------------------------------------------ oracle
struct Verdict { bool bad = false; string rule, klass, detail; };

static const Dec P32 = Dec::fromI((i128)1 << 32), P64 = Dec::fromI((i128)1 << 64);

static string rangeClass(const Variant& v, const Dec& Xr /* in raw units */) {
  const RefType& t = *v.t;
  Dec ax = Xr.abs();
  if (cmpAbs(ax, P64) >= 0) return "beyond-64bit";
  if (cmpAbs(ax, P32) >= 0) return "beyond-32bit";
  if (!t.sig && Xr.neg) return "negative-unsigned";
  Dec w = Dec::fromI(t.sig ? (i128)1 << (t.bits - 1) : (i128)1 << t.bits);
  if (t.bcd || t.isBits) {
    if (cmp(Xr, Dec::fromI(t.maxRaw)) > 0) return "above-max";
  } else if (t.sig ? (cmp(Xr, w) >= 0 || cmp(Xr, w.negated()) < 0) : cmp(Xr, w) >= 0) {
    return "beyond-width";
  }
  if (!t.req) {
    i128 rp = t.repl;
    if (t.sig && (t.repl >> (t.bits - 1)) & 1) rp -= (i128)1 << t.bits;
    Dec d1 = sub(Xr, Dec::fromI(rp)).abs();
    if (cmpAbs(d1, Dec::fromI(1)) < 0) return "replacement-value";
  }
  if (cmp(Xr, Dec::fromI(t.maxRaw)) > 0 || cmp(Xr, Dec::fromI(t.minRaw)) < 0) return "type-min-max";
  return "configured-range";
}

// printed unit of the last digit of a decoded text (10^k) as Dec, for the decoder's own rounding
static Dec lastDigitUnit(const string& txt) {
  size_t e = txt.find_first_of("eE");
  string mant = txt.substr(0, e);
  long ex = e == string::npos ? 0 : atol(txt.c_str() + e + 1);
  size_t dot = mant.find('.');
  long frac = dot == string::npos ? 0 : (long)(mant.size() - dot - 1);
  Dec u; u.m = "1"; u.e = ex - frac;
  return u;
}

static string formClass(const Text& tx) {
  string k = tx.form;
  if (k == "exp" && tx.s.find('.') != string::npos) k = "pointexp";
  if (k == "blank-lead" || k == "blank-trail" || k == "blank-both") k = "blank";
  return k;
}

static Verdict judgeInt(const Variant& v, const Text& tx, const Parsed& P, const Dec& val, const Obs& o) {
  Verdict vd;
  const RefType& t = *v.t;
  uint64_t S = v.d > 0 ? 1 : (uint64_t)(-v.d);     // X units per raw unit
  Dec X = v.d > 0 ? mulU(val, (uint64_t)v.d) : val;  // requested value in X units
  Dec STEP = Dec::fromI((i128)S);
  int64_t lo = t.minRaw, hi = t.maxRaw;
  if (v.hasCfg) { lo = std::max(lo, v.cfgLo); hi = std::min(hi, v.cfgHi); }
  Dec LO = mulU(Dec::fromI(lo), S), HI = mulU(Dec::fromI(hi), S);
  // raw units value of the request (X / S) only needed for the class: scale the thresholds instead
  auto klass = [&]() {
    // magnitude class of the request; texts that combine a decimal point with an exponent are kept apart
    bool ok = true; Dec xr = S == 1 ? X : divExact(X, S, &ok, 40);
    if (v.d == 1 && string(tx.form) == "exp" && tx.s.find('.') != string::npos) return string("pointexp");
    return rangeClass(v, xr);
  };
  int64_t Rv = 0; bool isRepl = false;
  bool valid = refRaw(t, o.bytes.data(), o.bytes.size(), &Rv, &isRepl);
  char b[256];
  if (v.isList()) {
    bool near = false;
    for (auto& kv : v.list) if (cmpAbs(sub(val, Dec::fromI(kv.first)), Dec::fromI(1)) < 0) near = true;
    if (!near) { vd.bad = true; vd.rule = "accepted-not-in-list"; vd.klass = klass(); vd.detail = "no list key within one unit of the requested value"; return vd; }
    bool isKey = false;
    for (auto& kv : v.list) if (kv.first == Rv) isKey = true;
    if (!valid || isRepl || !isKey || cmpAbs(sub(val, Dec::fromI(Rv)), Dec::fromI(1)) >= 0) {
      vd.bad = true; vd.rule = "value-changed"; vd.klass = formClass(tx);
      snprintf(b, sizeof(b), "encoded list key %lld does not match the requested value", (long long)Rv); vd.detail = b; return vd;
    }
    return vd;
  }
  if (cmp(X, sub(LO, STEP)) <= 0 || cmp(X, add(HI, STEP)) >= 0) {
    vd.bad = true; vd.rule = "accepted-out-of-range"; vd.klass = klass();
    snprintf(b, sizeof(b), "allowed raw range [%lld,%lld], requested raw-domain value %s", (long long)lo, (long long)hi, toPlain(X).c_str());
    vd.detail = b;
    return vd;
  }
  if (!valid) { vd.bad = true; vd.rule = "invalid-encoding"; vd.klass = tx.form; vd.detail = "written bytes are not a valid encoding of the type"; return vd; }
  if (isRepl) { vd.bad = true; vd.rule = "wrote-replacement"; vd.klass = tx.form; vd.detail = "numeric text produced the replacement (null) pattern"; return vd; }
  if (Rv < lo || Rv > hi) {
    vd.bad = true; vd.rule = "encoded-out-of-range"; vd.klass = klass();
    snprintf(b, sizeof(b), "encoded raw %lld outside [%lld,%lld]", (long long)Rv, (long long)lo, (long long)hi); vd.detail = b; return vd;
  }
  Dec RX = mulU(Dec::fromI(Rv), S);
  if (cmpAbs(sub(RX, X), STEP) > 0) {
    vd.bad = true; vd.rule = "value-changed"; vd.klass = formClass(tx);
    snprintf(b, sizeof(b), "encoded raw %lld is more than one resolution step away from requested %s (raw domain)", (long long)Rv, toPlain(X).c_str());
    vd.detail = b; return vd;
  }
  // the real decoder on the written bytes
  if (o.rd != RESULT_OK) { vd.bad = true; vd.rule = "decode-fails"; vd.klass = tx.form; vd.detail = string("decode of the written bytes returns ") + getResultCode(o.rd); return vd; }
  Parsed D = parseNumber(o.decoded);
  if (D.wf == WF_NO) { vd.bad = true; vd.rule = "decode-mismatch"; vd.klass = tx.form; vd.detail = "decoded text '" + o.decoded + "' is not a number"; return vd; }
  Dec DX = v.d > 0 ? mulU(D.v, (uint64_t)v.d) : D.v;
  Dec tol = STEP;
  // the decoder's own rounding: half a unit of its last printed digit, and float arithmetic for large raws
  Dec ulp = lastDigitUnit(o.decoded);
  Dec halfUlp = mulU(shift10(ulp, -1), 5);
  tol = add(tol, v.d > 0 ? mulU(halfUlp, (uint64_t)v.d) : halfUlp);
  if (v.d != 1 && (Rv >= (1 << 24) || Rv <= -(1 << 24) || cmpAbs(RX, Dec::fromI(1 << 24)) >= 0)) tol = add(tol, divCeilAbs(RX, 1 << 22));
  if (cmpAbs(sub(DX, X), tol) > 0) {
    vd.bad = true; vd.rule = "decode-mismatch"; vd.klass = tx.form;
    vd.detail = "decoded '" + o.decoded + "' is more than one resolution step away from the requested value " + toPlain(val);
    return vd;
  }
  return vd;
}

static long double floatOfBytes(const RefType& t, const vector<unsigned char>& by) {
  vector<unsigned char> b = by;
  if (t.rev) std::reverse(b.begin(), b.end());
  uint32_t u = 0;
  for (size_t i = 0; i < 4 && i < b.size(); i++) u |= (uint32_t)b[i] << (8 * i);
  float f; memcpy(&f, &u, 4);
  return f;
}
static const long double FMAX = 1.70141173319264429906e38L;  // 0x7effffff, the type's stated maximum

static Verdict judgeFloat(const Variant& v, const Text& tx, const Dec& val, const Obs& o) {
  Verdict vd;
  long double x = toLD(val);
  long double scale = v.d > 0 ? (long double)v.d : 1.0L / (long double)(-v.d);  // stored = value * scale
  long double lo = -FMAX / scale, hi = FMAX / scale;
  if (v.hasCfg) { lo = std::max(lo, v.fLo); hi = std::min(hi, v.fHi); }
  long double band = std::max(fabsl(hi), fabsl(lo)) * 1e-6L + 1e-40L;
  if (x < lo - band || x > hi + band) {
    vd.bad = true; vd.rule = "accepted-out-of-range"; vd.klass = v.hasCfg && fabsl(x) * scale <= FMAX ? "configured-range" : "beyond-float";
    vd.detail = "requested value outside the representable / configured range"; return vd;
  }
  long double f = floatOfBytes(*v.t, o.bytes);
  if (!std::isfinite((double)f) || o.bytes.size() != 4) { vd.bad = true; vd.rule = "wrote-replacement"; vd.klass = tx.form; vd.detail = "written bytes are NaN/inf"; return vd; }
  long double got = f / scale;
  long double tol = fabsl(x) * 2.4e-7L + 1.5e-45L / scale;
  if (fabsl(got - x) > tol) { vd.bad = true; vd.rule = "value-changed"; vd.klass = tx.form; vd.detail = "encoded float is more than one ulp away from the requested value"; return vd; }
  if (o.rd != RESULT_OK) { vd.bad = true; vd.rule = "decode-fails"; vd.klass = tx.form; vd.detail = string("decode of the written bytes returns ") + getResultCode(o.rd); return vd; }
  Parsed D = parseNumber(o.decoded);
  if (D.wf == WF_NO) { vd.bad = true; vd.rule = "decode-mismatch"; vd.klass = tx.form; vd.detail = "decoded text '" + o.decoded + "' is not a number"; return vd; }
  long double dx = toLD(D.v);
  long double ulp = toLD(lastDigitUnit(o.decoded));
  if (fabsl(dx - x) > tol + 0.5L * ulp + fabsl(x) * 1e-7L) { vd.bad = true; vd.rule = "decode-mismatch"; vd.klass = tx.form; vd.detail = "decoded '" + o.decoded + "' differs from the requested value"; return vd; }
  return vd;
}

static string typeClass(const Variant& v) {
  string c = v.isList() ? "list" : v.t->cls;
  if (c == "hcd") c = "bcd";
  c += v.d == 1 ? ".div1" : (v.d > 0 ? ".div" : ".mul");
  return c;
}

// evaluates one (variant, text); returns the verdict and fills log if wanted
static Verdict evalCase(const Variant& v, const DataField* f, const Text& tx, string* log) {
  Parsed P = parseNumber(tx.s);
  Obs o = runWrite(f, tx.s);
  R.evaluations++;
  R.tracesValidated++;
  bool accepted = o.wr == RESULT_OK;
  Verdict vd;
  const RefType& t = *v.t;
  if (log) {
    char b[400];
    snprintf(b, sizeof(b), "definition: type=%s divisor=%s values=%s range=%s (effective divisor %lld)\ntext: '%s' (form %s)\n",
             t.id, v.div.c_str(), v.values.c_str(), v.range.c_str(), (long long)v.d, vp::jsonEscape(tx.s).c_str(), tx.form);
    *log += b;
    snprintf(b, sizeof(b), "reference: wellformed=%s value=%s%s\n", P.nullToken ? "null-token" : (P.wf == WF_YES ? "yes" : P.wf == WF_MAYBE ? "open" : "no"),
             P.wf == WF_NO ? "-" : toPlain(P.v).c_str(), P.hasAlt ? (" alt(octal)=" + toPlain(P.alt)).c_str() : "");
    *log += b;
    snprintf(b, sizeof(b), "observed: write=%s bytes=%s decode=%s '%s'\n", getResultCode(o.wr), vp::hex(o.bytes.data(), o.bytes.size()).c_str(),
             accepted ? getResultCode(o.rd) : "-", o.decoded.c_str());
    *log += b;
  }
  if (!accepted) { R.count(P.wf == WF_NO && !(P.nullToken && !t.req) ? "rejected_malformed" : "rejected_wellformed"); return vd; }
  bool isName = false;
  int64_t nameKey = 0;
  for (auto& kv : v.list) if (kv.second == tx.s) { isName = true; nameKey = kv.first; }
  if (isName) {
    int64_t Rv; bool isRepl;
    bool valid = refRaw(t, o.bytes.data(), o.bytes.size(), &Rv, &isRepl);
    if (!valid || Rv != nameKey) { vd.bad = true; vd.rule = "value-changed"; vd.klass = "name"; vd.detail = "list name encoded as a different key"; }
    R.count("accepted_ok");
    return vd;
  }
  if (P.nullToken) {
    if (t.req) {
      // a type without replacement value has no null: '-' may only be accepted if it stays '-' when decoded
      // (value lists print an unnamed raw value 0 as '-'), never if it silently becomes a regular value
      if (v.isList() && o.rd == RESULT_OK && o.decoded == "-") { R.count("accepted_null"); return vd; }
      vd.bad = true; vd.rule = "accepted-malformed"; vd.klass = "null-token-no-replacement";
      vd.detail = "'-' accepted by a type without replacement value and stored as '" + o.decoded + "'"; return vd;
    }
    int64_t Rv; bool isRepl = false;
    if (t.isFloat) { long double f2 = floatOfBytes(t, o.bytes); isRepl = !std::isfinite((double)f2); }
    else refRaw(t, o.bytes.data(), o.bytes.size(), &Rv, &isRepl);
    if (!isRepl) { vd.bad = true; vd.rule = "value-changed"; vd.klass = "null-token"; vd.detail = "'-' did not produce the replacement pattern"; }
    R.count("accepted_null");
    return vd;
  }
  if (P.wf == WF_NO) {
    vd.bad = true; vd.rule = "accepted-malformed"; vd.klass = tx.form;
    vd.detail = "malformed text accepted, bytes " + vp::hex(o.bytes.data(), o.bytes.size()) + " decode '" + o.decoded + "'";
    return vd;
  }
  vd = t.isFloat ? judgeFloat(v, tx, P.v, o) : judgeInt(v, tx, P, P.v, o);
  if (vd.bad && P.hasAlt) {
    Verdict alt = t.isFloat ? judgeFloat(v, tx, P.alt, o) : judgeInt(v, tx, P, P.alt, o);
    if (!alt.bad) vd = alt;  // the C (octal) reading is also admissible for superfluous leading zeros
  }
  if (!vd.bad) R.count(P.wf == WF_YES ? "accepted_ok" : "accepted_open_form");
  return vd;
}

// ------------------------------------------------------------------------------------ float entry (data handlers)
static Verdict evalFloat(const Variant& v, const NumberDataType* nt, float fv, string* log) {
  Verdict vd;
  const RefType& t = *v.t;
  unsigned int raw = 0;
  errno = 0;
  result_t r = nt->getRawValueFromFloat(fv, &raw);
  R.evaluations++; R.transitions++; R.tracesValidated++;
  if (log) {
    char b[300];
    snprintf(b, sizeof(b), "definition: type=%s divisor=%s range=%s (effective divisor %lld)\ngetRawValueFromFloat(%.9g) -> %s raw=0x%x\n",
             t.id, v.div.c_str(), v.range.c_str(), (long long)v.d, (double)fv, getResultCode(r), r == RESULT_OK ? raw : 0);
    *log += b;
  }
  if (r != RESULT_OK) return vd;
  if (!std::isfinite(fv)) { vd.bad = true; vd.rule = "float-accepted-malformed"; vd.klass = std::isnan(fv) ? "nan" : "inf"; vd.detail = "non-finite float accepted"; return vd; }
  if (t.isFloat) {
    float f; uint32_t u = raw; memcpy(&f, &u, 4);
    long double scale = v.d > 0 ? (long double)v.d : 1.0L / (long double)(-v.d);
    long double x = fv;
    if (!std::isfinite(f) || fabsl((long double)f / scale - x) > fabsl(x) * 2.4e-7L + 1.5e-45L / scale) { vd.bad = true; vd.rule = "float-value-changed"; vd.klass = "float"; vd.detail = "raw float differs from the requested value"; }
    return vd;
  }
  long double S = v.d > 0 ? 1.0L : (long double)(-v.d);
  long double X = v.d > 0 ? (long double)fv * (long double)v.d : (long double)fv;
  int64_t lo = t.minRaw, hi = t.maxRaw;
  if (v.hasCfg) { lo = std::max(lo, v.cfgLo); hi = std::min(hi, v.cfgHi); }
  if (X <= lo * S - S || X >= hi * S + S) {
    vd.bad = true; vd.rule = "float-accepted-out-of-range";
    bool ok; Dec xr = Dec::fromI((i128)(X / S));
    (void)ok;
    vd.klass = rangeClass(v, xr);
    vd.detail = "float value outside the allowed raw range accepted";
    return vd;
  }
  int64_t Rv = raw;
  if (t.bits < 32) Rv &= ((int64_t)1 << t.bits) - 1;
  if (t.sig && (Rv >> (t.bits - 1)) & 1) Rv -= (int64_t)1 << t.bits;
  if (!t.req && (uint32_t)raw == t.repl) { vd.bad = true; vd.rule = "float-wrote-replacement"; vd.klass = "float"; vd.detail = "float produced the replacement raw value"; return vd; }
  if (fabsl(Rv * S - X) > S) { vd.bad = true; vd.rule = "float-value-changed"; vd.klass = "float"; char b[120]; snprintf(b, sizeof(b), "raw %lld is more than one step away from %.9g", (long long)Rv, (double)fv); vd.detail = b; }
  return vd;
}

static vector<float> floatInputs(const Variant& v, bool thorough) {
  vector<i128> bs;
  boundaryInts(v, thorough, &bs);
  vector<float> out;
  std::set<uint32_t> seen;
  auto add = [&](float f) { uint32_t u; memcpy(&u, &f, 4); if (seen.insert(u).second) out.push_back(f); };
  for (i128 b : bs) {
    long double x = (long double)b;
    add((float)x); add((float)(x + 0.5L)); add((float)(x - 0.5L));
    long double y = v.d > 0 ? x / (long double)v.d : x * (long double)(-v.d);
    add((float)y); add(nextafterf((float)y, INFINITY)); add(nextafterf((float)y, -INFINITY));
  }
  add(NAN); add(-NAN); add(INFINITY); add(-INFINITY); add(3.4e38f); add(-3.4e38f); add(1e-40f); add(-0.0f);
  return out;
}

// ------------------------------------------------------------------------------------ main
static string caseOf(const Variant& v, const string& text) {
  return string("k=w;type=") + v.t->id + ";div=" + v.div + ";vals=" + vp::hex((const unsigned char*)v.values.data(), v.values.size()) +
         ";range=" + v.range + ";tx=" + vp::hex((const unsigned char*)text.data(), text.size());
}
static string unhex(const string& h) {
  string o;
  for (size_t i = 0; i + 1 < h.size(); i += 2) o.push_back((char)strtoul(h.substr(i, 2).c_str(), 0, 16));
  return o;
}
static bool findVariant(const vector<Variant>& all, const string& type, const string& div, const string& vals, const string& range, Variant* out) {
  for (const Variant& v : all) if (type == v.t->id && div == v.div && vals == v.values && range == v.range) { *out = v; return true; }
  return false;
}

static int replay(const string& c) {
  auto m = vp::parseCase(c);
  vector<Variant> all = buildVariants(true);
  Variant v;
  if (!findVariant(all, m["type"], m["div"], unhex(m["vals"]), m["range"], &v)) { printf("unknown variant\n"); return 2; }
  string err;
  const DataField* f = createField(v, &err);
  if (!f) {
    printf("definition: type=%s divisor=%s values=%s range=%s\ndefinition rejected: %s\n", v.t->id, v.div.c_str(), v.values.c_str(), v.range.c_str(), err.c_str());
    if (m["k"] == "cfg") { printf("VIOLATES rule=config-rejected\n"); return 1; }
    return 0;
  }
  if (m["k"] == "cfg") { printf("definition: type=%s divisor=%s values=%s range=%s accepted\nOK\n", v.t->id, v.div.c_str(), v.values.c_str(), v.range.c_str()); return 0; }
  string log;
  Verdict vd;
  if (m["k"] == "f") {
    uint32_t u = (uint32_t)strtoul(m["f"].c_str(), 0, 16); float fv; memcpy(&fv, &u, 4);
    const NumberDataType* nt = reinterpret_cast<const NumberDataType*>(static_cast<const SingleDataField*>(f)->m_dataType);
    vd = evalFloat(v, nt, fv, &log);
  } else {
    string text = unhex(m["tx"]);
    Text tx{text, "replay"};
    for (const Text& t : genTexts(v, true)) if (t.s == text) tx.form = t.form;
    vd = evalCase(v, f, tx, &log);
  }
  printf("%s", log.c_str());
  if (vd.bad) printf("VIOLATES rule=%s class=%s: %s\n", vd.rule.c_str(), vd.klass.c_str(), vd.detail.c_str());
  else printf("OK\n");
  return vd.bad ? 1 : 0;
}

int main(int argc, char** argv) {
  vp::Args A = vp::parseArgs(argc, argv);
  g_types = typeTable();
  g_templates = new DataFieldTemplates();
  if (A.replay) return replay(A.replayCase);
  R.setDeadline(A);
  bool thorough = A.thorough();
  vector<Variant> all = buildVariants(thorough);
  size_t idx = 0, created = 0, refused = 0;
  for (const Variant& v : all) {
    if ((int)(idx++ % (size_t)A.nparts) != A.part) continue;
    if (R.expired()) break;
    string err;
    const DataField* f = createField(v, &err);
    if (!f) {
      // every variant of the enumerated universe is a valid definition (invalid divisor combinations are left out
      // when the variants are built): a refusal would make the check vacuous for this variant
      refused++; R.count("definitions_refused");
      R.violation("C07/config-rejected/" + typeClass(v) + (v.hasCfg ? "/range" : (v.isList() ? "/list" : "/plain")),
                  string("valid definition refused: ") + v.t->id + (v.div.empty() ? "" : "," + v.div) + (v.range.empty() ? "" : " range " + v.range) + (v.values.empty() ? "" : " values " + v.values) + ": " + err,
                  string("k=cfg;type=") + v.t->id + ";div=" + v.div + ";vals=" + vp::hex((const unsigned char*)v.values.data(), v.values.size()) + ";range=" + v.range);
      continue;
    }
    created++;
    R.count("definitions");
    vector<Text> texts = genTexts(v, thorough);
    string tc = typeClass(v);
    for (const Text& tx : texts) {
      Verdict vd = evalCase(v, f, tx, nullptr);
      R.distinct(vp::fnv(v.key() + "\x01" + tx.s));
      if (vd.bad) {
        string sig = "C07/" + vd.rule + "/" + tc + "/" + vd.klass;
        R.violation(sig, string(v.t->id) + (v.div.empty() ? "" : "," + v.div) + (v.range.empty() ? "" : " range " + v.range) + (v.values.empty() ? "" : " values " + v.values) +
                    " text '" + vp::jsonEscape(tx.s) + "': " + vd.detail, caseOf(v, tx.s));
      }
    }
    if (!v.isList() && !v.t->isBits) {
      const NumberDataType* nt = reinterpret_cast<const NumberDataType*>(static_cast<const SingleDataField*>(f)->m_dataType);
      for (float fv : floatInputs(v, thorough)) {
        Verdict vd = evalFloat(v, nt, fv, nullptr);
        uint32_t u; memcpy(&u, &fv, 4);
        R.distinct(vp::fnv(v.key() + "\x02" + std::to_string(u)));
        if (vd.bad) {
          char fb[16]; snprintf(fb, sizeof(fb), "%08x", u);
          string cs = string("k=f;type=") + v.t->id + ";div=" + v.div + ";vals=;range=" + v.range + ";f=" + fb;
          char d[200]; snprintf(d, sizeof(d), "%s%s%s float %.9g: %s", v.t->id, v.div.empty() ? "" : ("," + v.div).c_str(), v.range.empty() ? "" : (" range " + v.range).c_str(), (double)fv, vd.detail.c_str());
          R.violation("C07/" + vd.rule + "/" + tc + "/" + vd.klass, d, cs);
        }
      }
    }
    if (A.part == 0 && R.samples.size() < 5 && texts.size() > 40) {
      R.sample(string(v.t->id) + (v.div.empty() ? "" : "," + v.div) + (v.range.empty() ? "" : " range " + v.range) + ": " + std::to_string(texts.size()) +
               " texts, e.g. '" + texts[7].s + "' '" + texts[20].s + "' '" + texts[33].s + "' '" + texts[texts.size() / 2].s + "'");
    }
    delete f;
  }
  R.note("errno is cleared before every write: single operations are judged from a clean thread state");
  R.write(A.out);
  return 0;
}
