// C16 / C18 on the REAL MqttHandler (mqtthandler.cpp + mqttclient_mosquitto.cpp): no harness copy of the topic
// handling.  The broker is replaced by link-time stubs of the libmosquitto C functions (defined in this executable,
// they take precedence over the shared library): connect succeeds, publish records topic and payload.
//   --mode topics (C18 clause 3): every matchable topic template accepted by the real --mqtttopic option parser
//       (one forked child per template: the option can be given once per process) x every (circuit, name, field)
//       triple x {get, set}: the incoming topic <template filled in>/get resp. /set with a value must make the
//       handler send the telegram of exactly the message (circuit, name); list topics must not crash.
//   --mode levels (C16 "data sinks apply the same rule with their configured levels"): every small ACL (entry of
//       the user "mqtt" or none, default entry) x message level x {get, set, list, get with ?prio, update
//       notification}: telegrams / publications only for messages whose level the configured list holds.
#include <mosquitto.h>
#include <algorithm>
#include <set>
#include "mainloop_fixture.h"
#include "pollq.h"
#include "ebusd/mqtthandler.h"
#include "lib/ebus/stringhelper.h"
#include "lib/utils/arg.h"

using namespace ebusd;
using namespace fx;
using std::string;
using std::vector;

// ---- broker stubs -----------------------------------------------------------------------------------------
static vector<std::pair<string, string>> g_published;
static vector<string> g_subscribed;
struct mosquitto { void* obj; };
extern "C" {
int mosquitto_lib_version(int* major, int* minor, int* revision) { if (major) *major = LIBMOSQUITTO_MAJOR; if (minor) *minor = LIBMOSQUITTO_MINOR; if (revision) *revision = LIBMOSQUITTO_REVISION; return LIBMOSQUITTO_VERSION_NUMBER; }
int mosquitto_lib_init(void) { return MOSQ_ERR_SUCCESS; }
int mosquitto_lib_cleanup(void) { return MOSQ_ERR_SUCCESS; }
struct mosquitto* mosquitto_new(const char*, bool, void* obj) { auto* m = new mosquitto(); m->obj = obj; return m; }
void mosquitto_destroy(struct mosquitto* m) { delete m; }
int mosquitto_will_set(struct mosquitto*, const char*, int, const void*, int, bool) { return MOSQ_ERR_SUCCESS; }
int mosquitto_username_pw_set(struct mosquitto*, const char*, const char*) { return MOSQ_ERR_SUCCESS; }
int mosquitto_connect(struct mosquitto*, const char*, int, int) { return MOSQ_ERR_SUCCESS; }
int mosquitto_reconnect(struct mosquitto*) { return MOSQ_ERR_SUCCESS; }
int mosquitto_publish(struct mosquitto*, int*, const char* topic, int len, const void* payload, int, bool) {
  g_published.emplace_back(topic ? topic : "", string(payload ? static_cast<const char*>(payload) : "", payload ? len : 0));
  return MOSQ_ERR_SUCCESS;
}
int mosquitto_subscribe(struct mosquitto*, int*, const char* sub, int) { g_subscribed.push_back(sub ? sub : ""); return MOSQ_ERR_SUCCESS; }
int mosquitto_loop(struct mosquitto*, int, int) { return MOSQ_ERR_SUCCESS; }
int mosquitto_threaded_set(struct mosquitto*, bool) { return MOSQ_ERR_SUCCESS; }
int mosquitto_opts_set(struct mosquitto*, enum mosq_opt_t, void*) { return MOSQ_ERR_SUCCESS; }
int mosquitto_int_option(struct mosquitto*, enum mosq_opt_t, int) { return MOSQ_ERR_SUCCESS; }
void mosquitto_user_data_set(struct mosquitto* m, void* obj) { m->obj = obj; }
int mosquitto_tls_set(struct mosquitto*, const char*, const char*, const char*, const char*, int (*)(char*, int, int, void*)) { return MOSQ_ERR_SUCCESS; }
int mosquitto_tls_insecure_set(struct mosquitto*, bool) { return MOSQ_ERR_SUCCESS; }
void mosquitto_connect_callback_set(struct mosquitto*, void (*)(struct mosquitto*, void*, int)) {}
void mosquitto_disconnect_callback_set(struct mosquitto*, void (*)(struct mosquitto*, void*, int)) {}
void mosquitto_message_callback_set(struct mosquitto*, void (*)(struct mosquitto*, void*, const struct mosquitto_message*)) {}
void mosquitto_log_callback_set(struct mosquitto*, void (*)(struct mosquitto*, void*, int, const char*)) {}
const char* mosquitto_strerror(int) { return "stub"; }
}

static vp::Result R;
static string g_pid = "C18";

static bool refGranted(const string& level, const string& list) {
  if (level.empty() || list == "*") return true;
  size_t pos = 0;
  while (pos <= list.size()) {
    size_t e = list.find(';', pos);
    if (e == string::npos) e = list.size();
    if (e - pos == level.size() && list.compare(pos, e - pos, level) == 0) return true;
    pos = e + 1;
  }
  return false;
}
static string two(unsigned v) { char b[8]; snprintf(b, sizeof(b), "%02x", v); return b; }
static string withSep(string s, char from, char to) { std::replace(s.begin(), s.end(), from, to); return s; }

// gives the real option parser of mqtthandler.cpp an option (as main_args does for --mqtttopic=...)
static int mqttOption(const char* longName, char* arg) {
  const argParseChildOpt* o = mqtthandler_getargs();
  for (const argDef* d = o->argDefs; d && d->help; d++) {
    if (d->name && strcmp(d->name, longName) == 0) return o->parser(d->key, arg, nullptr, nullptr);
  }
  return -1;
}

// ================================ topics (C18) =============================================================
static const char* IDS[] = {"a", "ab", "b_1"};
static const char* FIELDS[] = {"circuit", "name", "field"};
struct Tmpl { string text; vector<int> order; };
static vector<Tmpl> allTemplates() {
  vector<string> consts = {"/", "ebusd/", "/x/"};
  vector<string> prefixes = {"", "ebusd/", "x/y/"};
  vector<string> suffixes = {"", "/s"};
  vector<vector<int>> orders;
  for (int mask = 1; mask < 8; mask++) {
    if (!(mask & 1) || !(mask & 2)) continue;  // the handler needs circuit and name to find a message
    vector<int> idx;
    for (int i = 0; i < 3; i++) if (mask & (1 << i)) idx.push_back(i);
    std::sort(idx.begin(), idx.end());
    do orders.push_back(idx); while (std::next_permutation(idx.begin(), idx.end()));
  }
  vector<Tmpl> out;
  for (auto& ord : orders) {
    size_t combos = 1;
    for (size_t i = 0; i + 1 < ord.size(); i++) combos *= consts.size();
    for (size_t cmb = 0; cmb < combos; cmb++) for (auto& pre : prefixes) for (auto& suf : suffixes) for (int brace = 0; brace < 2; brace++) {
      string t = pre;
      size_t x = cmb;
      for (size_t i = 0; i < ord.size(); i++) {
        t += brace ? string("%{") + FIELDS[ord[i]] + "}" : string("%") + FIELDS[ord[i]];
        if (i + 1 < ord.size()) { t += consts[x % consts.size()]; x /= consts.size(); }
      }
      t += suf;
      out.push_back(Tmpl{t, ord});
    }
  }
  return out;
}
static World* topicWorld() {
  std::ostringstream o;
  o << "# defs\n";
  unsigned id = 1;
  for (const char* c : IDS) for (const char* n : IDS) {
    o << "r," << c << "," << n << ",,,08,b509,0d" << two(id) << ",a,,UCH,,,,ab,,UCH,,,,b_1,,UCH\n";
    o << "w," << c << "," << n << ",,,08,b509,0e" << two(id) << ",a,,UCH\n";
    id++;
  }
  WorldConfig wc;
  wc.csv = o.str();
  wc.deleteData = false;
  World* w = new World(wc);
  if (w->loadResult != RESULT_OK) { fprintf(stderr, "topic definitions did not load: %s\n", w->loadError.c_str()); exit(3); }
  w->protocol->responder = [](const MasterSymbolString& m, SlaveSymbolString* s) {
    if (m.size() > 6 && m[5] == 0x0d) { s->push_back(3); s->push_back(1); s->push_back(2); s->push_back(3); } else { s->push_back(0); }
    return RESULT_OK;
  };
  return w;
}
static unsigned idOf(const string& c, const string& n) {
  unsigned id = 1;
  for (const char* cc : IDS) for (const char* nn : IDS) { if (c == cc && n == nn) return id; id++; }
  return 0;
}
// runs in a forked child: the template goes through the real option parser, then a real MqttHandler is built
// returns 0 fine, 30 = template refused by the option parser / not matchable (not judged), 21 = violation
static int topicChild(const Tmpl& t, bool log) {
  static char buf[256];
  snprintf(buf, sizeof(buf), "%s", t.text.c_str());
  if (mqttOption("mqtttopic", buf) != 0) { childSay("refused by the --mqtttopic option parser"); return 30; }
  {
    StringReplacer rep;
    if (!rep.parse(t.text, true, true) || !rep.checkMatchability()) { childSay("not matchable"); return 30; }
  }
  World* w = topicWorld();
  MqttHandler* h = new MqttHandler(&w->loop->m_userList, w->busHandler, w->messages);
  bool hasField = std::find(t.order.begin(), t.order.end(), 2) != t.order.end();
  uint32_t n = 0;
  for (const char* c : IDS) for (const char* nm : IDS) for (const char* f : IDS) for (const char* dir : {"get", "set"}) {
    // the topic a client builds from the configured template for (c, n, f)
    string topic;
    {
      string tt = t.text;
      auto rep = [&](const string& var, const string& val) {
        for (const string& pat : {"%{" + var + "}", "%" + var}) { size_t p = tt.find(pat); if (p != string::npos) { tt.replace(p, pat.size(), val); return; } }
      };
      rep("circuit", c); rep("name", nm); rep("field", f);
      topic = tt + "/" + dir;
    }
    if (!hasField && strcmp(f, IDS[0]) != 0) continue;
    w->protocol->sent.clear();
    g_published.clear();
    bool set = dir[0] == 's';
    h->notifyMqttTopic(topic, set ? "7" : "");
    string want = string("S:3108b509") + (set ? "030e" + two(idOf(c, nm)) + "07" : "020d" + two(idOf(c, nm)));
    n++;
    bool ok = w->protocol->sent.size() == 1 && w->protocol->sent[0] == want;
    if (log) printf("topic <%s> payload <%s> -> telegrams:%s%s, %zu publication(s); expected %s\n", topic.c_str(), set ? "7" : "",
                    w->protocol->sent.empty() ? " none" : "", [&]() { string s; for (auto& x : w->protocol->sent) s += " " + x; return s; }().c_str(), g_published.size(), want.c_str());
    if (!ok) {
      sharedPage()->idx = n;
      childSay(string("triple=") + c + "," + nm + "," + f + ";dir=" + dir + "\ntopic <" + topic + "> built from template <" + t.text + "> for (" + c + "," + nm + "," + f +
               "): the handler sent [" + (w->protocol->sent.empty() ? string("nothing") : w->protocol->sent[0]) + "], the message (" + c + "," + nm + ") is " + want);
      return 21;
    }
    // list topic of the same triple must be handled without harm
    h->notifyMqttTopic(topic.substr(0, topic.size() - 3) + "list", "");
  }
  sharedPage()->idx = n;
  childSay("ok");
  return 0;
}

// ================================ levels (C16) =============================================================
static vector<string> namesOver(const string& alpha, size_t maxLen) {
  vector<string> out, cur = {""};
  for (size_t l = 1; l <= maxLen; l++) {
    vector<string> next;
    for (auto& p : cur) for (char c : alpha) next.push_back(p + c);
    out.insert(out.end(), next.begin(), next.end());
    cur = next;
  }
  return out;
}
static vector<string> listsOf(const vector<string>& names, size_t maxN) {
  vector<string> out = {""}, cur = {""};
  for (size_t n = 1; n <= maxN; n++) {
    vector<string> next;
    for (auto& p : cur) for (auto& nm : names) next.push_back(p.empty() ? nm : p + ";" + nm);
    out.insert(out.end(), next.begin(), next.end());
    cur = next;
  }
  out.push_back("*");
  return out;
}
struct LvlCtx { World* w; vector<string> levels; vector<Message*> rd, wr, pv; };
static LvlCtx* levelWorld(bool thorough) {
  {  // a configured broker port makes the daemon register its MQTT handler (MainLoop constructor)
    static char port[8] = "1883";
    if (mqttOption("mqttport", port) != 0) { fprintf(stderr, "mqtt_real: --mqttport refused\n"); exit(3); }
  }
  LvlCtx* c = new LvlCtx();
  c->levels = {""};
  for (auto& n : namesOver(thorough ? "abc" : "ab", 2)) c->levels.push_back(n);
  for (const char* n : {"A", "aA"}) c->levels.push_back(n);
  std::ostringstream o;
  o << "# defs\n";
  for (size_t i = 0; i < c->levels.size(); i++) {
    string circ = "c" + (c->levels[i].empty() ? "" : "#" + c->levels[i]);
    o << "r," << circ << ",m" << two(i + 1) << ",,,08,b509,0d" << two(i + 1) << ",v,,UCH\n";
    o << "w," << circ << ",w" << two(i + 1) << ",,,08,b509,0e" << two(i + 1) << ",v,,UCH\n";
    o << "u," << circ << ",p" << two(i + 1) << ",,,08,b509,0f" << two(i + 1) << ",v,,UCH\n";
  }
  WorldConfig wc;
  wc.csv = o.str();
  c->w = new World(wc);
  if (c->w->loadResult != RESULT_OK) { fprintf(stderr, "level definitions did not load: %s\n", c->w->loadError.c_str()); exit(3); }
  for (size_t i = 0; i < c->levels.size(); i++) {
    c->rd.push_back(c->w->messages->find("c", "m" + two(i + 1), "*", false));
    c->wr.push_back(c->w->messages->find("c", "w" + two(i + 1), "*", true));
    c->pv.push_back(c->w->messages->find("c", "p" + two(i + 1), "*", false, true));
    if (!c->rd.back() || !c->wr.back() || !c->pv.back()) { fprintf(stderr, "fixture: level messages missing\n"); exit(3); }
  }
  return c;
}
static const char* LFORMS[] = {"get", "getprio", "set", "list", "getpassive", "update"};
// D = default entry, M = entry of the user mqtt ("-" = no such user)
static string levelCase(LvlCtx* c, const string& D, const string& M, size_t mi, const string& form, bool log) {
  static string curAcl = "?";
  if (curAcl != D + "|" + M) {  // the MainLoop constructor reads the ACL file
    curAcl = D + "|" + M;
    std::ostringstream f;
    f << "# name,secret,level...\n*,," << withSep(D, ';', ',') << "\n";
    if (M != "-") f << "mqtt,pw," << withSep(M, ';', ',') << "\n";
    f << "other,pw,*\n";
    c->w->newLoop("", true, f.str());
  }
  for (auto* v : {&c->rd, &c->wr, &c->pv}) for (Message* m : *v) { m->m_lastUpdateTime = 0; m->m_lastChangeTime = 0; m->m_pollPriority = 0; m->m_lastMasterData.clear(); m->m_lastSlaveData.clear(); }
  vp::pollQueueClear(&c->w->messages->m_pollMessages);
  g_now += 1000;
  string eff = M == "-" ? D : M;
  bool granted = refGranted(c->levels[mi], eff);
  // the handler is the one the MainLoop constructor itself registered (datahandler_register): its levels are whatever
  // the daemon's start-up order made of the ACL file and the options
  MqttHandler* hp = nullptr;
  for (auto dh : c->w->loop->m_dataHandlers) if (auto mh = dynamic_cast<MqttHandler*>(dh)) hp = mh;
  if (!hp) { fprintf(stderr, "mqtt_real: the MainLoop constructor registered no MqttHandler\n"); exit(3); }
  MqttHandler& h = *hp;
  h.m_updatedMessages.clear();
  string ii = two(mi + 1);
  if (form == "getpassive" || form == "list") {  // data on the passive / read message, seen on the bus
    MasterSymbolString m; SlaveSymbolString s;
    m.parseHex(form == "list" ? "1008b509020d" + ii : "1008b509020f" + ii); s.parseHex("012a");
    c->w->busHandler->notifyProtocolMessage(md_recv, m, s);
  }
  c->w->protocol->sent.clear();
  g_published.clear();
  string topic, want;
  if (form == "get") { topic = "ebusd/c/m" + ii + "/get"; want = "S:3108b509020d" + ii; }
  else if (form == "getprio") { topic = "ebusd/c/m" + ii + "/get?3"; want = "S:3108b509020d" + ii; }
  else if (form == "set") { topic = "ebusd/c/w" + ii + "/set"; want = "S:3108b509030e" + ii + "07"; }
  else if (form == "list") topic = "ebusd/c/m" + ii + "/list";
  else if (form == "getpassive") topic = "ebusd/c/p" + ii + "/get";
  if (form == "update") h.notifyUpdate(c->rd[mi], true); else h.notifyMqttTopic(topic, form == "set" ? "7" : form == "list" ? "1" : "");
  const vector<string>& sent = c->w->protocol->sent;
  bool pub = false;
  for (auto& p : g_published) if (p.first.find("/c/") != string::npos) pub = true;
  bool updated = h.m_updatedMessages.count(c->rd[mi]->getKey()) > 0;
  if (log) {
    printf("default entry \"%s\", entry of user mqtt %s -> configured levels \"%s\"; message level \"%s\" -> %s\n", D.c_str(), M == "-" ? "absent" : ("\"" + M + "\"").c_str(),
           eff.c_str(), c->levels[mi].c_str(), granted ? "GRANTED" : "DENIED");
    printf("handler levels \"%s\"; %s <%s>: telegrams:", h.m_levels.c_str(), form.c_str(), topic.c_str());
    for (auto& x : sent) printf(" %s", x.c_str());
    printf("%s; publications about the circuit: %s; poll priority %zu; update recorded: %s\n", sent.empty() ? " none" : "", pub ? "yes" : "no", c->rd[mi]->getPollPriority(), updated ? "yes" : "no");
  }
  if (form == "update") return granted == updated ? "" : granted ? "granted-not-forwarded" : "denied-forwarded";
  if (granted) {
    if (!want.empty() && (sent.size() != 1 || sent[0] != want)) return "granted-refused";
    if (want.empty() && !pub) return "granted-refused";
    if (form == "getprio" && c->rd[mi]->getPollPriority() != 3) return "granted-poll-not-set";
    return "";
  }
  if (!sent.empty()) return "denied-bus-access";
  if (pub) return "denied-answered";
  if (c->rd[mi]->getPollPriority() != 0) return "denied-poll-set";
  return "";
}

static int replay(const string& cs) {
  auto m = vp::parseCase(cs);
  string rule;
  if (m["k"] == "topic") {
    Tmpl t{fromHex(m["t"]), {}};
    for (char ch : m["ord"]) t.order.push_back(ch - '0');
    string err = procTmpDir() + "/stderr.txt";
    printf("template <%s>\n", t.text.c_str());
    fflush(stdout);
    // the child prints the log itself (stdout of the child is the replay output)
    pid_t pid = fork();
    if (pid == 0) { int rc = topicChild(t, true); fflush(stdout); _exit(rc); }
    int st = 0;
    waitpid(pid, &st, 0);
    int code = WIFEXITED(st) ? WEXITSTATUS(st) : 99;
    printf("%s\n", sharedPage()->text);
    rule = code == 0 || code == 30 ? "" : code == 21 ? "wrong-message" : "crash";
    rmTree(procTmpDir());
  } else {
    LvlCtx* c = levelWorld(m["set"] == "t");
    rule = levelCase(c, withSep(m["D"], ',', ';'), m["M"] == "-" ? "-" : withSep(m["M"], ',', ';'), strtoul(m["mi"].c_str(), nullptr, 10), m["form"], true);
    rmTree(c->w->tmp);
  }
  printf("%s\n", rule.empty() ? "OK" : ("VIOLATES rule " + rule).c_str());
  return rule.empty() ? 0 : 1;
}

int main(int argc, char** argv) {
  setenv("TZ", "UTC", 1);
  vp::Args A = vp::parseArgs(argc, argv);
  if (A.replay) return replay(A.replayCase);
  R.setDeadline(A);
  string mode = A.get("mode", "topics");
  if (mode == "topics") {
    vector<Tmpl> ts = allTemplates();
    string tmp = procTmpDir();
    string err = tmp + "/stderr.txt";
    for (size_t i = 0; i < ts.size() && !R.expired(); i++) {
      if (static_cast<int>(i % A.nparts) != A.part) continue;
      const Tmpl& t = ts[i];
      ChildResult cr = runIsolated(err, 60, [&]() { return topicChild(t, false); });
      string ord;
      for (int o : t.order) ord += static_cast<char>('0' + o);
      string cs = "k=topic;t=" + toHex(t.text) + ";ord=" + ord;
      if (cr.kind == 0 && cr.code == 30) { R.count(cr.detail.find("option parser") != string::npos ? "templates_refused_by_option_parser" : "templates_not_matchable"); continue; }
      R.evaluations += cr.idx; R.tracesValidated += cr.idx; R.transitions += 2 * cr.idx;
      R.distinct("t|" + t.text);
      if (cr.kind == 0 && cr.code == 0) continue;
      string rule = cr.kind == 0 && cr.code == 21 ? "wrong-message" : cr.kind == 2 ? string("signal-") + sigName(cr.code) : "abnormal-exit";
      string cls = t.order.back() == 2 ? "ends-with-field" : t.text.back() == 's' ? "constant-suffix" : "ends-with-variable";
      R.violation("C18/mqtt-handler/" + rule + "/" + cls, esc(cr.detail.substr(0, 400)), cs);
    }
    R.sample("real MqttHandler, --mqtttopic=ebusd/%circuit/%name/%field: incoming topic ebusd/ab/b_1/a/set with payload 7 must send the write telegram of message (ab,b_1)");
    rmTree(tmp);
  } else {
    bool th = A.thorough();
    LvlCtx* c = levelWorld(th);
    vector<string> names = namesOver(th ? "abc" : "ab", 2);
    for (const char* n : {"A", "aA"}) names.push_back(n);
    vector<string> Ms = listsOf(names, 2), Ds = listsOf(names, 1);
    Ms.push_back("-");
    size_t idx = 0;
    for (auto& D : Ds) for (auto& M : Ms) {
      if ((idx++ % A.nparts) != static_cast<size_t>(A.part) || R.expired()) continue;
      R.state("acl|" + D + "|" + M);
      for (size_t mi = 0; mi < c->levels.size(); mi++) for (const char* form : LFORMS) {
        R.evaluations++; R.tracesValidated++; R.transitions += 2;
        R.distinct(D + "|" + M + "|" + c->levels[mi] + "|" + form);
        string rule = levelCase(c, D, M, mi, form, false);
        if (!rule.empty()) R.violation("C16/mqtt-handler/" + rule + "/" + form, "default \"" + D + "\", mqtt user " + (M == "-" ? "absent" : "\"" + M + "\"") + ", level \"" + c->levels[mi] + "\"",
                                       "k=lvl;set=" + string(th ? "t" : "q") + ";D=" + withSep(D, ';', ',') + ";M=" + (M == "-" ? "-" : withSep(M, ';', ',')) + ";mi=" + std::to_string(mi) + ";form=" + form);
      }
    }
    R.sample("real MqttHandler with the levels of ACL user mqtt (or the default entry): topic ebusd/c/m03/get of a message whose level is not in the list must not reach the bus");
    rmTree(c->w->tmp);
  }
  R.write(A.out);
  return 0;
}
