#!/usr/bin/env python3
"""Regenerate MANIFEST.json from vlib/checks.py (run after editing checks)."""
import json, os, sys
sys.path.insert(0, os.path.dirname(os.path.dirname(os.path.abspath(__file__))))
from vlib.checks import CHECKS, NOT_APPLICABLE, ENGINES, READY
CHECKS = {k: v for k, v in CHECKS.items() if k in READY}

VERIF = os.path.dirname(os.path.dirname(os.path.abspath(__file__)))
props = [json.loads(l)["id"] for l in open(os.path.join(VERIF, "properties.jsonl"))]
checks = []
for pid in props:
    if pid not in CHECKS:
        continue
    c = CHECKS[pid]
    e = {
        "property_id": pid,
        "quick_cmd": "bin/vcheck %s quick" % pid,
        "thorough_cmd": "bin/vcheck %s thorough" % pid,
        "evidence_file": "/verif/evidence/%s.json" % pid,
        "replay_cmd_template": "bin/vcheck %s --replay {path}" % pid,
        "engine": c.get("engine", ""),
        "level_claimed": {"category": c["level"], "text": c["level_text"], "design_ref": c.get("design_ref", "")},
        "level_note": c["level_note"],
        "technique": c["technique"],
    }
    checks.append(e)
na = [{"property_id": p, "reason": NOT_APPLICABLE.get(p, "check not built yet in this revision of /verif")}
      for p in props if p not in CHECKS]
m = {
    "version": 1,
    "setup_cmd": "python3 vlib/build.py plain:full san:full schedsan:core tsan:core && python3 vlib/selftest.py",
    "hooks": {
        "guard": "EBUSD_VERIF",
        "enable": "no source hooks are needed: harnesses compile /repo/src directly (vlib/build.py), reach private state "
                  "with -fno-access-control and own time/I/O/threads by link-time interposition; the guard is reserved",
        "baseline_off_cmd": "cmake -G Ninja -S /repo -B /repo/_build -DCMAKE_BUILD_TYPE=RelWithDebInfo -DBUILD_TESTING=ON "
                            "&& cmake --build /repo/_build && ctest --test-dir /repo/_build -j8 --timeout 900",
        "source_commits": [],
        "add_only": True,
    },
    "engines": ENGINES,
    "checks": checks,
    "not_applicable": na,
    "notes": "All checks explore the real ebusd code (recompiled from /repo's working tree) exhaustively within the "
             "bounds stated in each evidence file; see DESIGN.md. known_findings.json lists genuine defects recorded "
             "rather than repaired and the fix: commits made.",
}
with open(os.path.join(VERIF, "MANIFEST.json"), "w") as f:
    json.dump(m, f, indent=1)
    f.write("\n")
print("MANIFEST.json: %d checks, %d not_applicable" % (len(checks), len(na)))
