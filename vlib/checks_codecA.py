"""Check definitions of builder codecA: C05 (decoding yields the specified value), C06 (encoding inverts decoding)."""

CHECKS = {}

_DEPS = ["engines/codec/refcodec.h", "engines/codec/codecA_harness.h"]

_DOMAINS = (
    "field definitions are built through DataField::create and driven through DataField::read/write; "
    "every registered type id (a registered id without reference specification is reported as a cap); "
    "numeric types x divisors {none, 10, 100, 1000, -10, -100, -1000} (on top of the built-in divisor); "
    "all 256 / 65536 raw patterns of every 1- and 2-byte type; 3-byte types: product of a 16-value byte alphabet "
    "{00,01,09,0a,10,12,63,64,7f,80,81,99,9a,a9,fe,ff} plus +-4 neighbourhoods of every power of two, min, max and "
    "the replacement%s; 4-byte types: alphabet product (65536) plus the neighbourhoods; BI0..BI7 with every admissible "
    "bit count x {none,10,-10}; EXP/EXR: all 256 exponents x sign x %s mantissas plus the 4-byte domain, x 7 divisors%s; "
    "BDA/BDZ/HDA (3- and 4-byte forms): every calendar day 2000-2099 x %s weekday bytes plus the generic domain; "
    "DAY, MIN: all 65536; DTM: every day of the range x 9 minute values, every minute of the first and last three days, "
    "3000 values beyond the maximum and around 2^31/2^32, plus the 4-byte domain; BTI/HTI/VTI: every second of the day "
    "plus the generic domain; BTM/HTM/VTM/TTM/TTH/TTQ/BDY/HDY: all patterns; STR/NTS/HEX/IGN: every string of length "
    "1..4 over a 12-byte alphabet, lengths 5..31 and '*' with 6 pattern families; value lists on 32 type/list "
    "combinations (word names and number-like names); configured ranges (from-to with every sign combination of "
    "the bounds, signed and unsigned, with and without divisor) on 49 type/divisor/range combinations; TEM_P in master "
    "and slave data: all 65536; KNX 16-bit float: all 65536."
)

CHECKS["C05"] = {
    "engine": "codec", "design_ref": "5/C05",
    "level": "exploration",
    "level_text": "plain exhaustive enumeration of finite input domains (no operation histories): every enumerated raw "
                  "pattern x definition x output format is decoded by the real DataField::read path and judged by an "
                  "independent exact-arithmetic reference (type table from the type comments, __int128 rationals, "
                  "proleptic Gregorian calendar); 1- and 2-byte domains are complete, wider domains are structured "
                  "subsets or (thorough) complete 2^24 sweeps",
    "level_note": "trusts the reference codec (self-tested on hand-computed facts at start-up) and its three-valued "
                  "judgement: exact decimal ties, partial nulls, non-existent calendar days (30.02.), 24:00, values "
                  "outside a value list, IEEE top binade and non-printable characters are don't-care; IEEE texts are "
                  "compared in 80-bit extended precision with a guard band; the 2^-23 relative error of binary32 "
                  "arithmetic is admitted only for |raw| >= 2^24 with a divisor and for EXP/EXR with a divisor; errno "
                  "is cleared before each call (C12's subject)",
    "technique": "bounded-exhaustive enumeration of the real decode paths against an exact-arithmetic reference codec",
    "rule": "one evaluation = one (definition, raw pattern, output format) decoded by the real code and judged; formats: "
            "text and JSON everywhere, additionally OF_NUMERIC / OF_VALUENAME (text and JSON) for value lists; distinct = "
            "distinct (definition, format, result, produced text) outcomes (statistic saturates at 300000 per partition). " +
            _DOMAINS % ("", "27", "", "12"),
    "assumptions": [
        "reference type table = type comments and constructor parameters (bit count, replacement, min, max, divisor) "
        "in DataTypeList::DataTypeList; number of decimals of a divisor d = smallest p with 10^p >= d",
        "a printed number is correct iff |printed - exact| <= 1/2 unit of the last decimal of the type's precision "
        "(ties both ways); EXP/EXR: 1/2 unit of the 6th significant digit",
        "JSON null of a date/time type may be rendered as null or as the quoted null text",
    ],
    "runs": [{
        "harness": "c05_decode", "sources": ["engines/codec/c05_decode.cpp"], "deps": _DEPS,
        "variant": "plain", "libset": "core",
        "quick": {"parts": 16, "deadline": 240,
                  "bounds": "3-byte: alphabet product; EXP/EXR: 27 mantissas; 12 weekday bytes; ~33 M decodes"},
        "thorough": {"parts": 16, "deadline": 840, "args": ["--ieeebits", 28],
                     "bounds": "3-byte numeric types: all 2^24 patterns for divisors {none,10,1000,-10}; BDA:3/HDA:3/BTI/"
                               "HTI/VTI: all 2^24 (text+JSON); all 256 weekday bytes; EXP/EXR: 4123 mantissas x 7 divisors; "
                               "EXP sweep of 2^28 patterns (every sign/exponent x 10 high x 9 low mantissa bits; "
                               "--ieeebits 32 = all 2^32); ~1.5 G decodes"},
    }],
}

CHECKS["C06"] = {
    "engine": "codec", "design_ref": "5/C06",
    "level": "exploration",
    "level_text": "plain exhaustive enumeration of finite input domains with a differential oracle on the real code: "
                  "(a) every enumerated raw pattern that decodes is encoded again with the same definition and compared "
                  "on the owned bits, (b) every text of a bounded grammar that encodes is decoded and encoded again "
                  "(fixed point); the bytes of a successful encode are additionally judged by the reference: a pattern the type "
                  "definition calls invalid, zero bytes, or bytes differing from the reference encoder (plain integers, "
                  "complete dates/times incl. nearest truncated time, hex pairs) are violations; (c) all 65536 KNX 16-bit "
                  "floats are converted there and back",
    "level_note": "no hand-written expected values except the canonical replacement pattern, the calendar weekday and "
                  "the input classification taken from the reference codec (classes the statement does not call "
                  "lossless are not judged: non-printable strings, partial nulls, values outside a value list, "
                  "patterns the reference calls invalid - their acceptance is C05's subject; for |raw| >= 2^24 with a "
                  "divisor the re-encoded raw value may drift by 2^-22 relative + 1 instead of being identical, and a "
                  "rejection is admitted only where that drift leaves the type's range); "
                  "owned bits of the sub-byte kinds are discovered black-box (bits ever set when all values are "
                  "written onto an empty buffer); errno is cleared before each call (C12's subject)",
    "technique": "bounded-exhaustive differential round-trip enumeration of the real decode/encode paths",
    "rule": "one evaluation = one raw pattern (decode, encode, compare) or one text (encode, decode, encode, compare) "
            "or one KNX value; distinct = distinct (definition, input). Raw domains as C05 (text format): " +
            _DOMAINS % ("", "27", "", "12") +
            " Text grammar per type: numbers = sign{,-,+} x 45 integer parts (boundaries, leading zeros, 0x) x 12 "
            "fractions x 7 exponents + 26 specials, for divisors {none,10,-10,1000}; dates = 12 day x 9 month x 21 year "
            "spellings (1- and 2-digit parts, 2- and 4-digit years, '-') (x 10 times for DTM); times = 10 hour x 13 "
            "minute (x 13 second) spellings; value-list names, numbers, fractions; hex with and without blanks, upper "
            "and lower case; strings; TEM_P group-number texts.",
    "assumptions": [
        "null must encode to the canonical replacement pattern (weekday byte of a null date left open)",
        "EXP/EXR: the re-encoded value may differ by one unit of the last printed digit (+2^-22 relative); at the "
        "edge of the binary32 range a rejection is admissible",
        "NTS: bytes after the terminator are padding; remainder-length strings may gain or lose padding",
    ],
    "runs": [{
        "harness": "c06_roundtrip", "sources": ["engines/codec/c06_roundtrip.cpp"], "deps": _DEPS,
        "variant": "plain", "libset": "core",
        "quick": {"parts": 16, "deadline": 240,
                  "bounds": "3-byte: alphabet product; EXP/EXR: 27 mantissas; 12 weekday bytes; ~17 M raw round trips, "
                            "~2.6 M grammar texts, 65536 KNX values"},
        "thorough": {"parts": 16, "deadline": 840,
                     "bounds": "3-byte numeric types: all 2^24 patterns for divisors {none,10}; BDA:3/HDA:3/BTI/HTI/VTI: "
                               "all 2^24; all 256 weekday bytes; EXP/EXR: 4123 mantissas x 7 divisors; ~510 M round trips"},
    }],
}
