#!/usr/bin/env python3
"""Same as bin/vcheck <ID> quick, but C20 is restricted to the command/HTTP/CSV part (harness c20_cmd):
the bus (busmc) and adapter (enhmc) parts of C20 never execute the code mutated by mutD
(src/ebusd/*.cpp, Message::checkLevel, StringReplacer), their objects are byte-identical between
mutants and their verdict is the baseline's.  Usage: VERIF_REPO=<tree> vrun.py <ID> [quick]"""
import os
import sys

sys.path.insert(0, os.path.dirname(os.path.dirname(os.path.dirname(os.path.abspath(__file__)))))
from vlib import driver
from vlib.checks import CHECKS

pid = sys.argv[1]
tier = sys.argv[2] if len(sys.argv) > 2 else "quick"
if pid == "C20cmd":
    c = dict(CHECKS["C20"])
    c["runs"] = [r for r in c["runs"] if r["harness"] == "c20_cmd"]
    CHECKS["C20"] = c
    pid = "C20"
sys.exit(driver.check(pid, tier))
