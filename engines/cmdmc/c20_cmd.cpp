// C20 (command / HTTP / CSV part): no client input or definition text corrupts memory, hangs or
// crashes the daemon, and afterwards it still answers valid input correctly.
//
// Bounded-exhaustive, fork per case, built with ASan+UBSan (variant "san"):
//   tcp   all command lines of <=N tokens from a token alphabet (every command word, options, names,
//         hex strings of odd/even length, empty quotes, over-long numbers, "-"), in normal mode and
//         (shorter) in direct mode
//   http  all request lines "GET <concatenation of <=N URI tokens> HTTP/1.1" incl. %, %n, %s, %*s
//   csv   all assignments of <=K column tokens to the holes of line frames, fed to the template
//         loader, the message loader, and the define / decode / encode commands
// Every case runs in a child forked from the pristine parent: real RequestImpl + MainLoop::
// decodeRequest on a real MessageMap with a FakeProtocol.  Oracle: no sanitizer report, no signal, no
// uncaught exception, alarm() budget kept, and the probe (forced read of a known message, decode /
// encode of known values, reception + cached read of a known telegram, HTTP read) afterwards gives
// the pristine answers.
#include <algorithm>
#include "mainloop_fixture.h"
#include "lib/ebus/data.h"

using namespace ebusd;
using namespace fx;
using std::string;
using std::vector;

static vp::Result R;
static World* W = nullptr;
static string g_errFile;
static unsigned BUDGET_S = 10;  // alarm() budget per case in seconds (--budget)

static const char* DEFS =
  "# type,circuit,name,comment,qq,zz,pbsb,id,fields...\n"
  "r,main,temp,Temperature,,08,b509,0d01,value,,UCH,,C,room\n"
  "w,main,setp,Setpoint,,08,b509,0e01,value,,UCH\n"
  "r1,main,polled,,,08,b509,0d02,value,,UCH\n"
  "r,main#inst,hidden,,,08,b509,0d03,value,,UCH\n"
  "u,main,status,,,fe,b516,00,value,,UCH\n"
  "r,main,multi,,,08,b509,0d07,a,,UCH,,,,b,,D2C,,,,c,,HEX:2\n"
  "*[c1],main,temp,,value,,1-9\n"
  "[c1]r,main,cond,,,08,b509,0d04,value,,UCH\n";

static WorldConfig g_wc;
static string g_tmp;
// a fresh daemon state: real MessageMap/BusHandler/ScanHelper/MainLoop with the known definitions, an
// ACL, hex/define/answer enabled and a global template.  The files below g_tmp are written once.
static World* freshWorld(bool first) {
  WorldConfig wc = g_wc;
  wc.reuseFiles = !first;
  wc.deleteData = false;  // several worlds per process: never delete the shared ident field set
  World* w = new World(wc, g_tmp);
  if (w->loadResult != RESULT_OK) { fprintf(stderr, "definitions did not load: %s\n", w->loadError.c_str()); exit(3); }
  w->protocol->answering = true;
  // a global template, so that template references resolve in decode/encode/define
  std::istringstream t("# name,type,divisor/values,unit,comment\ntemp0,UCH,2,C,a template\n");
  string err;
  time_t now = g_now;
  if (w->scanHelper->getTemplates("")->readFromStream(&t, "_templates.csv", now, false, nullptr, &err) != RESULT_OK) {
    fprintf(stderr, "templates did not load: %s\n", err.c_str());
    exit(3);
  }
  return w;
}
static void setup() {
  g_wc.csv = DEFS;
  g_wc.enableHex = true;
  g_wc.enableDefine = true;
  g_wc.pollInterval = 5;
  g_wc.useAcl = true;
  g_wc.aclContent = "# name,secret,level\n*,,\nu,s,inst\n";
  g_wc.withHtml = true;
  g_tmp = procTmpDir();
  g_errFile = g_tmp + "/stderr.txt";
  World* w = freshWorld(true);  // writes the files, checks that the fixture loads
  delete w;
}

// ---- the probe: fixed valid inputs whose answers must stay pristine ----------------------------------
static string probe() {
  string out, user;
  Reply r = tcp(W, "read -f -c main temp", &user);
  out += "read:" + string(getResultCode(r.ret)) + "/" + r.text + ";";
  r = tcp(W, "decode UCH,,,,D2C 2a0102", &user);
  out += "decode:" + r.text + ";";
  r = tcp(W, "encode UCH,,,,D2C 42;16.5", &user);
  out += "encode:" + r.text + ";";
  // passive reception of a known telegram, then the cached value
  MasterSymbolString m; m.parseHex("1008b509020d01");
  SlaveSymbolString s; s.parseHex("0107");
  W->busHandler->notifyProtocolMessage(md_recv, m, s);
  r = tcp(W, "read -c main temp", &user);
  out += "cached:" + r.text + ";";
  r = tcp(W, "write -c main setp 9", &user);
  out += "write:" + string(getResultCode(r.ret)) + "/" + r.text + ";";
  Reply h = httpGet(W, "/data/main/temp?exact=1&required&maxage=0");
  string body = httpBody(h.text);
  size_t vp = body.find("{\"value\": ");
  out += "http:" + std::to_string(httpStatus(h.text)) + "/" + (vp == string::npos ? "-" : body.substr(vp + 10, body.find_first_of(",}\n", vp + 10) - vp - 10)) + ";";
  out += "sent:";
  size_t n = W->protocol->sent.size();
  for (size_t i = n >= 3 ? n - 3 : 0; i < n; i++) out += W->protocol->sent[i] + ",";
  return out;
}
static string g_pristine;
// which probe answers differ from the pristine ones, and how (goes into the violation rule)
static string probeDiff(const string& got, const string& want) {
  auto parts = [](const string& s) {
    std::map<string, string> m;
    size_t pos = 0;
    while (pos < s.size()) {
      size_t e = s.find(';', pos);
      if (e == string::npos) e = s.size();
      string kv = s.substr(pos, e - pos);
      size_t c = kv.find(':');
      if (c != string::npos) m[kv.substr(0, c)] = kv.substr(c + 1);
      pos = e + 1;
    }
    return m;
  };
  auto g = parts(got), w = parts(want);
  string keys, how;
  bool allRange = true, any = false;
  for (auto& kv : w) {
    if (kv.first == "sent") continue;
    if (g[kv.first] == kv.second) continue;
    any = true;
    keys += (keys.empty() ? "" : "+") + kv.first;
    if (g[kv.first].find("out of valid range") == string::npos) allRange = false;
  }
  if (!any) return "sent-telegrams";
  return keys + (allRange ? ":out-of-range" : ":other");
}

// ---- cases ---------------------------------------------------------------------------------------
struct Case {
  string kind;     // tcp | direct | http | tmpl | msg
  string text;     // command line / URI / CSV line
};
// executes the case in the current process (the forked child); returns a short description of the answer
static string execCase(const Case& c) {
  string user;
  if (c.kind == "tcp" || c.kind == "direct") {
    RequestMode mode;
    mode.listenMode = c.kind == "direct" ? lm_direct : lm_none;
    mode.format = OF_NONE; mode.listenWithUnknown = false; mode.listenOnlyUnknown = false;
    Reply r = tcp(W, c.text, &user, &mode);
    return string(getResultCode(r.ret)) + " / " + r.text;
  }
  if (c.kind == "seq") {  // several command lines (separated by a line feed) of one client, one after the other
    RequestMode mode;
    mode.listenMode = lm_none; mode.format = OF_NONE; mode.listenWithUnknown = false; mode.listenOnlyUnknown = false;
    string all, line;
    std::istringstream ls(c.text);
    while (std::getline(ls, line)) {
      if (line.empty()) continue;
      Reply r = tcp(W, line, &user, &mode);
      all += string(getResultCode(r.ret)) + " / " + r.text.substr(0, 80) + " | ";
      W->busHandler->notifyProtocolStatus(ps_empty, RESULT_OK);  // the bus is idle in between: poll pass
    }
    return all;
  }
  if (c.kind == "httpraw") {  // the text is the complete byte stream of the request (any request line shape)
    string u;
    Reply r = runRequest(W, true, c.text, &u);
    return string(r.complete ? "complete" : "incomplete") + ", status " + std::to_string(httpStatus(r.text));
  }
  if (c.kind == "http") {
    Reply r = httpGet(W, c.text);
    return "status " + std::to_string(httpStatus(r.text));
  }
  if (c.kind == "tmpl") {
    // as ScanHelper::readTemplates: a copy of the global templates loaded from a _templates.csv
    DataFieldTemplates t(*W->scanHelper->getTemplates(""));
    std::istringstream in("# name,type,divisor/values,unit,comment\n" + c.text + "\n");
    string err;
    time_t now = g_now;
    result_t ret = t.readFromStream(&in, "dir/_templates.csv", now, false, nullptr, &err);
    std::ostringstream dump;
    t.dump(OF_NAMES | OF_UNITS | OF_COMMENTS, &dump);
    std::ostringstream json;
    t.dump(OF_NAMES | OF_JSON | OF_ALL_ATTRS, &json);
    return string(getResultCode(ret)) + " / " + err;
  }
  if (c.kind == "msg") {
    // as ScanHelper::readConfigFiles: a further configuration file loaded into the message map
    std::istringstream in("# type,circuit,name,comment,qq,zz,pbsb,id,fields\n" + c.text + "\n");
    string err;
    time_t now = g_now;
    W->messages->lock();
    result_t ret = W->messages->readFromStream(&in, "dir/08.extra.csv", now, false, nullptr, &err);
    W->messages->unlock();
    W->scanHelper->executeInstructions(W->busHandler);
    // use what was loaded: list, dump, read every new message
    Reply r1 = tcp(W, "find -a -f", &user);
    Reply r2 = tcp(W, "find -a -V", &user);
    Reply r3 = tcp(W, "read -f -c x x", &user);
    Reply r4 = tcp(W, "write -c x x 1", &user);
    Reply h = httpGet(W, "/data/x?def&full&write&required");
    W->busHandler->notifyProtocolStatus(ps_empty, RESULT_OK);  // poll pass
    return string(getResultCode(ret)) + " / " + err + " / read " + getResultCode(r3.ret) + " / write " + getResultCode(r4.ret);
  }
  return "unknown kind";
}
// One case on a fresh world: input, probe, teardown.  Returns 0 or 20 (probe changed).
// light cases: only the request object (RequestImpl::add + split) on the sanitised build, no daemon state
static int lightCase(const Case& c) {
  bool http = c.kind == "rqh";
  RequestImpl req(http);
  bool done = req.add(c.text.c_str());
  vector<string> args;
  if (done) req.split(&args);
  // the same bytes delivered in two pieces (cut in the middle) through one object
  RequestImpl req2(http);
  size_t half = c.text.size() / 2;
  bool done2 = half > 0 && req2.add(c.text.substr(0, half).c_str());
  if (!done2) done2 = req2.add(c.text.substr(half).c_str());
  vector<string> args2;
  if (done2) req2.split(&args2);
  childSay(string(done ? "complete, " : "incomplete, ") + std::to_string(args.size()) + " argument(s)");
  return 0;
}
static int caseBody(const Case& c) {
  if (c.kind == "rq" || c.kind == "rqh") return lightCase(c);
  g_now = 1700000000;
  W = freshWorld(false);
  string a = c.kind == "noop" ? "" : execCase(c);
  string p = probe();
  int rc = 0;
  if (c.kind == "noop") {
    childSay(p);
  } else if (p != g_pristine) {
    childSay("diff=" + probeDiff(p, g_pristine) + "\nanswer: " + a.substr(0, 300) + "\nprobe:    " + p + "\npristine: " + g_pristine);
    rc = 20;
  } else {
    childSay("answer: " + a.substr(0, 600));
  }
  delete W;  // run the destructors as well (double free / use after free show up here)
  W = nullptr;
  return rc;
}
// child body of a batch: the cases one after the other, each on its own fresh world; the index of
// the case in progress is published so that the parent knows which one ended the child
static int batchBody(const vector<Case>& cs) {
  SharedPage* pg = sharedPage();
  for (size_t i = 0; i < cs.size(); i++) {
    pg->idx = static_cast<uint32_t>(i);
    pg->status = 0;
    alarm(BUDGET_S);
    int rc = caseBody(cs[i]);
    if (rc != 0) return rc;
    pg->status = 1;
  }
  alarm(0);
  return 0;
}

// ---- classification ---------------------------------------------------------------------------------
static string firstWord(const string& s) {
  size_t b = s.find_first_not_of(' ');
  if (b == string::npos) return "none";
  size_t e = s.find(' ', b);
  string w = s.substr(b, e == string::npos ? string::npos : e - b);
  string o;
  for (char ch : w) o += isalnum(static_cast<unsigned char>(ch)) ? static_cast<char>(tolower(ch)) : '_';
  return o.substr(0, 12);
}
static string inputClass(const Case& c) {
  if (c.kind == "tcp") return firstWord(c.text);
  if (c.kind == "direct") return "direct-mode";
  if (c.kind == "http") {
    const string& u = c.text;
    if (u.find("%n") != string::npos) return "pct-n";
    if (u.find("%s") != string::npos || u.find("%*s") != string::npos) return "pct-s";
    if (u.find('%') != string::npos) return "pct";
    if (u.compare(0, 5, "/data") == 0) return "data";
    if (u.compare(0, 7, "/decode") == 0) return "decode";
    return "other";
  }
  return "frame" + c.text.substr(0, 0);
}
struct Verdict { string rule; string detail; };
static Verdict verdictOf(const ChildResult& cr) {
  Verdict v;
  if (cr.kind == 2) {
    v.rule = cr.code == SIGALRM ? "hang" : string("signal-") + sigName(cr.code);
    if (!cr.report.empty()) v.rule += "-" + cr.report;
  } else if (cr.kind == 1) {
    v.rule = cr.report.empty() ? "abnormal-exit" : cr.report;
  } else if (cr.code == 20) {
    v.rule = "probe-changed";
    if (cr.detail.compare(0, 5, "diff=") == 0) v.rule += ":" + cr.detail.substr(5, cr.detail.find('\n') - 5);
  } else if (cr.code == 48) {
    v.rule = "uncaught-exception";
  } else if (cr.code != 0) {
    v.rule = "abnormal-exit";
  }
  for (char& ch : v.rule) if (ch == ' ' || ch == '/') ch = '_';
  return v;
}
static Verdict judge(const Case& c, string* log) {
  vector<Case> one = {c};
  ChildResult cr = runIsolated(g_errFile, 0, [&]() { return batchBody(one); });
  R.transitions += 8;
  Verdict v = verdictOf(cr);
  v.detail = cr.detail;
  if (log) {
    *log += "case kind=" + c.kind + " input <" + esc(c.text) + ">\n";
    *log += string("child: ") + (cr.kind == 2 ? string("killed by ") + sigName(cr.code) : "exit " + std::to_string(cr.code)) +
            (cr.report.empty() ? "" : ", report " + cr.report) + "\n";
    if (!cr.detail.empty()) *log += esc(cr.detail) + "\n";
  }
  return v;
}

// ---- alphabets ----------------------------------------------------------------------------------
static const char* TCP_TOKENS[] = {
  // every command word
  "read", "write", "auth", "find", "listen", "hex", "inject", "answer", "direct", "state", "grab", "define",
  "decode", "encode", "scan", "log", "raw", "dump", "reload", "quit", "info", "help",
  // options
  "-h", "-c", "-p", "-m", "-d", "-s", "-i", "-def", "-l", "-n",
  // names; a level name that merely starts with the level of a loaded message ("inst")
  "main", "temp", "setp", "installer",
  // hex strings (even / odd length, with slave part), ids
  "08b509020d01", "08b5090", "1008b509020d01/0107", "b509",
  // empty quotes, over-long number, "-", a definition, a listing keyword
  "\"\"", "99999999999999999999", "-", "r,x,x,,,08,b509,0d05,,,UCH", "result",
};
static const size_t N_TCP = sizeof(TCP_TOKENS) / sizeof(TCP_TOKENS[0]);
// commands whose usage text (mainloop.cpp) admits three or more arguments: only these get 4-token lines
static bool takesThreeArgs(size_t tok) {
  static const char* cmds[] = {"read", "write", "find", "listen", "hex", "answer", "define", "decode", "encode", "grab"};
  for (const char* c : cmds) if (strcmp(c, TCP_TOKENS[tok]) == 0) return true;
  return false;
}
static const char* HTTP_TOKENS[] = {
  "/", "/data", "/data/main/temp", "/data/x/x", "?", "&", "since=1", "poll=9", "maxage=0", "required&write&def&full",
  "define=r,x,x,,,08,b509,0d05,v,,UCH", "user=u&secret=s", "/decode", "def=UCH", "raw=2a", "/raw", "/templates",
  "/datatypes", "%", "%n", "%s", "%*s", "%41", "..", "index.html", "99999999999999999999",
};
static const size_t N_HTTP = sizeof(HTTP_TOKENS) / sizeof(HTTP_TOKENS[0]);
static const char* CSV_TOKENS[] = {
  "", "x", "UCH", "HEX:*", "HEX:0", "HEX:40", "STR:17", "BI3:7", "BI7:2", "BCD:4", "D2C", "ULG", "IGN:*",
  "temp0", "10", "-10", "4294967296", "99999999999999999999", "0=a;1=b", "1=;=", "0-5;7", "m", "s",
  "b509", "0d;0e:300", "[c1]", "*r", "\"", "\"a\"\"b\"", "fe",
};
static const size_t N_CSV = sizeof(CSV_TOKENS) / sizeof(CSV_TOKENS[0]);
// line frames: {n} is hole n; kind, name
struct Frame { const char* name; const char* kind; const char* text; int holes; bool deep; };
static const Frame FRAMES[] = {
  {"T1", "tmpl", "{0},{1},{2},{3}", 4, false},                                  // name,type,divisor/values,unit
  {"T2", "tmpl", "t,{0},{1},,,n2,{2},{3}", 4, false},                           // two-field template: type/div each
  {"M1", "msg", "{0},{1},{2},,,08,b509,0d05,v,,UCH", 3, false},                 // type,circuit,name
  {"M2", "msg", "r,x,x,,{0},{1},{2},{3},v,,UCH", 4, false},                     // qq,zz,pbsb,id
  {"M3", "msg", "r,x,x,,,08,b509,0d05,{0},{1},{2},{3}", 4, false},              // field name,part,type,divisor/values
  {"M4", "msg", "w,x,x,,,08,b509,0d05,v,,{0},{1},,,w,,{2},{3}", 4, false},      // write message, two fields: type/div each
  {"M5", "msg", "{0},{1},{2},{3}", 4, false},                                   // raw line start (defaults, conditions, instructions)
  {"M6", "msg", "r,x,x,,,08,b509,0d05,v,{0},{1},{2}", 3, true},                 // part,type,divisor/values
  {"DF", "tcp", "define \"r,x,x,,,08,b509,0d05,{0},{1},{2},{3}\"", 4, false},  // define command
  {"DE", "tcp", "decode {0},{1},,,{2},{3} 0102030405060708", 4, true},          // decode command: two fields type/div
  {"EN", "tcp", "encode {0},{1} {2}", 3, true},                                 // encode command: type/div value
};
static const size_t N_FRAMES = sizeof(FRAMES) / sizeof(FRAMES[0]);

static string fillFrame(const Frame& f, const vector<size_t>& tok) {
  string t = f.text;
  for (int h = 0; h < f.holes; h++) {
    string ph = "{" + std::to_string(h) + "}";
    size_t p = t.find(ph);
    string v = static_cast<size_t>(h) < tok.size() ? CSV_TOKENS[tok[h]] : "";
    if (p != string::npos) t.replace(p, ph.size(), v);
  }
  return t;
}

static string caseString(const Case& c) { return "k=" + c.kind + ";t=" + toHex(c.text); }

// ---- batching: one fork per batch, a fresh world per case, confirmation of every alarm alone ---------
struct Pending { Case c; string site, cls; };
static vector<Pending> g_pending;
static size_t g_batch = 48;
static uint64_t g_idx = 0;
static int g_part = 0, g_nparts = 1;

static void flushBatch() {
  size_t start = 0;
  while (start < g_pending.size()) {
    vector<Case> cs;
    for (size_t i = start; i < g_pending.size(); i++) cs.push_back(g_pending[i].c);
    ChildResult cr = runIsolated(g_errFile, 0, [&]() { return batchBody(cs); });
    R.transitions += 8 * cs.size();
    R.count("batches");
    if (cr.kind == 0 && cr.code == 0) break;
    size_t j = start + std::min<size_t>(cr.idx, cs.size() - 1);
    Verdict vb = verdictOf(cr);
    const Pending& pj = g_pending[j];
    // the case that ended the batch child is judged alone, in a child of its own
    // (request-object cases keep no state between cases: once a signature has been confirmed alone 100 times the
    // verdict of the batch child is taken as it is)
    bool light = pj.c.kind == "rq" || pj.c.kind == "rqh";
    auto known = R.violations.find("C20/" + vb.rule + "/" + pj.site + "/" + pj.cls);
    Verdict va;
    if (light && known != R.violations.end() && known->second.count >= 100) { va = vb; va.detail = cr.detail; R.count("unconfirmed_light"); }
    else { va = judge(pj.c, nullptr); R.count("confirmations"); }
    if (!va.rule.empty()) {
      R.violation("C20/" + va.rule + "/" + pj.site + "/" + pj.cls, "input <" + esc(pj.c.text) + "> " + esc(va.detail.substr(0, 400)), caseString(pj.c));
    } else {
      // only fails after the preceding cases of the batch (process-global state carried over)
      string cs2 = "k=batch;n=" + std::to_string(j - start + 1);
      for (size_t i = start; i <= j; i++) cs2 += ";c" + std::to_string(i - start) + "=" + g_pending[i].c.kind + ":" + toHex(g_pending[i].c.text);
      R.violation("C20/history-" + vb.rule + "/" + pj.site + "/" + pj.cls,
                  "input <" + esc(pj.c.text) + "> fails only after the preceding inputs of its batch: " + esc(cr.detail.substr(0, 300)), cs2);
    }
    start = j + 1;
  }
  g_pending.clear();
}
static void runOne(const Case& c, const string& sigSite, const string& cls) {
  if ((g_idx++ % g_nparts) != static_cast<uint64_t>(g_part)) return;
  R.evaluations++; R.tracesValidated++;
  R.distinct(c.kind + "|" + c.text);
  g_pending.push_back(Pending{c, sigSite, cls});
  if (g_pending.size() >= g_batch) flushBatch();
}
// all sequences of 0..maxLen tokens
static void forSequences(size_t ntok, size_t maxLen, const std::function<void(const vector<size_t>&)>& fn) {
  vector<size_t> cur;
  std::function<void()> rec = [&]() {
    if (R.expired()) return;
    fn(cur);
    if (cur.size() >= maxLen) return;
    for (size_t t = 0; t < ntok; t++) { cur.push_back(t); rec(); cur.pop_back(); }
  };
  rec();
}

static int replay(const string& cs) {
  auto m = vp::parseCase(cs);
  printf("pristine probe: %s\n", g_pristine.c_str());
  string log;
  Verdict v;
  if (m["k"] == "batch") {
    vector<Case> batch;
    size_t n = strtoul(m["n"].c_str(), nullptr, 10);
    for (size_t i = 0; i < n; i++) {
      string e = m["c" + std::to_string(i)];
      size_t p = e.find(':');
      batch.push_back(Case{e.substr(0, p), fromHex(e.substr(p + 1))});
      printf("batch input %zu: kind=%s <%s>\n", i, batch.back().kind.c_str(), esc(batch.back().text).c_str());
    }
    ChildResult cr = runIsolated(g_errFile, 0, [&]() { return batchBody(batch); });
    v = verdictOf(cr);
    printf("child: %s, stopped at input %u%s\n%s\n", cr.kind == 2 ? (string("killed by ") + sigName(cr.code)).c_str() : ("exit " + std::to_string(cr.code)).c_str(),
           cr.idx, cr.report.empty() ? "" : (", report " + cr.report).c_str(), esc(cr.detail).c_str());
    if (!v.rule.empty() && cr.idx + 1 != n) v.rule += "-earlier-input";
  } else {
    Case c{m["k"], fromHex(m["t"])};
    v = judge(c, &log);
    fputs(log.c_str(), stdout);
  }
  printf("%s\n", v.rule.empty() ? "OK" : ("VIOLATES rule " + v.rule).c_str());
  return v.rule.empty() ? 0 : 1;
}

int main(int argc, char** argv) {
  setenv("TZ", "UTC", 1);
  vp::Args A = vp::parseArgs(argc, argv);
  BUDGET_S = static_cast<unsigned>(A.getInt("budget", 10));
  setup();
  // pristine probe answers: from a fresh world that received no input at all
  {
    vector<Case> none = {Case{"noop", ""}};
    ChildResult cr = runIsolated(g_errFile, 0, [&]() { return batchBody(none); });
    if (cr.kind != 0 || cr.code != 0 || cr.detail.empty()) { fprintf(stderr, "probe failed in pristine state: %d/%d %s\n", cr.kind, cr.code, cr.report.c_str()); return 3; }
    g_pristine = cr.detail;
    // sanity: the probe must carry the known answers
    if (g_pristine.find("read:done/1;") == string::npos || g_pristine.find("decode:42;32.06;") == string::npos ||
        g_pristine.find("encode:2a0801;") == string::npos || g_pristine.find("cached:7;") == string::npos ||
        g_pristine.find("write:done/") == string::npos || g_pristine.find("http:200/1;") == string::npos) {
      fprintf(stderr, "unexpected pristine probe: %s\n", g_pristine.c_str());
      return 3;
    }
  }
  if (A.replay) {
    int rc = replay(A.replayCase);
    rmTree(g_tmp);
    return rc;
  }
  R.setDeadline(A);
  g_part = A.part; g_nparts = A.nparts;
  bool th = A.thorough();
  string only = A.get("only", "");
  size_t tcpLen = A.getInt("tcplen", th ? 4 : 3), dirLen = A.getInt("dirlen", th ? 3 : 2);
  size_t httpLen = A.getInt("httplen", th ? 4 : 3), holes = A.getInt("holes", 0);
  g_batch = A.getInt("batch", 48);

  if (only.empty() || only == "tcp") {
    forSequences(N_TCP, tcpLen, [&](const vector<size_t>& s) {
      if (s.size() > 3 && !takesThreeArgs(s[0])) return;  // lines of >3 tokens: only for commands whose usage admits >=3 arguments
      string line;
      for (size_t i = 0; i < s.size(); i++) line += (i ? " " : "") + string(TCP_TOKENS[s[i]]);
      Case c{"tcp", line};
      runOne(c, "tcp", inputClass(c));
    });
    forSequences(N_TCP, dirLen, [&](const vector<size_t>& s) {
      string line;
      for (size_t i = 0; i < s.size(); i++) line += (i ? " " : "") + string(TCP_TOKENS[s[i]]);
      Case c{"direct", line};
      runOne(c, "tcp", inputClass(c));
    });
    flushBatch();
    R.sample("tcp: e.g. <read -h 08b5090>, <answer -m>, <hex -s 99999999999999999999 fe>, <define \"\" -> every line of <=" + std::to_string(tcpLen) + " tokens from " + std::to_string(N_TCP) + " tokens");
  }
  if (only.empty() || only == "seq") {
    // histories of commands that change the daemon's state (definitions added, replaced under another key, removed
    // again; telegrams injected; scans; cache reads) - every sequence of up to 3 (thorough 4) of them on one world
    static const char* SEQ[] = {
      "define r,bai,ident,,,08,0704,,mf,,UCH",            // the key of the scan message of slave 08
      "define -r r,bai,ident,,,08,0704,01,mf,,UCH",       // the same name under another key
      "define -r r,bai,ident,,,08,0704,,mf,,UCH",
      "define -r r,bai,other,,,08,b509,0d09,value,,UCH",  // (the messages the probe reads are left alone: a changed
                                                          //  definition legitimately changes their answers)
      "inject 1008070400/0ab5454255010203040506",         // identification answer of slave 08
      "inject 10feb5160100",
      "inject 1008b509020d07/0401020304",
      "scan 08", "scan result", "info",
      "read -f -c bai ident", "read -c main temp", "read -def r,tmp,x,,,08,b509,0d0a,v,,UCH",
      "find -a -V", "reload",
    };
    size_t nseq = sizeof(SEQ) / sizeof(SEQ[0]);
    size_t seqLen = A.getInt("seqlen", th ? 4 : 3);
    forSequences(nseq, seqLen, [&](const vector<size_t>& sq) {
      if (sq.size() < 2) return;  // single lines are the subject of the token enumeration above
      string text;
      for (size_t i : sq) text += string(SEQ[i]) + "\n";
      Case c{"seq", text};
      runOne(c, "tcp-sequence", string(firstWord(SEQ[sq[0]])) + "-first");
    });
    flushBatch();
    R.sample("command histories: every sequence of 2.." + std::to_string(seqLen) + " of " + std::to_string(nseq) + " state-changing commands on one daemon, e.g. <define r,bai,ident..>, <define -r ..another key>, <inject ident telegram>");
  }
  if (only.empty() || only == "http") {
    forSequences(N_HTTP, httpLen, [&](const vector<size_t>& s) {
      string uri;
      for (size_t t : s) uri += HTTP_TOKENS[t];
      Case c{"http", uri};
      runOne(c, "http", inputClass(c));
    });
    flushBatch();
    R.sample("http: e.g. <GET /data/main/temp?%n HTTP/1.1>, <GET /%%*s%n HTTP/1.1> -> every concatenation of <=" + std::to_string(httpLen) + " of " + std::to_string(N_HTTP) + " URI tokens");
  }
  if (only.empty() || only == "shapes") {
    // (a) lines with empty tokens (i.e. leading / trailing / repeated blanks, blanks only) and unbalanced quotes
    {
      static const char* QT[] = {"", "\"a", "b\"", "''", "\"", "read", "main"};
      forSequences(7, 4, [&](const vector<size_t>& s) {
        if (s.empty()) return;
        string line;
        for (size_t i = 0; i < s.size(); i++) line += (i ? " " : "") + string(QT[s[i]]);
        Case c{"tcp", line};
        runOne(c, "tcp-shape", "blanks-quotes");
      });
    }
    // (b) every command word with every option spelling of any usage text: CMD -X, CMD -X main, CMD -X main temp
    {
      static const char* OPTS[] = {"-h", "-c", "-p", "-f", "-m", "-d", "-s", "-i", "-def", "-l", "-n", "-N", "-v", "-vv", "-vvv", "-vvvv", "-V", "-VV",
                                   "-F", "-e", "-r", "-w", "-a", "-u", "-U", "-?", "--help", "-x"};
      for (size_t ci = 0; ci < 22; ci++) for (const char* o : OPTS) for (const char* tail : {"", " main", " main temp", " -c", " -c main"}) {
        Case c{"tcp", string(TCP_TOKENS[ci]) + " " + o + tail};
        runOne(c, "tcp-shape", firstWord(c.text));
      }
    }
    // (c) complete named forms plus one / two further tokens (4 and 5 token lines, also in quick)
    {
      static const char* PRE[] = {"write -c main", "read -c main", "read -f -c", "find -c main", "write -s 10", "read -m 5"};
      for (const char* pre : PRE) for (size_t t1 = 0; t1 < N_TCP; t1++) {
        Case c{"tcp", string(pre) + " " + TCP_TOKENS[t1]};
        runOne(c, "tcp-shape", firstWord(c.text));
        if (pre == PRE[0] || pre == PRE[1]) for (size_t t2 = 0; t2 < N_TCP; t2++) {
          Case c2{"tcp", string(pre) + " " + TCP_TOKENS[t1] + " " + TCP_TOKENS[t2]};
          runOne(c2, "tcp-shape", firstWord(c2.text));
        }
      }
    }
    // (d) HTTP request lines of other shapes than "GET <uri> HTTP/1.1": no version, no URI, lower case method,
    //     doubled blanks, other method, LF and CRLF, with and without a header line
    {
      static const char* URIS[] = {"/", "/x.js", "/data/main/temp", "%", ""};
      static const char* SHAPES[] = {"GET {u}", "GET {u} HTTP/1.1", "GET  {u} HTTP/1.1", "GET {u}  HTTP/1.1", "get {u} HTTP/1.1", "GET {u} HTTP/", "GET {u} http/1.1",
                                     "POST {u} HTTP/1.1", "GET {u} HTTP/1.1 HTTP/1.1", " GET {u} HTTP/1.1", "{u}", "HTTP/1.1", " HTTP/1.1", "GET", "GET ", " ", ""};
      for (const char* sh : SHAPES) for (const char* u : URIS) for (const char* eol : {"\n", "\r\n"}) for (int hdr = 0; hdr < 2; hdr++) {
        string line = sh;
        size_t p = line.find("{u}");
        if (p != string::npos) line.replace(p, 3, u); else if (u != URIS[0]) continue;
        Case c{"httpraw", line + eol + (hdr ? string("Host: x") + eol : "") + eol};
        runOne(c, "http-shape", "request-line");
      }
    }
    flushBatch();
    // (e) the request object alone under the sanitizers: every string over a small alphabet as a command line /
    //     as the URI of a request line (add + split, whole and in two pieces)
    {
      size_t saved = g_batch;
      g_batch = 5000;
      vector<string> lines = {""};
      const string alpha = "a \"'";
      size_t maxLen = th ? 8 : 7;
      vector<string> cur = {""};
      for (size_t l = 1; l <= maxLen; l++) {
        vector<string> next;
        for (auto& x : cur) for (char ch : alpha) next.push_back(x + ch);
        for (auto& x : next) { Case c{"rq", x + "\n"}; runOne(c, "request-object", "tcp-line"); }
        cur.swap(next);
      }
      const string ualpha = "/a%2? ";
      cur = {""};
      for (size_t l = 1; l <= (th ? 7 : 6); l++) {
        vector<string> next;
        for (auto& x : cur) for (char ch : ualpha) next.push_back(x + ch);
        for (auto& x : next) { Case c{"rqh", "GET " + x + " HTTP/1.1\r\n\r\n"}; runOne(c, "request-object", "http-line"); Case c2{"rqh", x + "\n\n"}; runOne(c2, "request-object", "http-line"); }
        cur.swap(next);
      }
      flushBatch();
      g_batch = saved;
    }
    R.sample("shapes: e.g. <  > (blanks only), <read \"a  b\">, <find -F>, <write -c main setp>, <GET /x.js\\n\\n> (no version), <get  / HTTP/1.1>; all strings over {a,blank,\",'} of length<=7 through RequestImpl");
  }
  if (only.empty() || only == "csv") {
    for (size_t fi = 0; fi < N_FRAMES; fi++) {
      const Frame& f = FRAMES[fi];
      // quick: 3 holes for the frames marked deep, 2 for the others; thorough: 3 holes for all
      size_t k = std::min<size_t>(holes ? holes : (th || f.deep ? 3 : 2), f.holes);
      // assignments to the first k holes (remaining holes empty); shorter assignments are the
      // ones with trailing empty tokens, so only full-length sequences are enumerated
      forSequences(N_CSV, k, [&](const vector<size_t>& s) {
        if (s.size() != k) return;
        Case c{f.kind, fillFrame(f, s)};
        runOne(c, string("csv-") + f.name, c.kind == "tcp" ? firstWord(c.text) : f.kind);
      });
    }
    flushBatch();
    R.sample("csv: e.g. template line <x,HEX:40,0=a;1=b,s>, message line <r,x,x,,,08,b509,0d05,x,m,BI7:2,10>, <define \"r,x,x,,,08,b509,0d05,x,s,STR:17,\"> -> every assignment of " +
             std::to_string(N_CSV) + " column tokens to " + (th ? "3" : "2-3") + " holes of " + std::to_string(N_FRAMES) + " line frames");
  }
  flushBatch();
  R.note("pristine probe: " + g_pristine);
  rmTree(g_tmp);
  R.write(A.out);
  return 0;
}
