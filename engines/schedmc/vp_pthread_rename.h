// Forced-include header for the ebusd translation units of the "sched" build variants:
// the synchronisation operations ebusd uses (queue.h, thread.cpp) are routed to the cooperative
// scheduler of the schedule explorer.  pthread_create/join/cancel/init/destroy stay real.
#ifndef VP_PTHREAD_RENAME_H_
#define VP_PTHREAD_RENAME_H_
#include <pthread.h>
#ifdef __cplusplus
extern "C" {
#endif
int vp_mutex_lock(pthread_mutex_t* m);
int vp_mutex_unlock(pthread_mutex_t* m);
int vp_cond_wait(pthread_cond_t* c, pthread_mutex_t* m);
int vp_cond_timedwait(pthread_cond_t* c, pthread_mutex_t* m, const struct timespec* abstime);
int vp_cond_signal(pthread_cond_t* c);
int vp_cond_broadcast(pthread_cond_t* c);
#ifdef __cplusplus
}
#endif
#define pthread_mutex_lock vp_mutex_lock
#define pthread_mutex_unlock vp_mutex_unlock
#define pthread_cond_wait vp_cond_wait
#define pthread_cond_timedwait vp_cond_timedwait
#define pthread_cond_signal vp_cond_signal
#define pthread_cond_broadcast vp_cond_broadcast
#endif
