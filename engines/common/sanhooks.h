// Sanitizer report hooks: turn an ASan / UBSan report into a call of a harness function so that the
// running case can be recorded as a violation (the report text itself goes to stderr).
// Define SANHOOKS_IMPL in exactly one translation unit of the harness.
#ifndef VERIF_SANHOOKS_H_
#define VERIF_SANHOOKS_H_
namespace vp { extern void (*g_onSanitizerReport)(const char* which); }
#ifdef SANHOOKS_IMPL
namespace vp { void (*g_onSanitizerReport)(const char* which) = nullptr; }
// called by the UBSan runtime after each report (gcc 12 / llvm >= 7) and by ASan before its report
extern "C" void __ubsan_on_report(void) { if (vp::g_onSanitizerReport) vp::g_onSanitizerReport("ubsan"); }
extern "C" void __asan_on_error(void) { if (vp::g_onSanitizerReport) vp::g_onSanitizerReport("asan"); }
#endif
#endif  // VERIF_SANHOOKS_H_
