#!/usr/bin/env python3
"""Generate the first-order mutants as unified diffs (git apply-able on /repo HEAD) + plan.tsv.
Each mutant is one textual replacement in one file."""
import difflib, os, subprocess, sys

REPO = "/repo"
OUT = "/verif/mutation/mutC"
MSG = "src/lib/ebus/message.cpp"
MSGH = "src/lib/ebus/message.h"
FR = "src/lib/ebus/filereader.cpp"
DATA = "src/lib/ebus/data.cpp"
DT = "src/lib/ebus/datatype.cpp"

M = []


def mut(id, file, func, desc, checks, old, new, nth=1):
    M.append(dict(id=id, file=file, func=func, desc=desc, checks=checks, old=old, new=new, nth=nth))


# ---------------------------------------------------------------- key computation and lookup
mut("m01", MSG, "Message::createKey(master)", "a telegram without data bytes (NN=0) gets no key: `master.size() < 5` became `<= 5`",
    "C08 C09",
    "  if (master.size() < 5) {\n    return INVALID_KEY;\n  }\n  size_t idLength = master.getDataSize();",
    "  if (master.size() <= 5) {\n    return INVALID_KEY;\n  }\n  size_t idLength = master.getDataSize();")
mut("m02", MSG, "Message::createKey(master)", "ID bytes of a telegram are OR-ed instead of XOR-ed into the key (differs only when bytes beyond the 4th fold onto set bits)",
    "C08 C09",
    "  int exp = 3;\n  for (size_t i = 0; i < idLength; i++) {\n    key ^= (uint64_t)master.dataAt(i) << (8 * exp--);\n    if (exp < 0) {\n      exp = 3;\n    }\n  }\n  return key;",
    "  int exp = 3;\n  for (size_t i = 0; i < idLength; i++) {\n    key |= (uint64_t)master.dataAt(i) << (8 * exp--);\n    if (exp < 0) {\n      exp = 3;\n    }\n  }\n  return key;")
mut("m03", MSG, "MessageMap::find(master)", "the scan-telegram shortcut (07 04, NN=0 -> generic scan message) is taken also when a particular destination is asked for (dropped `anyDestination &&`)",
    "C13 C08",
    "  if (anyDestination && master.size() >= 5 && master[4] == 0 && master[2] == 0x07 && master[3] == 0x04) {",
    "  if (master.size() >= 5 && master[4] == 0 && master[2] == 0x07 && master[3] == 0x04) {")
mut("m04", MSG, "Message::checkId(master)", "a telegram that carries exactly the ID and no further data does not match (`<` became `<=`)",
    "C08",
    "  size_t idLen = getIdLength();\n  if (master.getDataSize() < idLen) {\n    return false;\n  }\n  for (size_t pos = 0; pos < idLen; pos++) {\n    if (m_id[2+pos] != master.dataAt(pos)) {\n      return false;\n    }\n  }\n  if (index) {\n    *index = 0;",
    "  size_t idLen = getIdLength();\n  if (master.getDataSize() <= idLen) {\n    return false;\n  }\n  for (size_t pos = 0; pos < idLen; pos++) {\n    if (m_id[2+pos] != master.dataAt(pos)) {\n      return false;\n    }\n  }\n  if (index) {\n    *index = 0;")
mut("m05", MSG, "Message::createKey(id)", "an active definition with a master destination is always keyed as write (read/write distinction lost for master destinations)",
    "C08 C09",
    "    key |= isMaster(dstAddress) ? (isWrite ? ID_SOURCE_ACTIVE_WRITE_MASTER : ID_SOURCE_ACTIVE_READ_MASTER)",
    "    key |= isMaster(dstAddress) ? ID_SOURCE_ACTIVE_WRITE_MASTER")
mut("m06", MSG, "MessageMap::find(master)", "the ID length bits of the base key are not cleared before shorter lengths are tried (mask without the length bits)",
    "C08 C09",
    "      baseKey &= ~ID_LENGTH_AND_IDS_MASK;",
    "      baseKey &= ~0xffffffffLL;")
mut("m07", MSG, "Message::getDerivedKey", "the key of a clone for a particular destination keeps bit 7 of the template's destination (mask 0x7f instead of 0xff)",
    "C13 C08",
    "  return (m_key & ~(0xffLL << (8*6))) | (uint64_t)dstAddress << (8*6);",
    "  return (m_key & ~(0x7fLL << (8*6))) | (uint64_t)dstAddress << (8*6);")
# ---------------------------------------------------------------- create / build / store / decode
mut("m08", MSG, "Message::create", "slave data length is checked against 2+maximum like the master part (definitions with 25 or 26 slave data bytes load)",
    "C09 C19",
    "      || data->getLength(pt_slaveData, maxLength) > maxLength) {",
    "      || data->getLength(pt_slaveData, maxLength) > 2 + maxLength) {")
mut("m09", MSG, "Message::storeLastData(slave)", "change time is taken from the previous update (assignment moved before the clock is read)",
    "C13 C09",
    "  if (data.size() > 0) {\n    time(&m_lastUpdateTime);\n  }\n  if (m_lastSlaveData != data) {\n    m_lastChangeTime = m_lastUpdateTime;\n    m_lastSlaveData = data;\n  }\n  return RESULT_OK;",
    "  if (m_lastSlaveData != data) {\n    m_lastChangeTime = m_lastUpdateTime;\n    m_lastSlaveData = data;\n  }\n  if (data.size() > 0) {\n    time(&m_lastUpdateTime);\n  }\n  return RESULT_OK;")
mut("m10", MSG, "Message::decodeLastData", "no separator between the decoded master part and slave part fields (dropped `|| output->tellp() > startPos`)",
    "C09",
    "    bool useLeadingSeparator = leadingSeparator || output->tellp() > startPos;",
    "    bool useLeadingSeparator = leadingSeparator;")
mut("m11", MSG, "ChainedMessage::prepareMasterPart", "length of the part to send is taken from the previous part (`m_lengths[i]` instead of `m_lengths[i+1]`)",
    "C09",
    "      addData = m_lengths[i+1];",
    "      addData = m_lengths[i];")
mut("m12", MSG, "Message::create", "the ID prefix of the defaults row is prepended also when the row has its own PBSB (dropped `if (useDefaults)`)",
    "C09 C19 C08",
    "  if (useDefaults) {\n    defaultIdPrefix = getDefault(\"\", defaults, \"id\");\n  }",
    "  defaultIdPrefix = getDefault(\"\", defaults, \"id\");")
# ---------------------------------------------------------------- conditions
mut("m13", MSG, "splitValues(numeric)", "`>n` is taken as `>=n` (exclusive lower bound not incremented)",
    "C13",
    "      valueRanges->push_back(inclusive ? val : (val+(upto?-1:1)));",
    "      valueRanges->push_back(inclusive ? val : (val+(upto?-1:0)));")
mut("m14", MSG, "SimpleNumericCondition::checkValue", "range pairs are walked with step 1 instead of 2 (the gap between two listed values matches too)",
    "C13",
    "    for (size_t i = 0; i+1 < m_valueRanges.size(); i+=2) {",
    "    for (size_t i = 0; i+1 < m_valueRanges.size(); i+=1) {")
mut("m15", MSG, "SimpleStringCondition::checkValue", "the last string of the value list is never compared (`i+1 < size` copied from the numeric variant)",
    "C13",
    "    for (size_t i = 0; i < m_values.size(); i++) {\n      if (m_values[i] == value) {",
    "    for (size_t i = 0; i+1 < m_values.size(); i++) {\n      if (m_values[i] == value) {")
mut("m16", MSG, "SimpleCondition::isTrue", "a condition is evaluated although the referenced message was never stored (dropped `getLastChangeTime() > 0 &&`)",
    "C13",
    "  if (m_message->getLastChangeTime() > 0 && m_message->getLastChangeTime() >= m_lastCheckTime) {",
    "  if (m_message->getLastChangeTime() >= m_lastCheckTime) {")
mut("m17", MSG, "SimpleCondition::derive", "a numeric condition derived on the fly loses the field name of its base condition",
    "C13",
    "  return new SimpleNumericCondition(name, m_refName, m_circuit, m_level, m_name, m_dstAddress, m_field, valueRanges);\n}",
    "  return new SimpleNumericCondition(name, m_refName, m_circuit, m_level, m_name, m_dstAddress, \"\", valueRanges);\n}")
mut("m18", MSG, "SimpleCondition::resolve", "the field existence check is done also for conditions without values (\"seen\"), which then need a numeric field",
    "C13",
    "    if (m_hasValues) {\n      if (!message->hasField(",
    "    {\n      if (!message->hasField(")
mut("m19", MSG, "CombinedCondition::resolve", "a failing part of a combined condition is logged but the combined condition resolves (error not returned)",
    "C13",
    "    if (ret != RESULT_OK) {\n      *errorMessage << dummy.str();\n      return ret;\n    }\n  }\n  return RESULT_OK;",
    "    if (ret != RESULT_OK) {\n      *errorMessage << dummy.str();\n    }\n  }\n  return RESULT_OK;")
mut("m20", MSG, "MessageMap::resolveConditions", "the overall result is that of the last condition (a failure followed by a success is lost)",
    "C13",
    "    result_t result = resolveCondition(nullptr, condition, errorDescription);\n    if (result != RESULT_OK) {\n      overallResult = result;\n    }",
    "    result_t result = resolveCondition(nullptr, condition, errorDescription);\n    overallResult = result;")
# ---------------------------------------------------------------- poll queue
mut("m21", MSG, "Message::setPollPriority", "a newly set / clamped priority is placed at the last polled order instead of one period behind it (`+ priority` dropped in the assignment)",
    "C17",
    "    m_pollOrder = g_lastPollOrder+(unsigned int)m_pollPriority;\n  }\n  return ret;",
    "    m_pollOrder = g_lastPollOrder;\n  }\n  return ret;")
mut("m22", MSG, "Message::isLessPollWeight", "tie-break on the last poll time reversed (the most recently polled of equal order and priority goes first)",
    "C17",
    "  return m_lastPollTime > other->m_lastPollTime;",
    "  return m_lastPollTime < other->m_lastPollTime;")
mut("m23", MSG, "MessageMap::remove", "a removed message stays in the poll queue (dropped removal from m_pollMessages)",
    "C17",
    "  if (message->getPollPriority() > 0) {\n    m_pollMessages.remove(message);\n  }",
    "  if (message->getPollPriority() > 9) {\n    m_pollMessages.remove(message);\n  }")
mut("m24", MSGH, "MessagePriorityQueue::push", "the queue no longer keeps its entries distinct (duplicate removal dropped)",
    "C17",
    "  void push(const value_type& __x) {\n    for (vector<Message*>::iterator it = c.begin(); it != c.end(); it++) {\n      if (*it == __x) {\n        c.erase(it);\n        break;\n      }\n    }",
    "  void push(const value_type& __x) {\n    for (vector<Message*>::iterator it = c.begin(); it != c.end(); it++) {\n      if (*it == __x) {\n        break;\n      }\n    }")
mut("m25", MSG, "Message::setPollPriority", "every change to a non-zero priority counts as newly set (`m_pollPriority == 0 &&` dropped): the message is re-placed one period behind the last polled one",
    "C17",
    "  bool ret = m_pollPriority == 0 && usePriority > 0;",
    "  bool ret = usePriority > 0;")
mut("m26", MSG, "MessageMap::addPollMessage", "a message that is behind the poll order is lifted to the last polled order only (`+ priority` dropped)",
    "C17",
    "      message->m_pollOrder = g_lastPollOrder + (unsigned int)message->m_pollPriority;\n    }\n    message->m_lastPollTime",
    "      message->m_pollOrder = g_lastPollOrder;\n    }\n    message->m_lastPollTime")
# ---------------------------------------------------------------- CSV splitting and column mapping
mut("m27", FR, "FileReader::splitFields", "`empty` tracks only the last completed field (`&=` became `=`): a line whose last fields are empty is taken for a blank line",
    "C19 C08",
    "          empty &= str.empty();",
    "          empty = str.empty();")
mut("m28", FR, "FileReader::splitFields", "after a doubled quote inside a quoted field the quoted state is not re-entered",
    "C19",
    "        if (prev == TEXT_SEPARATOR && !quotedText) {  // double dquote\n          field << ch;\n          quotedText = true;",
    "        if (prev == TEXT_SEPARATOR && !quotedText) {  // double dquote\n          field << ch;")
mut("m29", FR, "MappedFileReader::addFromFile", "a field group counts as empty when its last column is empty (`empty &=` became `empty =`)",
    "C19 C09",
    "    empty &= value.empty();\n    (*lastMappedRow)[columnName] = value;",
    "    empty = value.empty();\n    (*lastMappedRow)[columnName] = value;")
mut("m30", FR, "MappedFileReader::addFromFile", "a trailing all-empty field group is kept as an (empty) sub row (dropped resize)",
    "C19 C09 C08",
    "    if (lastMappedRow != &rowMapped) {\n      subRowsMapped.resize(subRowsMapped.size() - 1);\n    }",
    "    if (lastMappedRow == nullptr) {\n      subRowsMapped.resize(subRowsMapped.size() - 1);\n    }")
mut("m31", MSG, "MessageMap::addDefaultFromFile", "an empty column of a defaults row overrides the inherited default (dropped `!value.empty() ||` guard)",
    "C09 C13 C19",
    "    if (!value.empty() || defaults[entry.first].empty()) {\n      defaults[entry.first] = value;\n    }",
    "    defaults[entry.first] = value;")
# ---------------------------------------------------------------- dump
mut("m32", MSG, "Message::dumpField(type)", "poll priority 1 is not dumped (`> 0` became `> 1`)",
    "C19",
    "      if (m_pollPriority > 0) {\n        *output << static_cast<unsigned>(m_pollPriority);",
    "      if (m_pollPriority > 1) {\n        *output << static_cast<unsigned>(m_pollPriority);")
mut("m33", MSG, "Message::dumpField(zz)", "destination address is dumped without switching the stream to hex",
    "C19",
    "    if (m_dstAddress != SYN) {\n      *output << hex << setw(2) << setfill('0') << static_cast<unsigned>(m_dstAddress);",
    "    if (m_dstAddress != SYN) {\n      *output << setw(2) << setfill('0') << static_cast<unsigned>(m_dstAddress);")
mut("m34", DATA, "AttributedItem::dumpString", "a quote inside a text that has to be quoted is not doubled",
    "C19",
    "      *output << TEXT_SEPARATOR << TEXT_SEPARATOR;\n      last = pos+1;",
    "      *output << TEXT_SEPARATOR;\n      last = pos+1;")
mut("m35", DATA, "ConstantDataField::dump", "a verified constant (`==value`) is dumped as a plain constant (`=value`)",
    "C19",
    "    *output << (m_verify?\"==\":\"=\") << m_value;",
    "    *output << \"=\" << m_value;")
mut("m36", DT, "NumberDataType::dump", "bit fields dump the byte length of the field instead of their bit count",
    "C19",
    "  if (m_bitCount < 8) {\n    DataType::dump(outputFormat, m_bitCount, appendDivisor, output);",
    "  if (m_bitCount < 8) {\n    DataType::dump(outputFormat, length, appendDivisor, output);")
mut("m37", MSG, "Message::create", "type `r9` is not recognised as poll priority 9 (`poll <= '9'` became `poll < '9'`)",
    "C19 C17",
    "      if (poll >= '0' && poll <= '9') {  // poll priority (=active read)",
    "      if (poll >= '0' && poll < '9') {  // poll priority (=active read)")
# ---------------------------------------------------------------- findAll / add / remove
mut("m38", MSG, "MessageMap::findAll", "`until` is inclusive (`lastchg >= until` became `> until`)",
    "C13",
    "        || (until != 0 && lastchg >= until)) {",
    "        || (until != 0 && lastchg > until)) {")
mut("m39", MSG, "MessageMap::add(replace)", "replacing removes every definition stored under the same key, not only those with the same ID (checkId dropped; keys collide for IDs > 4 bytes)",
    "C08 C17",
    "          if (!other || !message->checkId(*other)) {\n            continue;\n          }",
    "          if (!other) {\n            continue;\n          }")
mut("m40", MSG, "MessageMap::remove", "removing a message drops the whole key bucket, i.e. also other definitions with the same key (fold twins, conditional twins)",
    "C17 C08",
    "    if (messages->empty()) {\n      m_messagesByKey.erase(keyIt);\n    }\n  }\n  bool storedByName = false;",
    "    if (needDelete) {\n      m_messagesByKey.erase(keyIt);\n    }\n  }\n  bool storedByName = false;")
mut("m41", MSG, "splitValues(numeric)", "open upper bound of `>n` / `>=n` is 65535 instead of UINT_MAX",
    "C13",
    "      if (!upto) {\n        valueRanges->push_back(UINT_MAX);\n      }",
    "      if (!upto) {\n        valueRanges->push_back(0xffff);\n      }")
mut("m42", MSG, "ChainedMessage::storeLastData(master,slave)", "the slave part is stored only when storing the master part completed the chain (`>= RESULT_OK` became `== RESULT_OK`)",
    "C09",
    "    result_t result = storeLastData(index, master);\n    if (result >= RESULT_OK) {\n      result = storeLastData(index, slave);\n    }\n    return result;\n  }\n  return RESULT_ERR_INVALID_ARG;",
    "    result_t result = storeLastData(index, master);\n    if (result == RESULT_OK) {\n      result = storeLastData(index, slave);\n    }\n    return result;\n  }\n  return RESULT_ERR_INVALID_ARG;")
mut("m43", MSG, "SimpleCondition::resolve", "the referenced message is looked up as active read only (fallback to a passive message dropped)",
    "C13",
    "      if (!message) {\n        message = messages->find(m_circuit, m_name, m_level, false, true);\n      }\n      *errorMessage << \"condition \"",
    "      *errorMessage << \"condition \"")
mut("m44", MSG, "Message::create", "a last chain part without length does not extend the allowed data length (dropped `maxLength += MAX_POS-chainLength`)",
    "C09 C19",
    "      maxLength += MAX_POS-chainLength;\n      chainLengths.back() = MAX_POS;",
    "      chainLengths.back() = MAX_POS;")
mut("m45", MSG, "Message::create", "only a broadcast destination (not a master destination) makes the fields default to the master part",
    "C09 C19",
    "      bool broadcastOrMaster = (dstAddress == BROADCAST) || isMaster(dstAddress);",
    "      bool broadcastOrMaster = (dstAddress == BROADCAST);")
# ---------------------------------------------------------------- second batch
mut("m46", MSG, "ChainedMessage::combineLastParts", "parts that arrived exactly the maximum time apart are no longer combined (`>` became `>=`)",
    "C09",
    "    if (minTime == 0 || maxTime == 0 || maxTime-minTime > m_maxTimeDiff) {",
    "    if (minTime == 0 || maxTime == 0 || maxTime-minTime >= m_maxTimeDiff) {")
mut("m47", MSG, "ChainedMessage::combineLastParts", "the combined telegram takes its header and ID from the last part instead of the first",
    "C09",
    "  SymbolString* add = m_lastMasterDatas[0];\n  for (size_t pos = 0; pos < 5+offset; pos++) {",
    "  SymbolString* add = m_lastMasterDatas[m_ids.size()-1];\n  for (size_t pos = 0; pos < 5+offset; pos++) {")
mut("m48", MSG, "Message::decodeLastDataNumField", "the raw numeric value is read behind the stored key ID (`m_id.size()-2`, for a chained message only the common prefix) instead of the virtual ID length",
    "C13 C09",
    "  result_t result = m_data->read(m_lastMasterData, getIdLength(), fieldName, fieldIndex, output);",
    "  result_t result = m_data->read(m_lastMasterData, m_id.size()-2, fieldName, fieldIndex, output);")
mut("m49", MSG, "Message::decodeLastData", "decoding a single field by index: the master part field count is only subtracted when a field name is given too",
    "C09 C13",
    "    fieldIndex -= m_data->getCount(pt_masterData, fieldName);",
    "    fieldIndex -= fieldName ? m_data->getCount(pt_masterData, fieldName) : 0;")
mut("m50", MSG, "MessageMap::find(circuit,name)", "the lookup without circuit is tried also when a circuit was given (`else if (lcircuit.empty())` became `else`)",
    "C13",
    "    } else if (lcircuit.empty()) {\n      nameKey = suffix;  // second try: without circuit\n    } else {\n      continue;  // not allowed without circuit\n    }",
    "    } else {\n      nameKey = suffix;  // second try: without circuit\n    }")
mut("m51", MSG, "MessageMap::add", "m_maxIdLength is not raised by a broadcast definition (`else if`)",
    "C08",
    "    m_maxBroadcastIdLength = idLength;\n  }\n  if (idLength > m_maxIdLength) {",
    "    m_maxBroadcastIdLength = idLength;\n  } else if (idLength > m_maxIdLength) {")
mut("m52", FR, "FileReader::splitFields", "wasQuoted is not reset at a field separator: a lone quote inside a later unquoted field is doubled and opens a quoted section",
    "C19",
    "          field.str(\"\");\n          wasQuoted = false;",
    "          field.str(\"\");")
mut("m53", DATA, "ValueListDataField::dump", "value list entries are separated by the field separator instead of the value separator",
    "C19",
    "        *output << VALUE_SEPARATOR;\n      }\n      *output << it.first << \"=\" << it.second;",
    "        *output << FIELD_SEPARATOR;\n      }\n      *output << it.first << \"=\" << it.second;")
mut("m54", MSG, "SimpleCondition::combineAnd", "the first condition of a combination is not added to it (only the following ones are checked)",
    "C13",
    "  return ret->combineAnd(this)->combineAnd(other);",
    "  return ret->combineAnd(other);")
mut("m55", MSG, "MessageMap::readConditions", "a condition derived on the fly is cached under the name of its base condition (value list missing in the cache key), replacing the base condition",
    "C13",
    "              m_conditions[key] = add;  // store derived condition",
    "              m_conditions[key.substr(0, sep)] = add;  // store derived condition")
mut("m56", DATA, "SingleDataField::dumpPrefix", "the stream is not switched back to decimal before a field is dumped (hex left over from the ID dump)",
    "C19",
    "  *output << setw(0) << dec;  // initialize formatting\n",
    "  *output << setw(0);  // initialize formatting\n")

# ---------------------------------------------------------------- third batch (probes of suspected blind spots)
mut("m57", MSG, "Message::create", "the message comment is stored only when it is empty (inverted test): comments of messages are lost at load",
    "C19",
    "  if (!comment.empty()) {\n    (*row)[\"comment\"] = comment;\n  }",
    "  if (comment.empty()) {\n    (*row)[\"comment\"] = comment;\n  }")
mut("m58", MSG, "Message::create", "master data length limit is off by one (`> 2 + maxLength` became `> 3 + maxLength`): a definition with NN = maximum+1 loads",
    "C09 C19",
    "maxLength == MAX_POS ? MAX_POS-id.size() : maxLength) > 2 + maxLength",
    "maxLength == MAX_POS ? MAX_POS-id.size() : maxLength) > 3 + maxLength")
mut("m59", MSG, "Message::create", "the QQ column is parsed as decimal instead of hex (`10` becomes 0x0a, which is no master: such rows are rejected)",
    "C08 C19 C09",
    "    srcAddress = (symbol_t)parseInt(str.c_str(), 16, 0, 0xff, &result);\n    if (result != RESULT_OK) {\n      *errorDescription = \"qq \"+str;",
    "    srcAddress = (symbol_t)parseInt(str.c_str(), 10, 0, 0xff, &result);\n    if (result != RESULT_OK) {\n      *errorDescription = \"qq \"+str;")

mut("m60", MSG, "Message::setPollPriority", "the priority cap for messages used by a condition (0 or > 5 -> 5) is applied to every message (dropped `m_usedByCondition &&`)",
    "C17",
    "  if (m_usedByCondition && (priority == 0 || priority > POLL_PRIORITY_CONDITION)) {",
    "  if (priority == 0 || priority > POLL_PRIORITY_CONDITION) {")
mut("m61", MSG, "Message::createKey(pb,sb,broadcast)", "scan messages are keyed with swapped direction (the per-address identification message as active write, the broadcast one as active read)",
    "C08 C13",
    "  key |= broadcast ? ID_SOURCE_ACTIVE_WRITE : ID_SOURCE_ACTIVE_READ;  // special values for active",
    "  key |= broadcast ? ID_SOURCE_ACTIVE_READ : ID_SOURCE_ACTIVE_WRITE;  // special values for active")


def main():
    os.makedirs(OUT, exist_ok=True)
    only = set(sys.argv[1:])
    plan = []
    ok = True
    for m in M:
        path = os.path.join(REPO, m["file"])
        src = subprocess.run(["git", "-C", REPO, "show", "HEAD:" + m["file"]], stdout=subprocess.PIPE, text=True, check=True).stdout
        cnt = src.count(m["old"])
        if cnt < m["nth"] or (cnt != 1 and m["nth"] == 1 and cnt > 1):
            print(m["id"], "OLD TEXT count =", cnt, "(need unique)")
            ok = False
            continue
        idx = -1
        for _ in range(m["nth"]):
            idx = src.index(m["old"], idx + 1)
        new = src[:idx] + m["new"] + src[idx + len(m["old"]):]
        diff = "".join(difflib.unified_diff(src.splitlines(True), new.splitlines(True), "a/" + m["file"], "b/" + m["file"], n=3))
        head = "# %s %s: %s\n# %s\n" % (m["id"], os.path.basename(m["file"]), m["func"], m["desc"])
        plan.append("\t".join([m["id"], m["file"], m["func"], m["desc"], m["checks"]]))
        if only and m["id"] not in only:
            continue
        with open(os.path.join(OUT, m["id"] + ".diff"), "w") as f:
            f.write(head + "diff --git a/%s b/%s\n" % (m["file"], m["file"]) + diff)
    with open("/tmp/mutC/plan.tsv", "w") as f:
        f.write("\n".join(plan) + "\n")
    print("mutants:", len(plan), "ok" if ok else "PROBLEMS")


main()
