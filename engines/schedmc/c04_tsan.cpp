// C04, free-running pass: the same client operations as schedmc (sendAndWait, addRequest of a
// self-deleting request) run on REAL threads against the real bus thread under ThreadSanitizer.
// The cooperative scheduler of schedmc serialises everything, so unsynchronised accesses (a lock
// dropped from Queue<T>, a field of a request touched outside the hand-over protocol) are invisible
// to it; ThreadSanitizer's happens-before analysis reports them without needing the bad schedule.
// Every iteration runs in a forked child (TSAN exit code + report file are the oracle).
#include <fcntl.h>
#include <sys/wait.h>
#include <atomic>
#include "../busmc/busworld.h"
#include "vout.h"

using namespace bw;
using ref::Bytes;

static vp::Result R;

static Script responder(const Bytes& master, const Bytes& resp) {
  int n1 = (int)ref::wirePart(master).size() - 1;
  uint8_t zz = master[1];
  Script s;
  s.push_back(await(n1));
  if (zz == ref::BROADCAST) { s.push_back(await(1)); return s; }
  if (ref::isMaster(zz)) { s.push_back(send(Bytes{ref::ACK})); s.push_back(await(1)); return s; }
  Bytes b{ref::ACK};
  Bytes wp = ref::wirePart(resp);
  b.insert(b.end(), wp.begin(), wp.end());
  s.push_back(send(b));
  s.push_back(await(1));
  s.push_back(await(1));
  return s;
}

class FireReq : public BusRequest {
 public:
  FireReq(const MasterSymbolString& m, std::atomic<int>* cnt) : BusRequest(m, true), m_cnt(cnt) {}
  bool notify(result_t, const SlaveSymbolString&) override { (*m_cnt)++; return false; }
  std::atomic<int>* m_cnt;
};

struct Ctx {
  World* w;
  std::atomic<int> left;
  std::atomic<int> fired;
  std::atomic<int> started;
  int results[4];
  Bytes slaves[4];
};

static void* busThread(void* arg) {
  Ctx* c = static_cast<Ctx*>(arg);
  c->w->h->run();
  return nullptr;
}
struct ClientArg { Ctx* c; int id; int behaviour; };
static void* clientThread(void* arg) {
  ClientArg* a = static_cast<ClientArg*>(arg);
  Ctx* c = a->c;
  World* w = c->w;
  while (c->started.load() == 0) sched_yield();
  if (a->behaviour == 0 || a->behaviour == 2) {
    SlaveSymbolString slave;
    result_t r = w->h->sendAndWait(w->masters[a->id], &slave);
    c->results[a->id] = r;
    c->slaves[a->id].assign(slave.data(), slave.data() + slave.size());
  }
  if (a->behaviour == 1 || a->behaviour == 2) {
    w->h->addRequest(new FireReq(w->masters[2], &c->fired), false);
  }
  if (--c->left == 0) __atomic_store_n(&w->externalBusy, false, __ATOMIC_SEQ_CST);
  return nullptr;
}

// one free-running execution; returns 0 ok, 1 semantic violation (printed)
static int runOnce(int variant, bool enhanced) {
  Scenario sc;
  sc.enhanced = enhanced;
  sc.k = 0; sc.c = 0; sc.r = 0;
  sc.tailSyns = 1;
  sc.stepCap = 50000000;  // free running: the bus thread idles until the clients are done
  struct RQ { Bytes m, r; };
  std::vector<RQ> rq = {
    {{0x31, 0x08, 0xb5, 0x09, 0x01, 0x0d}, {0x01, 0x5a}},
    {{0x31, 0x15, 0xb5, 0x09, 0x01, 0x0e}, {0x02, 0x11, 0x22}},
    {{0x31, 0xfe, 0x07, 0x04, 0x00}, {}},
  };
  for (auto& q : rq) { ReqSpec s; s.master = q.m; s.responder = responder(q.m, q.r); s.external = true; sc.reqs.push_back(s); }
  if (variant == 1) sc.loseArbitrations = 1;
  vp::Explorer ex;  // no budgets: the world only takes defaults
  World w(sc, ex);
  w.externalBusy = true;
  w.setup();
  Ctx c;
  c.w = &w; c.left = 2; c.fired = 0; c.started = 0;
  for (int i = 0; i < 4; i++) c.results[i] = 99;
  int reads = 0;
  w.readHook = [&]() { if (++reads == 3) c.started.store(1); if (reads > 3) sched_yield(); };
  pthread_t bus, c0, c1;
  ClientArg a0{&c, 0, variant == 2 ? 2 : 0}, a1{&c, 1, variant == 0 ? 0 : 1};
  pthread_create(&bus, nullptr, busThread, &c);
  pthread_create(&c0, nullptr, clientThread, &a0);
  pthread_create(&c1, nullptr, clientThread, &a1);
  pthread_join(c0, nullptr);
  pthread_join(c1, nullptr);
  pthread_join(bus, nullptr);
  int rc = 0;
  if (c.results[0] == RESULT_OK && c.slaves[0] != rq[0].r) { printf("client0 got the response %s of another request\n", ref::hex(c.slaves[0]).c_str()); rc = 1; }
  if (a1.behaviour == 0 && c.results[1] == RESULT_OK && c.slaves[1] != rq[1].r) { printf("client1 got the response %s of another request\n", ref::hex(c.slaves[1]).c_str()); rc = 1; }
  w.teardown();
  return rc;
}

int main(int argc, char** argv) {
  vp::Args A = vp::parseArgs(argc, argv);
  setFacilitiesLogLevel(1 << lf_COUNT, ll_none);
  if (A.opt.count("child")) {
    alarm(60);
    return runOnce((int)A.getInt("child", 0), A.getInt("enh", 0) != 0);
  }
  R.setDeadline(A);
  int iterations = (int)A.getInt("iterations", A.thorough() ? 400 : 60);
  std::string tmp = "/tmp/c04tsan." + std::to_string(getpid());
  bool replay = A.replay;
  int rvariant = 0, renh = 0;
  if (replay) { auto m = vp::parseCase(A.replayCase); rvariant = atoi(m["variant"].c_str()); renh = atoi(m["enh"].c_str()); iterations = 40; }
  bool any = false;
  for (int enh = 0; enh < 2; enh++) for (int variant = 0; variant < 3; variant++) {
    if (replay && (variant != rvariant || enh != renh)) continue;
    if (!replay && ((enh * 3 + variant) % A.nparts) != A.part) continue;
    std::string sigFound, detail;
    for (int it = 0; it < iterations && sigFound.empty(); it++) {
      if (R.expired()) break;
      pid_t pid = fork();
      if (pid == 0) {
        // a fresh process image per iteration (ThreadSanitizer does not support threads after fork)
        int fd = open(tmp.c_str(), O_WRONLY | O_CREAT | O_TRUNC, 0600);
        dup2(fd, 2); dup2(fd, 1);
        std::string v = std::to_string(variant), e = std::to_string(enh);
        execl("/proc/self/exe", argv[0], "--child", v.c_str(), "--enh", e.c_str(), (char*)nullptr);
        _exit(99);
      }
      int st = 0;
      waitpid(pid, &st, 0);
      R.evaluations++; R.tracesValidated++; R.transitions += 1;
      if (WIFEXITED(st) && WEXITSTATUS(st) == 0) continue;
      // classify by the ThreadSanitizer summary / our own message
      std::string txt; { FILE* f = fopen(tmp.c_str(), "r"); char b[512]; if (f) { while (fgets(b, sizeof(b), f)) txt += b; fclose(f); } }
      size_t p = txt.find("SUMMARY: ThreadSanitizer:");
      if (p != std::string::npos) {
        std::string line = txt.substr(p, txt.find('\n', p) - p);
        size_t in = line.rfind(" in ");
        std::string fn = in == std::string::npos ? "unknown" : line.substr(in + 4);
        size_t par = fn.find('('); if (par != std::string::npos) fn = fn.substr(0, par);
        for (auto& ch : fn) if (ch == ' ' || ch == '<' || ch == '>' || ch == ',' || ch == '*') ch = '_';
        sigFound = "C04/data-race/" + fn;
        detail = line;
      } else if (WIFSIGNALED(st)) {
        sigFound = "C04/free-running/signal-" + std::to_string(WTERMSIG(st));
        detail = "child terminated by a signal";
      } else {
        sigFound = "C04/free-running/wrong-result";
        detail = txt.substr(0, 300);
      }
    }
    R.distinct(vp::fnv("v" + std::to_string(variant) + std::to_string(enh)));
    R.state(vp::fnv("s" + std::to_string(variant) + std::to_string(enh)));
    if (!sigFound.empty()) {
      any = true;
      std::string cs = "variant=" + std::to_string(variant) + ";enh=" + std::to_string(enh);
      if (replay) printf("VIOLATES %s (bus behaviour %d, %s device)\n", sigFound.c_str(), variant, enh ? "enhanced" : "plain");
      R.violation(sigFound, detail + " [free-running ThreadSanitizer pass, bus behaviour " + std::to_string(variant) + ", " + (enh ? "enhanced" : "plain") + " device]", cs);
    } else if (replay) {
      printf("OK (no report in %d free-running iterations)\n", iterations);
    }
  }
  unlink(tmp.c_str());
  if (replay) return any ? 1 : 0;
  R.sample("free-running: bus thread + 2 client threads (sendAndWait / self-deleting addRequest), 3 bus behaviours x 2 devices, each iteration in a forked child under ThreadSanitizer");
  R.write(A.out);
  return 0;
}
