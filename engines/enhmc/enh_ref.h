// RefEnhDecoder: reference decoder of the adapter -> ebusd direction of the enhanced protocol,
// written from /repo/docs/enhanced_proto.md and the C14 statement (NOT from device_trans.cpp).
//
//   byte < 0x80                        data byte "as is" (short form of <RECEIVED>)
//   first 11ccccdd, second 10dddddd    command c, data d (8 bits)
//   responses: RESETTED 0x0, RECEIVED 0x1, STARTED 0x2, INFO 0x3, FAILED 0xa, ERROR_EBUS 0xb,
//              ERROR_HOST 0xc; every other command value is undefined
//   RECEIVED d -> symbol d;  STARTED d -> symbol d, arbitration won;  FAILED d -> symbol d, lost
//   RESETTED / INFO / ERROR_* / undefined -> no symbol
// Malformed input (C14 statement): a second byte without a first byte is no symbol; a first byte
// that is not followed by a second byte is no symbol and MAY swallow the single byte that follows
// it (both readings are allowed: the decoder is three-valued there and returns every allowed
// decoding).  Nothing else may be lost, invented, duplicated or altered.
#ifndef VERIF_ENH_REF_H_
#define VERIF_ENH_REF_H_

#include <stdint.h>
#include <string>
#include <vector>

namespace ref {

enum Kind { K_SYM, K_RESET, K_ERROR, K_INFO, K_UNDEF, K_STRAY, K_DANGLE };
static const uint16_t WON = 0x100, LOST = 0x200;

struct Event {
  uint8_t kind;
  uint16_t sym;  // K_SYM: value | WON | LOST; otherwise the data byte of the frame (or the raw byte)
  uint8_t cmd;
  uint8_t pos;   // offset of the first byte of the item in the stream
};
// small fixed-capacity vector (no heap traffic in the hot path)
template <class T, int N>
struct FixedVec {
  T v[N];
  int n = 0;
  bool overflow = false;
  void push_back(const T& x) { if (n < N) v[n++] = x; else overflow = true; }
  size_t size() const { return static_cast<size_t>(n); }
  void resize(size_t k) { n = static_cast<int>(k); }
  void clear() { n = 0; }
  const T& operator[](size_t i) const { return v[i]; }
  T& operator[](size_t i) { return v[i]; }
  const T* begin() const { return v; }
  const T* end() const { return v + n; }
  const T& back() const { return v[n - 1]; }
  bool operator==(const FixedVec& o) const {
    if (n != o.n) return false;
    for (int i = 0; i < n; i++) if (!(v[i] == o.v[i])) return false;
    return true;
  }
};
typedef FixedVec<Event, 40> Events;
typedef FixedVec<uint16_t, 40> Syms;

struct RefEnhDecoder {
  // every allowed decoding of the stream (1 << number of dangling first bytes followed by a
  // non-second byte; identical decodings are not merged)
  static void decode(const uint8_t* s, int n, std::vector<Events>* alts) {
    alts->clear();
    Events cur;
    rec(s, n, 0, &cur, alts);
  }
  static void symbols(const Events& ev, std::vector<uint16_t>* out) {
    out->clear();
    for (size_t i = 0; i < ev.size(); i++) if (ev[i].kind == K_SYM) out->push_back(ev[i].sym);
  }
  static void symbols(const Events& ev, Syms* out) {
    out->clear();
    for (size_t i = 0; i < ev.size(); i++) if (ev[i].kind == K_SYM) out->push_back(ev[i].sym);
  }

 private:
  static void rec(const uint8_t* s, int n, int i, Events* cur, std::vector<Events>* alts) {
    size_t mark = cur->size();
    while (i < n) {
      uint8_t b = s[i];
      if (b < 0x80) {
        cur->push_back(Event{K_SYM, b, 1, static_cast<uint8_t>(i)});
        i++;
        continue;
      }
      if ((b & 0xc0) == 0x80) {  // second byte in first position
        cur->push_back(Event{K_STRAY, b, 0, static_cast<uint8_t>(i)});
        i++;
        continue;
      }
      // first byte 11ccccdd
      if (i + 1 >= n) {  // stream ends inside the sequence
        cur->push_back(Event{K_DANGLE, b, 0, static_cast<uint8_t>(i)});
        i++;
        continue;
      }
      uint8_t b2 = s[i + 1];
      if ((b2 & 0xc0) != 0x80) {
        cur->push_back(Event{K_DANGLE, b, 0, static_cast<uint8_t>(i)});
        // reading 1: the following byte is swallowed
        size_t keep = cur->size();
        rec(s, n, i + 2, cur, alts);
        cur->resize(keep);
        // reading 2: the following byte is decoded on its own
        i++;
        continue;
      }
      uint8_t cmd = (b >> 2) & 0x0f;
      uint8_t data = static_cast<uint8_t>(((b & 0x03) << 6) | (b2 & 0x3f));
      uint8_t p = static_cast<uint8_t>(i);
      switch (cmd) {
        case 0x1: cur->push_back(Event{K_SYM, data, cmd, p}); break;
        case 0x2: cur->push_back(Event{K_SYM, static_cast<uint16_t>(data | WON), cmd, p}); break;
        case 0xa: cur->push_back(Event{K_SYM, static_cast<uint16_t>(data | LOST), cmd, p}); break;
        case 0x0: cur->push_back(Event{K_RESET, data, cmd, p}); break;
        case 0x3: cur->push_back(Event{K_INFO, data, cmd, p}); break;
        case 0xb:
        case 0xc: cur->push_back(Event{K_ERROR, data, cmd, p}); break;
        default: cur->push_back(Event{K_UNDEF, data, cmd, p}); break;
      }
      i += 2;
    }
    alts->push_back(*cur);
    cur->resize(mark);
  }
};

// ---- ebusd -> adapter direction ("encoding") ------------------------------------------------
// requests: INIT 0x0, SEND 0x1, START 0x2, INFO 0x3
inline void encodeRequest(unsigned cmd, unsigned data, uint8_t out[2]) {
  out[0] = static_cast<uint8_t>(0xc0 | ((cmd & 0x0f) << 2) | ((data >> 6) & 0x03));
  out[1] = static_cast<uint8_t>(0x80 | (data & 0x3f));
}

inline std::string symText(uint16_t s) {
  char b[8];
  snprintf(b, sizeof(b), "%02x%s", s & 0xff, (s & WON) ? "W" : (s & LOST) ? "L" : "");
  return b;
}
inline std::string symsText(const std::vector<uint16_t>& v) {
  std::string o = "[";
  for (size_t i = 0; i < v.size(); i++) {
    if (i) o += " ";
    o += symText(v[i]);
  }
  return o + "]";
}

inline std::string symsText(const Syms& v) { return symsText(std::vector<uint16_t>(v.begin(), v.end())); }

// table-driven self test (hand traces); returns "" if fine
inline std::string selfTest() {
  struct T { const char* name; std::vector<uint8_t> in; std::vector<std::vector<uint16_t>> want; };
  std::vector<T> tests = {
    {"plain", {0x55, 0x31}, {{0x55, 0x31}}},
    {"received-syn", {0xc6, 0xaa}, {{0xaa}}},               // 11 0001 10 | 10 101010 -> RECEIVED 0xaa
    {"received-esc", {0xc6, 0xa9}, {{0xa9}}},
    {"received-ff", {0xc7, 0xbf}, {{0xff}}},                // data bits 11 111111
    {"received-low", {0xc4, 0x95}, {{0x15}}},               // long form of a value < 0x80
    {"started", {0xc8, 0xb1}, {{0x31 | WON}}},              // 11 0010 00 | 10 110001 -> STARTED 0x31
    {"failed", {0xe8, 0x83}, {{0x03 | LOST}}},              // 11 1010 00 -> FAILED 0x03
    {"failed-f0", {0xeb, 0xb0}, {{0xf0 | LOST}}},
    {"reset-info-error", {0xc0, 0x81, 0xcc, 0x82, 0xec, 0x80, 0xf0, 0x81, 0x55}, {{0x55}}},
    {"undefined", {0xd0, 0x80, 0x55, 0xfc, 0xbf}, {{0x55}}},
    {"stray-second", {0x80, 0x55, 0xbf}, {{0x55}}},
    {"dangling-before-plain", {0xc6, 0x55, 0x31}, {{0x31}, {0x55, 0x31}}},
    {"dangling-before-first", {0xc6, 0xc6, 0xaa}, {{}, {0xaa}}},
    {"dangling-at-end", {0x55, 0xc6}, {{0x55}}},
    {"order", {0x01, 0xc8, 0xb1, 0x02, 0xe8, 0xb1, 0x03}, {{0x01, 0x31 | WON, 0x02, 0x31 | LOST, 0x03}}},
  };
  for (auto& t : tests) {
    std::vector<Events> alts;
    RefEnhDecoder::decode(t.in.data(), static_cast<int>(t.in.size()), &alts);
    if (alts.size() != t.want.size()) return std::string(t.name) + ": number of readings";
    for (size_t a = 0; a < alts.size(); a++) {
      std::vector<uint16_t> got;
      RefEnhDecoder::symbols(alts[a], &got);
      if (got != t.want[a]) return std::string(t.name) + ": got " + symsText(got) + " want " + symsText(t.want[a]);
    }
  }
  uint8_t o[2];
  encodeRequest(1, 0xaa, o);
  if (o[0] != 0xc6 || o[1] != 0xaa) return "encode SEND aa";
  encodeRequest(2, 0x31, o);
  if (o[0] != 0xc8 || o[1] != 0xb1) return "encode START 31";
  encodeRequest(3, 0x07, o);
  if (o[0] != 0xcc || o[1] != 0x87) return "encode INFO 07";
  encodeRequest(0, 0x01, o);
  if (o[0] != 0xc0 || o[1] != 0x81) return "encode INIT 01";
  return "";
}

}  // namespace ref

#endif  // VERIF_ENH_REF_H_
