#!/usr/bin/env python3
"""Run the planned quick checks for the given mutants (strictly sequential).
usage: run.py m01 m02:C08,C09 ...   (default: all in plan.tsv that have no result yet)
       run.py base                   (baseline on the clean worktree)"""
import os, re, subprocess, sys, time

WT = "/tmp/mutC_wt"
OUT = "/verif/mutation/mutC"
LOGS = "/tmp/mutC/logs"
RES = os.path.join(OUT, "results.tsv")
os.makedirs(LOGS, exist_ok=True)

plan = {}
order = []
if os.path.exists("/tmp/mutC/plan.tsv"):
    for line in open("/tmp/mutC/plan.tsv"):
        p = line.rstrip("\n").split("\t")
        if len(p) < 5 or p[0].startswith("#"):
            continue
        plan[p[0]] = p
        order.append(p[0])

if not os.path.exists(RES):
    with open(RES, "w") as f:
        f.write("id\tfile\tfunction\tchange\tcheck\texit\tverdict\texhaustive\twall_s\tfirst_signature\n")

done = set()
for l in list(open(RES))[1:]:
    done.add(l.split("\t")[0])

args = sys.argv[1:]
override = {}
ids = []
for a in args:
    if ":" in a:
        i, c = a.split(":")
        override[i] = c.split(",")
        ids.append(i)
    else:
        ids.append(a)
if not ids:
    ids = [i for i in order if i not in done]


def runcheck(id, chk, p):
    t0 = time.time()
    env = dict(os.environ, VERIF_REPO=WT)
    r = subprocess.run(["nice", "-n", "15", "bin/vcheck", chk, "quick"], cwd="/verif", env=env,
                       stdout=subprocess.PIPE, stderr=subprocess.PIPE, text=True, errors="replace")
    wall = time.time() - t0
    with open(os.path.join(LOGS, "%s_%s.log" % (id, chk)), "w") as f:
        f.write(r.stdout + "\n--- stderr\n" + r.stderr[-20000:])
    sig = ""
    m = re.search(r"^\s+signature: (.*)$", r.stdout, re.M)
    if m:
        sig = m.group(1).strip()
    ex = ""
    m = re.search(r"exhaustive=(\w+)", r.stdout)
    if m:
        ex = m.group(1)
    if r.returncode == 1 and "VIOLATION" in r.stdout:
        verdict = "caught"
    elif r.returncode == 0:
        verdict = "survived"
    else:
        verdict = "harness-error"
        m = re.search(r"HARNESS-ERROR.*", r.stdout + r.stderr)
        sig = (m.group(0)[:300] if m else ("exit %d: " % r.returncode) + (r.stderr[-300:].replace("\n", " | ")))
    with open(RES, "a") as f:
        f.write("\t".join([id, p[1], p[2], p[3], chk, str(r.returncode), verdict, ex, "%.0f" % wall, sig.replace("\t", " ")]) + "\n")
    print("%s %s exit=%d %s exhaustive=%s wall=%.0fs %s" % (id, chk, r.returncode, verdict, ex, wall, sig[:200]), flush=True)
    return verdict


for id in ids:
    subprocess.run(["git", "-C", WT, "checkout", "--", "."], check=True)
    if id == "base":
        p = ["base", "-", "-", "unmodified worktree", "C08 C09 C13 C17 C19"]
    else:
        p = plan[id]
        r = subprocess.run(["git", "-C", WT, "apply", os.path.join(OUT, id + ".diff")])
        if r.returncode != 0:
            print(id, "APPLY FAILED", flush=True)
            continue
    checks = override.get(id) or p[4].split()
    for chk in checks:
        v = runcheck(id, chk, p)
        if v == "caught":
            break
subprocess.run(["git", "-C", WT, "checkout", "--", "."], check=True)
