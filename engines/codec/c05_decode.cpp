// C05: decoding yields the specified value for every built-in data type.
// Bounded-exhaustive enumeration of raw byte patterns x field configurations through the real
// DataField::create / DataField::read paths, judged by the independent reference in refcodec.h.
#include <math.h>
#include "codecA_harness.h"

using namespace hx;  // NOLINT
using rc::Expect;
using rc::Kind;
using rc::TypeSpec;

static vp::Result R;
static Impl I;
static bool THOROUGH = false;
static const size_t DISTINCT_CAP = 300000;
static uint64_t g_dontcare = 0;
static const vector<Fmt> FMSETS[3] = {{F_TEXT, F_JSON}, {F_TEXT}, {F_TEXT, F_JSON, F_NUM, F_JSONNUM, F_VALNAME, F_JSONVALNAME}};

// ---- expectation for one (configuration, raw, format) ---------------------------------------
static Expect expectFor(const Cfg& c, const uint8_t* raw, int n, Fmt fmt) {
  Expect e = rc::refDecode(c.fs, raw, n);
  if (fmt == F_TEXT || fmt == F_JSON) return e;
  // OF_NUMERIC / OF_VALUENAME only change the rendering of listed values
  if (string(e.cls) != "listed" || e.texts.empty()) return e;
  string name = e.texts[0], num = rc::i128str(e.raw);
  e.texts.clear();
  e.quoteJson = false;
  switch (fmt) {
    case F_NUM: case F_JSONNUM: e.texts.push_back(num); break;
    case F_VALNAME: e.texts.push_back(num + "=" + name); break;
    case F_JSONVALNAME: e.texts.push_back("{\"value\":" + num + ",\"name\":\"" + name + "\"}"); break;
    default: break;
  }
  return e;
}

// returns the violated rule or ""; fills cls; with log prints the observation
static string runCase(const Cfg& c, const uint8_t* raw, int n, Fmt fmt, bool log, string* cls, string* detail) {
  Expect e = expectFor(c, raw, n, fmt);
  string out;
  int rcode = I.decode(c, raw, n, fmt, &out);
  string rule = rc::judge(e, rcode, out, fmtIsJson(fmt));
  *cls = e.cls;
  if (e.dontcare) g_dontcare++;
  if (log || !rule.empty()) {
    *detail = "def=x," + string(c.fs.master ? "m" : "s") + "," + c.fs.typeText() +
              (c.listId ? string(",") + LISTS[c.listId] : (c.fs.div ? "," + std::to_string(c.fs.div) : string(""))) +
              " fmt=" + FMTNAMES[fmt] + " raw=" + hexOf(raw, n) + " reference " + e.describe() +
              " observed result=" + std::to_string(rcode) + " (" + getResultCode(static_cast<result_t>(rcode)) +
              ") text='" + printable(out) + "'" + (rule.empty() ? "" : " rule=" + rule);
  }
  if (log) printf("%s\n", detail->c_str());
  if (R.distinctSet.size() < DISTINCT_CAP) {
    R.distinct(vp::fnv(out, vp::fnv(c.key(), static_cast<uint64_t>(fmt * 131 + rcode + 7))));
  }
  return rule;
}

static void evalRaw(const Cfg& c, const uint8_t* raw, int n, FmSet fmset) {
  string cls, detail;
  for (Fmt fmt : FMSETS[fmset]) {
    R.evaluations++;
    R.tracesValidated++;
    string rule = runCase(c, raw, n, fmt, false, &cls, &detail);
    if (rule.empty()) continue;
    string sig = "C05/" + rule + "/" + c.fs.t->name + "/" + cls;
    if (c.fs.div > 1) sig += ",div";
    else if (c.fs.div < 0) sig += ",mul";
    if (c.listId) sig += ",list";
    if (c.rangeId) sig += ",range";
    if (fmt != F_TEXT) sig += string(",") + FMTNAMES[fmt];
    R.violation(sig, detail, c.key() + ";f=" + FMTNAMES[fmt] + ";raw=" + hexOf(raw, n));
    break;  // the other formats of the same pattern share the root cause
  }
}

static Enumerator E;

// ---- KNX 16 bit float ---------------------------------------------------------------------------
static bool knxCase(unsigned v, bool log, string* detail) {
  float f = uint16ToFloat(static_cast<uint16_t>(v));
  long double k = 0;
  bool valid = rc::knxValue(static_cast<uint16_t>(v), &k);
  bool ok;
  if (!valid) ok = isnan(f);
  else ok = !isnan(f) && fabsl(static_cast<long double>(f) - k) <= fabsl(k) * ldexpl(1.0L, -23);
  char b[200];
  snprintf(b, sizeof(b), "uint16ToFloat(0x%04x) = %.9g reference %s %.12Lg", v, static_cast<double>(f),
           valid ? "(0.01*M)*2^E =" : "invalid marker, NaN expected;", k);
  *detail = b;
  if (log) printf("%s\n", b);
  return ok;
}

// ---- replay ---------------------------------------------------------------------------------------
static int replay(const string& cs) {
  auto m = vp::parseCase(cs);
  string k = m.count("k") ? m["k"] : "dec";
  string detail, cls;
  if (k == "knx") {
    bool ok = knxCase(static_cast<unsigned>(strtoul(m["v"].c_str(), nullptr, 16)), true, &detail);
    printf(ok ? "OK\n" : "VIOLATES\n");
    return ok ? 0 : 1;
  }
  Cfg c;
  if (!cfgFromCase(m, &c)) { printf("bad case\n"); return 2; }
  if (k == "cfgbad") {
    printf("create x,s,%s divisor=%d -> %d (%s); a divisor on a non-numeric type must be rejected\n", c.fs.typeText().c_str(),
           c.fs.div, c.createRc, getResultCode(static_cast<result_t>(c.createRc)));
    bool ok = c.field == nullptr;
    printf(ok ? "OK\n" : "VIOLATES\n");
    return ok ? 0 : 1;
  }
  if (k == "cfg") {
    printf("create x,%s,%s divisor=%d list=%d -> %d (%s) %s\n", c.fs.master ? "m" : "s", c.fs.typeText().c_str(), c.fs.div,
           c.listId, c.createRc, getResultCode(static_cast<result_t>(c.createRc)), c.createErr.c_str());
    bool ok = c.field != nullptr;
    printf(ok ? "OK\n" : "VIOLATES\n");
    return ok ? 0 : 1;
  }
  if (c.field == nullptr) { printf("configuration not creatable: %s\n", c.createErr.c_str()); return 2; }
  vector<uint8_t> raw = bytesOf(m["raw"]);
  string rule = runCase(c, raw.data(), static_cast<int>(raw.size()), static_cast<Fmt>(fmtByName(m["f"])), true, &cls, &detail);
  printf(rule.empty() ? "OK\n" : "VIOLATES\n");
  return rule.empty() ? 0 : 1;
}

static void knx() {
  Part& P = E.P;
  P.start(E.cfgIdx++);
  string detail;
  char b[40];
  for (unsigned v = 0; v < 65536; v++) {
    if (!P.mine()) continue;
    R.evaluations++;
    R.tracesValidated++;
    R.transitions++;
    if (!knxCase(v, false, &detail)) {
      snprintf(b, sizeof(b), "k=knx;v=%04x", v);
      R.violation(string("C05/wrong-value/KNX16/") + (v == 0x7fff ? "invalid" : (v & 0x8000) ? "negative" : "positive"), detail, b);
    }
  }
}

int main(int argc, char** argv) {
  vp::Args A = vp::parseArgs(argc, argv);
  string st = rc::selfTest();
  if (!st.empty()) { fprintf(stderr, "reference self test failed: %s\n", st.c_str()); return 3; }
  if (A.replay) return replay(A.replayCase);
  R.setDeadline(A);
  THOROUGH = A.thorough();
  E.P.part = A.part;
  E.P.nparts = A.nparts;
  E.thorough = THOROUGH;
  E.ieeeSweepBits = THOROUGH ? static_cast<int>(A.getInt("ieeebits", 28)) : 0;
  E.full24Divs = {0, 10, 1000, -10};
  E.eval = evalRaw;
  E.stop = []() { return R.expired(); };
  E.cfgProblem = [](const Cfg& c, int must) {
    if (must == 1) {
      R.violation("C05/config-rejected/" + string(c.fs.t->name) + (c.fs.div > 1 ? "/div" : c.fs.div < 0 ? "/mul" : "/plain"),
                  "definition x,s," + c.fs.typeText() + " divisor " + std::to_string(c.fs.div) + " rejected: " + c.createErr,
                  "k=cfg;" + c.key());
    } else {
      R.violation("C05/config-accepted/" + string(c.fs.t->name), "definition with a divisor on a non-numeric type accepted",
                  "k=cfgbad;" + c.key());
    }
  };
  for (auto& u : unknownRegisteredTypes()) R.cap("registered type '" + u + "' has no reference specification: not covered");
  string only = A.get("only");  // debugging aid: run one group
  auto want = [&](const char* g) { return only.empty() || only == g; };
  if (want("num")) E.numericTypes();
  if (want("bits")) E.bitTypes();
  if (want("list")) E.listTypes();
  if (want("range")) E.rangeTypes();
  if (want("date")) E.dateTypes();
  if (want("time")) E.timeTypes();
  if (want("str")) E.stringTypes();
  if (want("tem")) E.temType();
  if (want("knx")) knx();
  if (want("ieee")) E.ieeeTypes();
  for (auto& kv : E.counters) R.counters[kv.first] += kv.second;
  R.transitions += I.calls;
  R.counters["dontcare"] = g_dontcare;
  if (R.distinctSet.size() >= DISTINCT_CAP) R.note("distinct-outcome statistic saturates at 300000 per partition (evaluations are complete)");
  if (E.P.part == 0) {
    R.sample("x,s,D2B raw=0112 -> reference number(4609/256 +-1/2e-3) observed '18.004'");
    R.sample("x,s,BDA raw=26100714 -> '26.10.2014' (weekday byte not owned on decode); ffffxxff -> '-.-.-'");
    R.sample("x,s,MIN raw=ff00 (255 minutes) -> reference '04:15'");
    R.sample("x,s,EXP raw=ec51b8bd -> ieee(-0.0900000035763, 6 significant digits) observed '-0.09'");
    R.sample("x,s,BI3:2 raw=ef -> '1' (bits 3..4)");
    R.sample("uint16ToFloat(0x8a24) = -30 reference (0.01*M)*2^E");
  }
  R.write(A.out);
  return 0;
}
