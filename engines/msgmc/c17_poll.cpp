// C17: polling is starvation-free and proportional to priority.
// Breadth-first search over operation histories of the real MessageMap poll queue with canonical
// state hashing.  Every history is executed on fresh objects in a forked child (g_lastPollOrder is
// process-global).  From every distinct reachable state an unperturbed run of 40*sum(p) selections
// is judged by RefPoll (c17_refpoll.h).
#include <errno.h>
#include <malloc.h>
#include <poll.h>
#include <sys/socket.h>
#include <sys/wait.h>
#include <unistd.h>
#include <deque>
#include <unordered_map>
#include "c17_world.h"
#include "c17_refpoll.h"

using namespace c17;
using std::string;
using std::vector;

namespace c17 { time_t g_now = T0; }
extern "C" time_t time(time_t* t) {
  if (t) *t = c17::g_now;
  return c17::g_now;
}

static vp::Result R;
// canonical states are kept per configuration in bfs(); only their number is carried over, so that the
// process that forks the workers stays small (fork cost grows with resident memory)
static uint64_t g_states = 0, g_distinct = 0;

// ---- judged execution of one history (in a fresh process) --------------------------------------
struct Outcome {
  bool ok = true;            // history could be replayed
  string canonBefore;        // canonical state before the last operation
  string canon;              // canonical state after the history
  SlotView view[MAXSLOT];
  bool heapOk = true;
  bool heapEverUnordered = false;  // the queue vector violated the heap order after some operation of the history
  bool structural = false;         // a structural rule fired (queue content / priority): reported, state not expanded
  bool unsafe = false;             // dangling queue entry: the judged run is not executed (it would use freed memory)
  // filled by run():
  uint64_t seqHash = 0;
  string startClass;
  vector<RefPoll::Finding> findings;
  string runLog;
};

static string pertClass(const vector<Op>& ops) {
  bool fresh = false, requeue = false, other = false;
  for (const Op& o : ops) {
    if (o.k == 'A' || o.k == 'L') fresh = true;
    else if (o.k == 'C' || o.k == 'Z') other = true;
    else if (o.k != 'G') requeue = true;
  }
  return string(other ? "othermap-" : "") + (fresh ? "fresh" : requeue ? "requeue" : "none");
}

// the unperturbed run from the current state of w, judged by RefPoll
static void unperturbedRun(World* w, Outcome* out, bool log) {
  if (out->unsafe) return;
  string structClass = out->structural ? out->startClass : string();
  vector<int> prio, slotOfIdx;
  int idxOfSlot[MAXSLOT];
  for (int k = 0; k < w->m_cfg.n; k++) {
    idxOfSlot[k] = -1;
    SlotView v = w->view(k);
    if (v.present && v.prio > 0) {
      idxOfSlot[k] = static_cast<int>(prio.size());
      prio.push_back(v.prio);
      slotOfIdx.push_back(k);
    }
  }
  char b[256];
  // classification of the start state for the signature (implementation internals, not the verdict)
  long long g = w->lastPollOrder();
  long long mn = -1;
  for (int k : slotOfIdx) if (mn < 0 || w->order(k) < mn) mn = w->order(k);
  out->startClass = "normal";
  for (size_t i = 0; i < slotOfIdx.size(); i++) {
    if (w->order(slotOfIdx[i]) > mn + prio[i] && out->startClass == "normal") out->startClass = "ahead";
  }
  for (int k : slotOfIdx) if (w->order(k) < g) out->startClass = "behind-g";
  if (out->heapEverUnordered) out->startClass += "+heapx";
  if (!structClass.empty()) out->startClass = structClass;
  if (log) {
    out->runLog += "state before the unperturbed run: " + w->canon(g) + "\n";
    for (size_t i = 0; i < slotOfIdx.size(); i++) {
      snprintf(b, sizeof(b), "  m%d priority=%d pollOrder=%lld\n", slotOfIdx[i], prio[i], w->order(slotOfIdx[i]));
      out->runLog += b;
    }
    snprintf(b, sizeof(b), "  lastPollOrder=%lld heap-ordered=%d class=%s\n", g, w->heapOk(), out->startClass.c_str());
    out->runLog += b;
  }
  if (prio.empty()) {
    Message* m = w->next();
    if (m != nullptr) out->findings.push_back({"spurious-selection", 0, "getNextPoll returned a message although none has a priority"});
    if (log) out->runLog += "no message has a poll priority; getNextPoll() -> " + string(m ? "message" : "null") + "\n";
    return;
  }
  RefPoll ref(prio);
  long T = ref.runLength();
  vector<int> seq;
  seq.reserve(T);
  uint64_t h = 1469598103934665603ULL;
  for (long k = 0; k < T; k++) {
    Message* m = w->next();
    R.transitions++;
    int s = m ? w->slotOf(m) : -1;
    int idx = s >= 0 ? idxOfSlot[s] : -1;
    if (m != nullptr && idx < 0) {
      snprintf(b, sizeof(b), "selection %ld returned a message that is not a defined message with a priority", k);
      out->findings.push_back({"foreign-selection", 0, b});
      break;
    }
    seq.push_back(idx);
    unsigned char c = static_cast<unsigned char>(s + 1);
    h = vp::fnv(&c, 1, h);
    if (idx < 0) break;
  }
  out->seqHash = h;
  vector<RefPoll::Finding> f = ref.judge(seq);
  out->findings.insert(out->findings.end(), f.begin(), f.end());
  if (log) {
    snprintf(b, sizeof(b), "unperturbed run of %ld selections (40*sum(p)), first 60: ", T);
    out->runLog += b;
    for (size_t k = 0; k < seq.size() && k < 60; k++) out->runLog += seq[k] < 0 ? string("?") : string(1, static_cast<char>('0' + slotOfIdx[seq[k]]));
    out->runLog += "\n";
    vector<long> n(prio.size(), 0);
    for (int s : seq) if (s >= 0) n[s]++;
    for (size_t i = 0; i < prio.size(); i++) {
      snprintf(b, sizeof(b), "  m%d priority=%d selected=%ld expected=%.2f+-%.0f waitBound=%ld\n", slotOfIdx[i], prio[i], n[i],
               ref.expected(i, T), RefPoll::freqTolerance(), ref.waitBound(i));
      out->runLog += b;
    }
    for (auto& x : out->findings) {
      string d = x.detail;
      out->runLog += "  VIOLATES " + x.rule + ": " + d + " [#k = k-th polled message: ";
      for (size_t i = 0; i < slotOfIdx.size(); i++) { snprintf(b, sizeof(b), "#%zu=m%d ", i, slotOfIdx[i]); out->runLog += b; }
      out->runLog += "]\n";
    }
  }
}

// a periodically perturbed run from the current state of w, judged by RefPerturbed
static void perturbedRun(World* w, const PerturbPattern& pat, Outcome* out, bool log) {
  if (out->unsafe || out->structural) return;
  vector<int> prio0;
  long sum = 0;
  for (int k = 0; k < w->m_cfg.n; k++) {
    SlotView v = w->view(k);
    prio0.push_back(v.present ? v.prio : -1);
    if (k != pat.m && v.present && v.prio > 0) sum += v.prio;
  }
  if (pat.m >= w->m_cfg.n) { out->ok = false; return; }
  // class of the start state for the signature: has any message been selected at a virtual time > 0 yet
  out->startClass = w->lastPollOrder() == 0 ? "g0" : "g+";
  sum += pat.kind == 'F' ? std::max(0, prio0[static_cast<size_t>(pat.m)]) : std::max(pat.a, pat.b);
  long reps = pat.repetitions(sum);
  vector<int> ev;
  ev.reserve(static_cast<size_t>(reps * (pat.q + 1)));
  int toggles = 0;
  for (long r = 0; r < reps; r++) {
    for (int i = 0; i < pat.q; i++) {
      Message* m = w->next();
      R.transitions++;
      int s = m ? w->slotOf(m) : EV_NULL;
      ev.push_back(m == nullptr ? EV_NULL : (s < 0 ? 99 : s));
    }
    int pr = (toggles++ % 2 == 0) ? pat.a : pat.b;
    bool ok = pat.kind == 'P' ? w->setPrio(pat.m, pr) : pat.kind == 'F' ? w->toFront(pat.m) : w->redefine(pat.m, pr);
    if (!ok) { out->ok = false; return; }
    R.transitions++;
    ev.push_back(EV_PERTURB);
    // structural rules after every perturbation; a wrong queue content ends the run (a dangling entry must not be polled)
    string q = pat.kind == 'A' && !w->m_midProblem.empty() ? w->m_midProblem : w->queueProblem();
    if (!q.empty()) {
      char sb[200];
      snprintf(sb, sizeof(sb), "poll queue %s after perturbation %ld of the run", q == "queue-dangling" ? "holds an entry that is no defined message" :
               q == "queue-not-distinct" ? "holds a message twice" : "lacks a defined message that has a priority", r + 1);
      out->findings.push_back({q + "-perturbed", static_cast<size_t>(pat.m), sb});
      if (log) out->runLog += string("  VIOLATES ") + q + "-perturbed: " + sb + "\n";
      return;
    }
  }
  out->findings = RefPerturbed(pat, prio0).judge(ev);
  {
    int k = w->prioProblem();
    char sb[160];
    if (k >= 0) {
      snprintf(sb, sizeof(sb), "m%d has poll priority %d, requested %d, at the end of the perturbed run", k, w->implPrio(k), w->view(k).prio);
      out->findings.push_back({"priority-mismatch-perturbed", static_cast<size_t>(k), sb});
    }
  }
  if (log) {
    char b[256];
    snprintf(b, sizeof(b), "periodically perturbed run %s: %ld x { %d x getNextPoll ; %s }\n", pat.str().c_str(), reps, pat.q,
             pat.kind == 'P' ? "if (m->setPollPriority(alternately a,b)) addPollMessage(false, m)" : pat.kind == 'F' ? "addPollMessage(true, m)" : "remove m if defined; define m with priority alternately a,b");
    out->runLog += b;
    out->runLog += "start class: " + out->startClass + (out->startClass == "g0" ? " (no message has been selected at a virtual time > 0 yet)\n" : "\n");
    out->runLog += "first events (digit = selected message, | = perturbation): ";
    for (size_t k = 0; k < ev.size() && k < 100; k++) out->runLog += ev[k] == EV_PERTURB ? string("|") : ev[k] == EV_NULL ? string("?") : string(1, static_cast<char>('0' + ev[k]));
    out->runLog += "\n";
    vector<long> n(prio0.size(), 0);
    for (int e : ev) if (e >= 0 && e < static_cast<int>(n.size())) n[static_cast<size_t>(e)]++;
    for (size_t k = 0; k < prio0.size(); k++) {
      snprintf(b, sizeof(b), "  m%zu %s: priority at start %d, selected %ld times\n", k, static_cast<int>(k) == pat.m ? "(perturbed)" : "           ", prio0[k], n[k]);
      out->runLog += b;
    }
    for (auto& x : out->findings) out->runLog += "  VIOLATES " + x.rule + ": " + x.detail + "\n";
  }
}

// structural rules, judged after the load and after every operation:
//  queue-dangling / queue-not-distinct / queue-missing: the poll queue holds exactly the defined messages with a priority
//  priority-mismatch: Message::getPollPriority() is the priority that was requested (r<p> type, setPollPriority argument)
static void structuralRules(World* w, const string& after, Outcome* out, string* log) {
  if (out->structural) return;
  char b[200];
  string q = w->queueProblem();
  if (!q.empty()) {
    snprintf(b, sizeof(b), "poll queue %s after %s", q == "queue-dangling" ? "holds an entry that is no defined message" :
             q == "queue-not-distinct" ? "holds a message twice" : "lacks a defined message that has a priority", after.c_str());
    out->findings.push_back({q, 0, b});
    out->structural = true;
    if (q == "queue-dangling") out->unsafe = true;
  } else {
    int k = w->prioProblem();
    if (k >= 0) {
      snprintf(b, sizeof(b), "m%d has poll priority %d, requested %d, after %s", k, w->implPrio(k), w->view(k).prio, after.c_str());
      out->findings.push_back({"priority-mismatch", static_cast<size_t>(k), b});
      out->structural = true;
    }
  }
  if (out->structural) {
    out->startClass = "after-" + after.substr(0, 1);
    if (log) *log += string("     VIOLATES ") + out->findings.back().rule + ": " + b + "\n";
  }
}

// replays cfg+ops on fresh objects in THIS process (call only in a fresh child / replay process)
static bool replayHistory(World* w, const vector<Op>& ops, Outcome* out, string* log, bool preloaded = false) {
  if (!preloaded && !w->loadInitial()) return false;
  structuralRules(w, "load", out, log);
  for (int i = 0; i < w->m_cfg.warm && !out->unsafe; i++) { w->next(); R.transitions++; }
  if (!w->heapOk()) out->heapEverUnordered = true;
  if (log && w->m_cfg.warm > 0) {
    char b[80];
    snprintf(b, sizeof(b), "warm-up: %d unperturbed selections\n", w->m_cfg.warm);
    *log += b;
  }
  for (size_t i = 0; i < ops.size(); i++) {
    if (i + 1 == ops.size()) out->canonBefore = w->canon(w->lastPollOrder());
    if (out->unsafe) return true;  // a dangling entry was reported: nothing further is executed on this state
    if (!w->apply(ops[i], log)) return false;
    R.transitions++;
    structuralRules(w, ops[i].str(), out, log);
    if (!w->heapOk()) {
      out->heapEverUnordered = true;
      if (log) *log += "     (poll queue vector is not heap-ordered now)\n";
    }
  }
  out->canon = w->canon(w->lastPollOrder());
  if (ops.empty()) out->canonBefore = out->canon;
  for (int k = 0; k < MAXSLOT; k++) out->view[k] = k < w->m_cfg.n ? w->view(k) : SlotView();
  out->heapOk = w->heapOk();
  return true;
}

// ---- execution in forked children, 16 at a time ------------------------------------------------
// The parent (this process) owns the search: frontier, visited set, monitors' verdicts.  It never
// polls, so its g_lastPollOrder stays 0.  Per configuration it builds `pristine` (a world that was
// only constructed and loaded with the initial definitions) and forks W long-lived workers; a worker
// receives one history at a time and forks a child per history, which inherits the pristine objects,
// replays the history, performs the judged unperturbed run and sends one result record.
static string encodeOutcome(const Outcome& o, uint64_t transitions) {
  string s = o.ok ? "ok\n" : "bad\n";
  s += o.canonBefore + "\n" + o.canon + "\n";
  char b[96];
  // per slot: -1 absent, otherwise the requested priority, +100 when a condition on the message was resolved
  for (int k = 0; k < MAXSLOT; k++) { snprintf(b, sizeof(b), "%d,", o.view[k].present ? o.view[k].prio + (o.view[k].cond ? 100 : 0) : -1); s += b; }
  snprintf(b, sizeof(b), "\n%d%d\n%llu\n%s\n%llu\n", o.heapOk ? 1 : 0, o.structural ? 1 : 0, static_cast<unsigned long long>(o.seqHash), o.startClass.c_str(),
           static_cast<unsigned long long>(transitions));
  s += b;
  for (auto& f : o.findings) { snprintf(b, sizeof(b), "\t%zu\t", f.msg); s += f.rule + b + f.detail + "\n"; }
  return s;
}
static bool decodeOutcome(const string& s, Outcome* o, uint64_t* transitions) {
  vector<string> lines;
  size_t pos = 0;
  while (pos < s.size()) {
    size_t e = s.find('\n', pos);
    if (e == string::npos) e = s.size();
    lines.push_back(s.substr(pos, e - pos));
    pos = e + 1;
  }
  if (lines.size() < 8) return false;
  o->ok = lines[0] == "ok";
  o->canonBefore = lines[1];
  o->canon = lines[2];
  int v[MAXSLOT] = {-1, -1, -1, -1};
  sscanf(lines[3].c_str(), "%d,%d,%d,%d", &v[0], &v[1], &v[2], &v[3]);
  for (int k = 0; k < MAXSLOT; k++) { o->view[k].present = v[k] >= 0; o->view[k].cond = v[k] >= 100; o->view[k].prio = v[k] < 0 ? 0 : v[k] % 100; }
  o->heapOk = lines[4].size() > 0 && lines[4][0] == '1';
  o->structural = lines[4].size() > 1 && lines[4][1] == '1';
  o->seqHash = strtoull(lines[5].c_str(), nullptr, 10);
  o->startClass = lines[6];
  *transitions = strtoull(lines[7].c_str(), nullptr, 10);
  for (size_t i = 8; i < lines.size(); i++) {
    size_t t = lines[i].find('\t');
    size_t t2 = t == string::npos ? t : lines[i].find('\t', t + 1);
    if (t2 == string::npos) continue;
    o->findings.push_back({lines[i].substr(0, t), static_cast<size_t>(strtoul(lines[i].substr(t + 1, t2 - t - 1).c_str(), nullptr, 10)), lines[i].substr(t2 + 1)});
  }
  return true;
}

static void workerLoop(World* pristine, int sock) {
  char buf[512];
  while (true) {
    ssize_t n = recv(sock, buf, sizeof(buf) - 1, 0);
    if (n <= 0) _exit(0);
    buf[n] = 0;
    pid_t pid = fork();
    if (pid < 0) _exit(5);
    if (pid == 0) {
      vector<Op> ops;
      Outcome o;
      R.transitions = 0;
      g_now = T0;
      string task(buf), patStr;
      size_t bar = task.find('|');
      if (bar != string::npos) { patStr = task.substr(bar + 1); task.resize(bar); }
      PerturbPattern pat;
      bool ok = parseOps(task, &ops) && (patStr.empty() || PerturbPattern::parse(patStr, &pat)) && replayHistory(pristine, ops, &o, nullptr, true);
      o.ok = ok;
      if (ok && patStr.empty()) unperturbedRun(pristine, &o, false);
      else if (ok) perturbedRun(pristine, pat, &o, false);
      string blob = encodeOutcome(o, R.transitions);
      if (send(sock, blob.data(), blob.size(), 0) != static_cast<ssize_t>(blob.size())) _exit(4);
      _exit(0);
    }
    int st = 0;
    waitpid(pid, &st, 0);
    if (!WIFEXITED(st) || WEXITSTATUS(st) != 0) {
      // the code under test crashed in the child: report it as a case
      Outcome o;
      o.ok = false;
      snprintf(buf, sizeof(buf), "child ended abnormally (wait status 0x%x)", st);
      o.findings.push_back({"crash", 0, buf});
      string blob = encodeOutcome(o, 0);
      send(sock, blob.data(), blob.size(), 0);
    }
  }
}

struct Pool {
  vector<int> socks;
  vector<pid_t> pids;
  void start(World* pristine, int workers) {
    for (int i = 0; i < workers; i++) {
      int sv[2];
      if (socketpair(AF_UNIX, SOCK_SEQPACKET, 0, sv) != 0) { perror("socketpair"); exit(3); }
      pid_t pid = fork();
      if (pid < 0) { perror("fork"); exit(3); }
      if (pid == 0) {
        close(sv[0]);
        for (int fd : socks) close(fd);
        workerLoop(pristine, sv[1]);
        _exit(0);
      }
      close(sv[1]);
      socks.push_back(sv[0]);
      pids.push_back(pid);
    }
  }
  void stop() {
    for (int fd : socks) close(fd);
    for (pid_t p : pids) { int st; waitpid(p, &st, 0); }
    socks.clear();
    pids.clear();
  }
  // executes all histories; results are delivered to `sink` strictly in task order
  template <typename Task, typename Sink>
  void runAll(size_t count, Task taskOps, Sink sink, const bool* abort) {
    vector<long> busy(socks.size(), -1);
    std::map<size_t, string> done;
    size_t nextIssue = 0, nextDeliver = 0;
    vector<char> buf(1 << 16);
    auto issue = [&](size_t w) {
      if (nextIssue >= count || *abort) return;
      string h = taskOps(nextIssue);
      if (h.empty()) h = ".";
      if (send(socks[w], h.data(), h.size(), 0) != static_cast<ssize_t>(h.size())) { perror("send"); exit(3); }
      busy[w] = static_cast<long>(nextIssue++);
    };
    for (size_t w = 0; w < socks.size(); w++) issue(w);
    while (nextDeliver < count) {
      if (*abort) {
        bool any = false;
        for (long b : busy) if (b >= 0) any = true;
        if (!any) return;
      }
      vector<struct pollfd> pf;
      vector<size_t> widx;
      for (size_t w = 0; w < socks.size(); w++) if (busy[w] >= 0) { pf.push_back({socks[w], POLLIN, 0}); widx.push_back(w); }
      if (pf.empty()) { fprintf(stderr, "c17: worker pool stalled\n"); exit(3); }
      if (poll(pf.data(), pf.size(), -1) < 0) { if (errno == EINTR) continue; perror("poll"); exit(3); }
      for (size_t i = 0; i < pf.size(); i++) {
        if (!(pf[i].revents & (POLLIN | POLLHUP))) continue;
        size_t w = widx[i];
        ssize_t n = recv(socks[w], buf.data(), buf.size(), 0);
        if (n <= 0) { fprintf(stderr, "c17: worker died\n"); exit(3); }
        done[static_cast<size_t>(busy[w])] = string(buf.data(), static_cast<size_t>(n));
        busy[w] = -1;
        // keep the reorder buffer bounded: only issue while the window is small
        if (nextIssue - nextDeliver < 4096) issue(w);
      }
      while (true) {
        auto it = done.find(nextDeliver);
        if (it == done.end()) break;
        sink(nextDeliver, it->second);
        done.erase(it);
        nextDeliver++;
      }
      for (size_t w = 0; w < socks.size(); w++) if (busy[w] < 0 && nextIssue - nextDeliver < 4096) issue(w);
    }
  }
};

static string sigOf(const string& rule, const string& startClass, const vector<Op>& ops, const Cfg&) {
  return "C17/" + rule + "/" + startClass + "/" + pertClass(ops);
}

// ---- operation alphabet for a state as seen from outside ---------------------------------------
static const int PRIOS[4] = {1, 2, 3, 9};
static vector<Op> enabledOps(const Cfg& cfg, const SlotView* v) {
  vector<Op> o;
  o.push_back({'G', 0, 0});
  for (int k = 0; k < cfg.n; k++) if (v[k].present) for (int p : PRIOS) if (p != v[k].prio) o.push_back({'P', k, p});
  for (int k = 0; k < cfg.n; k++) if (v[k].present && v[k].prio > 0) o.push_back({'F', k, 0});
  if (cfg.cond) for (int k = 0; k < cfg.n; k++) if (v[k].present && !v[k].cond) o.push_back({'R', k, 0});
  for (int k = 0; k < cfg.n; k++) if (!v[k].present) for (int p : PRIOS) o.push_back({'A', k, p});
  for (int k = 0; k < cfg.n; k++) if (v[k].present) o.push_back({'X', k, 0});
  o.push_back({'L', 0, 0});
  o.push_back({'C', 0, 0});
  o.push_back({'Z', 0, 0});
  return o;
}

struct Node {
  vector<Op> h;
  SlotView v[MAXSLOT];
  string canon;
};

static uint64_t totalViolations() {
  uint64_t n = 0;
  for (auto& kv : R.violations) n += kv.second.count;
  return n;
}

static void report(const Cfg& cfg, const vector<Op>& h, const Outcome& o) {
  for (auto& f : o.findings) {
    string cs = cfg.str() + ";ops=" + opsStr(h);
    R.violation(sigOf(f.rule, f.rule == "crash" ? "na" : o.startClass, h, cfg), f.detail + " after " + (h.empty() ? string("the initial load") : opsStr(h)) + " (" + cfg.str() + ")", cs);
  }
}

static const int PQS[4] = {1, 2, 3, 5};
static vector<PerturbPattern> patternsFor(const Cfg& cfg, const SlotView* v) {
  vector<PerturbPattern> out;
  for (int m = 0; m < cfg.n; m++) {
    for (char kind : {'P', 'F', 'A'}) {
      if (kind != 'A' && !v[m].present) continue;
      if (kind == 'F' && v[m].prio <= 0) continue;
      for (int a : PRIOS) for (int b : PRIOS) for (int q : PQS) {
        if (kind == 'F' && (a != PRIOS[0] || b != PRIOS[0])) continue;
        if (kind == 'A' && a > b) continue;  // re-definition: the phase of the alternation does not matter, unordered pairs
        PerturbPattern p;
        p.kind = kind; p.m = m; p.a = kind == 'F' ? 0 : a; p.b = kind == 'F' ? 0 : b; p.q = q;
        out.push_back(p);
      }
    }
  }
  return out;
}
static string perturbedSig(const RefPoll::Finding& f, const PerturbPattern& pat, const vector<Op>& h, const string& startClass) {
  string kind = pat.kind == 'F' ? "front" : string(pat.kind == 'P' ? "prio" : "add") + (pat.a == pat.b ? "-same" : "-alt");
  string who = f.rule == "share-perturbed" ? "other-messages" : (static_cast<int>(f.msg) == pat.m && pat.kind != 'F') ? "perturbed-message" : "other-message";
  if (pat.kind == 'F') who = "any-message";
  (void)h;  // the class of the history is in the case string; the start class tells whether polling has left virtual time 0
  return "C17/" + f.rule + "/" + kind + "/" + who + "-" + startClass;
}

static void bfs(const Cfg& cfg, int depth, int workers, int pdepth) {
  std::unordered_map<string, uint64_t> visited;  // canonical state -> hash of the unperturbed selection sequence
  vector<Node> frontier, next;
  const uint64_t violationsBefore = totalViolations();  // the abstraction self-test only fires when no rule did
  g_now = T0;
  World* pristine = new World(cfg);
  if (!pristine->loadInitial()) { fprintf(stderr, "c17: initial configuration %s could not be loaded\n", cfg.str().c_str()); exit(3); }
  pristine->lastPollOrder();  // creates the probe message
  Pool pool;
  pool.start(pristine, workers);
  struct Task { size_t node; Op op; };
  vector<Task> tasks;
  bool stop = false;
  // states from which the periodically perturbed runs start (all states up to depth pdepth)
  vector<Node> ptargets;
  auto runPerturbed = [&]() {
    struct PTask { size_t target; PerturbPattern pat; };
    vector<PTask> pt;
    for (size_t i = 0; i < ptargets.size(); i++) for (const PerturbPattern& p : patternsFor(cfg, ptargets[i].v)) pt.push_back({i, p});
    pool.runAll(pt.size(), [&](size_t t) {
      string h = opsStr(ptargets[pt[t].target].h);
      return (h.empty() ? string(".") : h) + "|" + pt[t].pat.str();
    }, [&](size_t t, const string& blob) {
      if (stop) return;
      if ((t & 1023) == 0 && R.expired()) { stop = true; return; }
      Outcome o;
      uint64_t tr = 0;
      if (!decodeOutcome(blob, &o, &tr)) { fprintf(stderr, "c17: bad result record\n"); exit(3); }
      const vector<Op>& h = ptargets[pt[t].target].h;
      R.transitions += tr;
      R.evaluations++;
      string cs = cfg.str() + ";ops=" + opsStr(h) + ";pat=" + pt[t].pat.str();
      if (!o.ok && o.findings.empty()) { fprintf(stderr, "c17: perturbed run %s could not be executed\n", cs.c_str()); exit(3); }
      if (o.canon != ptargets[pt[t].target].canon && o.ok) { fprintf(stderr, "c17: canonical state not reproduced before perturbed run %s\n", cs.c_str()); exit(3); }
      R.tracesValidated++;
      R.count("perturbed_runs");
      for (auto& f : o.findings) {
        string sig = f.rule == "crash" ? "C17/crash/perturbed/" + pertClass(h) : perturbedSig(f, pt[t].pat, h, o.startClass);
        R.violation(sig, f.detail + " in the perturbed run " + pt[t].pat.str() + " after " + (h.empty() ? string("the initial load") : opsStr(h)) + " (" + cfg.str() + ")", cs);
      }
      if (R.samples.size() < 7 && t == 37) R.sample(cs + " (periodically perturbed judged run)");
    }, &stop);
    R.count("perturbed_run_start_states", ptargets.size());
    ptargets.clear();
  };
  // level -1: the initial state
  pool.runAll(1, [](size_t) { return string(); }, [&](size_t, const string& blob) {
    Outcome o;
    uint64_t tr = 0;
    if (!decodeOutcome(blob, &o, &tr)) { fprintf(stderr, "c17: bad result record\n"); exit(3); }
    R.transitions += tr;
    R.evaluations++;
    R.tracesValidated++;
    vector<Op> h;
    report(cfg, h, o);
    if (!o.ok) {
      if (o.findings.empty()) { fprintf(stderr, "c17: initial state of %s could not be built\n", cfg.str().c_str()); exit(3); }
      stop = true;
      return;
    }
    if (o.structural) { R.count("states_with_structural_violation_not_expanded"); stop = true; return; }
    visited[o.canon] = o.seqHash;
    g_states++;
    if (!o.heapOk) R.count("states_with_unordered_heap");
    if (o.startClass != "normal") R.count("states_" + o.startClass);
    Node n;
    n.canon = o.canon;
    for (int k = 0; k < MAXSLOT; k++) n.v[k] = o.view[k];
    frontier.push_back(n);
    if (pdepth >= 0) ptargets.push_back(n);
    if (R.samples.size() < 2) R.sample(cfg.str() + " initial state " + o.canon);
  }, &stop);
  if (!stop && !ptargets.empty()) runPerturbed();
  for (int d = 0; d < depth && !frontier.empty() && !stop; d++) {
    next.clear();
    tasks.clear();
    for (size_t i = 0; i < frontier.size(); i++) for (const Op& op : enabledOps(cfg, frontier[i].v)) tasks.push_back({i, op});
    pool.runAll(tasks.size(), [&](size_t t) {
      vector<Op> h = frontier[tasks[t].node].h;
      h.push_back(tasks[t].op);
      return opsStr(h);
    }, [&](size_t t, const string& blob) {
      if (stop) return;
      if ((t & 1023) == 0 && R.expired()) { stop = true; return; }
      const Node& node = frontier[tasks[t].node];
      vector<Op> h = node.h;
      h.push_back(tasks[t].op);
      Outcome o;
      uint64_t tr = 0;
      if (!decodeOutcome(blob, &o, &tr)) { fprintf(stderr, "c17: bad result record\n"); exit(3); }
      R.transitions += tr;
      R.evaluations++;
      if (!o.ok) {
        if (o.findings.empty()) { fprintf(stderr, "c17: history %s of %s could not be replayed\n", opsStr(h).c_str(), cfg.str().c_str()); exit(3); }
        report(cfg, h, o);
        return;
      }
      R.tracesValidated++;
      if (o.canonBefore != node.canon) {
        fprintf(stderr, "c17: canonical state not reproduced on replay of %s (%s): %s vs %s\n", opsStr(h).c_str(), cfg.str().c_str(), o.canonBefore.c_str(), node.canon.c_str());
        exit(3);
      }
      if (o.structural) {
        // judged first: a state whose queue content / priorities are wrong is reported and not expanded
        report(cfg, h, o);
        R.count("states_with_structural_violation_not_expanded");
        return;
      }
      auto it = visited.find(o.canon);
      if (it != visited.end()) {
        if (it->second != o.seqHash) {
          if (totalViolations() > violationsBefore) {
            // the monitor already reported violations for this configuration: behaviour that depends on more than the
            // canonical state is then a consequence of the defect, not a harness problem
            R.count("revisits_with_different_behaviour_after_violations");
            report(cfg, h, o);
            return;
          }
          fprintf(stderr, "c17: canonical state %s reached by %s (%s) behaves differently from its first visit\n", o.canon.c_str(), opsStr(h).c_str(), cfg.str().c_str());
          exit(3);
        }
        R.count("revisits_with_identical_behaviour");
        return;
      }
      visited[o.canon] = o.seqHash;
      g_states++;
      g_distinct++;
      if (!o.heapOk) R.count("states_with_unordered_heap");
      if (o.startClass != "normal") R.count("states_" + o.startClass);
      report(cfg, h, o);
      if (R.samples.size() < 5 && d >= 2) R.sample(cfg.str() + " ops=" + opsStr(h) + " -> state " + o.canon);
      if (d + 1 < depth || d + 1 <= pdepth) {
        Node n;
        n.h = h;
        n.canon = o.canon;
        for (int k = 0; k < MAXSLOT; k++) n.v[k] = o.view[k];
        if (d + 1 < depth) next.push_back(n);
        if (d + 1 <= pdepth) ptargets.push_back(n);
      }
    }, &stop);
    frontier.swap(next);
    if (!stop && !ptargets.empty()) runPerturbed();
    if (!stop) {
      char b[64];
      snprintf(b, sizeof(b), "levels_completed_depth_%d", d + 1);
      R.count(b);
    }
  }
  pool.stop();
  delete pristine;
}

// ---- configurations ----------------------------------------------------------------------------
static vector<Cfg> configs(int n, const string& set) {
  vector<string> ips;
  const char PC[4] = {'1', '2', '3', '9'};
  // all messages defined with a priority
  int tuples = 1;
  for (int i = 0; i < n; i++) tuples *= 4;
  for (int t = 0; t < tuples; t++) {
    string ip;
    int x = t;
    bool sorted = true;
    for (int i = 0; i < n; i++) { ip += PC[x % 4]; x /= 4; }
    for (int i = 0; i + 1 < n; i++) if (ip[i] > ip[i + 1]) sorted = false;
    if (set == "all" || sorted) ips.push_back(ip);
  }
  // one message defined without priority ('0', first or last slot) or not defined at all ('-', last slot)
  int sub = tuples / 4;
  for (int t = 0; t < sub; t++) {
    string ip;
    int x = t;
    bool sorted = true;
    for (int i = 0; i + 1 < n; i++) { ip += PC[x % 4]; x /= 4; }
    for (int i = 0; i + 2 < n; i++) if (ip[i] > ip[i + 1]) sorted = false;
    if (set != "all" && !sorted) continue;
    ips.push_back("0" + ip);
    ips.push_back(ip + "0");
    ips.push_back(ip + "-");
  }
  vector<Cfg> out;
  for (const string& ip : ips) for (int dt = 1; dt >= 0; dt--) for (int warm : {0, 50}) {
    Cfg c;
    c.n = n; c.ip = ip; c.dt = dt; c.warm = warm;
    out.push_back(c);
  }
  // one of the messages is a chained one (three part IDs): for polling it is one entry with its priority like any other
  for (const string& ip : ips) {
    if (ip.find('0') != string::npos || ip.find('-') != string::npos) continue;
    for (int slot : {0, n - 1}) {
      Cfg c;
      c.n = n; c.ip = ip; c.dt = 1; c.warm = slot == 0 ? 0 : 50; c.chain = slot;
      out.push_back(c);
    }
  }
  // two polled messages with different IDs and the same lookup key (IDs beyond 4 bytes are folded into the key)
  for (const string& ip : ips) {
    if (ip.find('0') != string::npos || ip.find('-') != string::npos) continue;
    Cfg c;
    c.n = n; c.ip = ip; c.dt = 1; c.warm = 0; c.samekey = true;
    out.push_back(c);
  }
  // conditions on poll-world messages, resolved at any point of the history (a definition file loaded later): one message
  // has no priority of its own; with and without values in the messages
  for (const string& ip : ips) {
    if (ip[0] != '0') continue;
    for (int sl : {-1, 9}) {
      Cfg c;
      c.n = n; c.ip = ip; c.dt = 1; c.warm = 0; c.silent = sl; c.cond = true;
      out.push_back(c);
    }
  }
  // the polled devices answer (a value is stored in every selected message) - all of them, or all but one
  for (const string& ip : ips) {
    if (ip.find('0') != string::npos || ip.find('-') != string::npos) continue;
    for (int sl : {9, 0, n - 1}) {
      Cfg c;
      c.n = n; c.ip = ip; c.dt = 1; c.warm = sl == 9 ? 50 : 0; c.silent = sl;
      out.push_back(c);
    }
  }
  return out;
}

static bool parseCfg(const std::map<string, string>& m, Cfg* c) {
  auto get = [&](const char* k) { auto it = m.find(k); return it == m.end() ? string() : it->second; };
  c->n = atoi(get("n").c_str());
  c->ip = get("ip");
  c->dt = atoi(get("dt").c_str());
  c->warm = atoi(get("warm").c_str());
  c->chain = get("chain").empty() ? -1 : atoi(get("chain").c_str());
  c->silent = get("silent").empty() ? -1 : atoi(get("silent").c_str());
  c->cond = get("cond") == "1";
  c->samekey = get("samekey") == "1";
  if (c->n < 1 || c->n > MAXSLOT || static_cast<int>(c->ip.size()) != c->n || c->dt < 0 || c->warm < 0) return false;
  for (char ch : c->ip) if (ch != '-' && (ch < '0' || ch > '9')) return false;
  return true;
}

static int replay(const string& cs) {
  auto m = vp::parseCase(cs);
  Cfg cfg;
  vector<Op> ops;
  if (!parseCfg(m, &cfg) || !parseOps(m["ops"], &ops)) { printf("bad case string\n"); return 2; }
  printf("case: %s\n", cs.c_str());
  printf("initial definitions: ");
  for (int k = 0; k < cfg.n; k++) printf("m%d=%s ", k, cfg.ip[k] == '-' ? "undefined" : cfg.ip[k] == '0' ? "no-priority" : string(1, cfg.ip[k]).c_str());
  printf("; clock advances %d s per getNextPoll\n", cfg.dt);
  World* w = new World(cfg);
  Outcome o;
  string log;
  if (!replayHistory(w, ops, &o, &log)) { printf("%shistory cannot be replayed\n", log.c_str()); return 2; }
  printf("%s", log.c_str());
  if (m.count("pat")) {
    PerturbPattern pat;
    if (!PerturbPattern::parse(m["pat"], &pat)) { printf("bad pattern\n"); return 2; }
    printf("state before the perturbed run: %s\n", w->canon(w->lastPollOrder()).c_str());
    perturbedRun(w, pat, &o, true);
    if (!o.ok) { printf("perturbed run cannot be executed\n"); return 2; }
  } else {
    unperturbedRun(w, &o, true);
  }
  printf("%s", o.runLog.c_str());
  printf(o.findings.empty() ? "OK\n" : "VIOLATES\n");
  return o.findings.empty() ? 0 : 1;
}

int main(int argc, char** argv) {
  vp::Args A = vp::parseArgs(argc, argv);
  ebusd::setFacilitiesLogLevel(1 << ebusd::lf_COUNT, ebusd::ll_none);
  string why;
  if (!refPollSelfTest(&why)) { fprintf(stderr, "c17: RefPoll self-test failed: %s\n", why.c_str()); return 3; }
  if (A.replay) return replay(A.replayCase);
  R.setDeadline(A);
  int workers = static_cast<int>(A.getInt("workers", 16));
  // work list: (configuration, depth).  "core" configurations are searched deep, the broad set of
  // initial priority vectors shallow.
  struct Item { Cfg cfg; int depth; int pdepth; };
  vector<Item> items;
  int pdepth = static_cast<int>(A.getInt("pdepth", 2));    // perturbed runs from all states up to this depth, core configurations
  int pbdepth = static_cast<int>(A.getInt("pbdepth", 0));  // ... broad sets (-1: none)
  int pdepth4 = static_cast<int>(A.getInt("pdepth4", 2));  // ... core configurations with 4 messages
  auto addCore = [&](int n, const char* ip, int dt, int warm, int depth) {
    if (depth <= 0) return;
    Cfg c; c.n = n; c.ip = ip; c.dt = dt; c.warm = warm;
    items.push_back({c, depth, std::min(n == 4 ? pdepth4 : pdepth, depth)});
  };
  int depth = static_cast<int>(A.getInt("depth", 6));     // first core configuration
  int depth2 = static_cast<int>(A.getInt("depth2", 5));   // further core configurations
  int bdepth = static_cast<int>(A.getInt("bdepth", 3));   // broad set, 3 messages
  int depth4 = static_cast<int>(A.getInt("depth4", 0));   // 4 messages, core
  int bdepth4 = static_cast<int>(A.getInt("bdepth4", 0)); // 4 messages, broad
  addCore(3, "139", 1, 50, depth);
  addCore(3, "220", 0, 50, depth2);
  addCore(3, "93-", 1, 0, depth2);
  addCore(4, "1239", 1, 50, depth4);
  addCore(4, "220-", 0, 50, depth4 > 0 ? depth4 - 1 : 0);
  if (bdepth > 0) for (const Cfg& c : configs(3, A.get("set", "sorted"))) items.push_back({c, bdepth, std::min(pbdepth, bdepth)});
  if (bdepth4 > 0) for (const Cfg& c : configs(4, A.get("set", "sorted"))) items.push_back({c, bdepth4, std::min(pbdepth, bdepth4) > 0 ? 0 : std::min(pbdepth, bdepth4)});
  // cheap items first: the process is smallest when the workers of the expensive searches are forked
  std::stable_sort(items.begin(), items.end(), [](const Item& a, const Item& b) {
    return a.depth * 10 + a.cfg.n < b.depth * 10 + b.cfg.n;  // (stable: core configurations of equal depth keep their order)
  });
  long only = A.getInt("only", -1);
  for (size_t i = 0; i < items.size(); i++) {
    if (static_cast<int>(i % static_cast<size_t>(A.nparts)) != A.part) continue;
    if (only >= 0 && static_cast<long>(i) != only) continue;
    if (R.expired()) break;
    double t0 = vp::rawNow();
    uint64_t s0 = g_states, e0 = R.evaluations;
    bfs(items[i].cfg, items[i].depth, workers, items[i].pdepth);
    malloc_trim(0);
    R.count("configurations");
    if (A.getInt("verbose", 0)) fprintf(stderr, "%s depth=%d: states=%llu executions=%llu %.1fs\n", items[i].cfg.str().c_str(), items[i].depth,
        (unsigned long long)(g_states - s0), (unsigned long long)(R.evaluations - e0), vp::rawNow() - t0);
  }
  char b[400];
  snprintf(b, sizeof(b), "core depths %d/%d (3 messages) %d (4 messages); broad sets depth %d (3 messages, %s) %d (4 messages); perturbed runs from all states up to depth %d (core) / %d (broad); %zu (configuration, depth) items; every revisit of a canonical state re-ran the unperturbed run and had to reproduce the first visit's selection sequence",
           depth, depth2, depth4, bdepth, A.get("set", "sorted").c_str(), bdepth4, pdepth, pbdepth, items.size());
  R.note(b);
  for (uint64_t i = 0; i < g_states; i++) R.stateSet.insert(i);      // numbers of canonical states / of non-initial ones
  for (uint64_t i = 0; i < g_distinct; i++) R.distinctSet.insert(i);
  R.write(A.out);
  return 0;
}
