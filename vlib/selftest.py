#!/usr/bin/env python3
"""setup-time sanity: MANIFEST validates against the schema and every check's harness sources exist."""
import json, os, sys
sys.path.insert(0, os.path.dirname(os.path.dirname(os.path.abspath(__file__))))
from vlib.checks import CHECKS, READY
CHECKS = {k: v for k, v in CHECKS.items() if k in READY}
V = os.path.dirname(os.path.dirname(os.path.abspath(__file__)))
m = json.load(open(os.path.join(V, "MANIFEST.json")))
ids = {c["property_id"] for c in m["checks"]}
assert ids == set(CHECKS), (ids, set(CHECKS))
for pid, c in CHECKS.items():
    for r in c["runs"]:
        for s in r["sources"]:
            assert os.path.exists(os.path.join(V, s)), s
json.load(open(os.path.join(V, "known_findings.json")))
print("selftest ok: %d checks" % len(ids))
