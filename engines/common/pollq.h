// Reading the poll queue of a MessageMap without depending on how it is implemented.
// The current implementation derives from std::priority_queue (protected container `c`, reachable with
// -fno-access-control): then the exact heap layout is returned (the finest canonical form).  Any other
// implementation that keeps the public interface of a priority queue (copyable, empty/top/pop) is read by draining a
// copy - the content in service order; the layout component of a canonical state is coarser then, which can only
// merge more states (less coverage), never raise an alarm.
#ifndef VERIF_POLLQ_H_
#define VERIF_POLLQ_H_
#include <vector>

namespace vp {

template <class Q>
auto pollQueueItemsImpl(const Q& q, int) -> decltype(std::vector<typename Q::value_type>(q.c.begin(), q.c.end())) {
  return std::vector<typename Q::value_type>(q.c.begin(), q.c.end());
}
template <class Q>
std::vector<typename Q::value_type> pollQueueItemsImpl(const Q& q, long) {
  std::vector<typename Q::value_type> out;
  Q copy(q);
  while (!copy.empty()) { out.push_back(copy.top()); copy.pop(); }
  return out;
}
template <class Q>
std::vector<typename Q::value_type> pollQueueItems(const Q& q) { return pollQueueItemsImpl(q, 0); }

template <class Q>
void pollQueueClear(Q* q) { while (!q->empty()) q->pop(); }

}  // namespace vp
#endif  // VERIF_POLLQ_H_
