// schedmc: preemption-bounded exhaustive exploration of all interleavings of client threads with
// the bus thread (real DirectProtocolHandler::run, real Queue<T>, real sendAndWait/addRequest) under
// a cooperative scheduler over the hooked pthread operations (C04, thread schedules).
#include <set>
#define SANHOOKS_IMPL
#include "sanhooks.h"
#include "../busmc/busmon.h"
#include "../busmc/busworld.h"
#include "vp_sched.h"

using namespace bw;
using ref::Bytes;

static vp::Result R;
static std::string g_tier = "quick";
static bool g_isReplay = false;
static std::string g_out;

// ---- client programs ----
enum OpKind { OP_SEND_AND_WAIT, OP_ADD_WAIT_DELETE, OP_FIRE_AND_FORGET };
struct Op { OpKind kind; int req; };
struct ClientProg { std::vector<Op> ops; };

struct SchedScenario {
  std::string name;
  Scenario bus;
  std::vector<ClientProg> clients;
  int startRead = 3;   // clients are started at this read call of the bus thread (signal acquired)
  int p = 2;           // preemption bound
  int timeouts = 0;    // timed waits that may expire although other threads can run
  bool allOk = false;  // conformant bus (or one lost arbitration with a retry left): every waited operation must succeed
};

struct OpResult { int result = 99; Bytes slave; bool returned = false; };

struct RunState {
  const SchedScenario* ss;
  World* w;
  vps::Sched* sched;
  std::vector<std::vector<OpResult>> results;
  std::vector<int> notifyCount;      // per request: notify() calls seen (TReq based ops)
  int clientsLeft = 0;
  bool started = false;
};

class CountMonitor : public Monitor {
 public:
  explicit CountMonitor(RunState* r) : rs(r) {}
  RunState* rs;
  void onNotify(int req, int, const Bytes&, bool) override { rs->notifyCount[req]++; }
};

static void clientBody(RunState* rs, int ci) {
  World* w = rs->w;
  const ClientProg& prog = rs->ss->clients[ci];
  for (size_t oi = 0; oi < prog.ops.size(); oi++) {
    const Op& op = prog.ops[oi];
    OpResult& res = rs->results[ci][oi];
    switch (op.kind) {
      case OP_SEND_AND_WAIT: {
        SlaveSymbolString slave;
        result_t r = w->h->sendAndWait(w->masters[op.req], &slave);
        res.result = r;
        res.slave.assign(slave.data(), slave.data() + slave.size());
        break;
      }
      case OP_ADD_WAIT_DELETE: {
        TReq* q = new TReq(w, op.req, w->masters[op.req], false, 0);
        w->reqObj[op.req] = q;
        w->reqState[op.req] = 1;
        result_t r = w->h->addRequest(q, true);
        res.result = r == RESULT_OK ? w->lastResult[op.req] : r;
        w->reqObj[op.req] = nullptr;
        delete q;  // the waiter owns it again; the handler must not touch it any more
        break;
      }
      case OP_FIRE_AND_FORGET: {
        TReq* q = new TReq(w, op.req, w->masters[op.req], true, 0);
        w->reqObj[op.req] = q;
        w->reqState[op.req] = 1;
        result_t r = w->h->addRequest(q, false);
        res.result = r;
        break;
      }
    }
    res.returned = true;
  }
  rs->clientsLeft--;
  if (rs->clientsLeft == 0) w->externalBusy = false;
}

// ---- scenarios ----
static Script responder(const Bytes& master, const Bytes& resp, bool silent) {
  int n1 = (int)ref::wirePart(master).size() - 1;
  uint8_t zz = master[1];
  Script s;
  s.push_back(await(n1));
  if (zz == ref::BROADCAST) { s.push_back(await(1)); return s; }
  if (silent) return s;
  if (ref::isMaster(zz)) { s.push_back(send(Bytes{ref::ACK})); s.push_back(await(1)); return s; }
  Bytes b{ref::ACK};
  Bytes wp = ref::wirePart(resp);
  b.insert(b.end(), wp.begin(), wp.end());
  s.push_back(send(b));
  s.push_back(await(1));
  s.push_back(await(1));
  return s;
}

static std::vector<SchedScenario> scenarios(bool thorough) {
  std::vector<SchedScenario> v;
  struct RQ { Bytes m, r; };
  std::vector<RQ> rq = {
    {{0x31, 0x08, 0xb5, 0x09, 0x01, 0x0d}, {0x01, 0x5a}},
    {{0x31, 0x15, 0xb5, 0x09, 0x01, 0x0e}, {0x02, 0x11, 0x22}},
    {{0x31, 0xfe, 0x07, 0x04, 0x00}, {}},
    {{0x31, 0x10, 0xb5, 0x10, 0x01, 0xa9}, {}},
  };
  // client program sets
  std::vector<std::vector<ClientProg>> progs;
  progs.push_back({ClientProg{{{OP_SEND_AND_WAIT, 0}}}, ClientProg{{{OP_SEND_AND_WAIT, 1}}}});
  progs.push_back({ClientProg{{{OP_SEND_AND_WAIT, 0}}}, ClientProg{{{OP_FIRE_AND_FORGET, 2}}}});
  progs.push_back({ClientProg{{{OP_ADD_WAIT_DELETE, 0}}}, ClientProg{{{OP_SEND_AND_WAIT, 1}}}});
  progs.push_back({ClientProg{{{OP_ADD_WAIT_DELETE, 1}}}, ClientProg{{{OP_FIRE_AND_FORGET, 2}, {OP_SEND_AND_WAIT, 0}}}});
  if (thorough) {
    progs.push_back({ClientProg{{{OP_SEND_AND_WAIT, 0}, {OP_SEND_AND_WAIT, 3}}}, ClientProg{{{OP_SEND_AND_WAIT, 1}}}});
    progs.push_back({ClientProg{{{OP_SEND_AND_WAIT, 0}}}, ClientProg{{{OP_SEND_AND_WAIT, 1}}}, ClientProg{{{OP_FIRE_AND_FORGET, 2}}}});
    progs.push_back({ClientProg{{{OP_ADD_WAIT_DELETE, 0}}}, ClientProg{{{OP_ADD_WAIT_DELETE, 1}}}, ClientProg{{{OP_SEND_AND_WAIT, 3}}}});
  }
  // bus behaviours: 0 all answered, 1 first arbitration lost, 2 slave silent, 3 signal lost in the middle
  for (int enh = 0; enh < (thorough ? 2 : 1); enh++) {
    for (size_t pi = 0; pi < progs.size(); pi++) {
      for (int beh = 0; beh < 4; beh++) {
        SchedScenario ss;
        ss.bus.enhanced = enh;
        ss.bus.busLostRetries = beh == 1 ? 1 : 2;
        ss.bus.tailSyns = 1;
        ss.bus.k = 0; ss.bus.c = 0; ss.bus.r = 0;
        for (size_t i = 0; i < rq.size(); i++) {
          ReqSpec q;
          q.master = rq[i].m;
          q.responder = responder(rq[i].m, rq[i].r, beh == 2 && i == 0);
          q.external = true;
          ss.bus.reqs.push_back(q);
        }
        if (beh == 1) ss.bus.loseArbitrations = 1;
        if (beh == 3) ss.bus.silenceAtRead = 9;
        ss.clients = progs[pi];
        ss.allOk = beh == 0 || beh == 1;
        ss.p = thorough ? 4 : 3;
        if (thorough && ss.clients.size() > 2) ss.p = 3;
        ss.name = std::string(enh ? "enh" : "plain") + "/prog" + std::to_string(pi) + "/bus" + std::to_string(beh) + "/p" + std::to_string(ss.p);
        v.push_back(ss);
        // the one-second liveness check of a waiter fires while the bus thread is still busy with its request
        if ((beh == 0 || beh == 2) && (pi == 0 || pi == 2 || thorough)) {
          SchedScenario s3 = ss;
          s3.timeouts = 1;
          s3.p = thorough ? 3 : 2;
          s3.name += "/timeout1";
          v.push_back(s3);
        }
        // submission while there is no signal: before the first symbol was ever received, and after the signal was lost
        bool hasWaitOp = false;
        for (auto& c : ss.clients) for (auto& o : c.ops) if (o.kind == OP_ADD_WAIT_DELETE) hasWaitOp = true;
        if ((beh == 0 || beh == 3) && (hasWaitOp || thorough)) {
          std::vector<int> starts;
          if (beh == 0) starts = {1};
          else starts = {10, 11};
          for (int st : starts) {
            SchedScenario s2 = ss;
            s2.allOk = false;  // submissions without signal may legitimately fail
            s2.startRead = st;
            s2.name += "/start" + std::to_string(st);
            v.push_back(s2);
          }
        }
      }
    }
  }
  return v;
}

// ---- one execution ----
struct Verdict { std::vector<std::pair<std::string, std::string>> v; void add(const std::string& s, const std::string& d) { for (auto& e : v) if (e.first == s) return; v.push_back({s, d}); } };

static std::string caseStr(size_t idx, const vp::Explorer& ex) { return "prop=C04;tier=" + g_tier + ";sc=" + std::to_string(idx) + ";ch=" + ex.choicesStr(); }

static size_t g_curIdx = 0;
static vp::Explorer* g_curEx = nullptr;
static bool g_inRun = false;
static void abortWith(const std::string& sig, const std::string& detail) {
  std::string cs = caseStr(g_curIdx, *g_curEx);
  if (g_isReplay) { printf("VIOLATES %s: %s\n", sig.c_str(), detail.c_str()); fflush(stdout); _exit(1); }
  R.violation(sig, detail, cs);
  R.cap("exploration aborted at the first fatal outcome (" + sig + ")");
  R.write(g_out);
  _exit(0);
}
static void onSanitizerDeath(const char* which) {
  if (!g_inRun || g_curEx == nullptr) return;
  g_inRun = false;
  abortWith("C04/memory-error/threads", std::string(which) + " report (use after free / after return, double free, invalid object ...) in this schedule: a request was touched after its completion");
}

static void execute(size_t idx, const SchedScenario& ss, vp::Explorer& e, bool logging) {
  Verdict vd;
  vps::Sched sched;
  sched.ex = &e;
  sched.logging = logging;
  sched.timeoutChoices = ss.timeouts > 0;
  vps::g_sched = &sched;
  World w(ss.bus, e);
  w.logging = logging;
  RunState rs;
  rs.ss = &ss; rs.w = &w; rs.sched = &sched;
  rs.results.resize(ss.clients.size());
  for (size_t i = 0; i < ss.clients.size(); i++) rs.results[i].resize(ss.clients[i].ops.size());
  rs.notifyCount.assign(ss.bus.reqs.size(), 0);
  CountMonitor cm(&rs);
  w.mons.push_back(&cm);
  w.externalBusy = true;
  rs.clientsLeft = (int)ss.clients.size();
  w.readHook = [&]() {
    if (!rs.started && w.reads >= ss.startRead) {
      rs.started = true;
      for (size_t ci = 0; ci < ss.clients.size(); ci++) {
        static const char* names[] = {"client0", "client1", "client2", "client3"};
        sched.spawn(names[ci], [&rs, ci]() { clientBody(&rs, (int)ci); });
      }
    }
    sched.point("transport_read", true);
  };
  g_curIdx = idx; g_curEx = &e; g_inRun = true;
  w.setup();
  sched.spawn("bus", [&]() { w.h->run(); });
  sched.runAll();
  vps::g_sched = nullptr;
  bool stuck = sched.deadlock;
  if (stuck) {
    // a waiter can never be released (or a real deadlock): the process state is not recoverable
    std::string who;
    for (size_t ci = 0; ci < rs.results.size(); ci++) for (size_t oi = 0; oi < rs.results[ci].size(); oi++) if (!rs.results[ci][oi].returned) who += " client" + std::to_string(ci) + "/op" + std::to_string(oi);
    if (logging) { for (auto& l : w.log) printf("  %s\n", l.c_str()); for (auto& l : sched.trace) printf("%s\n", l.c_str()); }
    abortWith("C04/waiter-never-released", "no thread can make progress; operations that never returned:" + who);
  }
  // ---- oracle on the completed execution ----
  for (size_t ci = 0; ci < ss.clients.size(); ci++) {
    for (size_t oi = 0; oi < ss.clients[ci].ops.size(); oi++) {
      const Op& op = ss.clients[ci].ops[oi];
      const OpResult& r = rs.results[ci][oi];
      std::string who = "client" + std::to_string(ci) + "/op" + std::to_string(oi) + " (request " + ref::hex(ss.bus.reqs[op.req].master) + ")";
      if (!r.returned) { vd.add("C04/operation-not-returned", who + " did not return"); continue; }
      if (r.result == 1 || r.result == 2 || r.result == 99) vd.add("C04/indefinite-result/threads", who + " returned the non-result " + std::to_string(r.result));
      if (ss.allOk && sched.timeoutsFired == 0 && op.kind != OP_FIRE_AND_FORGET && r.result != RESULT_OK)
        vd.add("C04/failed-without-cause/threads", who + " returned error " + std::to_string(r.result) + " although every participant answered conformantly");
      if (op.kind == OP_SEND_AND_WAIT && r.result == RESULT_OK) {
        // the response of the own request: reference = what the responder script of that request sends
        Bytes want;
        uint8_t zz = ss.bus.reqs[op.req].master[1];
        if (zz != ref::BROADCAST && !ref::isMaster(zz)) {
          const Script& sc = ss.bus.reqs[op.req].responder;
          // responder: await, send(ACK+wire(resp)), ...
          for (auto& sg : sc) if (!sg.await && sg.bytes.size() > 1) { Bytes wp(sg.bytes.begin() + 1, sg.bytes.end() - 1); /* escaped resp without crc */
              // unescape
              Bytes u; for (size_t k = 0; k < wp.size(); k++) { if (wp[k] == 0xA9 && k + 1 < wp.size()) { u.push_back(wp[k + 1] == 0 ? 0xA9 : 0xAA); k++; } else u.push_back(wp[k]); }
              want = u; break; }
          if (r.slave != want) vd.add("C04/wrong-waiter-result", who + " returned response " + ref::hex(r.slave) + " instead of its own " + ref::hex(want));
        }
      }
      if (op.kind != OP_SEND_AND_WAIT) {
        int expectN = 1;
        if (op.kind == OP_FIRE_AND_FORGET && r.result != RESULT_OK) expectN = 0;
        if (rs.notifyCount[op.req] != expectN) vd.add(rs.notifyCount[op.req] > expectN ? "C04/completed-twice/threads" : "C04/never-completed/threads", who + " was notified " + std::to_string(rs.notifyCount[op.req]) + " times");
      }
    }
  }
  w.teardown();
  g_inRun = false;
  if (w.leaked != 0) vd.add("C04/leaked-request/threads", std::to_string(w.leaked) + " request object(s) leaked");
  if (sched.stepCap) R.cap("scheduler step cap hit in " + ss.name);
  if (w.capHit) R.cap("world step cap hit in " + ss.name);
  R.transitions += sched.steps;
  if (logging) {
    printf("scenario %zu: %s\n", idx, ss.name.c_str());
    for (auto& l : w.log) printf("  %s\n", l.c_str());
    for (auto& l : sched.trace) printf("%s\n", l.c_str());
    for (size_t ci = 0; ci < rs.results.size(); ci++) for (size_t oi = 0; oi < rs.results[ci].size(); oi++)
      printf("  client%zu/op%zu: returned=%d result=%d slave=%s\n", ci, oi, rs.results[ci][oi].returned, rs.results[ci][oi].result, ref::hex(rs.results[ci][oi].slave).c_str());
    for (auto& x : vd.v) printf("VIOLATES %s: %s\n", x.first.c_str(), x.second.c_str());
    if (vd.v.empty()) printf("OK (no violation)\n");
  }
  // distinct observable outcomes: results of all operations + notify counts
  std::string obs;
  for (auto& c : rs.results) for (auto& r : c) { obs += std::to_string(r.result) + ":" + ref::hex(r.slave) + ";"; }
  for (size_t i = 0; i < w.syms.size(); i++) obs.push_back((char)w.syms[i].v);
  R.distinct(vp::fnv(obs, idx * 7919 + 13));
  for (auto& x : vd.v) R.violation(x.first, x.second + " [scenario " + ss.name + "]", caseStr(idx, e));
  if (g_isReplay && !vd.v.empty()) { fflush(stdout); _exit(1); }
}

int main(int argc, char** argv) {
  vp::Args A = vp::parseArgs(argc, argv);
  setFacilitiesLogLevel(1 << lf_COUNT, ll_none);
  std::vector<uint16_t> rchoices;
  long rsc = -1;
  if (A.replay) {
    auto m = vp::parseCase(A.replayCase);
    rsc = atol(m["sc"].c_str());
    rchoices = vp::Explorer::parseChoices(m["ch"]);
    if (m.count("tier")) A.tier = m["tier"];
  }
  g_tier = A.tier; g_isReplay = A.replay; g_out = A.out;
  R.setDeadline(A);
  vp::g_onSanitizerReport = onSanitizerDeath;
  std::vector<SchedScenario> scs = scenarios(A.thorough());
  if (A.replay) {
    if (rsc < 0 || rsc >= (long)scs.size()) { printf("bad scenario\n"); return 2; }
    vp::Explorer ex;
    ex.budget[vps::K_PREEMPT] = 100; ex.budget[vps::K_TIMEOUT] = 100;
    ex.runOnce(rchoices, [&](vp::Explorer& e) { execute(rsc, scs[rsc], e, true); });
    return 0;
  }
  // work units: (scenario, slice)
  const int SL = 8;
  std::vector<std::pair<size_t, int>> units;
  for (size_t i = 0; i < scs.size(); i++) for (int j = 0; j < SL; j++) units.push_back({i, j});
  for (size_t u = 0; u < units.size(); u++) {
    if ((int)(u % A.nparts) != A.part) continue;
    if (R.expired()) break;
    size_t i = units[u].first;
    vp::Explorer ex;
    ex.budget[vps::K_PREEMPT] = scs[i].p + (int)A.getInt("dp", 0);
    ex.budget[vps::K_TIMEOUT] = scs[i].timeouts;
    ex.explore([&](vp::Explorer& e) {
      execute(i, scs[i], e, false);
      if ((e.executions & 0xff) == 0 && R.expired()) e.stopAll = true;
    }, units[u].second, SL);
    R.evaluations += ex.executions;
    R.tracesValidated += ex.executions;
    R.count("choice_points", ex.choicePoints);
    if (getenv("VERIF_VERBOSE")) fprintf(stderr, "%s slice %d: %llu schedules %.1fs\n", scs[i].name.c_str(), units[u].second, (unsigned long long)ex.executions, vp::rawNow() - R.t0);
    if (R.samples.size() < 3 && units[u].second == 0) R.sample("scenario " + scs[i].name + ": " + std::to_string(scs[i].clients.size()) + " client threads + bus thread");
  }
  // states: distinct observable outcomes serve as the state measure of this stateless search
  for (uint64_t h : R.distinctSet) R.stateSet.insert(h);
  R.write(A.out);
  return 0;
}
