// C06: what is read can be written back (encoding inverts decoding), and encode-decode-encode is a
// fixed point.  Differential oracle on the real DataField::read / DataField::write paths:
//  (a) every decodable raw pattern of the C05 domains: encode(decode(raw)) == raw on the owned bits
//      (null -> canonical replacement, weekday byte regenerated, IEEE within printed precision);
//  (b) every text of a bounded grammar of user-style inputs: if encode(t) succeeds, decode succeeds
//      and encode(decode(encode(t))) == encode(t);
//  (c) KNX 16 bit float: floatToUint16(uint16ToFloat(v)) denotes the same value (within one step).
// The reference codec is used only to classify inputs (which classes the statement covers), for the
// canonical replacement pattern and for the calendar weekday.
#include <math.h>
#include "codecA_harness.h"

using namespace hx;  // NOLINT
using rc::Expect;
using rc::Kind;
using rc::TypeSpec;

static vp::Result R;
static Impl I;
static Enumerator E;
static bool THOROUGH = false;
static const size_t DISTINCT_CAP = 300000;
static std::map<string, uint64_t> g_cnt;

// owned bits of the current configuration
static uint8_t g_owned[4] = {0xff, 0xff, 0xff, 0xff};

static bool subByteKind(Kind k) { return k == rc::K_BITS || k == rc::K_TRUNC || k == rc::K_TEM; }

// owned bits come from the type definition; the black-box discovery (bits ever set when every decodable value is
// written onto an empty buffer) must stay inside them
static void discoverOwned(const Cfg& c) {
  const TypeSpec& t = *c.fs.t;
  for (int i = 0; i < 4; i++) g_owned[i] = 0xff;
  if (!subByteKind(t.kind)) return;
  rc::ownedMask(c.fs, t.bytes, g_owned);
  unsigned total = t.bytes == 1 ? 256 : 65536;
  string nullText = rc::nullTextOf(c.fs);
  uint8_t b[2], seen[2] = {0, 0};
  string text;
  vector<uint8_t> enc;
  for (unsigned v = 0; v < total; v++) {
    b[0] = static_cast<uint8_t>(v); b[1] = static_cast<uint8_t>(v >> 8);
    if (I.decode(c, b, t.bytes, F_TEXT, &text) != 0) continue;
    if (text == nullText) continue;  // the replacement pattern is not a value of the field's domain
    if (I.encode(c, text, &enc) != 0) continue;
    for (size_t i = 0; i < enc.size() && i < 2; i++) {
      if ((enc[i] & ~g_owned[i]) != 0 && (seen[i] & enc[i] & ~g_owned[i]) == 0 && E.P.part == 0) {
        R.violation("C06/writes-unowned-bits/" + string(t.name) + "/valid",
                    "def " + c.fs.typeText() + " text '" + text + "' encodes to " + hexOf(enc.data(), enc.size()) +
                    " outside the field's bits " + hexOf(g_owned, t.bytes), "k=own;" + c.key() + ";raw=" + hexOf(b, t.bytes));
      }
      seen[i] |= enc[i];
    }
  }
}

static bool skipClass(const Cfg& c, const Expect& e) {
  string cls = e.cls;
  // classes whose text form the statement does not call lossless
  // (a partly undefined clock time - hour or minute '-' - is a text like any other for the types that keep one byte per
  //  part: what decodes must encode again)
  bool partialTime = cls == "partial-null" && c.fs.t->kind == rc::K_TIME;
  if (cls == "nonprintable" || (cls.compare(0, 12, "partial-null") == 0 && !partialTime) || cls == "unlisted" ||
      cls == "listed-replacement" || cls == "partial-replacement") return true;
  if (c.fs.t->kind == rc::K_WDAY && cls == "out-of-range") return true;
  return false;
}

// |raw| >= 2^24 with a divisor: beyond the 24 bit exactness limit of binary32 arithmetic the statement does not demand
// the identical bytes, but the re-encoded raw value must stay within that arithmetic's error (2^-22 relative + 1)
static bool bigClass(const Expect& e) { return e.numeric && e.relTol; }
static bool withinFloatDrift(const Cfg& c, rc::i128 v1, const vector<uint8_t>& enc, rc::i128* v2) {
  if (static_cast<int>(enc.size()) != c.fs.t->bytes) return false;
  if (rc::decodeInt(c.fs, enc.data(), v2) != rc::IC_VALID) return false;
  rc::i128 d = rc::iabs(*v2 - v1);
  return (d - 1) * ((rc::i128)1 << 22) <= rc::iabs(v1);
}

// ---- (a) decode -> encode ------------------------------------------------------------------------
static string roundTrip(const Cfg& c, const uint8_t* raw, int n, bool log, string* cls, string* detail) {
  const TypeSpec& t = *c.fs.t;
  Expect e = rc::refDecode(c.fs, raw, n);
  *cls = e.cls;
  string text;
  int rc1 = I.decode(c, raw, n, F_TEXT, &text);
  auto say = [&](const string& what, const vector<uint8_t>* enc, int rc2, const string& rule) {
    *detail = "def=x," + string(c.fs.master ? "m" : "s") + "," + c.fs.typeText() +
              (c.listId ? string(",") + LISTS[c.listId] : (c.fs.div ? "," + std::to_string(c.fs.div) : string(""))) +
              " raw=" + hexOf(raw, n) + " [" + e.cls + "] decode result=" + std::to_string(rc1) + " text='" + printable(text) + "'";
    if (enc != nullptr) {
      *detail += " encode result=" + std::to_string(rc2) + " (" + getResultCode(static_cast<result_t>(rc2)) + ") bytes=" +
                 hexOf(enc->data(), enc->size());
    }
    *detail += " " + what + (rule.empty() ? "" : " rule=" + rule);
    if (log) printf("%s\n", detail->c_str());
  };
  if (rc1 != 0) { g_cnt["a_undecodable"]++; if (log) say("not decodable: not judged", nullptr, 0, ""); return ""; }
  if (t.kind == rc::K_IGN) return "";
  bool valueAdmitted = !e.texts.empty() || e.numeric || e.ieee;
  if (!e.dontcare && !valueAdmitted && !e.okNull) {
    // the reference says these bytes are no value at all: that they decode is C05's subject
    g_cnt["a_invalid_decoded_skipped"]++;
    if (log) say("pattern is invalid per reference (C05's subject): not judged", nullptr, 0, "");
    return "";
  }
  if (skipClass(c, e)) { g_cnt["a_open_class_skipped"]++; if (log) say("class left open by the statement: not judged", nullptr, 0, ""); return ""; }
  g_cnt["a_judged"]++;
  vector<uint8_t> enc;
  int rc2 = I.encode(c, text, &enc);
  string nullText = rc::nullTextOf(c.fs);
  if (!nullText.empty() && text == nullText && t.kind != rc::K_STR && t.kind != rc::K_NTS) {
    uint8_t canon[4], mask[4];
    if (!rc::canonicalNull(c.fs, canon, mask)) {  // list field on a type without replacement
      g_cnt["a_judged"]--; g_cnt["a_open_class_skipped"]++;
      return "";
    }
    bool ok = rc2 == 0 && static_cast<int>(enc.size()) == n;
    for (int i = 0; ok && i < n; i++) ok = ((enc[i] ^ canon[i]) & mask[i] & g_owned[i]) == 0;
    if (!ok || log) say("null must encode to the canonical replacement " + hexOf(canon, n), &enc, rc2, ok ? "" : "null-not-canonical");
    return ok ? "" : "null-not-canonical";
  }
  if (rc2 != 0 && t.kind == rc::K_IEEE) {
    // lossy type: the printed value may exceed the largest admissible binary32 by the printed precision / the
    // float scaling error; a rejection is then consistent with range-safe writing
    long double v1 = fabsl(rc::ieeeValue(rc::assemble(raw, 4, t.be)));
    if (v1 * (1 + ldexpl(1.0L, -21)) >= rc::ieeeValue(0x7effffff)) {
      g_cnt["a_judged"]--; g_cnt["a_open_class_skipped"]++;
      if (log) say("at the edge of the binary32 range: rejection admissible", &enc, rc2, "");
      return "";
    }
  }
  if (rc2 != 0 && bigClass(e)) {
    // the text may exceed the type's range by the float error: a rejection is then consistent with range-safe writing
    rc::i128 slack = rc::iabs(e.raw) / ((rc::i128)1 << 22) + 1;
    if (e.raw + slack > t.hi || e.raw - slack < t.lo) {
      g_cnt["a_judged"]--; g_cnt["a_open_class_skipped"]++;
      if (log) say("at the edge of the type's range beyond 24 bit exactness: rejection admissible", &enc, rc2, "");
      return "";
    }
  }
  if (rc2 != 0) { say("the decoded text is rejected", &enc, rc2, "text-rejected"); return "text-rejected"; }
  if (bigClass(e)) {
    rc::i128 v2 = 0;
    bool ok = withinFloatDrift(c, e.raw, enc, &v2);
    if (!ok || log) say("raw " + rc::i128str(e.raw) + " re-encoded as " + rc::i128str(v2) + ": must stay within 2^-22 relative + 1",
                        &enc, rc2, ok ? "" : "value-drift");
    return ok ? "" : "value-drift";
  }
  if (t.kind == rc::K_IEEE) {
    // lossy: the re-encoded value may differ by the printed precision (one unit of the last printed digit)
    if (enc.size() != 4) { say("length differs", &enc, rc2, "bytes-differ"); return "bytes-differ"; }
    uint32_t u1 = rc::assemble(raw, 4, t.be), u2 = rc::assemble(enc.data(), 4, t.be);
    if (((u2 >> 23) & 0xff) == 255) { say("re-encoded to a non-number", &enc, rc2, "value-drift"); return "value-drift"; }
    long double v1 = rc::ieeeValue(u1), v2 = rc::ieeeValue(u2);
    rc::Dec d = rc::parseDec(text);
    long double unit = d.ok ? powl(10.0L, d.exp10) : 0;
    if (c.fs.div < 0) unit /= -c.fs.div; else if (c.fs.div > 1) unit *= c.fs.div;
    long double tol = unit + fabsl(v1) * ldexpl(1.0L, -22);
    bool ok = rc::isDecimalSyntax(text) && (d.ok ? fabsl(v2 - v1) <= tol : fabsl(v2 - v1) <= fabsl(v1) * 1e-5L);
    if (!ok || log) say("IEEE value must be reproduced within the printed precision", &enc, rc2, ok ? "" : "value-drift");
    return ok ? "" : "value-drift";
  }
  // expected bytes
  uint8_t expect[32], mask[32];
  for (int i = 0; i < n; i++) { expect[i] = raw[i]; mask[i] = i < 4 ? g_owned[i] : 0xff; }
  if (t.kind == rc::K_DATE && n == 4) {
    mask[2] = 0;
    if (string(e.cls) == "valid") {  // weekday regenerated from the date
      bool bcd = t.p1 != 0;
      auto dec = [&](uint8_t x) { return bcd ? (x >> 4) * 10 + (x & 15) : x; };
      int wd = rc::weekdayMon0(rc::daysFromCivil(2000 + dec(raw[3]), dec(raw[1]), dec(raw[0])));
      expect[2] = static_cast<uint8_t>(wd + t.p2);
      mask[2] = 0xff;
    }
  }
  if (t.kind == rc::K_NTS) {  // everything after the terminator is padding
    bool term = false;
    for (int i = 0; i < n; i++) { if (raw[i] == 0) term = true; if (term) expect[i] = 0; }
  }
  bool ok = static_cast<int>(enc.size()) == n;
  if (t.bytes == 0 && c.fs.len == 255 && static_cast<int>(enc.size()) > n) {
    // remainder length: the encoder may append padding / the terminator
    ok = true;
    for (size_t i = n; i < enc.size(); i++) ok &= enc[i] == (t.kind == rc::K_STR ? 0x20 : 0x00);
  }
  if (t.bytes == 0 && c.fs.len == 255 && static_cast<int>(enc.size()) < n) {
    // ... or drop trailing padding
    ok = true;
    for (int i = static_cast<int>(enc.size()); i < n; i++) ok &= expect[i] == (t.kind == rc::K_STR ? 0x20 : 0x00);
    n = static_cast<int>(enc.size());
  }
  bool onlyWeekday = ok;
  for (int i = 0; ok && i < n; i++) {
    if (((enc[i] ^ expect[i]) & mask[i]) != 0) {
      ok = false;
      onlyWeekday = t.kind == rc::K_DATE && n == 4 && i == 2;
      for (int j = 0; j < n; j++) if (j != 2 && ((enc[j] ^ expect[j]) & mask[j]) != 0) onlyWeekday = false;
    }
  }
  string rule = ok ? "" : (onlyWeekday ? "weekday-wrong" : "bytes-differ");
  if (!ok || log) say("expected bytes " + hexOf(expect, n) + " mask " + hexOf(mask, n), &enc, rc2, rule);
  return rule;
}

static void evalRaw(const Cfg& c, const uint8_t* raw, int n, FmSet) {
  string cls, detail;
  R.evaluations++;
  string rule = roundTrip(c, raw, n, false, &cls, &detail);
  R.tracesValidated++;
  if (R.distinctSet.size() < DISTINCT_CAP) R.distinct(vp::fnv(raw, n, vp::fnv(c.key())));
  if (rule.empty()) return;
  string sig = "C06/" + rule + "/" + c.fs.t->name + "/" + cls;
  if (c.fs.div > 1) sig += ",div";
  else if (c.fs.div < 0) sig += ",mul";
  if (c.listId) sig += ",list";
  if (c.rangeId) sig += ",range";
  R.violation(sig, detail, "k=rt;" + c.key() + ";raw=" + hexOf(raw, n));
}

// ---- (b) text -> encode -> decode -> encode ---------------------------------------------------------
static string textTrip(const Cfg& c, const string& text, bool log, string* detail, string* bcls) {
  const TypeSpec& t = *c.fs.t;
  *bcls = "";
  vector<uint8_t> b1, b2;
  string t2;
  int rc1 = I.encode(c, text, &b1);
  auto say = [&](const string& what, const string& rule, int rc2, int rc3) {
    *detail = "def=x," + string(c.fs.master ? "m" : "s") + "," + c.fs.typeText() +
              (c.listId ? string(",") + LISTS[c.listId] : (c.fs.div ? "," + std::to_string(c.fs.div) : string(""))) +
              " text='" + printable(text) + "' encode result=" + std::to_string(rc1) + " bytes=" + hexOf(b1.data(), b1.size());
    if (rc1 == 0) *detail += " decode result=" + std::to_string(rc2) + " text='" + printable(t2) + "'";
    if (rc1 == 0 && rc2 == 0) *detail += " encode result=" + std::to_string(rc3) + " bytes=" + hexOf(b2.data(), b2.size());
    *detail += " " + what + (rule.empty() ? "" : " rule=" + rule);
    if (log) printf("%s\n", detail->c_str());
  };
  if (rc1 != 0) { g_cnt["b_text_rejected"]++; if (log) say("text rejected: nothing to judge", "", 0, 0); return ""; }
  if (b1.empty()) {  // a field spans at least one byte: nothing that could decode was produced
    g_cnt["b_judged"]++;
    say("a successful encode produced no byte at all", "encoded-not-decodable", 0, 0);
    return "encoded-not-decodable";
  }
  if (t.bytes > 0 && static_cast<int>(b1.size()) != t.bytes) {
    g_cnt["b_judged"]++;
    say("a successful encode must produce exactly the field's " + std::to_string(t.bytes) + " byte(s)", "wrong-length", 0, 0);
    return "wrong-length";
  }
  {
    // classes the statement leaves open are recognised on the produced bytes
    Expect e = rc::refDecode(c.fs, b1.data(), static_cast<int>(b1.size()));
    *bcls = e.cls;  // class of the produced bytes
    bool valueAdmitted = !e.texts.empty() || e.numeric || e.ieee;
    if (!e.dontcare && !valueAdmitted && !e.okNull && !e.okEmpty && e.okError) {
      // converse clause: the bytes of a successful encode must decode, but the type definition says these bytes are
      // no value (decode error expected): the encode must not have succeeded
      g_cnt["b_judged"]++;
      say(string("a successful encode produced a pattern the type definition calls invalid [") + e.cls + "]",
          "encoded-invalid-pattern", 0, 0);
      return "encoded-invalid-pattern";
    }
    if (skipClass(c, e) || (!e.dontcare && !valueAdmitted && !e.okNull)) {
      g_cnt["b_open_class_skipped"]++;
      if (log) say(string("produced bytes are of class [") + e.cls + "], left open by the statement: not judged", "", 0, 0);
      return "";
    }
  }
  g_cnt["b_judged"]++;
  {
    // where the type definitions fix the bytes of this text, the produced bytes must be those
    uint8_t rb[32], rm[32];
    int rn = 0;
    if (rc::refEncode(c.fs, text, rb, rm, &rn)) {
      g_cnt["b_reference_encoded"]++;
      bool same = static_cast<int>(b1.size()) == rn || (t.bytes == 0 && c.fs.len == 255 && static_cast<int>(b1.size()) >= rn);
      for (int i = 0; same && i < rn; i++) same = ((b1[i] ^ rb[i]) & rm[i]) == 0;
      if (!same) {
        say("the type definition fixes the bytes of this text: " + hexOf(rb, rn) + " (mask " + hexOf(rm, rn) + ")", "encoded-wrong-bytes", 0, 0);
        return "encoded-wrong-bytes";
      }
    }
  }
  int rc2 = I.decode(c, b1.data(), static_cast<int>(b1.size()), F_TEXT, &t2);
  if (rc2 != 0) { say("bytes produced by a successful encode do not decode", "encoded-not-decodable", rc2, 0); return "encoded-not-decodable"; }
  int rc3 = I.encode(c, t2, &b2);
  if (rc3 != 0) { say("the decoded text is rejected", "reencode-rejected", rc2, rc3); return "reencode-rejected"; }
  bool ok;
  if (t.kind == rc::K_IEEE && b1.size() == 4 && b2.size() == 4) {
    uint32_t u1 = rc::assemble(b1.data(), 4, t.be), u2 = rc::assemble(b2.data(), 4, t.be);
    long double v1 = rc::ieeeValue(u1), v2 = rc::ieeeValue(u2);
    rc::Dec d = rc::parseDec(t2);
    long double unit = d.ok ? powl(10.0L, d.exp10) : fabsl(v1) * 1e-5L;
    if (c.fs.div < 0) unit /= -c.fs.div; else if (c.fs.div > 1) unit *= c.fs.div;
    bool nn1 = ((u1 >> 23) & 0xff) == 255, nn2 = ((u2 >> 23) & 0xff) == 255;
    ok = (nn1 || nn2) ? u1 == u2 : fabsl(v2 - v1) <= unit + fabsl(v1) * ldexpl(1.0L, -22);
    if (!ok || log) say("IEEE: re-encoded value within the printed precision", ok ? "" : "value-drift", rc2, rc3);
    return ok ? "" : "value-drift";
  }
  ok = b1 == b2;
  if (!ok) {
    Expect e1 = rc::refDecode(c.fs, b1.data(), static_cast<int>(b1.size()));
    rc::i128 v2 = 0;
    if (bigClass(e1) && withinFloatDrift(c, e1.raw, b2, &v2)) ok = true;  // beyond 24 bit exactness: bounded drift admitted
  }
  if (!ok || log) say("encode(decode(encode(t))) must equal encode(t)", ok ? "" : "not-fixed-point", rc2, rc3);
  return ok ? "" : "not-fixed-point";
}

static string numClass(const string& ip, const string& fp, const string& ep) {
  if (ip.size() > 1 && ip[0] == '0' && (ip[1] == 'x' || ip[1] == 'X')) return "number-hex";
  if (ip.size() > 1 && ip[0] == '0') return "number-lead0";
  return "number";
}

typedef std::function<void(const string& text, const string& cls)> TextFn;

static void numberTexts(const TextFn& fn) {
  static const char* SG[] = {"", "-", "+"};
  static const char* IP[] = {"0", "1", "5", "9", "10", "42", "99", "100", "127", "128", "200", "254", "255", "256",
    "999", "1000", "1234", "9999", "10000", "32767", "32768", "65534", "65535", "65536", "99999", "999999", "8388607",
    "8388608", "16777215", "16777216", "99999999", "2147483647", "2147483648", "4294967294", "4294967295", "4294967296",
    "007", "010", "08", "0100", "0800", "0123", "0x10", "0xff", "0X1F"};
  static const char* FP[] = {"", ".0", ".5", ".25", ".4", ".49", ".51", ".999", ".", ".0000001", ".004", ".06"};
  static const char* EP[] = {"", "e0", "e1", "e-1", "E2", "e+2", "e-3"};
  for (auto sg : SG) for (auto ip : IP) for (auto fp : FP) for (auto ep : EP) {
    fn(string(sg) + ip + fp + ep, numClass(ip, fp, ep));
  }
  static const char* SPECIAL[] = {"-", "", " 5", "5 ", "nan", "inf", "-inf", "1e40", "-1e40", "abc", "--1", "1-", "1e", ".5", "-.5",
                                  "0.000", "-0", "-0.0", "1,5", "3.4e38", "1.17549e-38", "1e-45", "1e-50", "0.1", "0.065", "-0.09"};
  for (auto s : SPECIAL) fn(s, "number-special");
}

static void dateTexts(bool withTime, const TextFn& fn) {
  static const char* D[] = {"1", "01", "9", "15", "28", "29", "30", "31", "0", "32", "-", ""};
  static const char* M[] = {"1", "01", "2", "02", "3", "12", "0", "13", "-"};
  static const char* Y[] = {"2000", "00", "0", "4", "24", "2024", "99", "2099", "2100", "1900", "1901", "1999", "100", "-",
                            "2009", "2008", "2078", "2079", "2080", "79", "09"};
  static const char* T[] = {"00:00", "0:0", "23:59", "24:00", "12:30", "7:05", "24:01", "-:-", "12", "12:60"};
  for (auto d : D) for (auto m : M) for (auto y : Y) {
    string s = string(d) + "." + m + "." + y;
    if (!withTime) { fn(s, "date"); continue; }
    for (auto t : T) fn(s + " " + t, "datetime");
  }
  fn("-.-.-", "date");
  fn("01.01", "date");
  fn("01.01.2000.", "date");
  fn("1.1.2000 ", "date");
}

static void timeTexts(int parts, const TextFn& fn) {
  static const char* H[] = {"0", "00", "7", "07", "12", "23", "24", "25", "-", ""};
  static const char* M[] = {"0", "00", "5", "05", "10", "15", "29", "30", "44", "45", "59", "60", "-"};
  for (auto h : H) for (auto m : M) {
    if (parts == 2) { fn(string(h) + ":" + m, "time"); continue; }
    for (auto s : M) fn(string(h) + ":" + m + ":" + s, "time");
  }
  fn("12", "time");
  fn("12:", "time");
  fn("12:00:", "time");
  fn("-", "time");
}

static void listTexts(const Cfg& c, const TextFn& fn) {
  for (auto& kv : c.fs.values) { fn(kv.second, "name"); fn(std::to_string(kv.first), "number"); fn(std::to_string(kv.first) + ".5", "number"); }
  for (const char* n : rc::DAYNAMES) fn(n, "name");
  for (const char* s : {"-", "", "x", "7", "8", "255", "0x10", "16", "mon", "Mon ", "-1"}) fn(s, "other");
}

static void hexTexts(const TextFn& fn) {
  static const char* B[] = {"00", "0a", "0A", "ff", "FF", "7f", "a9", "g0", "1"};
  for (auto a : B) {
    fn(a, "hex1");
    for (auto b : B) {
      fn(string(a) + b, "hex-noblank");
      fn(string(a) + " " + b, "hex-blank");
      fn(string(a) + "  " + b, "hex-blank2");
      for (auto x : B) {
        fn(string(a) + " " + b + " " + x, "hex-blank");
        fn(string(a) + b + x, "hex-noblank");
        fn(string(a) + "  " + b + "   " + x, "hex-blank2");
      }
    }
  }
  fn("", "hex-empty");
  fn(" 0a", "hex-blank");
  fn("0a ", "hex-blank");
}

static void stringTexts(const TextFn& fn) {
  static const char* S[] = {"", "a", "ab", "abc", "abcd", "abcde", " ", "  ", " a", "a ", "a b", "-", "A\"", "\\", "~", "a;b", "\x1f", "\x7f", "\xe4"};
  for (auto s : S) fn(s, "string");
}

static void temTexts(const TextFn& fn) {
  for (const char* g : {"0", "00", "1", "01", "31", "32", "-", "", "1x"}) for (const char* n : {"0", "000", "1", "001", "127", "128", "", "5-"}) {
    fn(string(g) + "-" + n, "tem");
  }
  fn("-", "tem");
  fn("5", "tem");
}

static bool partialNullText(const string& s) {
  int parts = 0, nulls = 0;
  size_t pos = 0;
  while (pos <= s.size()) {
    size_t e = s.find_first_of(".: ", pos);
    if (e == string::npos) e = s.size();
    parts++;
    if (s.substr(pos, e - pos) == "-") nulls++;
    pos = e + 1;
  }
  return nulls > 0 && nulls < parts;
}

static void evalText(const Cfg& c, const string& text, const string& tcls0) {
  if (!E.P.mine()) return;
  string tcls = tcls0;
  Kind k = c.fs.t->kind;
  if (k == rc::K_STR || k == rc::K_NTS) {
    for (unsigned char ch : text) if (ch < 0x20 || ch > 0x7e) return;  // the statement covers printable strings
  }
  if ((tcls == "date" || tcls == "datetime" || tcls == "time") && partialNullText(text)) tcls = "partial-null-text";
  string detail;
  R.evaluations++;
  R.tracesValidated++;
  if (R.distinctSet.size() < DISTINCT_CAP) R.distinct(vp::fnv(text, vp::fnv(c.key(), 99)));
  string bcls;
  string rule = textTrip(c, text, false, &detail, &bcls);
  if (rule.empty()) return;
  string sig = "C06/" + rule + "/" + c.fs.t->name + "/" + tcls + (bcls.empty() ? "" : "," + bcls);
  if (c.fs.div > 1) sig += ",div";
  else if (c.fs.div < 0) sig += ",mul";
  if (c.listId) sig += ",list";
  if (c.rangeId) sig += ",range";
  R.violation(sig, detail, "k=txt;" + c.key() + ";tx=" + vp::hex(reinterpret_cast<const unsigned char*>(text.data()), text.size()));
}

static void textGrammar() {
  for (size_t ti = 0; ti < rc::NTYPES && !R.expired(); ti++) {
    const TypeSpec& t = rc::TYPES[ti];
    if (t.kind == rc::K_IGN) continue;  // ignored data has no text form
    vector<string> variants;  // type texts
    if (t.kind == rc::K_BITS) {
      variants.push_back(t.name);
      if (t.p2 > 1) { variants.push_back(string(t.name) + ":2"); variants.push_back(string(t.name) + ":" + std::to_string(t.p2)); }
    } else if (t.bytes == 0) {
      variants = {string(t.name), string(t.name) + ":2", string(t.name) + ":3", string(t.name) + ":*"};
    } else {
      variants.push_back(t.name);
    }
    for (auto& ty : variants) {
      vector<int> divs = rc::isNumericKind(t.kind) ? vector<int>{0, 10, -10, 1000} : vector<int>{0};
      for (int div : divs) {
        Cfg c;
        if (!E.openCfg(&c, ty, div, 0, false, (div == 0 || t.div == 1 || div > 0) ? 1 : 0)) continue;
        TextFn fn = [&](const string& s, const string& cls) { evalText(c, s, cls); };
        switch (t.kind) {
          case rc::K_DATE: case rc::K_DAYS: dateTexts(false, fn); break;
          case rc::K_DTM: dateTexts(true, fn); break;
          case rc::K_TIME: timeTexts(t.bytes, fn); break;
          case rc::K_MINUTES: case rc::K_TRUNC: timeTexts(2, fn); break;
          case rc::K_WDAY: listTexts(c, fn); break;
          case rc::K_STR: case rc::K_NTS: case rc::K_IGN: stringTexts(fn); break;
          case rc::K_HEXSTR: hexTexts(fn); break;
          case rc::K_TEM: temTexts(fn); break;
          default: numberTexts(fn); break;
        }
        Enumerator::closeCfg(&c);
      }
    }
  }
  // value lists
  struct { const char* type; int list; } L[] = {{"UCH", 1}, {"UCH", 3}, {"UIN", 3}, {"BI3:2", 1}, {"BI3:2", 2}, {"BDY", 1}, {"ULG", 3},
    {"UCH", 4}, {"UCH", 5}, {"UCH", 6}, {"UCH", 8}, {"UIN", 4}, {"UIR", 6}, {"ULG", 5}, {"BI3:2", 5}, {"BI3:2", 6}, {"BI0:7", 8},
    {"PIN", 7}, {"PIN", 6}, {"BCD", 5}, {"HDY", 6}, {"SCH", 8}};
  for (auto& l : L) {
    Cfg c;
    if (!E.openCfg(&c, l.type, 0, l.list, false, 1)) continue;
    listTexts(c, [&](const string& s, const string& cls) { evalText(c, s, cls); });
    Enumerator::closeCfg(&c);
  }
  // configured ranges: texts outside the range must not encode (produced bytes would be invalid)
  struct { const char* type; int div; int range; } RG[] = {{"SCH", 0, 1}, {"SCH", 0, 2}, {"SIN", 0, 4}, {"D2C", 0, 7}, {"D2C", 0, 8},
    {"SCH", 10, 9}, {"UCH", 0, 6}, {"ULG", 0, 6}, {"D1C", 0, 7}, {"SLG", 0, 1}, {"BCD", 0, 1}};
  for (auto& l : RG) {
    Cfg c;
    if (!E.openCfg(&c, l.type, l.div, 0, false, 1, l.range)) continue;
    numberTexts([&](const string& s, const string& cls) { evalText(c, s, cls); });
    Enumerator::closeCfg(&c);
  }
  // TEM_P in master data
  {
    Cfg c;
    if (E.openCfg(&c, "TEM_P", 0, 0, true, 1)) {
      temTexts([&](const string& s, const string& cls) { evalText(c, s, cls); });
      Enumerator::closeCfg(&c);
    }
  }
}

// ---- (c) KNX 16 bit float -----------------------------------------------------------------------------
static bool knxCase(unsigned v, bool log, string* detail) {
  float f = uint16ToFloat(static_cast<uint16_t>(v));
  uint16_t v2 = floatToUint16(f);
  long double k1 = 0, k2 = 0;
  bool val1 = rc::knxValue(static_cast<uint16_t>(v), &k1), val2 = rc::knxValue(v2, &k2);
  bool ok;
  if (!val1) ok = !val2;  // invalid stays invalid
  else ok = val2 && fabsl(k2 - k1) <= rc::knxStep(static_cast<uint16_t>(v)) * (1 + 1e-12L);
  char b[240];
  snprintf(b, sizeof(b), "v=0x%04x -> uint16ToFloat=%.9g -> floatToUint16=0x%04x; reference values %.12Lg -> %s%.12Lg (step %.6Lg)",
           v, static_cast<double>(f), v2, k1, val2 ? "" : "invalid ", k2, rc::knxStep(static_cast<uint16_t>(v)));
  *detail = b;
  if (log) printf("%s\n", b);
  return ok;
}
static void knx() {
  Part& P = E.P;
  P.start(E.cfgIdx++);
  string detail;
  char b[40];
  for (unsigned v = 0; v < 65536; v++) {
    if (!P.mine()) continue;
    R.evaluations++;
    R.tracesValidated++;
    R.transitions += 2;
    if (!knxCase(v, false, &detail)) {
      snprintf(b, sizeof(b), "k=knx;v=%04x", v);
      R.violation(string("C06/knx-roundtrip/KNX16/") + ((v & 0x8000) ? "negative" : "positive"), detail, b);
    }
  }
}

// ---- replay ---------------------------------------------------------------------------------------------
static int replay(const string& cs) {
  auto m = vp::parseCase(cs);
  string k = m.count("k") ? m["k"] : "rt";
  string detail, cls;
  if (k == "knx") {
    bool ok = knxCase(static_cast<unsigned>(strtoul(m["v"].c_str(), nullptr, 16)), true, &detail);
    printf(ok ? "OK\n" : "VIOLATES\n");
    return ok ? 0 : 1;
  }
  Cfg c;
  if (!cfgFromCase(m, &c)) { printf("bad case\n"); return 2; }
  if (k == "cfg" || k == "cfgbad") {
    printf("create x,%s,%s divisor=%d list=%d -> %d (%s) %s\n", c.fs.master ? "m" : "s", c.fs.typeText().c_str(), c.fs.div,
           c.listId, c.createRc, getResultCode(static_cast<result_t>(c.createRc)), c.createErr.c_str());
    bool ok = (k == "cfg") == (c.field != nullptr);
    printf(ok ? "OK\n" : "VIOLATES\n");
    return ok ? 0 : 1;
  }
  if (c.field == nullptr) { printf("configuration not creatable: %s\n", c.createErr.c_str()); return 2; }
  if (k == "own") {
    uint8_t mask[4];
    vector<uint8_t> raw = bytesOf(m["raw"]), enc;
    rc::ownedMask(c.fs, c.fs.t->bytes, mask);
    string text;
    int r1 = I.decode(c, raw.data(), static_cast<int>(raw.size()), F_TEXT, &text);
    int r2 = r1 == 0 ? I.encode(c, text, &enc) : -1;
    bool bad = false;
    for (size_t i = 0; r2 == 0 && i < enc.size() && i < raw.size(); i++) bad |= (enc[i] & ~mask[i]) != 0;
    printf("def %s raw=%s decode result=%d text='%s' encode result=%d bytes=%s field bits=%s\n", c.fs.typeText().c_str(),
           hexOf(raw.data(), raw.size()).c_str(), r1, printable(text).c_str(), r2, hexOf(enc.data(), enc.size()).c_str(),
           hexOf(mask, raw.size()).c_str());
    printf(bad ? "VIOLATES\n" : "OK\n");
    return bad ? 1 : 0;
  }
  string rule;
  if (k == "txt") {
    vector<uint8_t> tx = bytesOf(m["tx"]);
    string bcls;
    rule = textTrip(c, string(tx.begin(), tx.end()), true, &detail, &bcls);
  } else {
    discoverOwned(c);
    vector<uint8_t> raw = bytesOf(m["raw"]);
    rule = roundTrip(c, raw.data(), static_cast<int>(raw.size()), true, &cls, &detail);
  }
  printf(rule.empty() ? "OK\n" : "VIOLATES\n");
  return rule.empty() ? 0 : 1;
}

int main(int argc, char** argv) {
  vp::Args A = vp::parseArgs(argc, argv);
  string st = rc::selfTest();
  if (!st.empty()) { fprintf(stderr, "reference self test failed: %s\n", st.c_str()); return 3; }
  if (A.replay) return replay(A.replayCase);
  R.setDeadline(A);
  THOROUGH = A.thorough();
  E.P.part = A.part;
  E.P.nparts = A.nparts;
  E.thorough = THOROUGH;
  E.ieeeSweepBits = 0;  // the EXP sweep belongs to C05; C06 uses the exponent x sign x mantissa product
  E.full24Divs = {0, 10};
  E.eval = evalRaw;
  E.stop = []() { return R.expired(); };
  E.onOpen = discoverOwned;
  E.cfgProblem = [](const Cfg& c, int must) {
    if (must == 1) {
      R.violation("C06/config-rejected/" + string(c.fs.t->name) + (c.fs.div > 1 ? "/div" : c.fs.div < 0 ? "/mul" : "/plain"),
                  "definition x,s," + c.fs.typeText() + " divisor " + std::to_string(c.fs.div) + " rejected: " + c.createErr,
                  "k=cfg;" + c.key());
    }
  };
  for (auto& u : unknownRegisteredTypes()) R.cap("registered type '" + u + "' has no reference specification: not covered");
  string only = A.get("only");
  auto want = [&](const char* g) { return only.empty() || only == g; };
  if (want("num")) E.numericTypes();
  if (want("bits")) E.bitTypes();
  if (want("list")) E.listTypes();
  if (want("range")) E.rangeTypes();
  if (want("date")) E.dateTypes();
  if (want("time")) E.timeTypes();
  if (want("str")) E.stringTypes();
  if (want("tem")) E.temType();
  if (want("ieee")) E.ieeeTypes();
  E.onOpen = nullptr;
  if (want("text")) textGrammar();
  if (want("knx")) knx();
  R.transitions += I.calls;
  for (auto& kv : E.counters) R.counters[kv.first] += kv.second;
  for (auto& kv : g_cnt) R.counters[kv.first] += kv.second;
  if (R.distinctSet.size() >= DISTINCT_CAP) R.note("distinct-input statistic saturates at 300000 per partition (evaluations are complete)");
  if (E.P.part == 0) {
    R.sample("x,s,D2B raw=0112 -> '18.004' -> 0112");
    R.sample("x,s,BDA raw=2610xx14 -> '26.10.2014' -> 26100714 (weekday byte regenerated: Sunday=07)");
    R.sample("x,s,UCH raw=ff -> '-' -> ff (canonical replacement)");
    R.sample("x,s,BI3:2 raw=ef -> '1' -> 08, equal on the owned bits 0x18");
    R.sample("x,s,PIN text '0100' -> encode -> decode -> encode must be a fixed point");
    R.sample("KNX: floatToUint16(uint16ToFloat(0x8a24)) denotes -30 again");
  }
  R.write(A.out);
  return 0;
}
