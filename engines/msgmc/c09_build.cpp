// C09: building, storing and decoding a message agree, chained messages included.
// Every definition of a bounded grammar is loaded by the real MessageMap; every accepted input
// combination is built with prepareMaster, looked up again with find, stored together with every
// slave answer of the value domain and decoded; chained messages additionally receive their parts
// in every arrival order with virtual time gaps {0, 1, one day per part} s (time() is owned by the harness).
#include <algorithm>
#include <deque>
#include <functional>
#include <memory>
#include <sstream>
#include "lib/ebus/message.h"
#include "lib/ebus/data.h"
#include "lib/ebus/result.h"
#include "lib/utils/log.h"
#include "vout.h"
#include "c09_grammar.h"

using namespace ebusd;
using std::string;
using std::vector;
using c09::Bytes;
using c09::Layout;
using c09::Shape;
using c09::Kind;

// ---- virtual clock ---------------------------------------------------------------------------
// "much later": a gap no collection window of a chained message reaches (the window length is not part of the statement)
static const long LATE_S = 86400;
static time_t g_now = 1700000000;
extern "C" time_t time(time_t* t) noexcept {
  if (t) *t = g_now;
  return g_now;
}

static vp::Result R;
static const unsigned SRC = 0x31;
static int g_part = 0;
static std::set<string> g_rejectNotes;

static DataFieldTemplates* g_templates;
class TestResolver : public Resolver {
 public:
  DataFieldTemplates* getTemplates(const string&) override { return g_templates; }
  result_t loadDefinitionsFromConfigPath(FileReader*, const string&, map<string, string>*, string*, bool) override {
    return RESULT_ERR_NOTFOUND;
  }
};
static TestResolver g_resolver;

static string sane(const string& s) {
  string o;
  for (char c : s) o += (isalnum((unsigned char)c) ? c : '-');
  return o;
}
static string rc(result_t r) { return getResultCode(r); }

// ---- reference view of a definition ------------------------------------------------------------
struct RefField {
  const Kind* kind;
  bool master;
  vector<string> names;   // one per token
};
struct RefDef {
  const Shape* shape;
  Layout layout;
  string text;               // definition file
  vector<RefField> fields;
  vector<unsigned> dsts;     // destination per created message (0xAA = none)
  Bytes pbsb;
  vector<Bytes> ids;         // ID bytes beyond PBSB (one per chain part)
  vector<int> partLens;      // chained: data bytes carried by each part
  size_t masterLen = 0, slaveLen = 0;
  bool applicable = true;
};

static RefDef makeDef(const Shape& sh, const Layout& lay) {
  RefDef d;
  d.shape = &sh; d.layout = lay;
  d.pbsb = {0xb5, 0x09};
  string zz = sh.zz;
  if (zz.empty()) d.dsts.push_back(0xAA);
  else { std::istringstream is(zz); string tok; while (getline(is, tok, ';')) d.dsts.push_back((unsigned)strtoul(tok.c_str(), nullptr, 16)); }
  string fieldsCsv;
  for (size_t i = 0; i < lay.size(); i++) {
    const Kind* k = lay[i].kind;
    char p = lay[i].part;
    RefField f; f.kind = k;
    f.master = sh.masterOnly() || p == 'm' || (p == 'd' && sh.write);
    string part = p == 'd' ? "" : string(1, p);
    char nm[16]; snprintf(nm, sizeof(nm), "f%u", (unsigned)i);
    if (!k->type) {   // bit pair: bit 0 and bits 1-7, together exactly one byte (how partially filled bytes are
                      // continued by a following bit field is C10's subject, not fixed here)
      fieldsCsv += string(",") + nm + "a," + part + ",BI0:1,,,";
      fieldsCsv += string(",") + nm + "b," + part + ",BI1:7,,,";
      f.names = {string(nm) + "a", string(nm) + "b"};
    } else {
      fieldsCsv += string(",") + nm + "," + part + "," + k->type + ",,,";
      if (!k->subNames.empty()) for (auto s : k->subNames) f.names.push_back(s);
      else if (!k->ignored) f.names.push_back(nm);
    }
    (f.master ? d.masterLen : d.slaveLen) += (size_t)k->len;
    d.fields.push_back(f);
  }
  string type = sh.write ? "w" : "r";
  string idcol;
  if (sh.chained()) {
    size_t P = sh.chain.size();
    size_t T = sh.write ? d.masterLen : d.slaveLen;
    if (T < P || (sh.split == 1 && T - (P - 1) == 1)) { d.applicable = false; return d; }
    if (sh.shortBy > 0 && T < P + (size_t)sh.shortBy) { d.applicable = false; return d; }
    for (size_t i = 0; i < P; i++) {
      bool big = sh.split == 0 ? i == P - 1 : i == 0;
      d.partLens.push_back(big ? (int)(T - (P - 1)) - sh.shortBy : 1);
      d.ids.push_back(c09::hx(sh.chain[i]));
      if (i) idcol += ";";
      idcol += sh.chain[i];
      bool explicitLen = sh.lenMode == 0 || (sh.lenMode == 1 && i + 1 < P);
      if (explicitLen) idcol += ":" + std::to_string(d.partLens[i]);
    }
  } else {
    idcol = sh.id;
    d.ids.push_back(c09::hx(string(sh.defaults ? "0d" : "") + sh.id));
  }
  d.text = "\n";
  if (sh.defaults) {
    d.text += "*" + type + ",c,,,," + zz + ",b509,0d\n";
    d.text += type + ",,msg,,,,," + idcol + fieldsCsv + "\n";
  } else {
    d.text += type + ",c,msg,,," + zz + ",b509," + idcol + fieldsCsv + "\n";
  }
  return d;
}

// values chosen for every field: bit i of v selects the alternative of field i
struct Values {
  string input;                 // text for prepareMaster (master fields)
  Bytes master, slave;          // expected data bytes
  vector<bool> masterCare;      // false: byte value not fixed (ignored field)
  vector<string> pairs;         // expected name=value of all non-ignored fields (master first, then slave)
};
static Values makeValues(const RefDef& d, unsigned v) {
  Values o;
  vector<string> mp, sp;
  bool firstTok = true;
  for (size_t i = 0; i < d.fields.size(); i++) {
    const RefField& f = d.fields[i];
    const c09::Alt& a = f.kind->dom[(v >> i) & 1];
    for (size_t t = 0; t < a.tokens.size(); t++) {
      (f.master ? mp : sp).push_back(f.names[t] + "=" + a.tokens[t]);
      if (f.master) { if (!firstTok) o.input += ";"; o.input += a.tokens[t]; firstTok = false; }
    }
    for (uint8_t b : a.bytes) {
      if (f.master) { o.master.push_back(b); o.masterCare.push_back(!f.kind->ignored); }
      else o.slave.push_back(b);
    }
  }
  o.pairs = mp;
  o.pairs.insert(o.pairs.end(), sp.begin(), sp.end());
  return o;
}

static Bytes msBytes(const SymbolString& s) { return Bytes(s.data(), s.data() + s.size()); }
static void fill(MasterSymbolString* m, const Bytes& b) { m->clear(); for (uint8_t c : b) m->push_back(c); }
static void fill(SlaveSymbolString* m, const Bytes& b) { m->clear(); for (uint8_t c : b) m->push_back(c); }

static vector<string> splitPairs(const string& s) {
  vector<string> v;
  if (s.empty()) return v;
  size_t pos = 0;
  while (true) {
    size_t e = s.find(';', pos);
    v.push_back(s.substr(pos, e == string::npos ? string::npos : e - pos));
    if (e == string::npos) break;
    pos = e + 1;
  }
  return v;
}
static string joinStr(const vector<string>& v) { string s; for (size_t i = 0; i < v.size(); i++) { if (i) s += ";"; s += v[i]; } return s; }

struct Loaded {
  std::unique_ptr<MessageMap> map;
  result_t result;
  string error;
  vector<Message*> msgs;
};
static Loaded load(const RefDef& d) {
  Loaded l;
  l.map.reset(new MessageMap(false, "", false));
  l.map->setResolver(&g_resolver);
  {
    // ... and one is loaded BEFORE it (a definition added after one with an ID at least as long: the bookkeeping of the
    // longest ID per destination class must not depend on the order)
    std::istringstream nb0("\nr,nb,longid0,,,50,b5fe,0102030405,,,UCH\n");
    string nerr;
    if (l.map->readFromStream(&nb0, "c09nb0", 0, false, nullptr, &nerr) != RESULT_OK) { fprintf(stderr, "c09: neighbour definition refused: %s\n", nerr.c_str()); exit(3); }
  }
  std::istringstream is(d.text);
  l.result = l.map->readFromStream(&is, "c09", 0, false, nullptr, &l.error);
  R.transitions++;
  if (l.result == RESULT_OK) {
    // a definition never lives alone in a map: an unrelated neighbour (other circuit, destination and command) with
    // a 7 byte ID makes the lookup probe every ID length from 7 downwards, as in a real configuration
    std::istringstream nb("\nr,nb,longid,,,50,b5ff,01020304050607,,,UCH\n");
    string nerr;
    if (l.map->readFromStream(&nb, "c09nb", 0, false, nullptr, &nerr) != RESULT_OK) { fprintf(stderr, "c09: neighbour definition refused: %s\n", nerr.c_str()); exit(3); }
  }
  std::deque<Message*> q;
  l.map->findAll("c", "msg", "*", false, true, true, true, true, false, 0, 0, false, &q);
  l.msgs.assign(q.begin(), q.end());
  return l;
}

struct Filter {   // replay: restrict to one case
  bool on = false;
  unsigned v = 0;
  int j = -1;
  bool override = false;
  string perm, gaps;
};

struct Ctx {
  bool log = false;
  bool violated = false;
  bool judging = true;   // replay: the steps that precede the case in the exploration order are executed, not judged
};
static void report(Ctx* c, const string& sig, const string& detail, const string& rcase) {
  if (!c->judging) return;
  c->violated = true;
  if (c->log) printf("VIOLATES %s: %s\n", sig.c_str(), detail.c_str());
  else R.violation(sig, detail + " [" + rcase + "]", rcase);
}

static const char* shapeClass(const Shape& s) {
  return s.chained() ? (s.write ? "chained-write" : "chained-read") : (s.write ? "plain-write" : "plain-read");
}
static const char* lenModeName(const Shape& s) {
  return !s.chained() ? "nochain" : s.lenMode == 0 ? "explicit-lengths" : s.lenMode == 1 ? "last-length-implicit" : "implicit-lengths";
}

// compare decoded text with the expected name=value multiset; returns "" if equal
static bool samePairs(const string& got, const vector<string>& want) {
  vector<string> g = splitPairs(got), w = want;
  std::sort(g.begin(), g.end()); std::sort(w.begin(), w.end());
  return g == w;
}

static void decodeCheck(Ctx* c, const RefDef& d, Message* m, const Values& val, const string& rule, const string& cs) {
  std::ostringstream out;
  result_t r = m->decodeLastData(pt_any, false, nullptr, -1, OF_NAMES, &out);
  R.transitions++; R.tracesValidated++;
  if (c->log) printf("  decodeLastData -> %s \"%s\" (expected values %s)\n", rc(r).c_str(), out.str().c_str(), joinStr(val.pairs).c_str());
  if (val.pairs.empty()) {
    if (r < RESULT_OK || !out.str().empty())
      report(c, string("C09/") + rule + "-failed/" + shapeClass(*d.shape) + "/" + sane(rc(r)), "decode of a message without values: " + rc(r) + " \"" + out.str() + "\"", cs);
    return;
  }
  if (r != RESULT_OK) {
    report(c, string("C09/") + rule + "-failed/" + shapeClass(*d.shape) + "/" + lenModeName(*d.shape) + "/" + sane(rc(r)),
           "decodeLastData after storing valid data returned " + rc(r), cs);
  } else if (!samePairs(out.str(), val.pairs)) {
    report(c, string("C09/") + rule + "-mismatch/" + shapeClass(*d.shape) + "/" + lenModeName(*d.shape),
           "decoded \"" + out.str() + "\", supplied/received values " + joinStr(val.pairs), cs);
  } else {
    // decoding a single field: by index (counted over the values, master part first) and by name (+ index among
    // fields of the same name) must give exactly that field's value
    for (size_t i = 0; i < val.pairs.size(); i++) {
      string name = val.pairs[i].substr(0, val.pairs[i].find('='));
      size_t k = 0;
      for (size_t j = 0; j < i; j++) if (val.pairs[j].compare(0, name.size() + 1, name + "=") == 0) k++;
      for (int byName = 0; byName < 2; byName++) {
        std::ostringstream fo;
        result_t fr = m->decodeLastData(pt_any, false, byName ? name.c_str() : nullptr, (ssize_t)(byName ? k : i), OF_NAMES, &fo);
        R.transitions++; R.tracesValidated++;
        if (c->log) printf("  decodeLastData(%s%s%u) -> %s \"%s\" (expected %s)\n", byName ? ("name " + name + ", ").c_str() : "", "index ", (unsigned)(byName ? k : i), rc(fr).c_str(), fo.str().c_str(), val.pairs[i].c_str());
        if (fr != RESULT_OK || fo.str() != val.pairs[i])
          report(c, string("C09/decode-single-field/") + (byName ? "by-name" : "by-index") + "/" + shapeClass(*d.shape),
                 string("decoding field ") + (byName ? "'" + name + "' #" + std::to_string(k) : "#" + std::to_string(i)) + " alone gave " + rc(fr) + " \"" + fo.str() + "\", expected " + val.pairs[i] +
                 " (whole message: " + joinStr(val.pairs) + ")", cs);
      }
    }
  }
}

// header + NN checks shared by plain and chained parts; returns false if the telegram is unusable
static bool headerCheck(Ctx* c, const RefDef& d, const MasterSymbolString& ms, unsigned dst, const string& cs) {
  Bytes b = msBytes(ms);
  const char* sc = shapeClass(*d.shape);
  if (b.size() < 5 || b[0] != SRC || b[1] != dst || b[2] != d.pbsb[0] || b[3] != d.pbsb[1]) {
    report(c, string("C09/header/") + sc, "telegram " + c09::toHex(b) + " does not start with QQ ZZ PB SB = " + c09::toHex({(uint8_t)SRC, (uint8_t)dst, d.pbsb[0], d.pbsb[1]}), cs);
    return false;
  }
  if (b[4] != b.size() - 5) {
    report(c, string("C09/nn-mismatch/") + sc, "NN=" + std::to_string(b[4]) + " but " + std::to_string(b.size() - 5) + " bytes follow in " + c09::toHex(b), cs);
    return false;
  }
  if (b[4] > MAX_POS) {
    report(c, string("C09/nn-exceeds-max/") + sc + "/" + lenModeName(*d.shape), "NN=" + std::to_string(b[4]) + " exceeds the loader's maximum " + std::to_string(MAX_POS) + " in " + c09::toHex(b), cs);
  }
  return true;
}

static void findCheck(Ctx* c, const RefDef& d, MessageMap* map, const MasterSymbolString& ms, Message* want, bool anyDst, const string& cs) {
  Message* f = map->find(ms, anyDst, true, true, true);
  R.transitions++; R.tracesValidated++;
  if (c->log) printf("  find(%s, anyDestination=%d) -> %s\n", c09::toHex(msBytes(ms)).c_str(), anyDst, f == want ? "this definition" : f ? (f->getCircuit() + "/" + f->getName()).c_str() : "nullptr");
  if (f == nullptr) report(c, string("C09/find-none/") + shapeClass(*d.shape), "built telegram " + c09::toHex(msBytes(ms)) + " is not identified back to its definition (nullptr)", cs);
  else if (f != want) report(c, string("C09/find-other/") + shapeClass(*d.shape), "built telegram " + c09::toHex(msBytes(ms)) + " resolves to " + f->getCircuit() + "/" + f->getName(), cs);
}

static string caseOf(size_t si, const RefDef& d, unsigned v) {
  return "s=" + std::to_string(si) + ";l=" + c09::layoutStr(d.layout) + ";v=" + std::to_string(v);
}

static void runPlain(Ctx* c, size_t si, const RefDef& d, Loaded& L, const Filter& flt) {
  size_t n = d.fields.size();
  for (size_t j = 0; j < L.msgs.size(); j++) {
    if (flt.on && flt.j >= 0 && (size_t)flt.j != j) continue;
    Message* m = L.msgs[j];
    unsigned own = d.dsts[j];
    unsigned dst = own == 0xAA ? 0x08 : own;
    // a destination passed to prepareMaster replaces the definition's own one (header only; such a
    // telegram is not expected to be identified back)
    if (own != 0xAA) {
      c->judging = !flt.on || flt.override;
      unsigned other = own == 0xfe ? 0x15 : isMaster((symbol_t)own) ? 0x30 : 0x15;
      unsigned v = 0;
      Values val = makeValues(d, v);
      string cs = caseOf(si, d, v) + ";j=" + std::to_string(j) + ";x=1";
      std::istringstream in(val.input);
      MasterSymbolString ms;
      g_now += 1;
      result_t r = m->prepareMaster(0, (symbol_t)SRC, (symbol_t)other, UI_FIELD_SEPARATOR, &in, &ms);
      R.transitions++; R.tracesValidated++; R.evaluations++;
      if (c->log) printf(" message %s/%s with destination %02x given, input \"%s\"\n  prepareMaster -> %s %s\n", m->getCircuit().c_str(), m->getName().c_str(), other, val.input.c_str(), rc(r).c_str(), c09::toHex(msBytes(ms)).c_str());
      if (r != RESULT_OK) report(c, string("C09/prepare-failed/") + shapeClass(*d.shape) + "/given-destination/" + sane(rc(r)), "prepareMaster with a given destination returned " + rc(r), cs);
      else headerCheck(c, d, ms, other, cs);
    }
    if (flt.on && flt.override) continue;
    // the value choices are applied one after the other to the same message (its caches carry over), so
    // a replay executes the choices before the case as well
    for (unsigned v = 0; v < (1u << n); v++) {
      if (flt.on && v > flt.v) break;
      c->judging = !flt.on || v == flt.v;
      Values val = makeValues(d, v);
      string cs = caseOf(si, d, v) + ";j=" + std::to_string(j);
      R.evaluations++;
      R.state(vp::fnv(cs));
      g_now += 1;
      std::istringstream in(val.input);
      MasterSymbolString ms;
      result_t r = m->prepareMaster(0, (symbol_t)SRC, own == 0xAA ? (symbol_t)dst : SYN, UI_FIELD_SEPARATOR, &in, &ms);
      R.transitions++; R.tracesValidated++;
      if (c->log) printf(" message %s/%s to %02x, input \"%s\"\n  prepareMaster -> %s %s\n", m->getCircuit().c_str(), m->getName().c_str(), dst, val.input.c_str(), rc(r).c_str(), c09::toHex(msBytes(ms)).c_str());
      if (r != RESULT_OK) {
        report(c, string("C09/prepare-failed/") + shapeClass(*d.shape) + "/" + sane(rc(r)), "prepareMaster of a loaded definition with valid input \"" + val.input + "\" returned " + rc(r), cs);
        continue;
      }
      if (!headerCheck(c, d, ms, dst, cs)) continue;
      Bytes b = msBytes(ms);
      Bytes want = d.ids[0]; want.insert(want.end(), val.master.begin(), val.master.end());
      bool same = b.size() - 5 == want.size();
      for (size_t i = 0; same && i < want.size(); i++) {
        bool care = i < d.ids[0].size() || val.masterCare[i - d.ids[0].size()];
        if (care && b[5 + i] != want[i]) same = false;
      }
      if (!same) report(c, string("C09/data-mismatch/") + shapeClass(*d.shape), "telegram data " + c09::toHex(Bytes(b.begin() + 5, b.end())) + ", expected ID+master data " + c09::toHex(want), cs);
      findCheck(c, d, L.map.get(), ms, m, own == 0xAA, cs);
      SlaveSymbolString ss;
      Bytes sb = {(uint8_t)val.slave.size()}; sb.insert(sb.end(), val.slave.begin(), val.slave.end());
      fill(&ss, sb);
      r = m->storeLastData(ms, ss);
      R.transitions++;
      if (c->log) printf("  storeLastData(master, slave %s) -> %s\n", c09::toHex(sb).c_str(), rc(r).c_str());
      if (r < RESULT_OK) { report(c, string("C09/store-failed/") + shapeClass(*d.shape) + "/" + sane(rc(r)), "storeLastData returned " + rc(r), cs); continue; }
      decodeCheck(c, d, m, val, "decode", cs);
    }
  }
  c->judging = true;
}

// reference telegrams of the parts of a chained message
struct Parts { vector<Bytes> masters, slaves; };
static Parts refParts(const RefDef& d, const Values& val) {
  Parts p;
  size_t off = 0;
  for (size_t i = 0; i < d.ids.size(); i++) {
    Bytes data = d.ids[i], sl;
    size_t len = (size_t)d.partLens[i];
    const Bytes& full = d.shape->write ? val.master : val.slave;
    Bytes slice(full.begin() + off, full.begin() + off + len);
    off += len;
    if (d.shape->write) data.insert(data.end(), slice.begin(), slice.end()); else sl = slice;
    Bytes m = {(uint8_t)SRC, 0x08, d.pbsb[0], d.pbsb[1], (uint8_t)data.size()};
    m.insert(m.end(), data.begin(), data.end());
    Bytes s = {(uint8_t)sl.size()}; s.insert(s.end(), sl.begin(), sl.end());
    p.masters.push_back(m); p.slaves.push_back(s);
  }
  return p;
}

static void runChained(Ctx* c, size_t si, const RefDef& d, Loaded& A, const Filter& flt) {
  size_t n = d.fields.size(), P = d.ids.size();
  Message* m = A.msgs[0];
  vector<int> perm(P);
  bool wantLog = c->log;
  for (unsigned v = 0; v < (1u << n); v++) {
    if (flt.on && v > flt.v) break;
    bool target = !flt.on || v == flt.v;
    Values val = makeValues(d, v), val2 = makeValues(d, ~v & ((1u << n) - 1));
    Parts rp = refParts(d, val), rp2 = refParts(d, val2);
    string cs = caseOf(si, d, v);
    R.evaluations++;
    // ---- build every part (on the same message for all value choices, as a client would)
    c->judging = target && (!flt.on || flt.perm.empty());
    {
      Bytes joined;
      bool allOk = true;
      for (size_t i = 0; i < P; i++) {
        g_now += 1;
        std::istringstream in(val.input);
        MasterSymbolString ms;
        result_t r = m->prepareMaster(i, (symbol_t)SRC, SYN, UI_FIELD_SEPARATOR, &in, &ms);
        R.transitions++; R.tracesValidated++;
        if (c->log) printf(" part %u input \"%s\": prepareMaster -> %s %s (expected %s)\n", (unsigned)i, val.input.c_str(), rc(r).c_str(), c09::toHex(msBytes(ms)).c_str(), c09::toHex(rp.masters[i]).c_str());
        if (r != RESULT_OK) {
          report(c, string("C09/prepare-failed/") + shapeClass(*d.shape) + "/" + lenModeName(*d.shape) + "/" + sane(rc(r)),
                 "prepareMaster(part " + std::to_string(i) + ") of a loaded chained definition with valid input \"" + val.input + "\" returned " + rc(r), cs);
          allOk = false;
          continue;
        }
        if (!headerCheck(c, d, ms, 0x08, cs)) { allOk = false; continue; }
        Bytes b = msBytes(ms);
        size_t idl = d.ids[i].size();
        if (b.size() < 5 + idl || !std::equal(d.ids[i].begin(), d.ids[i].end(), b.begin() + 5)) {
          report(c, string("C09/chain-part-id/") + shapeClass(*d.shape), "part " + std::to_string(i) + " telegram " + c09::toHex(b) + " does not carry the ID " + c09::toHex(d.ids[i]), cs);
          allOk = false;
          continue;
        }
        Bytes data(b.begin() + 5 + idl, b.end());
        bool explicitLen = d.shape->lenMode == 0 || (d.shape->lenMode == 1 && i + 1 < P);
        size_t wantLen = d.shape->write ? (size_t)d.partLens[i] : 0;
        if ((explicitLen || !d.shape->write) && data.size() != wantLen)
          report(c, string("C09/chain-part-length/") + shapeClass(*d.shape) + "/" + lenModeName(*d.shape),
                 "part " + std::to_string(i) + " carries " + std::to_string(data.size()) + " data bytes, defined length " + std::to_string(wantLen), cs);
        joined.insert(joined.end(), data.begin(), data.end());
        findCheck(c, d, A.map.get(), ms, m, false, cs);
      }
      // a single part asked for on its own, last part first, with OTHER input than the parts built just before (two
      // clients writing the same chained message): every part depends on the definition and its own input only
      if (allOk && P >= 2) {
        for (size_t k = P; k-- > 1;) {
          std::istringstream in(val2.input);
          MasterSymbolString ms;
          result_t r = m->prepareMaster(k, (symbol_t)SRC, SYN, UI_FIELD_SEPARATOR, &in, &ms);
          R.transitions++; R.tracesValidated++;
          Bytes b = msBytes(ms);
          bool okPart = r == RESULT_OK && b.size() == rp2.masters[k].size();
          if (okPart && d.shape->write) {
            // compare the data bytes the statement fixes (ignored fields do not fix their byte)
            size_t idl = d.ids[k].size(), off = 0;
            for (size_t q = 0; q < k; q++) off += (size_t)d.partLens[q];
            for (size_t x = 0; okPart && x < b.size(); x++) {
              bool care = x < 5 + idl || (off + (x - 5 - idl) < val2.masterCare.size() && val2.masterCare[off + (x - 5 - idl)]);
              if (care && b[x] != rp2.masters[k][x]) okPart = false;
            }
          } else if (okPart) {
            okPart = b == rp2.masters[k];
          }
          if (c->log) printf(" part %u alone with the other input \"%s\": prepareMaster -> %s %s (expected %s)\n", (unsigned)k, val2.input.c_str(), rc(r).c_str(), c09::toHex(b).c_str(), c09::toHex(rp2.masters[k]).c_str());
          if (!okPart) {
            report(c, string("C09/chain-part-depends-on-earlier-build/") + shapeClass(*d.shape) + "/" + lenModeName(*d.shape),
                   "part " + std::to_string(k) + " built on its own with input \"" + val2.input + "\" after the parts were built with \"" + val.input + "\": " + rc(r) + " " + c09::toHex(b) + ", expected " + c09::toHex(rp2.masters[k]), cs);
            break;
          }
        }
      }
      if (allOk && d.shape->write) {
        bool same = joined.size() == val.master.size();
        for (size_t i = 0; same && i < joined.size(); i++) if (val.masterCare[i] && joined[i] != val.master[i]) same = false;
        if (!same) report(c, string("C09/chain-split-loss/") + shapeClass(*d.shape) + "/" + lenModeName(*d.shape),
                          "data of the parts in order " + c09::toHex(joined) + " != encoded value " + c09::toHex(val.master), cs);
      }
    }
    if (!target || (flt.on && flt.perm.empty())) continue;
    // ---- a freshly loaded map receives the parts in every order with every gap pattern, each followed by
    //      a second round with other values; the histories of one value choice run one after the other on
    //      the same message (a replay executes the histories before the case as well, unjudged)
    Loaded B = load(d);
    if (B.result != RESULT_OK || B.msgs.size() != 1) return;
    Message* mb = B.msgs[0];
    unsigned earlier = 0;
    bool done = false;
    for (size_t i = 0; i < P; i++) perm[i] = (int)i;
    do {
      string ps; for (int x : perm) ps += (char)('0' + x);
      unsigned ng = 1; for (size_t i = 1; i < P; i++) ng *= 3;
      for (unsigned gi = 0; gi < ng && !done; gi++) {
        string gs; bool small = true;
        vector<time_t> gaps;
        unsigned x = gi;
        for (size_t i = 1; i < P; i++) { unsigned g = x % 3; x /= 3; gs += (char)('0' + g); gaps.push_back(g == 0 ? 0 : g == 1 ? 1 : (time_t)(LATE_S * P)); if (g == 2) small = false; }
        bool isTarget = !flt.on || (flt.perm == ps && flt.gaps == gs);
        c->judging = isTarget;
        c->log = wantLog && isTarget;
        if (flt.on && !isTarget) earlier++;
        if (flt.on && isTarget && wantLog) printf(" (%u earlier arrival histories of this value choice were replayed on the same message without log)\n", earlier);
        string hs = cs + ";o=" + ps + ";g=" + gs;
        g_now += 1000000;
        for (size_t k = 0; k < P; k++) {
          if (k) g_now += gaps[k - 1];
          MasterSymbolString ms; SlaveSymbolString ss;
          fill(&ms, rp.masters[perm[k]]); fill(&ss, rp.slaves[perm[k]]);
          result_t r = mb->storeLastData(ms, ss);
          R.transitions++;
          R.state(vp::fnv(hs + "/" + std::to_string(k)));
          if (c->log) printf(" t=+%lds part %d arrives: storeLastData(%s, %s) -> %s\n", (long)(k ? gaps[k - 1] : 0), perm[k], c09::toHex(rp.masters[perm[k]]).c_str(), c09::toHex(rp.slaves[perm[k]]).c_str(), rc(r).c_str());
          if (r < RESULT_OK) report(c, string("C09/chain-store-failed/") + shapeClass(*d.shape) + "/" + sane(rc(r)), "storeLastData of part " + std::to_string(perm[k]) + " returned " + rc(r), hs);
        }
        if (small) decodeCheck(c, d, mb, val, "chain-join", hs);
        else if (c->log) printf("  (gap beyond any collection window: result of this round not judged)\n");
        // round 2: new values, in order, no gaps; nothing of round 1 may survive
        g_now += 1;
        for (size_t k = 0; k < P; k++) {
          MasterSymbolString ms; SlaveSymbolString ss;
          fill(&ms, rp2.masters[k]); fill(&ss, rp2.slaves[k]);
          result_t r = mb->storeLastData(ms, ss);
          R.transitions++;
          R.state(vp::fnv(hs + "/r2/" + std::to_string(k)));
          if (c->log) printf(" round 2 part %u arrives: storeLastData(%s, %s) -> %s\n", (unsigned)k, c09::toHex(rp2.masters[k]).c_str(), c09::toHex(rp2.slaves[k]).c_str(), rc(r).c_str());
        }
        decodeCheck(c, d, mb, val2, "chain-rejoin", hs);
        // round 3, much later (one day per part: outside any collection window, whatever its configured length -
        // the statement does not fix the window, the implementation uses some seconds per part): the first values again, parts in the
        // order of this history.  While the round is incomplete the message must not show a value the device
        // never had (parts of round 2 joined with parts of round 3); once complete it shows the new value.
        g_now += (time_t)(LATE_S * P);
        for (size_t k = 0; k < P; k++) {
          MasterSymbolString ms; SlaveSymbolString ss;
          fill(&ms, rp.masters[perm[k]]); fill(&ss, rp.slaves[perm[k]]);
          result_t r = mb->storeLastData(ms, ss);
          R.transitions++;
          R.state(vp::fnv(hs + "/r3/" + std::to_string(k)));
          if (c->log) printf(" round 3 (%us later) part %d arrives: storeLastData(%s, %s) -> %s\n", (unsigned)(LATE_S * P), perm[k], c09::toHex(rp.masters[perm[k]]).c_str(), c09::toHex(rp.slaves[perm[k]]).c_str(), rc(r).c_str());
          if (k + 1 < P) {
            std::ostringstream out;
            result_t dr = mb->decodeLastData(pt_any, false, nullptr, -1, OF_NAMES, &out);
            R.transitions++; R.tracesValidated++;
            if (c->log) printf("  decodeLastData while the round is incomplete -> %s \"%s\" (previous complete value %s, new value %s)\n", rc(dr).c_str(), out.str().c_str(), joinStr(val2.pairs).c_str(), joinStr(val.pairs).c_str());
            if (dr == RESULT_OK && !samePairs(out.str(), val2.pairs) && !samePairs(out.str(), val.pairs))
              report(c, string("C09/chain-mixed-rounds/") + shapeClass(*d.shape) + "/" + lenModeName(*d.shape),
                     "after " + std::to_string(k + 1) + " of " + std::to_string(P) + " parts of a round " + std::to_string(LATE_S * P) + " s after the previous one decoded \"" + out.str() +
                     "\": neither the previous complete value " + joinStr(val2.pairs) + " nor the new one " + joinStr(val.pairs), hs);
          }
        }
        decodeCheck(c, d, mb, val, "chain-late-round", hs);
        if (flt.on && isTarget) done = true;
      }
    } while (!done && std::next_permutation(perm.begin(), perm.end()));
    c->log = wantLog;
  }
  c->judging = true;
  c->log = wantLog;
}

// returns: 0 not applicable, 1 rejected by the loader, 2 explored
static int runDef(Ctx* c, size_t si, const Shape& sh, const Layout& lay, const Filter& flt) {
  RefDef d = makeDef(sh, lay);
  if (!d.applicable) return 0;
  Loaded L = load(d);
  size_t idLen = d.ids[0].size();
  bool tooLong = idLen + (sh.chained() ? 0 : d.masterLen) > MAX_POS;
  if (c->log) {
    printf("definition file:%s", d.text.c_str());
    printf("load -> %s %s, %u message(s); ID+master data %u bytes, slave data %u bytes (maximum %d)\n", rc(L.result).c_str(), L.error.c_str(),
           (unsigned)L.msgs.size(), (unsigned)(idLen + d.masterLen), (unsigned)d.slaveLen, MAX_POS);
  }
  if (sh.shortBy > 0) {
    // "a definition whose data would exceed the supported maximum is rejected when loaded": here the maximum is the
    // capacity the definition itself declares (sum of its explicit part lengths)
    R.evaluations++;
    R.distinct(vp::fnv(d.text));
    if (L.result == RESULT_OK)
      report(c, string("C09/loaded-too-long/chain-capacity/") + shapeClass(sh), "the explicit part lengths add up to " + std::to_string(sh.shortBy) +
             " byte(s) less than the defined fields need (" + std::to_string(sh.write ? d.masterLen : d.slaveLen) + "), but the definition was loaded", caseOf(si, d, 0));
    else R.count("definitions_rejected_short_chain_capacity");
    return 1;
  }
  if (L.result != RESULT_OK) {
    R.count(tooLong || d.slaveLen > MAX_POS ? "definitions_rejected_too_long" : string("definitions_rejected_within_limits_") + shapeClass(sh) + "_" + lenModeName(sh));
    if (!(tooLong || d.slaveLen > MAX_POS) && g_part == 0 && g_rejectNotes.insert(string(shapeClass(sh)) + lenModeName(sh)).second)
      R.note("rejected by the loader although within the limits (counted, not judged), e.g. " + d.text.substr(1, d.text.size() - 2) + " -> " + L.error);
    // universe pin: what the documented format promises to load.  Known exceptions of the loader (counted above, not
    // judged): chained definitions whose explicit lengths add up exactly to the data while the part IDs share a
    // prefix, and bit fields in chained definitions (bit count compared with the byte limit)
    bool hasBits = false;
    for (auto& f : lay) if (f.kind->c == 'B') hasBits = true;
    bool prefixed = sh.chained() && sh.chain[0][0] == sh.chain[1][0] && sh.chain[0][1] == sh.chain[1][1];
    bool knownException = sh.chained() && (hasBits || (sh.lenMode == 0 && prefixed));
    if (!(tooLong || d.slaveLen > MAX_POS) && !knownException)
      report(c, string("C09/universe-shrunk/") + shapeClass(sh) + "/" + lenModeName(sh), "a definition that is valid by the documented CSV format is not loaded: " + L.error, caseOf(si, d, 0));
    return 1;
  }
  R.distinct(vp::fnv(d.text));
  if (!sh.chained() && d.slaveLen > MAX_POS) {
    // "a definition whose data would exceed the supported maximum is rejected when loaded" (slave part; the master
    // part is judged on the built telegram by nn-exceeds-max)
    report(c, string("C09/loaded-too-long/slave/") + shapeClass(sh), "definition with " + std::to_string(d.slaveLen) + " slave data bytes (maximum " + std::to_string(MAX_POS) + ") was loaded", caseOf(si, d, 0));
  }
  if (L.msgs.size() != d.dsts.size()) {
    report(c, string("C09/message-count/") + shapeClass(sh), "definition with " + std::to_string(d.dsts.size()) + " destination(s) created " + std::to_string(L.msgs.size()) + " message(s)", caseOf(si, d, 0));
    return 2;
  }
  R.count(string("definitions_") + shapeClass(sh));
  if (sh.chained()) runChained(c, si, d, L, flt); else runPlain(c, si, d, L, flt);
  return 2;
}

static void enumLayouts(const vector<const Kind*>& ks, const string& parts, size_t maxFields, const std::function<void(const Layout&)>& fn) {
  Layout cur;
  std::function<void()> rec = [&]() {
    fn(cur);
    if (cur.size() >= maxFields) return;
    for (auto k : ks) for (char p : parts) { cur.push_back(c09::Field{k, p}); rec(); cur.pop_back(); }
  };
  rec();
}

static int replay(const string& cstr) {
  auto m = vp::parseCase(cstr);
  size_t si = (size_t)atoi(m["s"].c_str());
  Layout lay;
  if (si >= c09::shapes().size() || !c09::parseLayout(m["l"], &lay)) { printf("bad case\n"); return 2; }
  Filter f; f.on = true; f.v = (unsigned)atoi(m["v"].c_str());
  if (m.count("j")) f.j = atoi(m["j"].c_str());
  f.perm = m["o"]; f.gaps = m["g"];
  f.override = m["x"] == "1";
  Ctx c; c.log = true;
  int r = runDef(&c, si, c09::shapes()[si], lay, f);
  if (r != 2) printf("definition not explored (%s)\n", r == 0 ? "shape not applicable to this layout" : "rejected by the loader");
  printf(c.violated ? "VIOLATES\n" : "OK\n");
  return c.violated ? 1 : 0;
}

int main(int argc, char** argv) {
  vp::Args A = vp::parseArgs(argc, argv);
  setFacilitiesLogLevel(1 << lf_COUNT, ll_none);
  g_templates = new DataFieldTemplates();
  {
    string text = "\n";
    for (auto t : c09::TEMPLATES) text += string(t) + "\n";
    std::istringstream is(text);
    string err;
    result_t r = g_templates->readFromStream(&is, "c09tpl", 0, false, nullptr, &err);
    if (r != RESULT_OK) { fprintf(stderr, "templates: %s %s\n", getResultCode(r), err.c_str()); return 5; }
  }
  if (A.replay) return replay(A.replayCase);
  R.setDeadline(A);
  g_part = A.part;
  bool th = A.thorough();
  size_t maxFields = (size_t)A.getInt("fields", 3);
  vector<const Kind*> all, allL, small;
  for (auto& k : c09::kinds()) { if (k.c != 'L') all.push_back(&k); allL.push_back(&k); if (strchr("UHOB", k.c)) small.push_back(&k); }
  const auto& S = c09::shapes();
  uint64_t idx = 0;
  bool stop = false;
  Filter none;
  Ctx ctx;
  for (size_t si = 0; si < S.size() && !stop; si++) {
    const Shape& sh = S[si];
    if (sh.thoroughOnly && !th) continue;
    auto one = [&](const Layout& l) {
      if (stop) return;
      if ((int)(idx++ % (uint64_t)A.nparts) != A.part) return;
      if ((idx & 63) == 0 && R.expired()) { stop = true; return; }
      runDef(&ctx, si, sh, l, none);
    };
    if (sh.chained()) {
      enumLayouts(all, "d", th ? maxFields : 2, one);
    } else {
      string parts = sh.masterOnly() ? "dm" : "dms";
      if (th) {
        enumLayouts(allL, parts, maxFields, one);
      } else {
        // quick: all kinds and parts up to 2 fields, 3 fields over a reduced kind set with explicit parts
        enumLayouts(all, parts, 2, one);
        enumLayouts(small, sh.masterOnly() ? "m" : "ms", maxFields, [&](const Layout& l) { if (l.size() == 3) one(l); });
        // around the length limit: two and three 12-byte fields
        enumLayouts(allL, "dm", maxFields, [&](const Layout& l) { if (l.size() >= 2 && l[0].kind->c == 'L' && l[1].kind->c == 'L' && l[0].part == l[1].part && (l.size() == 2 || l[2].part == 'd')) one(l); });
      }
    }
  }
  R.sample("plain: w,c,msg,,,08;09,b509,0d0100,f0,m,UIN,,,,f1,s,onoff,,, with input 258 / answer 01 -> telegram 3108b50905" "0d01000201, find, store, decode f0=258;f1=on");
  R.sample("chained read r,c,msg,,,08,b509,0d0100:1;0d0200:1;0d0300:3 parts arriving in order 2,0,1 with gaps 1s,0s then second round with other values");
  R.sample("chained write w,c,msg,,,08,b509,01:1;02 with HEX:2;UCH -> part telegrams 3108b50902" "0101 / 3108b50903" "0202fe");
  R.write(A.out);
  return 0;
}
