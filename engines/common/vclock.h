// Virtual clock owned by the explorer.  Including this header with VCLOCK_IMPL defined in exactly
// one harness TU defines time(), clock_gettime(), usleep(), nanosleep() and (single-threaded
// harnesses only, VCLOCK_COND) pthread_cond_timedwait() in the executable, which takes precedence
// over libc for every ebusd object linked into the harness (link-time interposition).
#ifndef VERIF_VCLOCK_H_
#define VERIF_VCLOCK_H_

#include <errno.h>
#include <pthread.h>
#include <stdint.h>
#include <time.h>
#include <unistd.h>

namespace vp {
// microseconds since the virtual epoch; starts well above 0 so that "now - 5s" stays positive
extern int64_t g_vnowUs;
static const int64_t VEPOCH_US = 1700000000LL * 1000000LL;
// relaxed atomics: in the free-running ThreadSanitizer harness client threads read the clock while
// the bus thread advances it
inline int64_t vclockGet() { return __atomic_load_n(&g_vnowUs, __ATOMIC_RELAXED); }
inline void vclockSet(int64_t v) { __atomic_store_n(&g_vnowUs, v, __ATOMIC_RELAXED); }
inline void vclockReset() { vclockSet(VEPOCH_US); }
inline void vclockAdvanceUs(int64_t us) { vclockSet(vclockGet() + us); }
inline void vclockAdvanceMs(int64_t ms) { vclockSet(vclockGet() + ms * 1000); }
inline int64_t vclockMs() { return vclockGet() / 1000; }
}  // namespace vp

#ifdef VCLOCK_IMPL
namespace vp { int64_t g_vnowUs = VEPOCH_US; }

extern "C" {
time_t time(time_t* t) {
  time_t v = (time_t)(vp::vclockGet() / 1000000);
  if (t) *t = v;
  return v;
}
int clock_gettime(clockid_t, struct timespec* ts) {
  int64_t now = vp::vclockGet();
  ts->tv_sec = (time_t)(now / 1000000);
  ts->tv_nsec = (long)((now % 1000000) * 1000);
  return 0;
}
int usleep(useconds_t us) {
  vp::vclockAdvanceUs(us);
  return 0;
}
int nanosleep(const struct timespec* req, struct timespec*) {
  vp::vclockAdvanceUs((int64_t)req->tv_sec * 1000000 + req->tv_nsec / 1000);
  return 0;
}
#ifdef VCLOCK_COND
// single-threaded harness: nobody can signal, so a timed wait always runs into its deadline
int pthread_cond_timedwait(pthread_cond_t*, pthread_mutex_t*, const struct timespec* abstime) {
  int64_t dl = (int64_t)abstime->tv_sec * 1000000 + abstime->tv_nsec / 1000;
  if (dl > vp::vclockGet()) vp::vclockSet(dl);
  return ETIMEDOUT;
}
#endif
}
#endif  // VCLOCK_IMPL

#endif  // VERIF_VCLOCK_H_
