#include "vp_sched.h"
#include <errno.h>
#include <stdio.h>
#include <stdlib.h>
#include <sys/mman.h>
#include "vclock.h"

#if defined(__SANITIZE_ADDRESS__)
extern "C" {
void __sanitizer_start_switch_fiber(void** fake_stack_save, const void* bottom, size_t size);
void __sanitizer_finish_switch_fiber(void* fake_stack_save, const void** bottom_old, size_t* size_old);
}
#define FIBER_START(save, bottom, size) __sanitizer_start_switch_fiber(save, bottom, size)
#define FIBER_FINISH(save) __sanitizer_finish_switch_fiber(save, nullptr, nullptr)
#else
#define FIBER_START(save, bottom, size) do {} while (0)
#define FIBER_FINISH(save) do {} while (0)
#endif

namespace vps {

Sched* g_sched = nullptr;
static const size_t STACK = 1 << 20;
static std::vector<char*> g_stackPool;
static bool dbg() { static int d = -1; if (d < 0) d = getenv("VERIF_SCHED_DEBUG") ? 1 : 0; return d; }

// main-stack bounds for ASan when switching back to the main context
static const void* g_mainBottom = nullptr;
static size_t g_mainSize = 0;

void Sched::tramp(unsigned lo, unsigned hi) {
  ThreadCtl* t = reinterpret_cast<ThreadCtl*>(((uintptr_t)hi << 32) | lo);
  FIBER_FINISH(t->fakeStack);
  t->body();
  g_sched->finishCurrent();
}

Sched::~Sched() {
  for (auto t : threads) {
    if (t->stack) g_stackPool.push_back(t->stack);
    delete t;
  }
}

int Sched::spawn(const char* name, const std::function<void()>& body) {
  ThreadCtl* t = new ThreadCtl();
  t->id = (int)threads.size();
  t->name = name;
  t->body = body;
  if (!g_stackPool.empty()) { t->stack = g_stackPool.back(); g_stackPool.pop_back(); }
  else t->stack = static_cast<char*>(mmap(nullptr, STACK, PROT_READ | PROT_WRITE, MAP_PRIVATE | MAP_ANONYMOUS | MAP_STACK, -1, 0));
  t->stackSize = STACK;
  getcontext(&t->ctx);
  t->ctx.uc_stack.ss_sp = t->stack;
  t->ctx.uc_stack.ss_size = STACK;
  t->ctx.uc_link = &mainCtx;
  uintptr_t p = reinterpret_cast<uintptr_t>(t);
  makecontext(&t->ctx, reinterpret_cast<void (*)()>(tramp), 2, (unsigned)(p & 0xffffffffu), (unsigned)(p >> 32));
  threads.push_back(t);
  return t->id;
}

bool Sched::enabled(const ThreadCtl* t) const {
  switch (t->st) {
    case ThreadCtl::RUNNABLE: return true;
    case ThreadCtl::BLOCKED_MUTEX: { auto it = mutexOwner.find(t->obj); return it == mutexOwner.end() || it->second < 0; }
    case ThreadCtl::WAIT_COND: case ThreadCtl::WAIT_COND_TIMED: return t->signalled;
    default: return false;
  }
}

// decide who runs next.  Canonical order: the running thread first if still enabled (last if it yields),
// then ascending ids.
int Sched::pickNext(bool selfEnabled, bool yielding) {
  std::vector<int> en;
  if (selfEnabled && current >= 0 && !yielding) en.push_back(current);
  for (auto t : threads) if (t->id != current && enabled(t)) en.push_back(t->id);
  if (selfEnabled && current >= 0 && yielding) en.push_back(current);
  if (en.empty()) {
    // nobody can run: let the timed waiter with the earliest deadline time out
    ThreadCtl* best = nullptr;
    bool othersAlive = false;
    for (auto t : threads) {
      if (t->st == ThreadCtl::WAIT_COND_TIMED && (best == nullptr || t->deadlineUs < best->deadlineUs)) best = t;
    }
    if (best == nullptr) return -1;
    for (auto t : threads) if (t != best && t->st != ThreadCtl::DONE && t->st != ThreadCtl::WAIT_COND_TIMED && t->st != ThreadCtl::WAIT_COND) othersAlive = true;
    if (!othersAlive && ++best->timeouts > 4) return -1;  // only waiters are left and nobody will ever signal them
    if (best->deadlineUs > vp::vclockGet()) vp::vclockSet(best->deadlineUs);
    best->timedOut = true;
    best->signalled = true;
    if (logging) trace.push_back(std::string("  [sched] timeout fires for ") + best->name);
    return best->id;
  }
  // a timed wait may also expire while other threads can still run (they were slow in real time): offered as an
  // alternative with its own budget, only at yield points of a running thread
  std::vector<ThreadCtl*> tw;
  if (timeoutChoices && selfEnabled) for (auto t : threads) if (t->st == ThreadCtl::WAIT_COND_TIMED && !t->signalled) tw.push_back(t);
  if (en.size() == 1 && tw.empty()) return en[0];
  uint8_t kinds[24];
  int n = (int)en.size() > 16 ? 16 : (int)en.size();
  for (int i = 0; i < n; i++) kinds[i] = (i > 0 && selfEnabled) ? K_PREEMPT : 0;
  int m = n;
  for (size_t i = 0; i < tw.size() && m < 24; i++) kinds[m++] = K_TIMEOUT;
  int c = ex->choose(m, kinds);
  if (c >= n) {
    ThreadCtl* t = tw[c - n];
    if (t->deadlineUs > vp::vclockGet()) vp::vclockSet(t->deadlineUs);
    t->timedOut = true;
    t->signalled = true;
    timeoutsFired++;
    if (logging) trace.push_back(std::string("  [sched] timeout fires early for ") + t->name);
    return t->id;
  }
  return en[c];
}

void Sched::switchTo(int next) {
  ThreadCtl* me = self();
  if (me != nullptr && next == me->id) return;
  if (dbg()) fprintf(stderr, "switch %s -> %s\n", me ? me->name : "main", next >= 0 ? threads[next]->name : "main");
  ucontext_t* from = me ? &me->ctx : &mainCtx;
  void** fromFake = me ? &me->fakeStack : &mainFake;
  current = next;
  if (next >= 0) {
    ThreadCtl* t = threads[next];
    FIBER_START(fromFake, t->stack, t->stackSize);
    swapcontext(from, &t->ctx);
  } else {
    FIBER_START(fromFake, g_mainBottom, g_mainSize);
    swapcontext(from, &mainCtx);
  }
  FIBER_FINISH(*fromFake);
}

void Sched::point(const char* what, bool yielding) {
  ThreadCtl* me = self();
  if (me == nullptr) return;  // main context during set-up
  me->points++;
  if (++steps > maxSteps) { stepCap = true; }
  int next = pickNext(true, yielding);
  if (logging && next != me->id) trace.push_back(std::string("  [sched] ") + me->name + (yielding ? " yields at " : " preempted at ") + what + " -> " + (next >= 0 ? threads[next]->name : "none"));
  if (next != me->id) switchTo(next);
}

void Sched::blockAndYield() {
  ThreadCtl* me = self();
  while (!enabled(me)) {
    int next = pickNext(false);
    if (next < 0) {
      deadlock = true;
      if (logging) trace.push_back(std::string("  [sched] STUCK: ") + me->name + " is blocked and nobody can run");
      switchTo(-1);  // back to main; this context is abandoned
      abort();
    }
    if (next == me->id) break;
    switchTo(next);
  }
}

void Sched::finishCurrent() {
  ThreadCtl* me = self();
  me->st = ThreadCtl::DONE;
  int next = pickNext(false);
  if (next < 0) {
    bool allDone = true;
    for (auto t : threads) if (t->st != ThreadCtl::DONE) allDone = false;
    if (!allDone) deadlock = true;
  }
  switchTo(next);
  abort();  // a finished context is never resumed
}

void Sched::runAll() {
#if defined(__SANITIZE_ADDRESS__)
  {
    pthread_attr_t attr;
    pthread_getattr_np(pthread_self(), &attr);
    void* addr; size_t size;
    pthread_attr_getstack(&attr, &addr, &size);
    pthread_attr_destroy(&attr);
    g_mainBottom = addr; g_mainSize = size;
  }
#endif
  current = -1;
  int first = pickNext(false);
  if (first >= 0) switchTo(first);
  current = -1;
}

int Sched::mutexLock(pthread_mutex_t* m) {
  ThreadCtl* me = self();
  if (me == nullptr) return 0;
  point("mutex_lock");
  auto it = mutexOwner.find(m);
  if (it != mutexOwner.end() && it->second >= 0) {
    me->st = ThreadCtl::BLOCKED_MUTEX;
    me->obj = m;
    blockAndYield();
    me->st = ThreadCtl::RUNNABLE;
  }
  mutexOwner[m] = me->id;
  return 0;
}
int Sched::mutexUnlock(pthread_mutex_t* m) {
  ThreadCtl* me = self();
  if (me == nullptr) return 0;
  mutexOwner[m] = -1;
  point("mutex_unlock");
  return 0;
}
int Sched::condWait(pthread_cond_t* c, pthread_mutex_t* m, const struct timespec* abstime) {
  ThreadCtl* me = self();
  if (me == nullptr) return abstime ? ETIMEDOUT : 0;
  mutexOwner[m] = -1;
  me->st = abstime ? ThreadCtl::WAIT_COND_TIMED : ThreadCtl::WAIT_COND;
  me->obj = c;
  me->signalled = false;
  me->timedOut = false;
  if (abstime) me->deadlineUs = (int64_t)abstime->tv_sec * 1000000 + abstime->tv_nsec / 1000;
  blockAndYield();
  bool to = me->timedOut;
  // re-acquire the mutex
  me->st = ThreadCtl::RUNNABLE;
  auto it = mutexOwner.find(m);
  if (it != mutexOwner.end() && it->second >= 0) {
    me->st = ThreadCtl::BLOCKED_MUTEX;
    me->obj = m;
    blockAndYield();
    me->st = ThreadCtl::RUNNABLE;
  }
  mutexOwner[m] = me->id;
  return to ? ETIMEDOUT : 0;
}
int Sched::condSignal(pthread_cond_t* c, bool all) {
  ThreadCtl* me = self();
  if (me == nullptr) return 0;
  for (auto t : threads) {
    if ((t->st == ThreadCtl::WAIT_COND || t->st == ThreadCtl::WAIT_COND_TIMED) && t->obj == c && !t->signalled) {
      t->signalled = true;
      t->timeouts = 0;
      if (!all) break;
    }
  }
  point(all ? "cond_broadcast" : "cond_signal");
  return 0;
}
void Sched::fingerprint(std::string* o) const {
  for (auto t : threads) { o->push_back((char)t->st); o->push_back((char)t->signalled); o->push_back((char)(t->points & 0xff)); o->push_back((char)(t->points >> 8)); }
  o->push_back((char)current);
}

}  // namespace vps

extern "C" {
int vp_mutex_lock(pthread_mutex_t* m) { return vps::g_sched ? vps::g_sched->mutexLock(m) : 0; }
int vp_mutex_unlock(pthread_mutex_t* m) { return vps::g_sched ? vps::g_sched->mutexUnlock(m) : 0; }
int vp_cond_wait(pthread_cond_t* c, pthread_mutex_t* m) { return vps::g_sched ? vps::g_sched->condWait(c, m, nullptr) : 0; }
int vp_cond_timedwait(pthread_cond_t* c, pthread_mutex_t* m, const struct timespec* a) { return vps::g_sched ? vps::g_sched->condWait(c, m, a) : ETIMEDOUT; }
int vp_cond_signal(pthread_cond_t* c) { return vps::g_sched ? vps::g_sched->condSignal(c, false) : 0; }
int vp_cond_broadcast(pthread_cond_t* c) { return vps::g_sched ? vps::g_sched->condSignal(c, true) : 0; }
}
