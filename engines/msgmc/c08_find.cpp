// C08: a telegram is matched to the right message definition.
// Explicit-state exploration of the real MessageMap: every ordered subset (set + insertion order)
// of a colliding universe of definitions is a state; in every state every telegram derived from
// the universe is looked up with every flag combination and compared with a linear-scan
// reference matcher written from the property statement.
#include <algorithm>
#include <deque>
#include <functional>
#include <memory>
#include <sstream>
#include "lib/ebus/message.h"
#include "lib/ebus/data.h"
#include "lib/ebus/result.h"
#include "lib/utils/log.h"
#include "vout.h"
#include "c08_universe.h"

using namespace ebusd;
using std::string;
using std::vector;
using c08::Bytes;
using c08::Def;
using c08::ANY;

static vp::Result R;

// virtual clock (message.cpp reads time() for update/change times which the conditions look at)
static time_t g_now = 1700000000;
extern "C" time_t time(time_t* t) noexcept {
  if (t) *t = g_now;
  return g_now;
}

// environment of a state with conditional definitions: value of the message the conditions refer to
// (0 = never received, 1 = [isA] holds, 2 = [isB] holds, 3 = neither) and the onlyAvailable lookup argument
struct Env {
  int code;
  bool onlyAvailable;
};
static const Env ENVS[] = {{0, true}, {1, true}, {2, true}, {3, true}, {3, false}};
static bool refAvailable(const Def& d, const Env* env) { return !env || d.cond == 0 || d.cond == env->code; }

// one further operation on a built map (reached in ebusd through "define -r" and HTTP definitions)
struct Edit {
  char kind;   // 'r' = MessageMap::remove(definition), 'a' = add of a definition with replace=true
  int def;
};
// set semantics of a replacing add of d: a loaded definition x (another row, another name) surely stays when it
// differs from d in direction, destination, command, passive source, in all complete IDs, or when both are guarded by
// different conditions; otherwise the statement does not say whether d replaces it
static bool refSurvivesReplace(const Def& x, const Def& d) {
  if (x.kind != d.kind || x.dst != d.dst || x.pb != d.pb || x.sb != d.sb) return true;
  if (x.passive() && x.src != d.src) return true;
  if (x.cond && d.cond && x.cond != d.cond) return true;
  for (auto& p : x.parts) for (auto& q : d.parts) if (p == q) return false;
  return true;
}

// ---------------------------------------------------------------------------------------------
// reference matcher (from the statement; never looks at keys, hashes or probe order)
// ---------------------------------------------------------------------------------------------
struct Tele {
  unsigned qq, zz, pb, sb;
  Bytes data;
};
enum { F_ANYDEST = 1, F_READ = 2, F_WRITE = 4, F_PASSIVE = 8 };

// length of the definition's ID if one of its (part) IDs is a prefix of the telegram data, else -1
static int refIdMatch(const Def& d, const Bytes& data) {
  for (const Bytes& p : d.parts) {
    if (p.size() <= data.size() && std::equal(p.begin(), p.end(), data.begin())) return (int)p.size();
  }
  return -1;
}
static bool refDirection(const Def& d, unsigned f) {
  if (d.passive()) return (f & F_PASSIVE) != 0;
  return d.write() ? (f & F_WRITE) != 0 : (f & F_READ) != 0;
}
// three-valued: 0 = does not match (returning it is a violation), 1 = may be returned (the
// statement does not fix it), 2 = matches (counts for "at least one loaded definition matches")
// *why: first attribute that fails
static int refMatch(const Def& d, const Tele& t, unsigned f, int* idLen, const char** why) {
  *idLen = -1;
  if (t.pb != d.pb || t.sb != d.sb) { *why = "pbsb"; return 0; }
  int l = refIdMatch(d, t.data);
  if (l < 0) { *why = "id"; return 0; }
  *idLen = l;
  if (!refDirection(d, f)) { *why = "direction"; return 0; }
  bool srcSure = d.src == ANY || d.src == t.qq;
  // a passive definition with a source describes telegrams of that source only; for an active
  // definition the source is the address ebusd itself sends with, the statement does not say
  // whether it restricts the lookup: undecided
  if (d.passive() && !srcSure) { *why = "source"; return 0; }
  if (d.dst != ANY && d.dst != t.zz) { *why = "destination"; return 0; }
  // anyDestination selects the definitions without a particular destination (find() doc comment);
  // whether the other group may also be returned is not fixed by the statement: undecided
  bool dstSure = (f & F_ANYDEST) ? d.dst == ANY : d.dst == t.zz;
  *why = dstSure ? "" : "undecided-destination";
  if (d.optional) return 1;   // built-in message outside the key map
  return (srcSure && dstSure) ? 2 : 1;
}

struct Verdict {
  string rule;    // "" = fine
  string sig;
  string detail;
};

static const char* kindName(const Def& d) { return d.optional ? "builtin" : d.implicit ? "scan" : d.chained() ? "chained" : "plain"; }
static const char* dirName(const Def& d) {
  return d.kind == c08::K_READ ? "read" : d.kind == c08::K_WRITE ? "write" : d.kind == c08::K_PASSIVE_READ ? "passive" : "passivewrite";
}

// result: index into universe, -1 = nullptr, -2 = something that is not a loaded definition
static Verdict judge(const vector<Def>& U, const vector<int>& loaded, const Tele& t, unsigned f, int result, const Env* env = nullptr) {
  Verdict v;
  int best = -1, bestLen = -1;
  bool onlyAvail = env && env->onlyAvailable;
  for (int di : loaded) {
    int l; const char* why;
    if (onlyAvail && !refAvailable(U[di], env)) continue;   // "currently available definition"
    if (refMatch(U[di], t, f, &l, &why) == 2 && l > bestLen) { bestLen = l; best = di; }
  }
  char b[256];
  if (result == -2 || (result >= 0 && !U[result].optional && std::find(loaded.begin(), loaded.end(), result) == loaded.end())) {
    v.rule = "returned-unloaded";
    v.sig = "C08/returned-unloaded";
    v.detail = "find() returned a message that is not one of the loaded definitions";
    return v;
  }
  if (result >= 0) {
    int l; const char* why;
    int m = refMatch(U[result], t, f, &l, &why);
    if (m == 0) {
      v.rule = "returned-nonmatching";
      v.sig = string("C08/returned-nonmatching/") + why + "/" + kindName(U[result]) + "-" + dirName(U[result]);
      snprintf(b, sizeof(b), "find() returned n%02d whose %s does not match the telegram", result, why);
      v.detail = b;
      return v;
    }
    if (onlyAvail && !refAvailable(U[result], env)) {
      // find() doc: onlyAvailable "true to include only available messages"
      v.rule = "returned-unavailable";
      v.sig = string("C08/returned-unavailable/") + kindName(U[result]) + "-" + dirName(U[result]);
      snprintf(b, sizeof(b), "find(onlyAvailable=true) returned n%02d whose condition is not fulfilled", result);
      v.detail = b;
      return v;
    }
    if (m == 1 && string(why) == "undecided-destination" && best >= 0 && bestLen >= l) {
      // a definition for the very destination asked for (resp. without destination when anyDestination is asked
      // for) matches at least as long: the other destination group must not be returned instead
      v.rule = "other-destination-group";
      v.sig = string("C08/other-destination-group/got-") + (U[result].dst == ANY ? "wildcard" : "particular") + (U[result].optional ? "-builtin" : "") + "/want-" + kindName(U[best]) + "-" + dirName(U[best]);
      snprintf(b, sizeof(b), "find(anyDestination=%s) returned %s although loaded n%02d for the destination group asked for matches with ID length %d",
               (f & F_ANYDEST) ? "true" : "false", U[result].dst == ANY ? "a definition without destination" : "a definition with a particular destination", best, bestLen);
      v.detail = b;
      return v;
    }
    if (l < bestLen) {
      const Def& g = U[result]; const Def& w = U[best];
      string rel = "other";
      if (w.chained()) {
        // relation of the returned ID length to the common prefix of the chain that should have won
        size_t pre = 0;
        while (pre < w.idLen()) {
          bool same = true;
          for (auto& p : w.parts) if (p[pre] != w.parts[0][pre]) same = false;
          if (!same) break;
          pre++;
        }
        rel = (size_t)l == pre ? "gotlen-eq-chainprefix" : (size_t)l > pre ? "gotlen-gt-chainprefix" : "gotlen-lt-chainprefix";
      }
      v.rule = "shorter-id";
      v.sig = string("C08/shorter-id/got-") + kindName(g) + "/want-" + kindName(w) + "/" + rel;
      if (rel == "other" && w.cond) v.sig += "/want-conditional";
      snprintf(b, sizeof(b), "find() returned n%02d (ID length %d) although loaded n%02d matches with ID length %d",
               result, l, best, bestLen);
      v.detail = b;
      return v;
    }
    return v;
  }
  if (best >= 0) {
    v.rule = "missed";
    v.sig = string("C08/missed/want-") + kindName(U[best]) + "-" + dirName(U[best]) + "/" +
            (U[best].dst == ANY ? "dst-any" : U[best].dst == 0xfe ? "dst-broadcast" : isMaster((symbol_t)U[best].dst) ? "dst-master" : "dst-slave") +
            (U[best].idLen() > 4 ? "/id-gt4" : "/id-le4") + (U[best].cond ? "/want-conditional" : "");
    snprintf(b, sizeof(b), "find() returned nullptr although loaded n%02d matches with ID length %d", best, bestLen);
    v.detail = b;
  }
  return v;
}

// hand traces for the reference matcher; a failure means the harness is broken
static void refSelfTest(const vector<Def>& U) {
  struct T { int def; const char* data; unsigned qq, zz, f; int expect, len; };
  const unsigned ALL = F_READ | F_WRITE | F_PASSIVE;
  T tests[] = {
    {3, "0d0100", 0x31, 0x08, ALL, 2, 3},
    {3, "0d010077", 0x31, 0x08, ALL, 2, 3},
    {3, "0d01", 0x31, 0x08, ALL, 0, -1},
    {3, "0d0101", 0x31, 0x08, ALL, 0, -1},
    {3, "0d0100", 0x31, 0x15, ALL, 0, 3},
    {3, "0d0100", 0x31, 0x08, F_WRITE | F_PASSIVE, 0, 3},
    {3, "0d0100", 0x31, 0x08, ALL | F_ANYDEST, 1, 3},
    {19, "0d0100", 0x31, 0x08, ALL | F_ANYDEST, 2, 3},
    {19, "0d0100", 0x31, 0x08, ALL, 1, 3},
    {13, "0d0100", 0x10, 0x08, ALL, 2, 3},
    {13, "0d0100", 0x31, 0x08, ALL, 0, 3},
    {29, "0d0100", 0x31, 0x08, ALL, 1, 3},
    {30, "0d0200", 0x31, 0x08, ALL, 2, 3},
    {30, "0d0300", 0x31, 0x08, ALL, 0, -1},
    {30, "0d", 0x31, 0x08, ALL, 0, -1},
    {0, "", 0x31, 0x08, F_READ, 2, 0},
    {8, "0d01000203", 0x31, 0x08, ALL, 0, -1},
    {23, "0d0100", 0x31, 0xfe, F_PASSIVE, 2, 3},
  };
  for (auto& t : tests) {
    Tele tl{t.qq, t.zz, c08::PB, c08::SB, c08::hx(t.data)};
    int l; const char* why;
    int m = refMatch(U[t.def], tl, t.f, &l, &why);
    if (m != t.expect || (t.len >= 0 && l != t.len)) {
      fprintf(stderr, "reference self-test failed: def %d data %s -> %d/%d expected %d/%d\n", t.def, t.data, m, l, t.expect, t.len);
      exit(5);
    }
  }
  // judge(): longest must win, undecided never required
  Tele tl{0x31, 0x08, c08::PB, c08::SB, c08::hx("0d0100")};
  if (!judge(U, {2, 3}, tl, ALL, 3).rule.empty() || judge(U, {2, 3}, tl, ALL, 2).rule != "shorter-id" ||
      judge(U, {2, 3}, tl, ALL, -1).rule != "missed" || judge(U, {2}, tl, ALL, 3).rule != "returned-unloaded" ||
      !judge(U, {19}, tl, ALL, -1).rule.empty() || !judge(U, {19}, tl, ALL, 19).rule.empty() ||
      judge(U, {11}, tl, F_READ, 11).rule != "returned-nonmatching") {
    fprintf(stderr, "reference self-test failed: judge\n");
    exit(5);
  }
  // availability: [isA] n40 and [isB] n41 differ in their condition only
  Env eA{1, true}, eB{2, true}, eN{3, true}, eNall{3, false};
  if (!judge(U, {40, 41}, tl, ALL, 40, &eA).rule.empty() || judge(U, {40, 41}, tl, ALL, 40, &eB).rule != "returned-unavailable" ||
      judge(U, {40, 41}, tl, ALL, -1, &eB).rule != "missed" || !judge(U, {40, 41}, tl, ALL, 41, &eB).rule.empty() ||
      !judge(U, {40, 41}, tl, ALL, -1, &eN).rule.empty() || judge(U, {40, 41}, tl, ALL, -1, &eNall).rule != "missed" ||
      judge(U, {2, 40, 41}, tl, ALL, 2, &eB).rule != "shorter-id" || !judge(U, {2, 40, 41}, tl, ALL, 2, &eN).rule.empty()) {
    fprintf(stderr, "reference self-test failed: availability\n");
    exit(5);
  }
}

// ---------------------------------------------------------------------------------------------
// implementation side
// ---------------------------------------------------------------------------------------------
static DataFieldTemplates* g_templates;
class TestResolver : public Resolver {
 public:
  DataFieldTemplates* getTemplates(const string&) override { return g_templates; }
  result_t loadDefinitionsFromConfigPath(FileReader*, const string&, map<string, string>*, string*, bool) override {
    return RESULT_ERR_NOTFOUND;
  }
};
static TestResolver g_resolver;

struct Built {
  std::unique_ptr<MessageMap> map;
  vector<int> loaded;       // universe indices accepted by the loader, in insertion order
  vector<result_t> results; // per definition of the order
  string envLog;            // what was done for the environment
  bool availabilityOk = true;  // isAvailable() of every loaded definition agrees with the environment model
  string editLog;
  vector<std::pair<string, string>> editViolations;   // (signature, detail)
};

static Message* byName(MessageMap* map, int di) {
  char nm[8]; snprintf(nm, sizeof(nm), "n%02d", di);
  std::deque<Message*> q;
  map->findAll("c", nm, "*", true, true, true, true, true, false, 0, 0, false, &q);
  return q.size() == 1 ? q[0] : nullptr;
}

static Built build(const vector<Def>& U, const vector<int>& order, const Env* env = nullptr, const Edit* edit = nullptr) {
  Built b;
  g_now += 10;
  b.map.reset(new MessageMap(false, "", false));
  b.map->setResolver(&g_resolver);
  unsigned lineNo = 0;
  vector<string> row;
  string err;
  std::istringstream hdr("#");
  b.map->readLineFromStream(&hdr, "c08", false, &lineNo, &row, &err, false, nullptr, nullptr);  // default columns
  if (env) {
    for (auto line : c08::COND_PRELUDE) {
      std::istringstream is(line);
      result_t r = b.map->readLineFromStream(&is, "c08", false, &lineNo, &row, &err, false, nullptr, nullptr);
      if (r != RESULT_OK) { fprintf(stderr, "prelude line %s: %s %s\n", line, getResultCode(r), err.c_str()); exit(5); }
    }
  }
  for (int di : order) {
    result_t r;
    if (U[di].implicit) {
      r = b.map->getScanMessage((symbol_t)U[di].dst) ? RESULT_OK : RESULT_ERR_NOTFOUND;
    } else {
      std::istringstream is(c08::defLine(U[di], di));
      r = b.map->readLineFromStream(&is, "c08", false, &lineNo, &row, &err, false, nullptr, nullptr);
    }
    R.transitions++;
    b.results.push_back(r);
    if (r == RESULT_OK) b.loaded.push_back(di);
  }
  if (env) {
    string e;
    result_t r = b.map->resolveConditions(false, &e);
    R.transitions++;
    b.envLog = string("resolveConditions -> ") + getResultCode(r);
    if (env->code) {
      g_now += 10;
      Message* code = b.map->find("c", "code", "", false);
      MasterSymbolString ms; SlaveSymbolString ss;
      for (symbol_t c : {0x31, 0x08, 0xb5, 0xff, 0x01, 0x43}) ms.push_back(c);
      ss.push_back(0x01); ss.push_back((symbol_t)env->code);
      result_t sr = code ? code->storeLastData(ms, ss) : RESULT_ERR_NOTFOUND;
      R.transitions++;
      g_now += 10;
      b.envLog += string("; message c/code received with value ") + std::to_string(env->code) + " -> " + getResultCode(sr);
    } else {
      b.envLog += "; message c/code never received";
    }
  }
  if (edit) {
    vector<int> before = b.loaded;
    char buf[200];
    R.transitions++;
    if (edit->kind == 'r') {
      Message* m = byName(b.map.get(), edit->def);
      if (m) b.map->remove(m);
      snprintf(buf, sizeof(buf), "remove(n%02d)%s", edit->def, m ? "" : " (not loaded: nothing removed)");
      b.editLog = buf;
    } else {
      std::istringstream is(c08::defLine(U[edit->def], edit->def));
      result_t r = b.map->readLineFromStream(&is, "c08", false, &lineNo, &row, &err, true, nullptr, nullptr);
      snprintf(buf, sizeof(buf), "add with replace=true of \"%s\" -> %s", c08::defLine(U[edit->def], edit->def).c_str(), getResultCode(r));
      b.editLog = buf;
    }
    // what is loaded now is read from the name index (independent of the key buckets the lookup uses)
    b.loaded.clear();
    for (int di : before) if (di != edit->def && byName(b.map.get(), di)) b.loaded.push_back(di);
    bool defPresent = byName(b.map.get(), edit->def) != nullptr;
    if (defPresent) b.loaded.push_back(edit->def);
    for (int di : before) {
      if (di == edit->def) continue;
      bool present = std::find(b.loaded.begin(), b.loaded.end(), di) != b.loaded.end();
      bool mustStay = edit->kind == 'r' || refSurvivesReplace(U[di], U[edit->def]);
      if (!present && mustStay) {
        snprintf(buf, sizeof(buf), "%s also removed n%02d (%s), a different definition", b.editLog.c_str(), di, c08::defLine(U[di], di).c_str());
        b.editViolations.push_back({string("C08/edit-removed-other/") + (edit->kind == 'r' ? "remove" : "replace") + "/" + kindName(U[di]) + "-" + dirName(U[di]), buf});
      }
    }
    if (edit->kind == 'r' && defPresent) {
      snprintf(buf, sizeof(buf), "%s: the definition is still listed by name", b.editLog.c_str());
      b.editViolations.push_back({"C08/edit-not-removed/remove", buf});
    }
  }
  if (env) {
    // the model of the environment must agree with the implementation's own view, otherwise the oracle is void
    for (int di : b.loaded) {
      if (U[di].implicit) continue;
      Message* m = byName(b.map.get(), di);
      if (!m || m->isAvailable() != refAvailable(U[di], env)) b.availabilityOk = false;
    }
  }
  return b;
}

static int resultIndex(const Message* m) {
  if (!m) return -1;
  const string& n = m->getName();
  if (n.size() == 3 && n[0] == 'n' && m->getCircuit() == "c") return atoi(n.c_str() + 1);
  if (n.empty() && m->getCircuit() == "scan.08") return c08::FIRST_IMPLICIT;
  if (n.empty() && m->getCircuit() == "scan.15") return c08::FIRST_IMPLICIT + 1;
  if (n.empty() && m->getCircuit() == "scan") return m->getDstAddress() == BROADCAST ? c08::BROADCAST_SCAN : c08::GENERIC_SCAN;
  return -2;
}

static void toMaster(const Tele& t, MasterSymbolString* ms) {
  ms->clear();
  ms->push_back((symbol_t)t.qq); ms->push_back((symbol_t)t.zz); ms->push_back((symbol_t)t.pb); ms->push_back((symbol_t)t.sb);
  ms->push_back((symbol_t)t.data.size());
  for (uint8_t c : t.data) ms->push_back(c);
}

struct TeleEntry {
  Tele t;
  MasterSymbolString ms;
  uint64_t derivedFrom;  // bit per universe definition
};

static vector<TeleEntry> makeTelegrams(const vector<Def>& U) {
  std::map<Bytes, uint64_t> data;     // data string -> definitions it was derived from
  std::map<Bytes, uint64_t> keep;
  for (size_t di = 0; di < U.size(); di++) {
    uint64_t bit = 1ULL << di;
    for (const Bytes& p : U[di].parts) {
      data[p] |= bit; keep[p] |= bit;                                   // keep
      for (size_t l = 0; l < p.size(); l++) data[Bytes(p.begin(), p.begin() + l)] |= bit;   // truncate
      for (uint8_t x : {0x00, 0x77}) { Bytes e = p; e.push_back(x); data[e] |= bit; }        // extend
      for (size_t i = 0; i < p.size(); i++) { Bytes m = p; m[i] ^= 0x01; data[m] |= bit; }   // mutate one byte
      // chained: head of one part ID continued by the tail of another part ID of the same definition
      for (const Bytes& q : U[di].parts) for (size_t k = 1; k < p.size(); k++) {
        Bytes m(p.begin(), p.begin() + k); m.insert(m.end(), q.begin() + k, q.end()); data[m] |= bit;
      }
    }
  }
  vector<TeleEntry> out;
  const unsigned qqs[] = {0x10, 0x03, 0x31};
  const unsigned zzs[] = {0x08, 0x15, 0xfe, 0x30};
  for (auto& kv : data) for (unsigned qq : qqs) for (unsigned zz : zzs) {
    TeleEntry e; e.t = Tele{qq, zz, c08::PB, c08::SB, kv.first}; e.derivedFrom = kv.second;
    out.push_back(e);
  }
  // one command byte mutated
  for (auto& kv : keep) for (unsigned zz : {0x08u, 0xfeu}) for (int w = 0; w < 2; w++) {
    TeleEntry e; e.t = Tele{0x10, zz, (unsigned)(c08::PB ^ (w == 0 ? 1 : 0)), (unsigned)(c08::SB ^ (w == 1 ? 3 : 0)), kv.first};
    e.derivedFrom = kv.second;
    out.push_back(e);
  }
  for (auto& e : out) toMaster(e.t, &e.ms);
  return out;
}

static string orderStr(const vector<int>& o) {
  string s;
  for (size_t i = 0; i < o.size(); i++) { if (i) s += "."; s += std::to_string(o[i]); }
  return s;
}
static string teleHex(const Tele& t) {
  Bytes b = {(uint8_t)t.qq, (uint8_t)t.zz, (uint8_t)t.pb, (uint8_t)t.sb, (uint8_t)t.data.size()};
  b.insert(b.end(), t.data.begin(), t.data.end());
  return c08::toHex(b);
}
static string flagStr(unsigned f) {
  string s = (f & F_ANYDEST) ? "anyDestination" : "thisDestination";
  s += (f & F_READ) ? "+read" : ""; s += (f & F_WRITE) ? "+write" : ""; s += (f & F_PASSIVE) ? "+passive" : "";
  return s;
}

// evaluate one state (ordered subset); memberOnly restricts the telegrams to those derived from its members
static void runState(const vector<Def>& U, const vector<TeleEntry>& teles, const vector<int>& order, bool memberOnly, const Env* env = nullptr,
                     const Edit* edit = nullptr) {
  Built b = build(U, order, env, edit);
  string envStr = env ? ";e=" + std::to_string(env->code) + ";a=" + (env->onlyAvailable ? "1" : "0") : "";
  if (edit) envStr += string(";x=") + edit->kind + std::to_string(edit->def);
  for (auto& ev : b.editViolations) {
    R.evaluations++;
    R.violation(ev.first, ev.second + " [map " + orderStr(order) + envStr + "]", "defs=" + orderStr(order) + ";t=3108b50900;f=14" + envStr);
  }
  R.state(vp::fnv(orderStr(order) + envStr));
  if (env) {
    R.count("states_with_conditional_definitions");
    if (!b.availabilityOk) {
      // availability through conditions is C13's subject; without agreement this state cannot be judged
      R.count("states_skipped_availability_model_mismatch");
      R.cap("isAvailable() disagrees with the environment model in a state (state not judged)");
      return;
    }
  }
  uint64_t mask = 0;
  for (int di : order) mask |= 1ULL << di;
  if (edit) mask |= 1ULL << edit->def;
  R.count(string("maps_size_") + std::to_string(order.size()));
  if (b.loaded.size() != order.size()) R.count("maps_with_rejected_duplicate");
  for (size_t ti = 0; ti < teles.size(); ti++) {
    const TeleEntry& e = teles[ti];
    if (memberOnly && !(e.derivedFrom & mask)) continue;
    unsigned nMust = 0;
    for (unsigned f = 0; f < 16; f++) {
      const Message* m = b.map->find(e.ms, (f & F_ANYDEST) != 0, (f & F_READ) != 0, (f & F_WRITE) != 0, (f & F_PASSIVE) != 0,
                                     env ? env->onlyAvailable : true);
      int res = resultIndex(m);
      R.evaluations++; R.transitions++; R.tracesValidated++;
      Verdict v = judge(U, b.loaded, e.t, f, res, env);
      if (res >= 0) nMust++;
      if (!v.rule.empty()) {
        R.violation(v.sig, v.detail + " [map " + orderStr(order) + envStr + ", telegram " + teleHex(e.t) + ", " + flagStr(f) + "]",
                    "defs=" + orderStr(order) + ";t=" + teleHex(e.t) + ";f=" + std::to_string(f) + envStr);
      }
    }
    if (nMust) {
      R.count("telegrams_resolved");
      // non-trivial: more than one loaded definition is a candidate for this telegram
      int cand = 0;
      for (int di : b.loaded) { int l; const char* w; if (refMatch(U[di], e.t, 15, &l, &w) || refMatch(U[di], e.t, 14, &l, &w)) cand++; }
      if (cand >= 2) { R.count("telegram_states_with_2plus_candidates"); if (order.size() <= 3) R.distinct(vp::fnv(orderStr(order) + envStr + "/" + teleHex(e.t))); }
    }
  }
}

static int replay(const vector<Def>& U, const string& c) {
  auto m = vp::parseCase(c);
  vector<int> order;
  {
    std::istringstream is(m["defs"]);
    string tok;
    while (getline(is, tok, '.')) if (!tok.empty()) order.push_back(atoi(tok.c_str()));
  }
  for (int di : order) if (di < 0 || di >= (int)U.size() || U[di].optional) { printf("bad definition index\n"); return 2; }
  if (m.count("u")) {
    // universe pin: this row alone must load
    int di = order.empty() ? -1 : order[0];
    if (di < 0 || di >= c08::FIRST_IMPLICIT) { printf("bad definition index\n"); return 2; }
    Built b1 = build(U, {di}, U[di].cond ? &ENVS[1] : nullptr);
    printf("row of the harness universe loaded alone into an empty map: %s -> %s\n", c08::defLine(U[di], di).c_str(), getResultCode(b1.results[0]));
    if (b1.loaded.size() == 1) { printf("OK\n"); return 0; }
    printf("VIOLATES C08/universe-shrunk: a row that is valid by the documented CSV format is not loaded\n");
    return 1;
  }
  Bytes raw = c08::hx(m["t"].c_str());
  if (raw.size() < 5) { printf("bad telegram\n"); return 2; }
  Tele t{raw[0], raw[1], raw[2], raw[3], Bytes(raw.begin() + 5, raw.end())};
  unsigned f = (unsigned)atoi(m["f"].c_str());
  bool hasEnv = m.count("e") != 0;
  Env envv{atoi(m["e"].c_str()), m["a"] != "0"};
  const Env* env = hasEnv ? &envv : nullptr;
  Edit editv{'r', 0};
  const Edit* edit = nullptr;
  if (m.count("x") && m["x"].size() >= 2) {
    editv.kind = m["x"][0]; editv.def = atoi(m["x"].c_str() + 1);
    if ((editv.kind != 'r' && editv.kind != 'a') || editv.def < 0 || editv.def >= c08::FIRST_IMPLICIT) { printf("bad edit\n"); return 2; }
    edit = &editv;
  }
  Built b = build(U, order, env, edit);
  if (env) {
    printf("loaded first: the message the conditions refer to and the conditions [isA] (code=1), [isB] (code=2):\n");
    for (auto line : c08::COND_PRELUDE) printf("  %s\n", line);
  }
  printf("definitions added in this order (default columns type,circuit,name,comment,qq,zz,pbsb,id):\n");
  for (size_t i = 0; i < order.size(); i++)
    printf("  %s  -> %s\n", c08::defLine(U[order[i]], order[i]).c_str(), getResultCode(b.results[i]));
  MasterSymbolString ms; toMaster(t, &ms);
  if (env) printf("environment: %s; isAvailable() agrees with the model: %s\n", b.envLog.c_str(), b.availabilityOk ? "yes" : "NO");
  if (edit) {
    printf("then: %s\nloaded afterwards (by name):", b.editLog.c_str());
    for (int di : b.loaded) printf(" n%02d", di);
    printf("\n");
    for (auto& ev : b.editViolations) printf("VIOLATES %s: %s\n", ev.first.c_str(), ev.second.c_str());
  }
  printf("telegram %s, lookup flags %s%s\n", teleHex(t).c_str(), flagStr(f).c_str(), env ? (env->onlyAvailable ? ", onlyAvailable=true" : ", onlyAvailable=false") : "");
  printf("reference (linear scan over the loaded definitions and the two built-in identification messages):\n");
  vector<int> shown = b.loaded;
  shown.push_back(c08::GENERIC_SCAN); shown.push_back(c08::BROADCAST_SCAN);
  for (int di : shown) {
    int l; const char* why;
    int r = refMatch(U[di], t, f, &l, &why);
    if (env && env->onlyAvailable && !refAvailable(U[di], env)) { printf("  n%02d: not available (condition not fulfilled)\n", di); continue; }
    printf("  n%02d: %s%s%s\n", di, r == 2 ? "matches" : r == 1 ? "undecided by the statement" : "does not match (", r ? "" : why, r ? "" : ")");
    if (r) printf("       matching ID length %d\n", l);
  }
  if (env && !b.availabilityOk) { printf("state not judged\nOK\n"); return 0; }
  const Message* msg = b.map->find(ms, (f & F_ANYDEST) != 0, (f & F_READ) != 0, (f & F_WRITE) != 0, (f & F_PASSIVE) != 0,
                                   env ? env->onlyAvailable : true);
  int res = resultIndex(msg);
  if (res >= 0) printf("observed: find() -> n%02d%s\n", res, U[res].implicit ? (string(" = ") + c08::defLine(U[res], res)).c_str() : "");
  else printf("observed: find() -> %s\n", res == -1 ? "nullptr" : "foreign message");
  Verdict v = judge(U, b.loaded, t, f, res, env);
  if (v.rule.empty()) { printf(b.editViolations.empty() ? "OK\n" : "VIOLATES (edit)\n"); return b.editViolations.empty() ? 0 : 1; }
  printf("VIOLATES %s: %s\n", v.sig.c_str(), v.detail.c_str());
  return 1;
}

int main(int argc, char** argv) {
  vp::Args A = vp::parseArgs(argc, argv);
  setFacilitiesLogLevel(1 << lf_COUNT, ll_none);
  vector<Def> U = c08::universe();
  refSelfTest(U);
  g_templates = new DataFieldTemplates();
  if (A.replay) return replay(U, A.replayCase);
  R.setDeadline(A);
  vector<TeleEntry> teles = makeTelegrams(U);
  // sizes <= maxFull: every telegram derived from the universe; maxFull < size <= maxMember: telegrams
  // derived from the members of the subset; the largest size draws from the core universe only
  size_t maxFull = (size_t)A.getInt("maxfull", A.thorough() ? 3 : 2);
  size_t maxMember = (size_t)A.getInt("maxmember", A.thorough() ? 4 : 3);
  bool coreLast = A.getInt("corelast", A.thorough() ? 1 : 0) != 0;   // 1: the largest size draws from the core universe only
  size_t maxSize = std::max(maxFull, maxMember);
  vector<int> all, core;
  vector<int> condPool;   // availability pass: conditional definitions and their unconditional partners
  vector<int> editPool;   // edit pass: states followed by one remove / replacing add
  vector<int> shapePool;  // chain-shape pass: chained definitions with >= 3 parts and the same partners
  for (size_t i = 0; i < U.size(); i++) {
    if (U[i].cond || U[i].condPool) condPool.push_back((int)i);
    if (U[i].shape || U[i].condPool) shapePool.push_back((int)i);
    if (U[i].editPool) editPool.push_back((int)i);
    if (U[i].cond || U[i].shape || U[i].implicit) continue;
    all.push_back((int)i); if (U[i].core) core.push_back((int)i);
  }
  R.note("universe " + std::to_string(all.size()) + " definitions (core " + std::to_string(core.size()) + ") + " +
         std::to_string(c08::FIRST_SHAPE - c08::FIRST_CONDITIONAL) + " conditional ones (5 environments) + " + std::to_string(c08::FIRST_IMPLICIT - c08::FIRST_SHAPE) +
         " chained ones with 3-4 parts, the latter two groups explored with 12 partners, " +
         std::to_string(teles.size()) + " telegrams x 16 flag combinations");

  // universe pin: every CSV row of the universe is valid by the documented format and must load alone; otherwise a
  // loader that refuses rows would silently empty the judged states ("loaded" = accepted by the loader)
  if (A.part == 0) {
    for (int di = 0; di < c08::FIRST_IMPLICIT; di++) {
      Built b1 = build(U, {di}, U[di].cond ? &ENVS[1] : nullptr);
      R.evaluations++;
      if (b1.loaded.size() != 1)
        R.violation(string("C08/universe-shrunk/") + kindName(U[di]) + "-" + dirName(U[di]) + (U[di].cond ? "-conditional" : ""),
                    "row of the harness universe is not loaded into an empty map: " + c08::defLine(U[di], di) + " -> " + getResultCode(b1.results[0]),
                    "defs=" + std::to_string(di) + ";u=1");
    }
  }
  bool stop = false;
  // pass 1: all sizes over the full universe up to maxSize (or maxSize-1 when the last size uses the core)
  // pass 2: size maxSize over the core universe
  // pass 3 (availability): all sizes 1..maxSize over conditional definitions + partners, only states that contain
  //         a conditional definition, each in every environment (value the conditions look at x onlyAvailable)
  // pass 4 (chain shape): all sizes 1..maxSize over chained definitions with 3-4 parts + partners, only states that
  //         contain one of them
  for (int pass = 0; pass < 4 && !stop; pass++) {
    const vector<int>& pool = pass == 0 ? all : pass == 1 ? core : pass == 2 ? condPool : shapePool;
    size_t lo = pass == 0 ? 0 : pass == 1 ? maxSize : 1, hi = pass == 0 ? (coreLast ? maxSize - 1 : maxSize) : maxSize;
    if (pass == 1 && !coreLast) continue;
    vector<int> order;
    vector<bool> used(U.size(), false);
    size_t firstK = 0;
    std::function<void()> rec = [&]() {
      if (stop) return;
      // ownership: empty map -> part 0; one definition -> by its index; two or more -> by the (first, second) pair
      bool own = order.empty() ? A.part == 0 : order.size() == 1 ? (int)(firstK % A.nparts) == A.part : true;
      if (own && order.size() >= lo && order.size() <= hi) {
        if (R.expired()) { stop = true; return; }
        if (pass < 2) {
          runState(U, teles, order, order.size() > maxFull);
        } else if (pass == 2) {
          bool hasCond = false;
          for (int di : order) if (U[di].cond) hasCond = true;
          if (hasCond) for (const Env& env : ENVS) runState(U, teles, order, order.size() > maxFull, &env);
        } else {
          bool hasShape = false;
          for (int di : order) if (U[di].shape) hasShape = true;
          if (hasShape) { R.count("states_with_multipart_chains"); runState(U, teles, order, order.size() > maxFull); }
        }
      }
      if (order.size() >= hi) return;
      for (size_t k = 0; k < pool.size(); k++) {
        int di = pool[k];
        if (used[di]) continue;
        if (order.empty()) firstK = k;
        if (order.size() == 1 && (int)((firstK * pool.size() + k) % A.nparts) != A.part) continue;
        used[di] = true; order.push_back(di);
        rec();
        order.pop_back(); used[di] = false;
      }
    };
    rec();
  }
  // pass 5 (edit): every ordered subset of size <= maxEdit of the edit pool (fold twins, conditional twins, chained and
  //         direction neighbours), followed by one remove of a member or one replacing add of any pool definition;
  //         telegrams derived from the members and the edited definition
  uint64_t smallIdx = 0;
  {
    size_t maxEdit = (size_t)A.getInt("maxedit", A.thorough() ? 3 : 2);
    vector<int> order;
    vector<bool> used(U.size(), false);
    std::function<void()> rec = [&]() {
      if (stop) return;
      if (!order.empty()) {
        vector<Edit> edits;
        for (int di : order) edits.push_back(Edit{'r', di});
        for (int di : editPool) edits.push_back(Edit{'a', di});
        for (const Edit& ed : edits) {
          if ((int)(smallIdx++ % (uint64_t)A.nparts) != A.part) continue;
          if (R.expired()) { stop = true; return; }
          bool hasCond = U[ed.def].cond != 0;
          for (int di : order) if (U[di].cond) hasCond = true;
          R.count("states_with_edit");
          runState(U, teles, order, true, &ENVS[1], &ed);
          if (hasCond) runState(U, teles, order, true, &ENVS[2], &ed);
        }
      }
      if (order.size() >= maxEdit) return;
      for (int di : editPool) {
        if (used[di]) continue;
        used[di] = true; order.push_back(di);
        rec();
        order.pop_back(); used[di] = false;
      }
    };
    rec();
  }
  // pass 6 (identification messages): the built-in 07 04 messages and the per-address ones created by
  //         getScanMessage(08) / getScanMessage(15), in every order with two ordinary definitions
  {
    vector<TeleEntry> scanTeles;
    struct TD { unsigned pb, sb; const char* data; };
    for (TD td : {TD{0x07, 0x04, ""}, TD{0x07, 0x04, "00"}, TD{0x07, 0x05, ""}, TD{c08::PB, c08::SB, ""}, TD{c08::PB, c08::SB, "0d0100"}})
      for (unsigned qq : {0x10u, 0x03u, 0x31u}) for (unsigned zz : {0x08u, 0x15u, 0xfeu, 0x30u}) {
        TeleEntry e; e.t = Tele{qq, zz, td.pb, td.sb, c08::hx(td.data)}; e.derivedFrom = ~0ULL; toMaster(e.t, &e.ms);
        scanTeles.push_back(e);
      }
    vector<int> pool = {0, 3, c08::FIRST_IMPLICIT, c08::FIRST_IMPLICIT + 1};
    vector<int> order;
    vector<bool> used(U.size(), false);
    std::function<void()> rec = [&]() {
      if (stop) return;
      if ((int)(smallIdx++ % (uint64_t)A.nparts) == A.part) { R.count("states_with_identification_messages"); runState(U, scanTeles, order, false); }
      for (int di : pool) {
        if (used[di]) continue;
        used[di] = true; order.push_back(di);
        rec();
        order.pop_back(); used[di] = false;
      }
    };
    rec();
  }
  {
    Tele t{0x31, 0x08, c08::PB, c08::SB, c08::hx("0d0100")};
    R.sample("edit: [" + c08::defLine(U[5], 5) + " | " + c08::defLine(U[8], 8) + "] then remove(n05) or add(replace=true) of n05: the fold twin n08 must stay loaded and found");
    R.sample("state = ordered list of loaded definitions, e.g. [" + c08::defLine(U[3], 3) + " | " + c08::defLine(U[30], 30) + " | " + c08::defLine(U[13], 13) + "]");
    R.sample("telegram " + teleHex(t) + " from sources 10/03/31 to 08/15/fe/30 with each of 16 flag combinations; reference = linear scan, longest matching ID must win");
    R.sample("availability: [" + c08::defLine(U[40], 40) + " | " + c08::defLine(U[41], 41) + "] with the condition message received as 1 / 2 / 3 / never, onlyAvailable true/false");
    R.sample("chain shape: " + c08::defLine(U[47], 47) + " (common prefix 0d, first/last share 0d00) with telegrams for every part and for heads/tails of different parts, e.g. 0d0002");
    R.sample("fold twins: " + c08::defLine(U[5], 5) + " and " + c08::defLine(U[8], 8) + " share one 64-bit key");
  }
  R.write(A.out);
  return 0;
}
