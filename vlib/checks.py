"""Per-property check definitions (which harnesses, which bounds)."""

CHECKS = {}
NOT_APPLICABLE = {}
# properties whose checks have been run end-to-end by the orchestrator and are registered in MANIFEST.json
READY = ["C01", "C02", "C03", "C04", "C05", "C06", "C07", "C08", "C09", "C10", "C11", "C12", "C13", "C14", "C15", "C16", "C17", "C18", "C19", "C20"]
ENGINES = [
    {"name": "codec", "path": "engines/codec", "serves_properties": ["C05", "C06", "C07", "C10", "C11", "C12"],
     "kind_free_text": "bounded-exhaustive enumeration of finite input domains / BFS over operation histories of the real codec objects against exact-arithmetic reference models"},
]

CHECKS["C11"] = {
    "engine": "codec", "design_ref": "5/C11",
    "level": "exploration",
    "level_text": "every input of the finite domains is evaluated on the real functions against a bitwise reference; the per-symbol CRC fold is covered for all 65536 steps, which extends to strings of every length by induction",
    "level_note": "trusts the reference (bitwise division, escape rules, nibble set) and gcc ASan/UBSan; strings longer than the bounds are covered only through the fold argument",
    "technique": "bounded-exhaustive enumeration of the real functions against a reference model",
    "rule": "exhaustive enumeration: all 65536 (crc,symbol) table steps; all 256 addresses for every predicate/mapping "
            "plus global bijection/order relations; calcCrc and escape round trip on all raw strings of length<=2 over "
            "all bytes and length<=6 (thorough 8, and length 3 over all bytes) over {00,01,A8,A9,AA,AB,FF}; "
            "parseHexEscaped on all escaped strings of length<=2 over all bytes, all length-3 strings containing A9/AA "
            "(thorough: all length-3), and length<=6/8 over the alphabet; parsing APPENDS ('parse ... and add all symbols'): "
            "every stored prefix of length<=2 (thorough 3) over the alphabet, also holding unescaped A9/AA symbols, x every string "
            "of length<=3 (thorough 4), escaped and plain hex, master and slave strings -> prefix + parsed symbols, same "
            "acceptance as on a fresh string, calcCrc of the result. distinct = distinct inputs.",
    "assumptions": ["reference CRC is bitwise division by x^8+x^7+x^4+x^3+x+1, init 0, over the escaped sequence; "
                    "induction over the per-symbol fold extends the 65536-step result to every length"],
    "runs": [{
        "harness": "c11_symbol", "sources": ["engines/codec/c11_symbol.cpp"], "variant": "san",
        "quick": {"parts": 1, "bounds": "len<=2 all bytes, len<=6 alphabet"},
        "thorough": {"parts": 1, "bounds": "len<=3 all bytes, len<=8 alphabet"},
    }],
}


# ---- per-engine check definition modules (vlib/checks_<engine>.py), each defining CHECKS / ENGINES ----
import glob as _glob
import importlib as _importlib
import os as _os

for _f in sorted(_glob.glob(_os.path.join(_os.path.dirname(__file__), "checks_*.py"))):
    _m = _importlib.import_module("vlib." + _os.path.basename(_f)[:-3])
    CHECKS.update(getattr(_m, "CHECKS", {}))
    ENGINES.extend(getattr(_m, "ENGINES", []))
    NOT_APPLICABLE.update(getattr(_m, "NOT_APPLICABLE", {}))


# ---- C20 is assembled from the engines that own an untrusted interface each ----
def _assemble_c20():
    runs, rules, assumptions = [], [], []
    try:
        from .checks_busmc import C20_BUS_RUN
        runs.append(C20_BUS_RUN)
        rules.append("bus: every sequence of 7 (thorough 8-9) events over {SYN, A9, 00, 01, FF, 10, 36, FE, 05, silence, [long silence], "
                     "[read error], corrupted/lost echo} fed to the real handler + plain/enhanced device in 5 configurations (passive, SYN "
                     "generator, answering, pending requests, device faults), followed by a fixed probe telegram that must still be reported; "
                     "ASan/UBSan, leak and step-budget oracle; state-hashed (validated fingerprint)")
    except ImportError:
        pass
    try:
        from .checks_cmdA import C20_CMD_RUNS, C20_CMD_RULE, C20_CMD_ASSUMPTIONS
        runs.extend(C20_CMD_RUNS)
        rules.append(C20_CMD_RULE)
        assumptions.extend(C20_CMD_ASSUMPTIONS)
    except ImportError:
        pass
    try:
        from .checks_enhA import C20_ENH_RUNS
        runs.extend(C20_ENH_RUNS)
        rules.append("adapter: the C14 stream x chunking enumeration over a wider adapter byte alphabet (undefined commands, info frames "
                     "beyond the info buffer, reset/error frames) under ASan/UBSan with a well-formed suffix that must still decode")
    except ImportError:
        pass
    if not runs:
        return
    CHECKS["C20"] = {
        "engine": "busmc+cmdmc+enhmc", "design_ref": "5/C20",
        "level": "exploration",
        "level_text": "bounded-exhaustive (not coverage-guided, not sampled) enumeration of inputs on each untrusted interface - bus symbols / "
                      "adapter frames, command lines and HTTP requests, CSV definition text - executed on sanitizer-instrumented real code; "
                      "the oracle is the sanitizer, signals, an alarm/step budget, leak counters and a fixed probe that must still be answered",
        "level_note": "'arbitrary bytes' is covered only up to the stated alphabets and lengths; exhaustive refers to that bounded space",
        "technique": "bounded-exhaustive input enumeration with sanitizer oracle (bus part: state-hashed exploration of the closed bus world)",
        "rule": " | ".join(rules),
        "assumptions": assumptions + ["alphabets and length bounds as stated in the rule; gcc ASan + UBSan; libstdc++ assertions on for the command part"],
        "runs": runs,
    }


_assemble_c20()


# ---- C15: busmc explores the handler for given answer tables; cmdmc adds the `answer` command that fills the table ----
def _extend_c15():
    try:
        from .checks_cmdA import C15_CMD_RUN, C15_CMD_RULE
    except ImportError:
        return
    if "C15" in CHECKS and all(r["harness"] != C15_CMD_RUN["harness"] for r in CHECKS["C15"]["runs"]):
        CHECKS["C15"]["runs"].append(C15_CMD_RUN)
        CHECKS["C15"]["rule"] += " | " + C15_CMD_RULE
        CHECKS["C15"]["engine"] = "busmc+cmdmc"
        CHECKS["C15"]["assumptions"] = CHECKS["C15"].get("assumptions", []) + [
            "answer command: 16 data bytes, one-digit addresses, `-d fe` and `-m` with a slave `-d` are left open"]


_extend_c15()
