#define VCLOCK_IMPL
#ifndef BUSWORLD_REAL_COND
#define VCLOCK_COND
#endif
#include "busworld.h"
#include <stdarg.h>

#ifdef BUSMC_WITH_POLL
#include "ebusd/bushandler.h"
#include "lib/ebus/message.h"
#endif

namespace bw {

int TReq::s_live = 0;

#ifdef BUSMC_WITH_POLL
// the real PollRequest of bushandler.cpp on a two-part chained read message; only notify() is wrapped
// so that the monitors see the completion and the restart decision the real code takes
class PollResolver : public Resolver {
 public:
  DataFieldTemplates templates;
  DataFieldTemplates* getTemplates(const std::string&) override { return &templates; }
  result_t loadDefinitionsFromConfigPath(FileReader*, const std::string&, std::map<std::string, std::string>*, std::string*, bool) override { return RESULT_ERR_NOTFOUND; }
};
struct PollCtx {
  PollResolver resolver;
  MessageMap* map = nullptr;
  Message* msg = nullptr;
  BusHandler* bh = nullptr;  // receiver of the scan results (kind 3)
  ~PollCtx() { delete bh; delete map; }
};
class TPoll : public PollRequest {
 public:
  TPoll(World* w, int idx, Message* m) : PollRequest(m), m_world(w), m_idx(idx) { TReq::s_live++; }
  ~TPoll() override { TReq::s_live--; }
  bool notify(result_t result, const SlaveSymbolString& slave) override {
    Bytes s(slave.data(), slave.data() + slave.size());
    bool restart = PollRequest::notify(result, slave);
    m_world->lastResult[m_idx] = result;
    m_world->evNotify(m_idx, result, s, restart);
    if (!restart) { m_world->reqState[m_idx] = 2; m_world->reqObj[m_idx] = nullptr; }
    return restart;
  }
  World* m_world;
  int m_idx;
};
// the real ScanRequest of bushandler.cpp (identification query 0704 to each slave of its list); only notify() is wrapped
class TScan : public ScanRequest {
 public:
  TScan(World* w, int idx, MessageMap* map, const std::deque<Message*>& msgs, const std::deque<symbol_t>& slaves, BusHandler* bh)
      : ScanRequest(true, map, msgs, slaves, bh), m_world(w), m_idx(idx) { TReq::s_live++; }
  ~TScan() override { TReq::s_live--; }
  bool notify(result_t result, const SlaveSymbolString& slave) override {
    Bytes s(slave.data(), slave.data() + slave.size());
    bool restart = ScanRequest::notify(result, slave);
    m_world->lastResult[m_idx] = result;
    m_world->evNotify(m_idx, result, s, restart);
    if (!restart) { m_world->reqState[m_idx] = 2; m_world->reqObj[m_idx] = nullptr; }
    return restart;
  }
  World* m_world;
  int m_idx;
};
#endif

static const int STEP_CAP = 600;

void World::lg(const char* fmt, ...) {
  char b[400];
  va_list ap;
  va_start(ap, fmt);
  vsnprintf(b, sizeof(b), fmt, ap);
  va_end(ap);
  log.push_back(b);
}

// ------------------------------------------------------------------ transport
result_t SimTransport::open() {
  m_buf.clear();
  m_tag.clear();
  // environment decides whether the (re)open succeeds
  if (m_world->sc.faults && m_world->h != nullptr && !m_world->ended && !m_world->frozen) {
    uint8_t kinds[2] = {0, (uint8_t)(m_world->sc.unbounded ? K_REQ : K_DEV)};
    if (m_world->ex.choose(2, kinds) == 1) {
      m_world->note("OPEN fails");
      m_world->devCount++;
      m_valid = false;
      return RESULT_ERR_NOTFOUND;
    }
  }
  m_valid = true;
  m_world->note("OPEN ok");
  for (auto m : m_world->mons) m->onReopen();
  result_t r = m_listener ? m_listener->notifyTransportStatus(true) : RESULT_OK;
  if (r != RESULT_OK) close();
  return r;
}
void SimTransport::close() {
  if (!m_valid) return;
  m_valid = false;
  m_buf.clear();
  m_tag.clear();
  if (m_listener) m_listener->notifyTransportStatus(false);
}
result_t SimTransport::write(const uint8_t* data, size_t len) {
  if (!m_valid) return RESULT_ERR_DEVICE;
  return m_world->onWrite(data, len);
}
result_t SimTransport::read(unsigned int timeout, const uint8_t** data, size_t* len) {
  if (!m_valid) return RESULT_ERR_DEVICE;
  if (timeout == 0) {
    if (!m_world->ended) for (auto m : m_world->mons) m->onQuiescent(!m_buf.empty());
    if (m_buf.empty()) return RESULT_ERR_TIMEOUT;
    *data = m_buf.data();
    *len = m_buf.size();
    return RESULT_OK;
  }
  result_t r = m_world->onRead(timeout);
  if (r != RESULT_OK) return r;
  *data = m_buf.data();
  *len = m_buf.size();
  return RESULT_OK;
}
void SimTransport::readConsumed(size_t len) {
  if (len > m_buf.size()) len = m_buf.size();
  m_world->onConsumed(len);
  m_buf.erase(m_buf.begin(), m_buf.begin() + len);
  m_tag.erase(m_tag.begin(), m_tag.begin() + len);
}

// ------------------------------------------------------------------ request / listener
bool TReq::notify(result_t result, const SlaveSymbolString& slave) {
  Bytes s(slave.data(), slave.data() + slave.size());
  bool restart = false;
  if (m_restarts > 0 && result != RESULT_ERR_NO_SIGNAL) {
    m_restarts--;
    restart = true;
  }
  m_world->lastResult[m_idx] = result;
  m_world->evNotify(m_idx, result, s, restart);
  if (!restart) {
    m_world->reqState[m_idx] = 2;
    if (m_deleteOnFinish) m_world->reqObj[m_idx] = nullptr;  // the handler deletes it now
  }
  return restart;
}
void Listener::notifyProtocolStatus(ProtocolState state, result_t result) {
  if (m_world->logging && state != ps_empty) m_world->lg("STATUS %s result=%d", getProtocolStateCode(state), result);
}
void Listener::notifyProtocolMessage(MessageDirection direction, const MasterSymbolString& master,
                                     const SlaveSymbolString& slave) {
  m_world->evReport(static_cast<int>(direction), Bytes(master.data(), master.data() + master.size()),
                    Bytes(slave.data(), slave.data() + slave.size()));
}

// ------------------------------------------------------------------ world
void World::enqueue(int idx) {
  if (reqObj[idx] == nullptr) {
#ifdef BUSMC_WITH_POLL
    if (sc.reqs[idx].kind == 2) {
      PollCtx* pc = static_cast<PollCtx*>(pollCtx);
      TPoll* p = new TPoll(this, idx, pc->msg);
      if (p->prepare(sc.own) != RESULT_OK) { note("poll prepare failed"); delete p; reqState[idx] = 2; return; }
      reqObj[idx] = p;
    } else if (sc.reqs[idx].kind == 3) {
      PollCtx* pc = static_cast<PollCtx*>(pollCtx);
      std::deque<Message*> msgs; msgs.push_back(pc->map->getScanMessage());
      std::deque<symbol_t> slaves; slaves.push_back(sc.reqs[idx].master[1]);
      for (auto& er : sc.reqs[idx].extraResponders) slaves.push_back(er.first);
      TScan* p = new TScan(this, idx, pc->map, msgs, slaves, pc->bh);
      if (p->prepare(sc.own) != RESULT_OK) { note("scan prepare failed"); delete p; reqState[idx] = 2; return; }
      reqObj[idx] = p;
    } else
#endif
    reqObj[idx] = new TReq(this, idx, masters[idx], sc.reqs[idx].kind == 1, sc.reqs[idx].restarts);
  }
  reqState[idx] = 1;
  collected[idx] = 0;
  evEnqueue(idx);
  result_t r = h->addRequest(reqObj[idx], false);
  if (r != RESULT_OK) {  // refused (read-only): never in flight
    note("addRequest refused");
    reqState[idx] = 2;
    evNotify(idx, r, Bytes(), false);
    if (sc.reqs[idx].kind != 0) { delete reqObj[idx]; reqObj[idx] = nullptr; }
  }
}

void World::startScript(const Script* s) {
  active = s;
  seg = 0;
  off = 0;
  if (s->empty()) { active = nullptr; exchange = false; return; }
  awaitLeft = (*s)[0].await ? (*s)[0].n : 0;
}
void World::advanceScript() {
  seg++;
  off = 0;
  if (seg >= active->size()) { active = nullptr; exchange = false; return; }
  awaitLeft = (*active)[seg].await ? (*active)[seg].n : 0;
}
void World::abortScript() { active = nullptr; exchange = false; pickResponder = false; }

void World::chooseResponder(uint8_t zz) {
  pickResponder = false;
  for (size_t i = 0; i < sc.reqs.size(); i++) {
    if (sc.reqs[i].master[0] == wonAddr && sc.reqs[i].master[1] == zz) {
      startScript(&sc.reqs[i].responder);
      exchange = active != nullptr;
      return;
    }
  }
  for (size_t i = 0; i < sc.reqs.size(); i++) {
    if (sc.reqs[i].master[0] != wonAddr) continue;
    for (auto& er : sc.reqs[i].extraResponders) if (er.first == zz) {
      startScript(&er.second);
      exchange = active != nullptr;
      return;
    }
  }
  exchange = false;
}

int World::reqIndexOf(BusRequest* r) {
  for (size_t i = 0; i < reqObj.size(); i++) if (reqObj[i] == r) return (int)i;
  const MasterSymbolString& m = r->getMaster();
  for (size_t i = 0; i < sc.reqs.size(); i++) {
    if (sc.reqs[i].master.size() == m.size() && memcmp(sc.reqs[i].master.data(), m.data(), m.size()) == 0) return (int)i;
  }
  return -1;
}

bool World::allDone() {
  if (externalBusy) return false;
  for (size_t i = 0; i < reqState.size(); i++) if (reqState[i] == 1) return false;
  if (h->m_currentRequest != nullptr) return false;
  if (h->m_nextRequests.peek() != nullptr) return false;
  return true;
}

void World::deliverRaw(uint8_t b) { tr->m_buf.push_back(b); tr->m_tag.push_back(-1); }

void World::deliverSym(uint8_t v, int kind) {
  syms.push_back(DeliveredSym{v, (uint8_t)kind});
  int16_t idx = (int16_t)(syms.size() - 1);
  if (!sc.enhanced) {
    tr->m_buf.push_back(v);
    tr->m_tag.push_back(idx);
  } else {
    int cmd = kind == 1 ? 0x2 : kind == 2 ? 0xa : 0x1;
    if (kind == 0 && v < 0x80) {
      tr->m_buf.push_back(v);
      tr->m_tag.push_back(idx);
    } else {
      tr->m_buf.push_back((uint8_t)(0xC0 | (cmd << 2) | (v >> 6)));
      tr->m_tag.push_back(-1);
      tr->m_buf.push_back((uint8_t)(0x80 | (v & 0x3f)));
      tr->m_tag.push_back(idx);
    }
  }
  vp::vclockAdvanceUs(4200);
  if (kind == 0) {
    lastSyn = (v == ref::SYN);
    if (lastSyn && sc.enhanced && enhArmed >= 0 && echoQ.empty()) {
      // the adapter puts the armed address on the bus right after this SYN
      echoQ.push_back((uint8_t)enhArmed);
      arbSlot = true;
      enhArmed = -1;
    }
  } else {
    lastSyn = false;
  }
}

void World::onConsumed(size_t n) {
  for (size_t i = 0; i < n; i++) {
    int t = tr->m_tag[i];
    if (t >= 0) evDeliver(syms[t].v, syms[t].kind, tr->m_buf.size() > i + 1);
  }
}

result_t World::onWrite(const uint8_t* data, size_t len) {
  if (ended) return RESULT_OK;
  if (sc.faults && !frozen) {
    uint8_t kinds[2] = {0, (uint8_t)(sc.unbounded ? K_REQ : K_DEV)};
    if (ex.choose(2, kinds) == 1) {
      devCount++;
      evIoError(true);
      abortScript();  // the symbol never reached the bus: the addressed participant (if any) is out of the exchange
      return RESULT_ERR_DEVICE;
    }
  }
  if (!sc.enhanced) {
    for (size_t i = 0; i < len; i++) {
      uint8_t v = data[i];
      // a non-SYN write directly after a delivered lone SYN outside an own exchange is the arbitration slot
      if (echoQ.empty() && lastSyn && !exchange && v != ref::SYN && tr->m_buf.empty()) arbSlot = true;
      if (pickResponder) chooseResponder(v);
      echoQ.push_back(v);
      evWrite(v);
    }
    return RESULT_OK;
  }
  // enhanced adapter: two-byte requests
  if (len == 2 && (data[0] & 0xC0) == 0xC0 && (data[1] & 0xC0) == 0x80) {
    int cmd = (data[0] >> 2) & 0xf;
    uint8_t d = (uint8_t)(((data[0] & 3) << 6) | (data[1] & 0x3f));
    switch (cmd) {
      case 0: enhInitPending = true; note("ENH INIT"); break;
      case 1: if (pickResponder) chooseResponder(d); echoQ.push_back(d); evWrite(d); break;
      case 2:
        evArb(d);
        if (d == ref::SYN) { enhArmed = -1; if (arbSlot && !echoQ.empty()) { echoQ.pop_front(); arbSlot = false; } }
        else enhArmed = d;
        break;
      case 3: note("ENH INFO request"); break;
      default: note("ENH unknown request"); break;
    }
  } else {
    note("ENH malformed write");
    for (auto m : mons) m->onIoError(true);
  }
  return RESULT_OK;
}

void World::housekeeping() {
  // waiter emulation: take finished waited requests out of the finished queue, maybe re-submit
  for (size_t i = 0; i < reqObj.size(); i++) {
    if (reqObj[i] == nullptr || sc.reqs[i].kind != 0 || reqState[i] != 2 || sc.reqs[i].external) continue;
    if (!collected[i] && h->m_finishedRequests.remove(reqObj[i], false)) {
      collected[i] = 1;
      int res = lastResult[i];
      if (res != RESULT_OK && res != RESULT_ERR_NO_SIGNAL && res != RESULT_ERR_SEND && res != RESULT_ERR_DEVICE
          && resubmitsLeft[i] > 0) {
        resubmitsLeft[i]--;
        static_cast<BusRequest*>(reqObj[i])->m_busLostRetries = 0;
        note("waiter re-submits");
        enqueue((int)i);
      }
    }
  }
}

World::Def World::nextDefault(bool) {
  if (!echoQ.empty()) return Def{D_ECHO, echoQ.front()};
  if (pickResponder) return Def{D_SILENCE, 0};  // ebusd owns the bus after the won arbitration
  if (active != nullptr) {
    const Seg& s = (*active)[seg];
    if (isPause(s)) return Def{D_PAUSE, 0};
    if (s.await) return Def{D_SILENCE, 0};
    return Def{D_BYTE, s.bytes[off]};
  }
  if (nextForeign < sc.foreign.size()) {
    if (gapLeft > 0 || !lastSyn) return Def{D_BYTE, ref::SYN};
    startScript(&sc.foreign[nextForeign]);
    nextForeign++;
    if (sc.freezeAtLastScript && nextForeign == sc.foreign.size()) {
      frozen = true;
      for (auto m : mons) m->onProbeStart();
    }
    gapLeft = sc.gapSyns;
    if (active == nullptr) return nextDefault(false);
    return nextDefault(false);
  }
  if (!allDone()) return Def{D_BYTE, ref::SYN};
  if (tail < sc.tailSyns) return Def{D_BYTE, ref::SYN};
  return Def{D_END, 0};
}

void World::endRun(bool natural) {
  if (!ended && natural) {
    for (auto m : mons) m->onEnd();
  }
  ended = true;
  h->m_stopped = true;
}

uint64_t World::stateHash() {
  static thread_local std::string s;
  s.clear();
  auto put = [&](uint64_t v, int n) { for (int i = 0; i < n; i++) s.push_back((char)(v >> (8 * i))); };
  put(h->m_state, 1); put(h->m_escape, 1); put(h->m_crc, 1);
  put(h->m_crcValid | (h->m_repeat << 1) | (h->m_currentAnswering << 2) | (h->m_reconnect << 3) | (h->m_addressConflict << 4), 1);
  put(h->m_nextSendPos, 1); put(h->m_remainLockCount, 1); put(h->m_lockCount, 1); put(h->m_generateSynInterval, 2);
  put(h->m_listenerState, 1); put(h->m_masterCount, 1);
  put(h->m_command.size(), 1); s.append((const char*)h->m_command.data(), h->m_command.size());
  put(h->m_response.size(), 1); s.append((const char*)h->m_response.data(), h->m_response.size());
  time_t now = time(nullptr);
  put(difftime(now, h->m_lastReceive) > 1 ? 1 : 0, 1);
  if (timeExact) {
    // scripted pauses make silence of 1..2 s reachable, where the signal-loss test (whole seconds) depends on the
    // phase of the clock: keep the exact time since the second in which the last symbol was received
    // (microseconds: sleeps of the device code count too; the phase stays relevant after any later receive)
    int64_t secs = vp::vclockGet() / 1000000 - (int64_t)h->m_lastReceive;
    put((uint64_t)(secs < 0 ? 0 : secs > 3 ? 3 : secs), 1);
    put((uint64_t)(vp::vclockGet() % 1000000), 4);
  }
  // seen addresses influence m_lockCount/masterCount only; include a digest
  uint64_t seen = 1469598103934665603ULL;
  {
    uint64_t w[32];
    memcpy(w, h->m_seenAddresses, 256);
    for (int i = 0; i < 32; i++) seen = (seen ^ w[i]) * 1099511628211ULL;
  }
  put(seen, 8);
  int cur = -1;
  for (size_t i = 0; i < reqObj.size(); i++) if (reqObj[i] != nullptr && h->m_currentRequest == reqObj[i]) cur = (int)i;
  put(cur + 1, 1);
  // queue contents in order
  {
    pthread_mutex_lock(&h->m_nextRequests.m_mutex);
    for (BusRequest* r : h->m_nextRequests.m_queue) { put(reqIndexOf(r) + 1, 1); put(r->m_busLostRetries, 1); }
    pthread_mutex_unlock(&h->m_nextRequests.m_mutex);
    put(0xfe, 1);
    pthread_mutex_lock(&h->m_finishedRequests.m_mutex);
    for (BusRequest* r : h->m_finishedRequests.m_queue) put(reqIndexOf(r) + 1, 1);
    pthread_mutex_unlock(&h->m_finishedRequests.m_mutex);
  }
  BaseDevice* d = static_cast<BaseDevice*>(h->m_device);
  put(d->m_arbitrationMaster, 1); put(d->m_arbitrationCheck, 1);
  if (sc.enhanced) {
    EnhancedDevice* e = static_cast<EnhancedDevice*>(h->m_device);
    put(e->m_infoLen, 1); put(e->m_infoPos, 1); put(e->m_extraFeatures, 1); put(e->m_resetRequested, 1);
    // m_resetTime only matters when a RESETTED frame arrives while m_resetRequested is false; the
    // busmc adapter sends RESETTED only as the immediate answer to INIT, so it is not part of the state
  }
  put(tr->m_valid, 1);
  put(tr->m_buf.size(), 1); s.append((const char*)tr->m_buf.data(), tr->m_buf.size());
  // world
  put(nextForeign, 1); put(gapLeft, 1);
  if (active != nullptr) {
    int which = 0xff;
    for (size_t i = 0; i < sc.foreign.size(); i++) if (active == &sc.foreign[i]) which = (int)i;
    for (size_t i = 0; i < sc.reqs.size(); i++) if (active == &sc.reqs[i].responder) which = 0x40 + (int)i;
    for (size_t i = 0; i < sc.reqs.size(); i++) for (size_t j = 0; j < sc.reqs[i].extraResponders.size(); j++) if (active == &sc.reqs[i].extraResponders[j].second) which = 0x60 + (int)(i * 4 + j);
    if (active == &sc.winnerTelegram) which = 0x80;
    put(which, 1); put(seg, 1); put(off, 1); put(awaitLeft, 1);
  } else {
    put(0, 1);
  }
  put(echoQ.size(), 1); for (uint8_t v : echoQ) put(v, 1);
  put(arbSlot | (lastSyn << 1) | (exchange << 2) | (enhInitPending << 3) | (hasPendingSecond << 4), 1); put(enhArmed + 1, 2); put(tail, 1); put(drainLeft, 1);
  if (hasPendingSecond) put(pendingSecond, 1);
  put(arbLost, 1); put(silencesDone, 1); put(externalBusy, 1); put(pickResponder, 1); put(wonAddr, 1); put(frozen, 1);
  if (sc.silenceAtRead > 0) put(reads, 2);
  for (size_t i = 0; i < reqState.size(); i++) {
    put(reqState[i], 1); put(resubmitsLeft[i], 1);
    { TReq* t = dynamic_cast<TReq*>(reqObj[i]); put(reqObj[i] == nullptr ? 0 : (t != nullptr ? t->m_restarts + 1 : 0x40 + (int)reqObj[i]->getMaster().size()), 1);
      if (reqObj[i] != nullptr && t == nullptr) { const MasterSymbolString& mm = reqObj[i]->getMaster(); s.append((const char*)mm.data(), mm.size()); } }
    put(reqObj[i] != nullptr ? reqObj[i]->m_busLostRetries : 0, 1);
    put((uint64_t)(lastResult[i] + 64), 1); put(collected[i], 1);
  }
  for (auto m : mons) m->fingerprint(&s);
  return vp::fnv(s);
}

void World::run() {
  setup();
  h->run();
  teardown();
}

void World::setup() {
  vp::vclockReset();
  TReq::s_live = 0;
  ebus_protocol_config_t cfg;
  memset(&cfg, 0, sizeof(cfg));
  cfg.device = "sim";
  cfg.readOnly = sc.readOnly;
  cfg.ownAddress = sc.own;
  cfg.answer = sc.answer;
  cfg.busLostRetries = sc.busLostRetries;
  cfg.failedSendRetries = 0;
  cfg.busAcquireTimeout = 10;
  cfg.slaveRecvTimeout = 15;
  cfg.lockCount = sc.lockCount;
  cfg.generateSyn = sc.genSyn;
  cfg.initialSend = false;
  tr = new SimTransport(this);
  Device* dev = sc.enhanced ? static_cast<Device*>(new EnhancedDevice(tr)) : static_cast<Device*>(new PlainDevice(tr));
  h = new DirectProtocolHandler(cfg, dev, &listener);
  for (const AnswerSpec& a : sc.answers) {
    // every answer is registered twice under the same key: first with other content (other data / another tail
    // length), then with the content the monitors know - the later registration is the registered answer
    {
      SlaveSymbolString decoy;
      if (ref::isMaster(a.dst)) {
        size_t n = a.answer.empty() ? 0 : a.answer[0];
        size_t m = n + 1 <= 6 ? n + 1 : n - 1;
        decoy.push_back((symbol_t)m);
        for (size_t i = 0; i < m; i++) decoy.push_back(0xee);
      } else {
        decoy.push_back(0x02); decoy.push_back(0xee); decoy.push_back(0xdd);
      }
      h->setAnswer(a.src < 0 ? SYN : (symbol_t)a.src, a.dst, a.pb, a.sb, a.id.data(), a.id.size(), decoy);
    }
    SlaveSymbolString ans;
    for (uint8_t b : a.answer) ans.push_back(b);
    h->setAnswer(a.src < 0 ? SYN : (symbol_t)a.src, a.dst, a.pb, a.sb, a.id.data(), a.id.size(), ans);
  }
  masters.assign(sc.reqs.size(), MasterSymbolString());
  reqObj.assign(sc.reqs.size(), nullptr);
  reqState.assign(sc.reqs.size(), 0);
  resubmitsLeft.assign(sc.reqs.size(), 0);
  lastResult.assign(sc.reqs.size(), 1);
  collected.assign(sc.reqs.size(), 0);
  for (size_t i = 0; i < sc.reqs.size(); i++) {
    for (uint8_t b : sc.reqs[i].master) masters[i].push_back(b);
    resubmitsLeft[i] = sc.reqs[i].resubmits;
  }
#ifdef BUSMC_WITH_POLL
  pollCtx = nullptr;
  for (size_t i = 0; i < sc.reqs.size(); i++) if (sc.reqs[i].kind >= 2 && pollCtx == nullptr) {
    PollCtx* pc = new PollCtx();
    pc->map = new MessageMap(false, "", false);
    pc->map->setResolver(&pc->resolver);
    std::istringstream is("# type,circuit,name,comment,qq,zz,pbsb,id,fields\nr,c,poll2,,,08,b509,0d0100;0d0200,v,,HEX:4\n");
    std::string err;
    result_t lr = pc->map->readFromStream(&is, "poll.csv", 0, false, nullptr, &err);
    pc->msg = pc->map->find("c", "poll2", "*", false);
    if (lr != RESULT_OK || pc->msg == nullptr) { fprintf(stderr, "busworld: cannot load the poll message: %s\n", err.c_str()); abort(); }
    pc->bh = new BusHandler(pc->map, nullptr, 0);
    pollCtx = pc;
  }
#endif
  if (ex.debugSucc) ex.debugAux = [this]() {
    char b[400];
    snprintf(b, sizeof(b), "vclock=%lld lastReceive=%lld lat=%d reads=%d steps=%d state=%d lock=%u tail=%d gapLeft=%d lastSyn=%d bufsz=%zu echoQ=%zu",
             (long long)vp::vclockGet(), (long long)h->m_lastReceive, (int)tr->getLatency(), reads, steps, (int)h->m_state, h->m_remainLockCount, tail, gapLeft, (int)lastSyn, tr->m_buf.size(), echoQ.size());
    return std::string(b);
  };
  timeExact = false;
  for (auto& f : sc.foreign) for (auto& sg : f) if (isPause(sg)) timeExact = true;
  h->m_running = true;
  tr->m_valid = true;
  if (sc.enhanced) dev->open();  // sends the INIT request like the daemon does at start-up
  for (size_t i = 0; i < sc.reqs.size(); i++) if (!sc.reqs[i].late && !sc.reqs[i].external) enqueue((int)i);
}

void World::teardown() {
  if (!ended) endRun(false);
  // hand back everything still referenced by the handler, then destroy
  while (h->m_finishedRequests.pop() != nullptr) {}
  while (h->m_nextRequests.pop() != nullptr) {}
  h->m_currentRequest = nullptr;
  h->m_running = false;
  for (size_t i = 0; i < reqObj.size(); i++) if (reqObj[i] != nullptr) { delete reqObj[i]; reqObj[i] = nullptr; }
  leaked = TReq::s_live;
#ifdef BUSMC_WITH_POLL
  delete static_cast<PollCtx*>(pollCtx);
  pollCtx = nullptr;
#endif
  delete h;
  h = nullptr;
  tr = nullptr;
}

result_t World::onRead(unsigned int timeout) {
  reads++;
  if (readHook) readHook();
  if (!ended) for (auto m : mons) m->onQuiescent(!tr->m_buf.empty());
  if (!ended) housekeeping();
  int lat = (int)tr->getLatency();
  auto endTimeout = [&]() { vp::vclockAdvanceMs((int)timeout + lat); return RESULT_ERR_TIMEOUT; };
  if (ended) return endTimeout();
  if (++steps > (sc.stepCap > 0 ? sc.stepCap : STEP_CAP)) {
    capHit = true;
    endRun(false);
    return endTimeout();
  }
  if (hasPendingSecond) {  // second half of a split two-byte frame
    hasPendingSecond = false;
    tr->m_buf.push_back(pendingSecond);
    tr->m_tag.push_back(pendingTag);
    return RESULT_OK;
  }
  // enhanced adapter answers an INIT request first (not a wire symbol)
  if (enhInitPending) {
    enhInitPending = false;
    deliverRaw((uint8_t)(0xC0 | (0 << 2) | (sc.enhFeatures >> 6)));
    deliverRaw((uint8_t)(0x80 | (sc.enhFeatures & 0x3f)));
    note("ENH RESETTED delivered");
    return RESULT_OK;
  }
  while (true) {
    Def d = nextDefault(false);
    if (d.k == D_END) {
      if (sc.drainAtEnd && drainLeft < 4 && h->m_state != bs_noSignal) {
        drainLeft++;
        devCount++;
        vp::vclockAdvanceMs(2500);
        evTimeout(2500);
        return RESULT_ERR_TIMEOUT;
      }
      endRun();
      return endTimeout();
    }
    if (d.k == D_PAUSE) {  // scripted silence: no choice here
      devCount++;
      int ms = (int)timeout + lat + (*active)[seg].n - 1;
      vp::vclockAdvanceMs(ms);
      evTimeout(ms);
      advanceScript();
      lastSyn = false;
      return RESULT_ERR_TIMEOUT;
    }
    // ---- menu ----
    enum A { DEFAULT, REPLACE, DROP, INSERT, SILENCE, LONGSILENCE, CHUNK, SPLIT, CHUNKHALF, LOSE_QUIET, LOSE_TEL, ECHO_LOST, ECHO_LATE, READERR, ENQ, STALE_ARB };
    struct Alt { A a; int arg; uint8_t kind; };
    static thread_local std::vector<Alt> alts;
    alts.clear();
    alts.push_back(Alt{DEFAULT, 0, 0});
    if (d.k == D_ECHO) {
      for (uint8_t x : sc.alphabet) if (x != d.v) alts.push_back(Alt{REPLACE, x, K_DEV});
      if (arbSlot && sc.arbContenders) {
        for (uint8_t c : sc.contenders) {
          if (c == d.v) continue;
          bool inAlpha = false;
          for (uint8_t x : sc.alphabet) if (x == c) inAlpha = true;
          if (!inAlpha) alts.push_back(Alt{LOSE_QUIET, c, K_DEV});
          if (!sc.winnerTelegram.empty() && ref::isMaster(c)) alts.push_back(Alt{LOSE_TEL, c, K_DEV});
        }
      }
      alts.push_back(Alt{ECHO_LOST, 0, K_DEV});
      if (sc.lateEcho) alts.push_back(Alt{ECHO_LATE, 0, K_DEV});  // the echo arrives only after this read timed out
    } else if (d.k == D_BYTE) {
      for (uint8_t x : sc.alphabet) if (x != d.v) alts.push_back(Alt{REPLACE, x, K_DEV});
      if (sc.insertDrop) {
        alts.push_back(Alt{DROP, 0, K_DEV});
        for (uint8_t x : sc.alphabet) alts.push_back(Alt{INSERT, x, K_DEV});
      }
      alts.push_back(Alt{SILENCE, 0, K_DEV});
      if (sc.longSilence) alts.push_back(Alt{LONGSILENCE, 0, K_DEV});
      if (sc.chunking) {
        alts.push_back(Alt{CHUNK, 2, K_CHUNK});
        alts.push_back(Alt{CHUNK, 3, K_CHUNK});
        alts.push_back(Alt{CHUNK, 40, K_CHUNK});
        if (sc.enhanced && d.v >= 0x80) alts.push_back(Alt{SPLIT, 0, K_CHUNK});
        if (sc.enhanced) { alts.push_back(Alt{CHUNKHALF, 1, K_CHUNK}); alts.push_back(Alt{CHUNKHALF, 2, K_CHUNK}); }
      }
    } else {  // D_SILENCE
      if (sc.insertDrop) for (uint8_t x : sc.alphabet) alts.push_back(Alt{INSERT, x, K_DEV});
      if (sc.longSilence) alts.push_back(Alt{LONGSILENCE, 0, K_DEV});
    }
    if (sc.enhanced && sc.staleArb && d.k != D_ECHO) {
      alts.push_back(Alt{STALE_ARB, 1, K_DEV});  // STARTED <own address> nobody asked for (any more)
      alts.push_back(Alt{STALE_ARB, 2, K_DEV});  // FAILED <own address>
    }
    if (sc.faults) alts.push_back(Alt{READERR, 0, K_DEV});
    for (size_t i = 0; i < sc.reqs.size(); i++) if (sc.reqs[i].late && reqState[i] == 0) alts.push_back(Alt{ENQ, (int)i, K_REQ});
    if (frozen) alts.resize(1);
    if (sc.unbounded && gapLeft <= 0) alts.resize(1);  // A-mode: all slots used up, only the default continues

    if ((ex.useHash || ex.trackCycles) && !ex.replaying() && !ex.checkpoint(stateHash())) {
      if (ex.cycle) {
        // the closed system returned to a state of this very run: under the default environment it loops forever
        note("LIVELOCK: state repeats");
        if (!ended) for (auto m : mons) m->onLivelock();
      }
      endRun(false);
      return endTimeout();
    }
    static thread_local std::vector<uint8_t> kinds;
    kinds.clear();
    for (auto& a : alts) kinds.push_back(a.kind);
    Alt ch = alts[0];
    if (d.k == D_ECHO && arbSlot && sc.loseArbitrations > arbLost) {
      arbLost++;
      ch = Alt{LOSE_QUIET, sc.scriptedContender, 0};  // scripted environment behaviour, not a choice
    } else if (sc.silenceAtRead > 0 && reads == sc.silenceAtRead && silencesDone < 2) {
      silencesDone++;
      reads--;  // stay at this read index for the second long silence
      ch = Alt{LONGSILENCE, 0, 0};
    } else {
      ch = alts[ex.choose((int)alts.size(), kinds.data())];
    }
    if (ch.a != DEFAULT && ch.a != ENQ && ch.a != CHUNK && ch.a != SPLIT && ch.a != CHUNKHALF) devCount++;

    auto doTimeout = [&](int extra) {
      if (sc.unbounded && gapLeft > 0 && ch.a != DEFAULT) gapLeft--;  // A-mode: every deviation uses up one slot
      int ms = (int)timeout + lat + extra;
      vp::vclockAdvanceMs(ms);
      evTimeout(ms);
      if (active != nullptr || pickResponder) abortScript();
      lastSyn = false;
      return RESULT_ERR_TIMEOUT;
    };
    auto takeByte = [&]() {  // consume the default BYTE from its source
      if (active != nullptr) {
        off++;
        if (off >= (*active)[seg].bytes.size()) advanceScript();
      } else if (nextForeign < sc.foreign.size()) {
        if (gapLeft > 0) gapLeft--;
      } else if (allDone()) {
        tail++;
      }
    };
    auto echoDelivered = [&](uint8_t sent, uint8_t got) {
      bool wasArb = arbSlot;
      echoQ.pop_front();
      arbSlot = false;
      if (wasArb) {
        if (got == sent) {
          // ebusd wins: the addressed participant's behaviour becomes the active script
          // the addressed participant is identified by the ZZ symbol ebusd sends next
          pickResponder = true;
          wonAddr = got;
          exchange = true;
          deliverSym(got, sc.enhanced ? 1 : 0);
        } else {
          deliverSym(got, sc.enhanced ? 2 : 0);
        }
        return;
      }
      deliverSym(got, 0);
      if (active != nullptr && (*active)[seg].await) {
        if (--awaitLeft <= 0) advanceScript();
      }
    };

    switch (ch.a) {
      case ENQ:
        enqueue(ch.arg);
        continue;  // another choice at the same read call
      case READERR:
        if (sc.unbounded && d.k == D_BYTE && active == nullptr && gapLeft > 0) gapLeft--;
        evIoError(false);
        tr->close();
        abortScript();
        echoQ.clear(); arbSlot = false; enhArmed = -1; lastSyn = false; pickResponder = false;
        return RESULT_ERR_DEVICE;
      case DEFAULT:
        if (d.k == D_ECHO) { echoDelivered(d.v, d.v); return RESULT_OK; }
        if (d.k == D_BYTE) { takeByte(); deliverSym(d.v, 0); return RESULT_OK; }
        return doTimeout(0);
      case REPLACE:
        if (d.k == D_ECHO) { if (sc.unbounded && gapLeft > 0) gapLeft--; echoDelivered(d.v, (uint8_t)ch.arg); return RESULT_OK; }
        if (sc.unbounded && active != nullptr && !exchange && gapLeft > 0) gapLeft--;  // inside a scripted foreign telegram (in a gap takeByte() counts; a responder's symbols stay free)
        takeByte(); deliverSym((uint8_t)ch.arg, 0); return RESULT_OK;
      case STALE_ARB:
        if (sc.unbounded && gapLeft > 0) gapLeft--;
        deliverSym(sc.own, ch.arg);
        return RESULT_OK;
      case LOSE_QUIET:
        if (sc.unbounded && gapLeft > 0) gapLeft--;
        echoDelivered(d.v, (uint8_t)ch.arg); return RESULT_OK;
      case LOSE_TEL:
        echoDelivered(d.v, (uint8_t)ch.arg);
        startScript(&sc.winnerTelegram);
        return RESULT_OK;
      case ECHO_LATE: {
        // the symbol is on the wire but reaches ebusd late: this read times out, the echo stays queued
        int ms = (int)timeout + lat;
        if (sc.unbounded && gapLeft > 0) gapLeft--;
        vp::vclockAdvanceMs(ms);
        evTimeout(ms);
        return RESULT_ERR_TIMEOUT;
      }
      case ECHO_LOST:
        if (sc.unbounded && gapLeft > 0) gapLeft--;
        echoQ.pop_front();
        arbSlot = false;
        return doTimeout(0);
      case DROP: {
        takeByte();
        Def n = nextDefault(false);
        if (n.k == D_BYTE) { takeByte(); deliverSym(n.v, 0); return RESULT_OK; }
        return doTimeout(0);
      }
      case INSERT:
        deliverSym((uint8_t)ch.arg, 0); return RESULT_OK;
      case SILENCE:
        return doTimeout(0);
      case LONGSILENCE:
        return doTimeout(2000);
      case CHUNK: {
        takeByte(); deliverSym(d.v, 0);
        for (int i = 1; i < ch.arg; i++) {
          Def n = nextDefault(false);
          if (n.k != D_BYTE) break;
          takeByte(); deliverSym(n.v, 0);
        }
        return RESULT_OK;
      }
      case CHUNKHALF: {
        // this symbol (and one more) completely plus only the first byte of the following two-byte frame
        takeByte(); deliverSym(d.v, 0);
        for (int i = 0; i < ch.arg; i++) {
          Def n = nextDefault(false);
          if (n.k != D_BYTE) break;
          bool last = (i + 1 == ch.arg);
          takeByte(); deliverSym(n.v, 0);
          if (last && n.v >= 0x80) {
            pendingSecond = tr->m_buf.back(); pendingTag = tr->m_tag.back();
            tr->m_buf.pop_back(); tr->m_tag.pop_back();
            hasPendingSecond = true;
          }
        }
        return RESULT_OK;
      }
      case SPLIT: {
        // deliver only the first byte of the two-byte frame now, the second with the next read
        takeByte();
        size_t before = tr->m_buf.size();
        deliverSym(d.v, 0);
        uint8_t second = tr->m_buf.back();
        int16_t tag = tr->m_tag.back();
        tr->m_buf.pop_back(); tr->m_tag.pop_back();
        (void)before;
        pendingSecond = second; pendingTag = tag; hasPendingSecond = true;
        return RESULT_OK;
      }
    }
  }
}

}  // namespace bw
