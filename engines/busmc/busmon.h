// Reference monitors for the bus properties.  Written from the property statements; they see only
// the event stream of the closed world (writes, delivered symbols, timeouts, reports, notifications).
#ifndef VERIF_BUSMON_H_
#define VERIF_BUSMON_H_

#include <deque>
#include <string>
#include <utility>
#include <vector>
#include "busref.h"
#include "busworld.h"

namespace bw {

using ref::Telegram;

struct VSink {
  std::vector<std::pair<std::string, std::string>> v;  // (signature, detail)
  void add(const std::string& sig, const std::string& detail) {
    for (auto& e : v) if (e.first == sig) return;
    v.push_back(std::make_pair(sig, detail));
  }
};

static inline const char* telKind(const Bytes& m) {
  if (m.size() < 2) return "short";
  if (m[1] == ref::BROADCAST) return "BC";
  return ref::isMaster(m[1]) ? "MM" : "MS";
}

// ---------------------------------------------------------------------------------------------
// C01: passive reception reports exactly the valid telegrams, once, in bus order.
class RecvMonitor : public Monitor {
 public:
  explicit RecvMonitor(VSink* s) : sink(s) {}
  VSink* sink;
  ref::WireParser p;
  std::deque<Telegram> expected;
  bool failed = false;
  bool corrupted = false;  // something other than a clean telegram was seen before (for the signature only)
  int reportsSeen = 0;

  void onDeliver(uint8_t v, int) override {
    Telegram t;
    if (p.symbol(v, &t)) expected.push_back(t);
  }
  void onTimeout(int) override { p.timeout(); }
  void onIoError(bool) override { p.timeout(); }
  void onReport(int dir, const Bytes& m, const Bytes& s) override {
    if (failed) return;
    reportsSeen++;
    Telegram got{m, s};
    if (dir != 0) {
      failed = true;
      sink->add("C01/wrong-direction", "telegram " + got.str() + " reported with direction " + std::to_string(dir) + " although nothing was sent or answered");
      return;
    }
    if (expected.empty()) {
      if (p.dontCare) return;  // NN beyond 16: not fixed by the statement
      failed = true;
      std::string why = "other";
      if (m.size() >= 2 && !ref::isMaster(m[0])) why = "non-master-source";
      else if (m.size() >= 2 && m[0] == m[1]) why = "self-destination";
      sink->add("C01/spurious-report/" + why, "reported " + got.str() + " but the wire carried no such complete valid telegram");
      return;
    }
    if (!(expected.front() == got)) {
      failed = true;
      sink->add(std::string("C01/wrong-content/") + telKind(expected.front().master), "reported " + got.str() + " instead of " + expected.front().str());
      return;
    }
    expected.pop_front();
  }
  void onQuiescent() override {
    if (failed || expected.empty()) return;
    failed = true;
    sink->add(std::string("C01/missing-report/") + telKind(expected.front().master), "valid telegram " + expected.front().str() + " on the wire was not reported");
  }
  void onEnd() override { onQuiescent(); }
  void fingerprint(std::string* o) const override {
    p.fingerprint(o);
    o->push_back((char)(failed | (expected.size() << 1)));
  }
};

}  // namespace bw

#endif  // VERIF_BUSMON_H_
