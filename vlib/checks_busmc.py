"""busmc engine: closed bus world around the real DirectProtocolHandler + device (C01 C02 C03 C04 C15 C20)."""
SRC = ["engines/busmc/busmc.cpp", "engines/busmc/busworld.cpp"]
DEPS = ["engines/busmc/busworld.h", "engines/busmc/busmon.h", "engines/busmc/busref.h"]

ENGINES = [
    {"name": "busmc", "path": "engines/busmc", "serves_properties": ["C01", "C02", "C03", "C04", "C15", "C20"],
     "kind_free_text": "stateless DFS by replay (deviation-bounded, optional state hashing) of the real protocol handler "
                       "and device classes in a closed simulated bus world with reference monitors"},
]
CHECKS = {}


def bus(prop, quick_args, thorough_args, qd=300, td=3600, variant="plain"):
    return {
        "harness": "busmc", "sources": SRC, "deps": DEPS, "variant": variant,
        "quick": {"parts": 16, "args": ["--prop", prop] + quick_args, "deadline": qd,
                  "bounds": " ".join(str(a) for a in quick_args)},
        "thorough": {"parts": 16, "args": ["--prop", prop] + thorough_args, "deadline": td,
                     "bounds": " ".join(str(a) for a in thorough_args)},
    }


CHECKS["C01"] = {
    "engine": "busmc", "design_ref": "5/C01",
    "level": "model_checking",
    "level_text": "every execution of the real handler+device in the closed bus world with at most k deviations "
                  "(corrupt/drop/insert/silence at every position) and c chunking deviations is run and compared with an "
                  "independent incremental wire parser; this is a coverage statement over all corruption positions, not a sample",
    "level_note": "bounded by the telegram catalogue, configuration list, deviation alphabet and bounds k/c stated in the evidence; "
                  "trusts the reference parser (busref.h) and the simulated transport",
    "technique": "deviation-bounded exhaustive exploration (stateless DFS by replay + state hashing) of the implementation against a reference monitor",
    "rule": "scenario = device x configuration x catalogue telegram(s); all environment choice sequences with <=k deviations "
            "(replace by each alphabet value, drop, insert, silence, long silence at every read) and <=c chunk deviations; "
            "distinct = distinct delivered symbol sequences of completed runs; states = distinct (handler, device, world, monitor, budget) fingerprints",
    "assumptions": ["NN > 16 is outside the statement: reports there are don't-care",
                    "silence is modelled as a full receive timeout of the current state (or 2 s)"],
    "runs": [bus("C01", ["--validate-every", 1, "--validate-maxk", 1], ["--validate-every", 24, "--validate-maxk", 2])],
}

CHECKS["C02"] = {
    "engine": "busmc", "design_ref": "5/C02",
    "level": "model_checking",
    "level_text": "every execution of the real handler+device sending a queued request against a scripted participant, with at most k "
                  "deviations of the environment (any symbol replaced/dropped/inserted, silence, echo corruption or loss, lost arbitration) "
                  "at every step, is judged by a reference wire-format monitor: symbols written, ACK/NAK policy, closing SYN, result and report",
    "level_note": "bounded by the request catalogue (plus all 256 data values for NN=1), participant variants, retry settings and k; "
                  "the waiter of sendAndWait is emulated on the bus thread (threads are C04's subject)",
    "technique": "deviation-bounded exhaustive exploration (stateless DFS by replay + validated state hashing) of the implementation against a reference monitor",
    "rule": "scenario = device x request x participant variant (conformant, NAK/ACK, NAK NAK, bad-CRC response then good, bad twice) x retry setting; "
            "all environment choice sequences with <=k deviations and <=c chunk deviations; plus a sweep of all 256 data values x 3 destination kinds",
    "assumptions": ["a repeated master part is the complete telegram including QQ (as the passive receive side expects)",
                    "after a failed exchange a closing SYN is optional"],
    "runs": [bus("C02", ["--validate-every", 1, "--validate-maxk", 1], ["--validate-every", 24, "--validate-maxk", 2])],
}
CHECKS["C03"] = {
    "engine": "busmc", "design_ref": "5/C03",
    "level": "model_checking",
    "level_text": "every write of ebusd in every execution with <=k environment deviations (contenders at the arbitration slot, foreign "
                  "telegrams, noise, silence) and requests arriving at every read call is judged by an entitlement monitor that sees the interleaved bus log",
    "level_note": "initialSend is kept off; the numeric value of the lock counter is not constrained beyond 'one further SYN after a loss'; "
                  "answering (c) is judged in C15",
    "technique": "deviation-bounded exhaustive exploration (stateless DFS by replay + validated state hashing) of the implementation against a reference monitor",
    "rule": "scenario = device x configuration (read-only, own address, lock count, SYN generation, bus-lost retries) x traffic shape "
            "(requests from start / arriving at any read call, foreign telegrams); all environment choice sequences with <=k deviations, "
            "<=c chunk deviations, <=r request arrivals",
    "assumptions": ["AUTO-SYN interval = 10*masterNumber+51 ms until the own SYN was echoed once, 40 ms afterwards (protocol.h constants)"],
    "runs": [bus("C03", ["--validate-every", 1, "--validate-maxk", 1], ["--validate-every", 24, "--validate-maxk", 2])],
}

CHECKS["C15"] = {
    "engine": "busmc", "design_ref": "5/C15",
    "level": "model_checking",
    "level_text": "for every set of registered answers (bounded size) and every telegram derived from the answer universe, every execution with "
                  "<=k environment deviations is judged by a reference answer-table monitor: who is acknowledged, with what, which response, and silence otherwise",
    "level_note": "a telegram with wrong CRC must be NAK-ed when its received bytes identify a registered answer, may be when only the address is registered; "
                  "equal-length matches (source-specific vs any) are both accepted",
    "technique": "deviation-bounded exhaustive exploration (stateless DFS by replay + validated state hashing) of the implementation against a reference monitor",
    "rule": "scenario = device x answer set (all subsets up to size 2/3 of a 6-answer universe) x telegram (id kept/truncated/extended/mutated, 2 sources) x "
            "asker variant (clean, bad CRC then repeat, bad twice, NAK of response, NAK twice); all environment choice sequences with <=k deviations",
    "assumptions": ["for master destinations id length + registered tail length must equal NN (doc comment of setAnswer)"],
    "runs": [bus("C15", ["--validate-every", 40, "--validate-maxk", 1], ["--validate-every", 500, "--validate-maxk", 2])],
}

C04_FAULT_RUN = bus("C04", ["--validate-every", 0], ["--validate-every", 0], variant="san")
C04_FAULT_RUN.update({"harness": "busmc_poll", "libset": "full", "flags": ["-DBUSMC_WITH_POLL"]})
C04_SCHED_RUN = {
    "harness": "schedmc", "variant": "schedsan",
    "sources": ["engines/schedmc/schedmc.cpp", "engines/schedmc/vp_sched.cpp", "engines/busmc/busworld.cpp"],
    "deps": DEPS + ["engines/schedmc/vp_sched.h", "engines/schedmc/vp_pthread_rename.h"],
    "quick": {"parts": 16, "args": [], "deadline": 400, "bounds": "preemption bound 3, 2 client threads + bus thread, 4 client program sets x 4 bus behaviours"},
    "thorough": {"parts": 16, "args": [], "deadline": 1200, "bounds": "preemption bound 4 (3 with 3 client threads), 7 client program sets x 4 bus behaviours, plain and enhanced"},
}

C04_TSAN_RUN = {
    "harness": "c04_tsan", "variant": "tsan",
    "sources": ["engines/schedmc/c04_tsan.cpp", "engines/busmc/busworld.cpp"],
    "flags": ["-DBUSWORLD_REAL_COND"],
    "deps": DEPS + ["engines/schedmc/tsan_suppressions.txt"],
    "tsan_options": "suppressions=/verif/engines/schedmc/tsan_suppressions.txt:exitcode=66:halt_on_error=1",
    "quick": {"parts": 6, "args": [], "deadline": 100, "bounds": "60 free-running iterations x 3 bus behaviours x 2 devices"},
    "thorough": {"parts": 6, "args": [], "deadline": 600, "bounds": "400 free-running iterations x 3 bus behaviours x 2 devices"},
}
CHECKS["C04"] = {
    "engine": "busmc+schedmc", "design_ref": "5/C04",
    "level": "model_checking",
    "level_text": "fault sequences: every execution with <=k injected faults/deviations (read error with device loss, reopen failure, write error, silence, "
                  "signal loss, lost arbitration, corrupted symbols) at every I/O call and requests arriving at every read call is checked for exactly-once "
                  "completion, correct hand-over to the waiter and no reference after completion, under ASan/UBSan; every run ends with a forced signal loss",
    "level_note": "thread schedules are explored by the schedmc run of this check; the bus-thread part here emulates the waiter on the bus thread",
    "technique": "fault-injection at every I/O call by deviation-bounded exhaustive exploration; preemption-bounded schedule exploration for the threaded part",
    "rule": "scenario = device x request mix (waited / self-deleting / restarting / re-submitted, from start or arriving at any read call) x bus-lost retry setting; "
            "all environment choice sequences with <=k faults/deviations and <=r arrivals; distinct = distinct delivered symbol sequences",
    "assumptions": ["the waiter is emulated by polling the finished queue at every read call"],
    "runs": [C04_FAULT_RUN, C04_SCHED_RUN, C04_TSAN_RUN],
}

C20_BUS_RUN = bus("C20", ["--validate-every", 0], ["--validate-every", 0], variant="san")
