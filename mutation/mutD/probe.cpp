// mutD scratch probe (not a registered check): replays the concrete failing scenarios of the gap list through the
// cmdmc fixture (real RequestImpl + MainLoop::decodeRequest + MessageMap, FakeProtocol) and prints the answers, so
// that the same binary run on the unchanged tree and on a mutant shows the difference.
#include <config.h>
#include "/verif/engines/cmdmc/mainloop_fixture.h"

using namespace ebusd;
using namespace fx;
using std::string;
using std::vector;

static void show(World* w, const char* what, const Reply& r) {
  string sent;
  for (auto& s : w->protocol->sent) sent += " " + s;
  w->protocol->sent.clear();
  printf("  %-46s -> ret=%d <%s>  bus:[%s ]\n", what, static_cast<int>(r.ret), esc(r.text.substr(0, 70)).c_str(), sent.c_str());
}
static void seen(World* w, const char* m, const char* s) {
  MasterSymbolString mm; SlaveSymbolString ss;
  mm.parseHex(m); ss.parseHex(s);
  w->busHandler->notifyProtocolMessage(md_recv, mm, ss);
}

int main(int argc, char** argv) {
  setenv("TZ", "UTC", 1);
  string which = argc > 1 ? argv[1] : "all";
  WorldConfig wc;
  wc.csv =
    "# type,circuit,name,comment,qq,zz,pbsb,id,fields...\n"
    "r,c#a,m1,,,08,b509,0d01,v,,UCH\n"
    "w,c#a,w1,,,08,b509,0e01,v,,UCH\n"
    "u,c#a,p1,,,08,b509,0f01,v,,UCH\n"
    "r,c,m0,,,08,b509,0d00,v,,UCH\n";
  wc.useAcl = true;
  wc.aclContent = "# name,secret,level...\n*,,\nu,s,a\nv,t,A\n";
  wc.enableHex = true;
  World w(wc);
  string user;
  printf("ACL: default entry without levels; user u (secret s) level a; user v (secret t) level A; messages m1/w1/p1 carry level a\n");
  if (which == "all" || which == "secret") {
    printf("[secret] wrong secrets that extend / shorten the right one (C16: failed authentication grants only the default levels)\n");
    for (const char* line : {"auth u sx", "auth u S", "auth u \"\"", "auth u ss"}) {
      user = "";
      Reply a = tcp(&w, line, &user);
      printf("  %-20s -> user=<%s>\n", line, user.c_str());
      show(&w, "read -f -c c m1", tcp(&w, "read -f -c c m1", &user));
    }
    user = "";
    show(&w, "GET /data/c/m1?exact=1&required&user=u&secret=sx", httpGet(&w, "/data/c/m1?exact=1&required&user=u&secret=sx"));
  }
  if (which == "all" || which == "case") {
    printf("[case] user v holds level A only, message level is a (C16: exactly that level)\n");
    user = "";
    tcp(&w, "auth v t", &user);
    printf("  auth v t -> user=<%s>\n", user.c_str());
    show(&w, "read -f -c c m1", tcp(&w, "read -f -c c m1", &user));
  }
  if (which == "all" || which == "passive") {
    printf("[passive] anonymous client reads the passive message p1 (level a) by name after it was seen on the bus\n");
    seen(&w, "1008b509020f01", "012a");
    user = "";
    show(&w, "read p1", tcp(&w, "read p1", &user));
    show(&w, "read -c c p1", tcp(&w, "read -c c p1", &user));
    show(&w, "read -m 86400 -c c p1", tcp(&w, "read -m 86400 -c c p1", &user));
  }
  if (which == "all" || which == "hexopts") {
    printf("[hexopts] anonymous client, hex forms with -c / -s options on the levelled messages\n");
    user = "";
    show(&w, "write -h 08b509030e0107", tcp(&w, "write -h 08b509030e0107", &user));
    show(&w, "write -c c -h 08b509030e0107", tcp(&w, "write -c c -h 08b509030e0107", &user));
    show(&w, "read -f -h 08b509020d01", tcp(&w, "read -f -h 08b509020d01", &user));
    show(&w, "read -s 10 -h 08b509020d01", tcp(&w, "read -s 10 -h 08b509020d01", &user));
    show(&w, "read -c c -f -h 08b509020d01", tcp(&w, "read -c c -f -h 08b509020d01", &user));
  }
  if (which == "all" || which == "reuse") {
    printf("[reuse] two command lines on ONE RequestImpl, as Connection::run does (add, split/decode, waitResponse, add ...)\n");
    RequestImpl req(false);
    for (const char* line : {"read -f -c c m0\n", "find -c c m0\n"}) {
      bool complete = req.add(line);
      vector<string> args;
      if (complete) req.split(&args);
      string s;
      for (auto& a : args) s += "<" + esc(a) + ">";
      printf("  line %-22s complete=%d args=%s\n", esc(line).c_str(), complete, s.c_str());
      req.setResult("x", "", nullptr, 0, false);
      string res;
      req.waitResponse(&res);
    }
  }
  if (which == "all" || which == "http09") {
    printf("[http09] HTTP request line without version, and a query holding a second '?'\n");
    for (const char* wire : {"GET /x.js\n\n", "GET /data/c/m0?exact=1?&required HTTP/1.1\n\n"}) {
      try {
        RequestImpl req(true);
        bool complete = req.add(wire);
        vector<string> args;
        if (complete) req.split(&args);
        string s;
        for (auto& a : args) s += "<" + esc(a) + ">";
        printf("  %-50s complete=%d args=%s\n", esc(wire).c_str(), complete, s.c_str());
      } catch (const std::exception& e) {
        printf("  %-50s EXCEPTION %s\n", esc(wire).c_str(), e.what());
      }
    }
  }
  if (which == "all" || which == "sibling") {
    printf("[sibling] URI without leading slash that names a sibling of the html root (file <root>x.js next to the root directory)\n");
    WorldConfig hc = wc;
    hc.withHtml = true;
    hc.deleteData = false;
    World hw(hc, procTmpDir() + "/h");
    writeFile(hw.htmlPath + "x.js", "OUT:htmlx.js\n");
    writeFile(hw.htmlPath + "-old/x.js", "OUT:html-old/x.js\n");
    for (const char* uri : {"x.js", "-old/x.js", "/x.js"}) {
      Reply r = httpGet(&hw, uri);
      printf("  GET %-12s -> status %d body <%s>\n", uri, httpStatus(r.text), esc(httpBody(r.text).substr(0, 30)).c_str());
    }
  }
  if (which == "all" || which == "dup") {
    printf("[dup] two conditional variants of one name with different levels; user u holds level a only, the available variant carries level b\n");
    WorldConfig dc;
    dc.csv =
      "# type,circuit,name,comment,qq,zz,pbsb,id,fields...\n"
      "r,c,sel,,,08,b509,0d10,v,,UCH\n"
      "*[on],c,sel,,v,,1\n"
      "*[off],c,sel,,v,,0\n"
      "[on]r,c#a,dup,,,08,b509,0d11,v,,UCH\n"
      "[off]r,c#b,dup,,,08,b509,0d12,v,,UCH\n";
    dc.useAcl = true;
    dc.aclContent = "# name,secret,level...\n*,,\nu,s,a\n";
    dc.deleteData = false;
    World dw(dc, procTmpDir() + "/d");
    printf("  load result %d %s, resolve %d\n", static_cast<int>(dw.loadResult), dw.loadError.c_str(), static_cast<int>(dw.messages->resolveConditions(false, &dw.loadError)));
    MasterSymbolString mm; SlaveSymbolString ss;
    mm.parseHex("1008b509020d10"); ss.parseHex("0100");
    dw.busHandler->notifyProtocolMessage(md_recv, mm, ss);
    user = "";
    tcp(&dw, "auth u s", &user);
    printf("  auth u s -> user=<%s>; sel was seen with value 0 (variant [off], level b, is the available one)\n", user.c_str());
    Reply r = tcp(&dw, "read -f -c c dup", &user);
    string sent;
    for (auto& x : dw.protocol->sent) sent += " " + x;
    printf("  read -f -c c dup -> ret=%d <%s> bus:[%s ]\n", static_cast<int>(r.ret), esc(r.text).c_str(), sent.c_str());
  }
  if (which == "all" || which == "defrow") {
    printf("[defrow] level assigned through a default row `*r,#a` (the way the published configuration files do it, e.g. `*w,#install`)\n");
    WorldConfig dc;
    dc.csv = "# type,circuit,name,comment,qq,zz,pbsb,id,fields...\nr,c,m0,,,08,b509,0d00,v,,UCH\n";
    dc.useAcl = true;
    dc.aclContent = "# name,secret,level...\n*,,\nu,s,a\n";
    dc.deleteData = false;
    World dw(dc, procTmpDir() + "/r");
    {  // a second file loaded the way ScanHelper does it: default circuit from the file name
      std::istringstream f2("# type,circuit,name,comment,qq,zz,pbsb,id,fields...\n*r,#a,,,,08,b509\nr,,lv,,,,,0d21,v,,UCH\n");
      std::map<string, string> dflt;
      dflt["circuit"] = "c";
      time_t now = g_now;
      dw.loadResult = dw.messages->readFromStream(&f2, "c.csv", now, false, &dflt, &dw.loadError);
    }
    printf("  load result %d %s\n", static_cast<int>(dw.loadResult), dw.loadError.c_str());
    user = "";
    Reply r = tcp(&dw, "find -l * -V lv", &user);
    printf("  find -l * -f lv -> <%s>\n", esc(tcp(&dw, "find -l * -f lv", &user).text).c_str());
    r = tcp(&dw, "read -f -c c lv", &user);
    string sent;
    for (auto& x : dw.protocol->sent) sent += " " + x;
    printf("  anonymous: read -f -c c lv -> ret=%d <%s> bus:[%s ]\n", static_cast<int>(r.ret), esc(r.text).c_str(), sent.c_str());
  }
  fflush(stdout);
  rmTree(w.tmp);
  _exit(0);
}
