#!/bin/bash
# runs the listed mutants strictly one after the other; usage: runall.sh m01 m02 ...
D=/verif/mutation/mutD
WT=/tmp/mutD_wt
RES=$D/results.tsv
[ -f $RES ] || printf 'id\tfile\tfunction\tchange\tcheck\texit\tverdict\texhaustive\twall_s\tfirst_signature\n' > $RES
for id in "$@"; do
  line=$(grep -P "^$id\t" $D/mutants.tsv)
  f=$(echo "$line" | cut -f2); fn=$(echo "$line" | cut -f3); what=$(echo "$line" | cut -f4); props=$(echo "$line" | cut -f5)
  git -C $WT checkout -- . && git -C $WT apply $D/$id.diff || { echo "$id apply failed" >> $D/logs/run.log; continue; }
  for p in $props; do
    s=$(date +%s)
    (cd /verif && VERIF_REPO=$WT nice -n 15 python3 $D/vrun.py $p quick > $D/logs/${id}_$p.out 2> $D/logs/${id}_$p.err)
    rc=$?
    wall=$(( $(date +%s) - s ))
    sig=$(grep -m1 '^  signature:' $D/logs/${id}_$p.out | sed 's/^  signature: //')
    exh=$(grep -o 'exhaustive=[A-Za-z]*' $D/logs/${id}_$p.out | tail -1 | cut -d= -f2)
    case $rc in
      0) verdict=survived;;
      1) verdict=caught;;
      *) verdict=harness-problem; sig=$(grep -m1 'HARNESS-ERROR\|BUILD FAILED' $D/logs/${id}_$p.out $D/logs/${id}_$p.err | cut -c1-300 | tr '\t\n' '  ');;
    esac
    printf '%s\t%s\t%s\t%s\t%s\t%s\t%s\t%s\t%s\t%s\n' "$id" "$f" "$fn" "$what" "$p" "$rc" "$verdict" "$exh" "$wall" "$sig" >> $RES
    echo "$(date +%H:%M:%S) $id $p rc=$rc $verdict ${wall}s $sig" >> $D/logs/run.log
    [ $rc -eq 1 ] && break
  done
done
git -C $WT checkout -- .
echo "$(date +%H:%M:%S) batch done: $*" >> $D/logs/run.log
