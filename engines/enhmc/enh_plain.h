// enhmc: (1) the plain byte transport (real FileTransport, and real PlainDevice on top of it)
// explored over all operation sequences against a byte-queue reference model, with state hashing
// (stateless: every state is re-reached by replaying its shortest operation sequence on fresh
// objects); (2) the encoding direction of the enhanced protocol for all 256 values.
#ifndef VERIF_ENH_PLAIN_H_
#define VERIF_ENH_PLAIN_H_

#include <deque>
#include <functional>
#include <set>
#include <string>
#include <vector>
#include "enh_core.h"
#include "vout.h"

namespace plain {

using ebusd::result_t;

// ---- operations -------------------------------------------------------------------------------
// 0..7 arrive 1..8 bytes | 8 read(0) | 9 read(t) | 10 readConsumed(1) | 11 readConsumed(3)
// | 12 readConsumed(all buffered) | 13 readConsumed(40)        (transport level, NOPS_T = 14)
// 0..7 arrive 1..8 bytes | 8 recv(0) | 9 recv(t)                (PlainDevice level, NOPS_D = 10)
static const int NOPS_T = 14, NOPS_D = 10;
inline std::string opText(int op, bool dev) {
  char b[32];
  if (op < 8) snprintf(b, sizeof(b), "arrive%d", op + 1);
  else if (op == 8) snprintf(b, sizeof(b), dev ? "recv0" : "read0");
  else if (op == 9) snprintf(b, sizeof(b), dev ? "recvT" : "readT");
  else if (op == 10) snprintf(b, sizeof(b), "consume1");
  else if (op == 11) snprintf(b, sizeof(b), "consume3");
  else if (op == 12) snprintf(b, sizeof(b), "consumeAll");
  else snprintf(b, sizeof(b), "consume40");
  return b;
}
inline std::string seqText(const std::vector<uint8_t>& ops) {  // case encoding: one hex digit per op
  std::string o;
  for (uint8_t op : ops) o += "0123456789abcdef"[op & 15];
  return o;
}

class TListener : public ebusd::TransportListener {
 public:
  int overflow = 0, other = 0;
  result_t notifyTransportStatus(bool) override { return ebusd::RESULT_OK; }
  void notifyTransportMessage(bool error, const char* message) override {
    if (error && !strcmp(message, "buffer overflow")) overflow++; else other++;
  }
};
class DListener : public ebusd::DeviceListener {
 public:
  int overflow = 0, other = 0;
  void notifyDeviceData(const ebusd::symbol_t*, size_t, bool) override {}
  void notifyDeviceStatus(bool error, const char* message) override {
    if (error && !strcmp(message, "buffer overflow")) overflow++;
    else if (strcmp(message, "transport opened")) other++;
  }
};

struct Outcome {
  std::string rule;    // "" = conforms
  std::string detail;
  std::string key;     // canonical end state
  std::string log;     // human readable (replay)
  uint64_t steps = 0;
};

// reference: bytes are a counter, K = arrived but not yet taken by the transport, B = taken and
// not yet consumed.  An overflow may only be reported when more than 3/4 of the buffer is in use
// and then discards exactly B.
struct RefQueue {
  std::deque<uint8_t> K, B;
  uint8_t next = 0;
};

inline Outcome runOps(const std::vector<uint8_t>& ops, bool dev, bool wantLog) {
  Outcome out;
  env::resetAll();
  core::g_rec.obs = nullptr;
  env::SimTransport* t = new env::SimTransport();
  ebusd::PlainDevice* d = nullptr;
  TListener tl;
  DListener dl;
  if (dev) {
    d = new ebusd::PlainDevice(t);
    d->setListener(&dl);
  } else {
    t->setListener(&tl);
  }
  t->open();
  size_t bufSize = t->m_bufSize;
  size_t threshold = bufSize - bufSize / 4;  // "more than 3/4 of the buffer"
  RefQueue q;
  char line[256];
  auto fail = [&](const char* rule, const std::string& det) {
    if (out.rule.empty()) { out.rule = rule; out.detail = det; }
  };
  auto hexq = [](const std::deque<uint8_t>& v) { std::string o; char b[4]; for (uint8_t c : v) { snprintf(b, sizeof(b), "%02x", c); o += b; } return o; };
  for (size_t i = 0; i < ops.size() && out.rule.empty(); i++) {
    int op = ops[i];
    out.steps++;
    if (op < 8) {
      uint8_t tmp[8];
      for (int j = 0; j <= op; j++) { tmp[j] = q.next; q.K.push_back(q.next++); }
      env::fdPush(tmp, op + 1, true);
      if (wantLog) { snprintf(line, sizeof(line), "%s: kernel=%zu buffered(ref)=%zu\n", opText(op, dev).c_str(), q.K.size(), q.B.size()); out.log += line; }
      continue;
    }
    if (op == 8 || op == 9) {
      unsigned tmo = op == 8 ? 0 : core::RECV_TIMEOUT;
      size_t kBefore = q.K.size(), bBefore = q.B.size();
      int ovBefore = dev ? dl.overflow : tl.overflow;
      const uint8_t* data = nullptr;
      size_t len = 0;
      ebusd::symbol_t v = 0;
      ebusd::ArbitrationState st = ebusd::as_none;
      result_t r = dev ? d->recv(tmo, &v, &st) : t->read(tmo, &data, &len);
      int ov = (dev ? dl.overflow : tl.overflow) - ovBefore;
      if (ov) {
        if (bBefore <= threshold) fail("overflow-early", "overflow reported with " + std::to_string(bBefore) + " bytes buffered");
        if (tmo == 0) fail("overflow-on-read0", "overflow reported by a read that takes no new data");
        q.B.clear();
      }
      size_t pend = static_cast<size_t>(env::fdPending());
      if (pend > q.K.size()) { fail("harness", "descriptor grew"); break; }
      size_t taken = q.K.size() - pend;
      for (size_t j = 0; j < taken; j++) { q.B.push_back(q.K.front()); q.K.pop_front(); }
      if (tmo == 0 && taken) fail("read0-took-data", "read(0) read from the descriptor");
      std::string got;
      if (!dev) {
        if (r == ebusd::RESULT_OK) {
          std::deque<uint8_t> g(data, data + len);
          got = hexq(g);
          if (g != q.B) fail(ov ? "overflow-not-exact" : "bytes-changed", "read returned " + got + " expected " + hexq(q.B));
          if (len == 0) fail("empty-ok", "RESULT_OK with no data");
        } else if (r == ebusd::RESULT_ERR_TIMEOUT) {
          if (tmo == 0 && !q.B.empty()) fail("buffered-not-returned", "read(0) timed out with " + hexq(q.B) + " buffered");
          if (tmo > 0 && kBefore > 0) fail("data-not-delivered", "read(t) timed out although " + std::to_string(kBefore) + " bytes were readable");
        } else {
          fail("bad-result", "result " + std::to_string(r));
        }
      } else {
        if (st != ebusd::as_none) fail("arbitration-invented", "arbitration state " + std::to_string(st));
        if (r >= ebusd::RESULT_OK) {
          char b[8];
          snprintf(b, sizeof(b), "%02x", v);
          got = b;
          if (q.B.empty()) {
            fail("byte-invented", "recv returned " + got + " with nothing buffered");
          } else {
            if (v != q.B.front()) fail(ov ? "overflow-not-exact" : "bytes-changed", "recv returned " + got + " expected " + hexq(q.B).substr(0, 2));
            q.B.pop_front();
            if (r == ebusd::RESULT_CONTINUE && q.B.empty()) fail("continue-without-data", "RESULT_CONTINUE with nothing left");
          }
        } else if (r == ebusd::RESULT_ERR_TIMEOUT) {
          if (tmo == 0 && !q.B.empty()) fail("buffered-not-returned", "recv(0) timed out with " + hexq(q.B) + " buffered");
          if (tmo > 0 && kBefore > 0) fail("data-not-delivered", "recv(t) timed out although " + std::to_string(kBefore) + " bytes were readable");
        } else {
          fail("bad-result", "result " + std::to_string(r));
        }
      }
      if (wantLog) {
        snprintf(line, sizeof(line), "%s: result=%d data=%s overflowReported=%d | ref: buffered=%s kernel=%zu\n", opText(op, dev).c_str(), r,
                 got.c_str(), ov, hexq(q.B).c_str(), q.K.size());
        out.log += line;
      }
      continue;
    }
    size_t k = op == 10 ? 1 : op == 11 ? 3 : op == 12 ? q.B.size() : 40;
    t->readConsumed(k);
    for (size_t j = 0; j < k && !q.B.empty(); j++) q.B.pop_front();
    if (wantLog) { snprintf(line, sizeof(line), "%s(%zu): ref buffered=%s\n", opText(op, dev).c_str(), k, hexq(q.B).c_str()); out.log += line; }
  }
  // probe: what is buffered now must be exactly B (read(0) has no side effect on a conforming transport)
  if (out.rule.empty()) {
    const uint8_t* data = nullptr;
    size_t len = 0;
    result_t r = t->read(0, &data, &len);
    std::deque<uint8_t> g;
    if (r == ebusd::RESULT_OK) g.assign(data, data + len);
    if (g != q.B) fail("final-buffer", "buffer holds " + hexq(g) + " expected " + hexq(q.B));
    if (wantLog) { snprintf(line, sizeof(line), "probe read0: result=%d data=%s | ref buffered=%s\n", r, hexq(g).c_str(), hexq(q.B).c_str()); out.log += line; }
  }
  if ((dev ? dl.other : tl.other) && out.rule.empty()) fail("unexpected-message", "transport reported something other than an overflow");
  // canonical key: sizes and buffer content relative to the byte counter
  {
    std::string& k = out.key;
    size_t bl = t->m_bufLen;
    k.push_back(static_cast<char>(q.K.size()));
    k.push_back(static_cast<char>(q.B.size()));
    k.push_back(static_cast<char>(bl));
    uint8_t base = static_cast<uint8_t>(q.next - q.K.size() - bl);
    for (size_t j = 0; j < bl && j < bufSize; j++) k.push_back(static_cast<char>(static_cast<uint8_t>(t->m_buffer[j] - base - j)));
    k.push_back(static_cast<char>(t->m_fd == env::FD ? 1 : 0));
  }
  env::fdClear();
  if (d) delete d; else delete t;
  return out;
}

// breadth-first over operation sequences; with hashing a state is expanded once (from its shortest
// sequence).  The un-hashed enumeration to depth plainDepth validates the hashed one: both must
// reach the same set of states.
inline void explore(vp::Result& R, bool dev, int hashedDepth, int plainDepth, int part, int nparts) {
  const int nops = dev ? NOPS_D : NOPS_T;
  const char* site = dev ? "plaindev" : "transport";
  auto report = [&](const std::vector<uint8_t>& seq, const Outcome& o) {
    R.violation(std::string("C14/plain-") + o.rule + "/" + site + "/ops", o.detail + " after " + std::to_string(seq.size()) + " operations",
                std::string("k=") + (dev ? "pdev" : "ptr") + ";ops=" + seqText(seq));
  };
  // hashed BFS (cheap: done by every partition identically, counted once by partition 0)
  std::set<std::string> visited;
  std::vector<std::vector<uint8_t>> frontier(1);
  {
    Outcome o = runOps(frontier[0], dev, false);
    visited.insert(o.key);
  }
  std::vector<std::set<std::string>> cumulative;  // states reached within depth d
  cumulative.push_back(visited);
  uint64_t trans = 0, execs = 0;
  for (int d = 1; d <= hashedDepth; d++) {
    std::vector<std::vector<uint8_t>> next;
    for (auto& seq : frontier) {
      for (int op = 0; op < nops; op++) {
        std::vector<uint8_t> s2 = seq;
        s2.push_back(static_cast<uint8_t>(op));
        Outcome o = runOps(s2, dev, false);
        execs++;
        trans += o.steps;
        if (!o.rule.empty()) { if (part == 0) report(s2, o); continue; }
        if (static_cast<unsigned char>(o.key[0]) > 40) continue;  // bound: at most 40 bytes waiting in the kernel
        if (visited.insert(o.key).second) next.push_back(s2);
      }
    }
    frontier.swap(next);
    cumulative.push_back(visited);
    if (frontier.empty()) break;
  }
  if (part == 0) {
    for (auto& k : visited) R.state(vp::fnv(k, dev ? 11 : 12));
    R.transitions += trans;
    R.evaluations += execs;
    R.tracesValidated += execs;
    R.count(std::string(site) + "_states", visited.size());
    R.count(std::string(site) + "_hashed_sequences", execs);
    bool sawOverflowState = false;
    for (auto& k : visited) if (static_cast<unsigned char>(k[2]) > 24) sawOverflowState = true;
    R.count(std::string(site) + "_buffer_above_threshold_reached", sawOverflowState ? 1 : 0);
    if (!frontier.empty()) R.note(std::string(site) + ": hashed search stopped at depth " + std::to_string(hashedDepth) + " with " + std::to_string(frontier.size()) + " unexpanded states");
    else R.note(std::string(site) + ": hashed search closed (fixpoint) within depth " + std::to_string(hashedDepth));
  }
  // un-hashed enumeration, partitioned by the first two operations
  std::set<std::string> reached;
  std::vector<uint8_t> seq;
  uint64_t n = 0;
  std::function<void()> rec = [&]() {
    if (static_cast<int>(seq.size()) >= plainDepth) return;
    for (int op = 0; op < nops; op++) {
      if (seq.size() == 1 && ((seq[0] * nops + op) % nparts) != part) continue;
      seq.push_back(static_cast<uint8_t>(op));
      bool mine = seq.size() >= 2 || part == 0;
      Outcome o = runOps(seq, dev, false);
      if (mine) {
        n++;
        R.evaluations++;
        R.tracesValidated++;
        R.transitions += o.steps;
        R.distinct(vp::fnv(o.key, vp::fnv(seqText(seq), dev ? 21 : 22)));
        if (!o.rule.empty()) report(seq, o);
      }
      if (o.rule.empty() && static_cast<unsigned char>(o.key[0]) <= 40) {
        if (mine) {
          reached.insert(o.key);
          size_t dd = seq.size();
          if (dd < cumulative.size() && !cumulative[dd].count(o.key)) {
            R.violation(std::string("HARNESS/hash-validation/") + site, "state reached without hashing is missing from the hashed search", std::string("k=") + (dev ? "pdev" : "ptr") + ";ops=" + seqText(seq));
          }
        }
        rec();
      }
      seq.pop_back();
      if (R.expired()) return;
    }
  };
  rec();
  R.count(std::string(site) + "_plain_sequences", n);
}

// ---- encoding direction --------------------------------------------------------------------------
inline std::string wlogText() {
  std::string o;
  int p = 0;
  char b[4];
  for (int i = 0; i < env::g_wcalls; i++) {
    if (i) o += " | ";
    for (int j = 0; j < env::g_wsizes[i]; j++) { snprintf(b, sizeof(b), "%02x", env::g_wlog[p++]); o += b; }
  }
  return o.empty() ? "(nothing)" : o;
}
// what: 0 send(v), 1 startArbitration(v), 2 requestEnhancedInfo(v,false), 3 requestEnhancedInfo(v,true),
// 4 open() -> INIT, 5 cancel of a running arbitration -> START SYN
inline std::string checkEncode(int what, unsigned v, std::string* log) {
  core::Mode m{what == 2 || what == 3 ? core::S_READY : core::S_INIT, what == 5 ? 1 : 0, 0, false};
  uint8_t want[2];
  std::string rule;
  char line[200];
  if (what == 4) {
    // observe the INIT written by open()
    env::resetAll();
    core::g_rec.obs = nullptr;
    core::Impl i = core::freshImpl();
    env::resetIoLog();
    result_t r = i.t->open();
    ref::encodeRequest(0, 0x01, want);
    bool ok = r == ebusd::RESULT_OK && env::g_wcalls == 1 && env::g_wn == 2 && env::g_wlog[0] == want[0] && (env::g_wlog[1] & 0xc0) == 0x80 &&
              (env::g_wlog[0] & 0xfc) == 0xc0;  // INIT with any feature request
    snprintf(line, sizeof(line), "open(): result=%d wrote %s, expected INIT <features> = c0|f>>6 80|f&3f\n", r, wlogText().c_str());
    *log += line;
    core::dropImpl(&i);
    return ok ? "" : "init";
  }
  core::Cfg c = core::initialCfg(m);
  core::activate(&c);
  env::resetIoLog();
  result_t r = ebusd::RESULT_OK;
  const char* name = "";
  bool mayBeSilent = false, mayBeShort = false;
  switch (what) {
    case 0: name = "send"; r = c.impl.d->send(static_cast<ebusd::symbol_t>(v)); ref::encodeRequest(1, v, want); mayBeShort = v < 0x80; break;
    case 1: name = "startArbitration"; r = c.impl.d->startArbitration(static_cast<ebusd::symbol_t>(v)); ref::encodeRequest(2, v, want);
      mayBeSilent = v == 0xaa; break;  // SYN = cancel request: nothing is running, nothing needs to be sent
    case 2: name = "requestEnhancedInfo(nowait)"; r = c.impl.d->requestEnhancedInfo(static_cast<ebusd::symbol_t>(v), false); ref::encodeRequest(3, v, want);
      mayBeSilent = v == 0xff; break;  // 0xff is the documented "only wait for completion" pseudo id
    case 3: name = "requestEnhancedInfo(wait)"; c.impl.d->m_infoLen = 0;  // no request pending
      r = c.impl.d->requestEnhancedInfo(static_cast<ebusd::symbol_t>(v), true); ref::encodeRequest(3, v, want); mayBeSilent = v == 0xff; break;
    case 5: name = "cancel(startArbitration(SYN))"; r = c.impl.d->startArbitration(0xaa); ref::encodeRequest(2, 0xaa, want); break;
  }
  bool exact = env::g_wcalls == 1 && env::g_wn == 2 && env::g_wlog[0] == want[0] && env::g_wlog[1] == want[1];
  bool silent = env::g_wcalls == 0;
  bool shortForm = env::g_wcalls == 1 && env::g_wn == 1 && env::g_wlog[0] == v;
  bool ok = r == ebusd::RESULT_OK && (exact || (mayBeSilent && silent) || (mayBeShort && shortForm));
  snprintf(line, sizeof(line), "%s(%02x): result=%d wrote %s, expected %02x%02x%s%s\n", name, v, r, wlogText().c_str(), want[0], want[1],
           mayBeSilent ? " or nothing" : "", mayBeShort ? " or the short form" : "");
  *log += line;
  core::deactivate(&c);
  core::g_rec.obs = nullptr;
  core::dropImpl(&c.impl);
  static const char* rules[] = {"send", "start", "info", "info-wait", "init", "cancel"};
  return ok ? "" : rules[what];
}

inline void encodeAll(vp::Result& R) {
  for (int what = 0; what < 6; what++) {
    for (unsigned v = 0; v < 256; v++) {
      if ((what == 4 || what == 5) && v) break;
      std::string log;
      std::string rule = checkEncode(what, v, &log);
      R.evaluations++;
      R.tracesValidated++;
      R.transitions++;
      R.distinct(vp::fnv(log, 31));
      if (what == 0 && (v == 0x55 || v == 0xaa)) R.sample("encode: " + log.substr(0, log.size() - 1));
      if (!rule.empty()) {
        char c[64];
        snprintf(c, sizeof(c), "k=enc;what=%d;v=%02x", what, v);
        R.violation("C14/encode/" + rule + "/" + (v < 0x80 ? "low" : v < 0xc0 ? "mid" : "high"), log, c);
      }
    }
  }
}

}  // namespace plain

#endif  // VERIF_ENH_PLAIN_H_
