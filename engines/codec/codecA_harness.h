// Implementation-side driver shared by c05_decode.cpp and c06_roundtrip.cpp (builder codecA):
// builds real DataField objects through DataField::create(), runs the real read/write paths on
// SymbolStrings, enumerates the raw-pattern domains and the field configurations.
#ifndef VERIF_CODECA_HARNESS_H_
#define VERIF_CODECA_HARNESS_H_

#include <errno.h>
#include <functional>
#include <map>
#include <set>
#include <sstream>
#include <string>
#include <vector>
#include "lib/ebus/data.h"
#include "lib/ebus/datatype.h"
#include "lib/ebus/symbol.h"
#include "refcodec.h"
#include "vout.h"

namespace hx {

using namespace ebusd;  // NOLINT
using std::string;
using std::vector;

// ---- output formats -----------------------------------------------------------------------
enum Fmt { F_TEXT = 0, F_JSON, F_NUM, F_JSONNUM, F_VALNAME, F_JSONVALNAME, F_COUNT };
static const char* const FMTNAMES[F_COUNT] = {"text", "json", "num", "jsonnum", "valname", "jsonvalname"};
inline bool fmtIsJson(Fmt f) { return f == F_JSON || f == F_JSONNUM || f == F_JSONVALNAME; }
inline OutputFormat fmtFlags(Fmt f) {
  switch (f) {
    case F_JSON: return OF_JSON | OF_SHORT;
    case F_NUM: return OF_NUMERIC;
    case F_JSONNUM: return OF_JSON | OF_SHORT | OF_NUMERIC;
    case F_VALNAME: return OF_VALUENAME;
    case F_JSONVALNAME: return OF_JSON | OF_SHORT | OF_VALUENAME;
    default: return OF_NONE;
  }
}
inline int fmtByName(const string& n) {
  for (int i = 0; i < F_COUNT; i++) if (n == FMTNAMES[i]) return i;
  return 0;
}

// ---- value list presets ---------------------------------------------------------------------
static const char* const LISTS[] = {
  "",
  "0=off;1=on;2=auto;3=eco",
  "1=on",
  "0x10=sixteen;254=max;1=one;0=zero",
  // names are free text: the name alphabet also covers names that look like numbers
  "1=3way;2=2nd;100=1st;3=33%",          // 4: names starting with a digit
  "0=10;1=20;2=30",                       // 5: numeric names that are no key of the list
  "1=2;2=1;3=3",                          // 6: numeric names that are keys of other entries (permutation) / the own key
  "1=0002;2=0001;3=0003",                 // 7: fixed-width numeric names (PIN style)
  "0=hot water;1=1.5;2=-5;3=0x10",        // 8: blank inside, fraction, sign, hex prefix
};
static const int NLISTS = 9;
inline vector<std::pair<uint32_t, string>> parseList(const string& s) {
  vector<std::pair<uint32_t, string>> v;
  size_t pos = 0;
  while (pos < s.size()) {
    size_t e = s.find(';', pos);
    if (e == string::npos) e = s.size();
    string tok = s.substr(pos, e - pos);
    size_t q = tok.find('=');
    v.push_back(std::make_pair(static_cast<uint32_t>(strtoul(tok.substr(0, q).c_str(), nullptr, 0)), tok.substr(q + 1)));
    pos = e + 1;
  }
  return v;
}

// ---- configured range presets (value texts as written in a definition: from-to) --------------------
static const char* const RANGES[] = {
  "", "1-10", "-50--10", "-50-0", "0-50", "-100-100", "10-100", "0.5-10", "-5--0.5", "-5.5-5.5",
};
static const int NRANGES = 10;

// ---- a field configuration ------------------------------------------------------------------
struct Cfg {
  rc::FieldSpec fs;
  int listId = 0;
  int rangeId = 0;
  string hist;       // definitions of the same type created earlier in this process (the type cache is process-global)
  string cachedKey;
  int idx = 0;
  const DataField* field = nullptr;
  int createRc = 0;
  string createErr;
  string token() const {
    return fs.typeText() + "/" + std::to_string(fs.div) + "/" + std::to_string(listId) + "/" + std::to_string(rangeId) +
           "/" + (fs.master ? "m" : "s");
  }
  string key() const {  // the configuration part of a case string
    if (!cachedKey.empty()) return cachedKey;
    return "t=" + fs.typeText() + ";d=" + std::to_string(fs.div) + ";v=" + std::to_string(listId) +
           (rangeId ? ";r=" + std::to_string(rangeId) : string("")) + ";p=" + (fs.master ? "m" : "s") +
           (hist.empty() ? string("") : ";hist=" + hist);
  }
};

static DataFieldTemplates* g_templates = nullptr;

inline void createField(Cfg* c) {
  if (g_templates == nullptr) g_templates = new DataFieldTemplates();
  vector<std::map<string, string>> rows(1);
  rows[0]["name"] = "x";
  rows[0]["part"] = c->fs.master ? "m" : "s";
  rows[0]["type"] = c->fs.typeText();
  if (c->listId > 0) rows[0]["divisor/values"] = LISTS[c->listId];
  else if (c->fs.div != 0) rows[0]["divisor/values"] = std::to_string(c->fs.div);
  if (c->rangeId > 0) rows[0]["range"] = RANGES[c->rangeId];
  const DataField* f = nullptr;
  string err;
  errno = ERANGE;  // definitions are loaded after the same worst-case history as values are encoded (see encode())
  result_t r = DataField::create(false, false, false, MAX_LEN, g_templates, &rows, &err, &f);
  c->createRc = static_cast<int>(r);
  c->createErr = err;
  c->field = r == RESULT_OK ? f : nullptr;
}

// exact raw bound of a range text part (value * den / mul must be an integer)
inline bool rangeBound(const rc::FieldSpec& fs, const string& part, int64_t* out) {
  rc::Dec d = rc::parseDec(part);
  if (!d.ok) return false;
  rc::i128 num = (d.neg ? -d.mant : d.mant) * fs.den();
  rc::i128 den = fs.mul();
  if (d.exp10 >= 0) num *= rc::pow10i(d.exp10); else den *= rc::pow10i(-d.exp10);
  if (num % den != 0) return false;
  *out = static_cast<int64_t>(num / den);
  return true;
}

inline bool makeCfg(const string& typeText, int div, int listId, bool master, Cfg* c, int rangeId = 0,
                    const string& hist = "") {
  if (!hist.empty()) {  // rebuild the definition history of this type first (same order as in the enumeration)
    size_t pos = 0;
    while (pos < hist.size()) {
      size_t e = hist.find(',', pos);
      if (e == string::npos) e = hist.size();
      string tok = hist.substr(pos, e - pos);
      vector<string> p;
      size_t q = 0;
      while (q <= tok.size()) { size_t s = tok.find('/', q); if (s == string::npos) s = tok.size(); p.push_back(tok.substr(q, s - q)); q = s + 1; }
      if (p.size() == 5) {
        Cfg h;
        if (makeCfg(p[0], atoi(p[1].c_str()), atoi(p[2].c_str()), p[4] == "m", &h, atoi(p[3].c_str()))) {
          delete h.field;
          h.field = nullptr;
        }
      }
      pos = e + 1;
    }
  }
  c->hist = hist;
  const rc::TypeSpec* t = rc::findType(typeText);
  int len = 0;
  if (t == nullptr) {
    size_t q = typeText.find(':');
    if (q == string::npos) return false;
    t = rc::findType(typeText.substr(0, q));
    if (t == nullptr) return false;
    string l = typeText.substr(q + 1);
    len = l == "*" ? 255 : atoi(l.c_str());
  }
  c->fs.t = t;
  if (t->bytes == 0 && len == 0) { len = 1; c->fs.implicitLen = true; }
  c->fs.len = len;
  c->fs.div = div;
  c->fs.master = master;
  c->listId = listId;
  c->fs.values = parseList(LISTS[listId]);
  c->rangeId = rangeId;
  if (rangeId > 0) {
    string r = RANGES[rangeId];
    size_t sep = r.find('-', 1);
    if (sep == string::npos || !rangeBound(c->fs, r.substr(0, sep), &c->fs.rlo) || !rangeBound(c->fs, r.substr(sep + 1), &c->fs.rhi)) {
      fprintf(stderr, "internal: range %s not exact for %s\n", r.c_str(), typeText.c_str());
      exit(5);
    }
    c->fs.hasRange = true;
  }
  createField(c);
  c->cachedKey = "";
  c->cachedKey = c->key();
  return true;
}

inline bool cfgFromCase(const std::map<string, string>& m, Cfg* c) {
  auto g = [&](const char* k, const char* d) { auto it = m.find(k); return it == m.end() ? string(d) : it->second; };
  int v = atoi(g("v", "0").c_str());
  int r = atoi(g("r", "0").c_str());
  if (v < 0 || v >= NLISTS || r < 0 || r >= NRANGES) return false;
  return makeCfg(g("t", ""), atoi(g("d", "0").c_str()), v, g("p", "s") == "m", c, r, g("hist", ""));
}

// ---- running the real code --------------------------------------------------------------------
struct Impl {
  MasterSymbolString m;
  SlaveSymbolString s;
  std::ostringstream os;
  std::ios pristine{nullptr};
  uint64_t calls = 0;

  // decode n raw bytes through DataField::read; JSON framing is stripped ("0":<value>)
  int decode(const Cfg& c, const uint8_t* raw, int n, Fmt fmt, string* out) {
    SymbolString& d = c.fs.master ? static_cast<SymbolString&>(m) : static_cast<SymbolString&>(s);
    size_t off = c.fs.master ? 5 : 1;
    d.m_data.resize(off + n);
    if (c.fs.master) { d.m_data[0] = 0x10; d.m_data[1] = 0x08; d.m_data[2] = 0xb5; d.m_data[3] = 0x09; }
    d.m_data[off - 1] = static_cast<symbol_t>(n);
    for (int i = 0; i < n; i++) d.m_data[off + i] = raw[i];
    // "not on other fields formatted before on the same output": every pattern is decoded twice - on a pristine
    // stream and on a stream in the state other fields leave it in (fixed notation with two fraction digits as after a
    // fixed-point field, hex base with fill '0' as after a HEX field).  When the two differ, the history dependent
    // result is the one handed to the judge (C12 explores which states are reachable and compares all types).
    string o1, o2;
    int r1 = 0, r2 = 0;
    for (int pass = 0; pass < 2; pass++) {
      os.str("");
      os.clear();
      if (pass == 0) {
        os.flags(std::ios::dec | std::ios::skipws);
        os.precision(6);
        os.fill(' ');
      } else {
        os.flags(std::ios::hex | std::ios::fixed | std::ios::skipws);
        os.precision(2);
        os.fill('0');
      }
      os.width(0);
      calls++;
      result_t r = c.field->read(d, 0, false, nullptr, -1, fmtFlags(fmt), -1, &os);
      (pass == 0 ? o1 : o2) = os.str();
      (pass == 0 ? r1 : r2) = static_cast<int>(r);
    }
    bool same = r1 == r2 && o1 == o2;
    *out = same ? o1 : o2;
    int r = same ? r1 : r2;
    if (fmtIsJson(fmt) && r == RESULT_OK) {
      if (out->compare(0, 4, "\"0\":") == 0) out->erase(0, 4);
      else *out = "<json-frame-missing>" + *out;
    }
    return r;
  }

  // encode a text through DataField::write into an empty symbol string
  int encode(const Cfg& c, const string& text, vector<uint8_t>* out) {
    std::istringstream in(text);
    // "after any history": the worst history for the C library number parsers is one that left errno == ERANGE
    // (an earlier overflowing input in the same thread).  It is emulated directly before every encode, so a parser
    // that tests errno without clearing it first fails every round trip (C12 explores the histories themselves).
    errno = ERANGE;
    calls++;
    result_t r;
    if (c.fs.master) {
      MasterSymbolString w;
      w.m_data = {0x10, 0x08, 0xb5, 0x09};
      r = c.field->write(UI_FIELD_SEPARATOR, 0, &in, &w, nullptr);
      out->assign(w.m_data.begin() + (w.m_data.size() > 5 ? 5 : w.m_data.size()), w.m_data.end());
    } else {
      SlaveSymbolString w;
      r = c.field->write(UI_FIELD_SEPARATOR, 0, &in, &w, nullptr);
      out->assign(w.m_data.begin() + (w.m_data.size() > 1 ? 1 : w.m_data.size()), w.m_data.end());
    }
    return static_cast<int>(r);
  }
};

// ---- partitioning: the k-th element of the domain of configuration c belongs to part (k+c) % n ----
struct Part {
  int part = 0, nparts = 1;
  uint64_t k = 0;
  void start(int cfgIdx) { k = static_cast<uint64_t>(cfgIdx); }
  bool mine() { return static_cast<int>(k++ % nparts) == part; }
};

// ---- raw domains ----------------------------------------------------------------------------
static const uint8_t ALPHA16[16] = {0x00, 0x01, 0x09, 0x0a, 0x10, 0x12, 0x63, 0x64,
                                    0x7f, 0x80, 0x81, 0x99, 0x9a, 0xa9, 0xfe, 0xff};
inline bool inAlpha(uint8_t b) {
  for (int i = 0; i < 16; i++) if (ALPHA16[i] == b) return true;
  return false;
}

// +-4 neighbourhoods of every power of two, of min, max and the replacement (as raw numbers of 8n bits)
inline vector<uint32_t> neighbourhood(const rc::TypeSpec& t, int n) {
  std::set<uint32_t> s;
  uint64_t mod = n >= 4 ? 0x100000000ULL : (1ULL << (8 * n));
  auto add = [&](int64_t c) {
    for (int d = -4; d <= 4; d++) s.insert(static_cast<uint32_t>(static_cast<uint64_t>(c + d + (int64_t)mod * 4) % mod));
  };
  for (int k = 0; k <= 8 * n; k++) add(static_cast<int64_t>(1ULL << k));
  add(0);
  add(t.lo);
  add(t.hi);
  add(static_cast<int64_t>(t.repl));
  add(0x02da4e1f);       // DTM maximum
  add(0x7f800000);       // IEEE infinity
  add(0x00800000);       // smallest normal binary32
  add(0x7effffff);
  add(0x3f800000);       // 1.0
  add(0x4b800000);       // 2^24 as binary32
  return vector<uint32_t>(s.begin(), s.end());
}

typedef std::function<void(const uint8_t*)> RawFn;

// all patterns of n bytes (n <= 2: exhaustive; n == 3: exhaustive in thorough, alphabet product + neighbourhoods
// in quick; n == 4: alphabet product + neighbourhoods); each element is offered to the partition filter
inline void forRawDomain(const rc::TypeSpec& t, int n, bool full24, Part* P, const RawFn& fn) {
  uint8_t b[4] = {0, 0, 0, 0};
  if (n == 1) {
    for (unsigned v = 0; v < 256; v++) { if (!P->mine()) continue; b[0] = static_cast<uint8_t>(v); fn(b); }
    return;
  }
  if (n == 2) {
    for (unsigned v = 0; v < 65536; v++) {
      if (!P->mine()) continue;
      b[0] = static_cast<uint8_t>(v); b[1] = static_cast<uint8_t>(v >> 8);
      fn(b);
    }
    return;
  }
  if (n == 3 && full24) {
    for (unsigned v = 0; v < (1u << 24); v++) {
      if (!P->mine()) continue;
      b[0] = static_cast<uint8_t>(v); b[1] = static_cast<uint8_t>(v >> 8); b[2] = static_cast<uint8_t>(v >> 16);
      fn(b);
    }
    return;
  }
  unsigned total = n == 3 ? 4096 : 65536;
  for (unsigned v = 0; v < total; v++) {
    if (!P->mine()) continue;
    for (int i = 0; i < n; i++) b[i] = ALPHA16[(v >> (4 * i)) & 15];
    fn(b);
  }
  for (uint32_t v : neighbourhood(t, n)) {
    rc::disassemble(v, n, t.be, b);
    bool all = true;
    for (int i = 0; i < n; i++) all &= inAlpha(b[i]);
    if (all) continue;  // already part of the alphabet product
    if (!P->mine()) continue;
    fn(b);
  }
}

// mantissa set for the IEEE types
inline vector<uint32_t> mantissaSet(bool thorough) {
  std::set<uint32_t> s = {0, 1, 2, 3, 0x7fffff, 0x7ffffe, 0x400000, 0x400001, 0x3fffff, 0x200000, 0x600000,
                          0x555555, 0x2aaaaa, 0x19999a, 0x4ccccd, 0x333333, 0x0ccccd, 0x733333, 0x266666,
                          0x051eb8, 0x3851ec, 0x03126f, 0x031168, 0x100000, 0x7fff00, 0x0000ff, 0x123456};
  if (thorough) {
    for (uint32_t hi = 0; hi < 64; hi++) for (uint32_t lo = 0; lo < 64; lo++) s.insert((hi << 17) | lo | ((hi * 37 + lo * 11) % 2048) << 6);
  }
  return vector<uint32_t>(s.begin(), s.end());
}

// ---- the configuration space ------------------------------------------------------------------
static const int DIVS[7] = {0, 10, 100, 1000, -10, -100, -1000};

inline string hexOf(const uint8_t* p, size_t n) { return vp::hex(p, n); }
inline vector<uint8_t> bytesOf(const string& h) {
  vector<uint8_t> v;
  for (size_t i = 0; i + 1 < h.size(); i += 2) v.push_back(static_cast<uint8_t>(strtoul(h.substr(i, 2).c_str(), nullptr, 16)));
  return v;
}
inline string printable(const string& s) {  // deterministic ASCII rendering for logs
  string o;
  char b[8];
  for (unsigned char c : s) {
    if (c >= 0x20 && c < 0x7f && c != '\\') o += static_cast<char>(c);
    else { snprintf(b, sizeof(b), "\\x%02x", c); o += b; }
  }
  return o;
}

// every id registered in the real DataTypeList must be known to the reference table
inline vector<string> unknownRegisteredTypes() {
  vector<string> r;
  DataTypeList* l = DataTypeList::getInstance();
  for (auto it = l->begin(); it != l->end(); ++it) {
    if (it->first.find(',') != string::npos) continue;  // derived instance cache
    if (rc::findType(it->first) == nullptr) r.push_back(it->first);
  }
  return r;
}

// ---- the enumeration of configurations x raw domains (shared by C05 and C06) -------------------
enum FmSet { FM_TEXT_JSON = 0, FM_TEXT_ONLY = 1, FM_ALL_FORMATS = 2 };

static const uint8_t SALPHA[12] = {0x20, 'A', 'z', '0', '"', '\\', '~', '-', 0x00, 0x1f, 0x7f, 0xff};

inline uint8_t encPart(int v, bool bcd) { return static_cast<uint8_t>(bcd ? ((v / 10) << 4) | (v % 10) : v); }

struct Enumerator {
  Part P;
  bool thorough = false;
  int ieeeSweepBits = 0;       // thorough: 32 = all 2^32 patterns of EXP, 28 = all sign/exponent x 2^19 mantissas
  vector<int> full24Divs = {0};  // divisors for which the 3-byte numeric types are swept over all 2^24 patterns (thorough)
  int cfgIdx = 0;
  std::function<void(const Cfg&, const uint8_t*, int, FmSet)> eval;
  // called when a definition that must be creatable is rejected (must=1) or one that must be rejected is accepted (-1)
  std::function<void(const Cfg&, int)> cfgProblem;
  std::function<bool()> stop;
  std::function<void(const Cfg&)> onOpen;  // optional: called after a configuration was created
  std::map<string, uint64_t> counters;

  // expectCreate: 1 must succeed, 0 may fail (then skipped), -1 must fail
  std::map<string, string> histByType;  // type name -> tokens of the definitions created so far
  bool openCfg(Cfg* c, const string& typeText, int div, int listId, bool master, int expectCreate, int rangeId = 0) {
    c->idx = cfgIdx++;
    string base = typeText.substr(0, typeText.find(':'));
    string before = histByType[base];
    bool made = makeCfg(typeText, div, listId, master, c, rangeId);
    bool cached = made && (rc::isNumericKind(c->fs.t->kind) || c->fs.t->kind == rc::K_WDAY || c->fs.t->kind == rc::K_TEM);
    if (made && cached) {  // only number types go through the process-global cache of derived types
      c->hist = before;
      c->cachedKey = "";
      c->cachedKey = c->key();
      histByType[base] += (before.empty() ? "" : ",") + c->token();
    }
    if (!made) {
      fprintf(stderr, "internal: unknown type %s\n", typeText.c_str());
      exit(5);
    }
    counters[c->field ? "configs_created" : "configs_rejected"]++;
    if (c->field == nullptr && expectCreate == 1) {
      if (P.part == 0 && cfgProblem) cfgProblem(*c, 1);
      return false;
    }
    if (c->field != nullptr && expectCreate == -1) {
      if (P.part == 0 && cfgProblem) cfgProblem(*c, -1);
      return false;
    }
    P.start(c->idx);
    if (c->field != nullptr && onOpen) onOpen(*c);
    return c->field != nullptr;
  }
  static void closeCfg(Cfg* c) {
    delete c->field;
    c->field = nullptr;
  }

  void numericTypes() {
    for (size_t ti = 0; ti < rc::NTYPES && !stop(); ti++) {
      const rc::TypeSpec& t = rc::TYPES[ti];
      if (!(t.kind == rc::K_UINT || t.kind == rc::K_SINT || t.kind == rc::K_BCD || t.kind == rc::K_HCD ||
            t.kind == rc::K_PIN)) continue;
      for (int di = 0; di < 7 && !stop(); di++) {
        int div = DIVS[di];
        Cfg c;
        // a reciprocal on top of a built-in divisor is not expressible: may be rejected
        int expectCreate = (div == 0 || t.div == 1 || div > 0) ? 1 : 0;
        if (!openCfg(&c, t.name, div, 0, false, expectCreate)) continue;
        bool full24 = false;
        for (int d : full24Divs) full24 |= (d == div);
        if (t.bytes == 3 && thorough && full24) {
          forRawDomain(t, 3, true, &P, [&](const uint8_t* b) { eval(c, b, 3, FM_TEXT_ONLY); });
        }
        forRawDomain(t, t.bytes, false, &P, [&](const uint8_t* b) { eval(c, b, t.bytes, FM_TEXT_JSON); });
        closeCfg(&c);
      }
    }
  }

  void ieeeTypes() {
    vector<uint32_t> mant = mantissaSet(thorough);
    for (const char* name : {"EXP", "EXR"}) {
      const rc::TypeSpec& t = *rc::findType(name);
      for (int di = 0; di < 7 && !stop(); di++) {
        Cfg c;
        if (!openCfg(&c, name, DIVS[di], 0, false, 1)) continue;
        uint8_t b[4];
        for (uint32_t ex = 0; ex < 256; ex++) for (uint32_t sg = 0; sg < 2; sg++) for (uint32_t mt : mant) {
          if (!P.mine()) continue;
          rc::disassemble((sg << 31) | (ex << 23) | mt, 4, t.be, b);
          eval(c, b, 4, FM_TEXT_JSON);
        }
        forRawDomain(t, 4, false, &P, [&](const uint8_t* r) { eval(c, r, 4, FM_TEXT_JSON); });
        closeCfg(&c);
      }
    }
    if (ieeeSweepBits > 0 && !stop()) {
      // EXP sweep (text format, no divisor), contiguous slice per partition:
      // 32: all 2^32 patterns; 28: every sign/exponent x mantissas (10 high bits x 9 low bits, zeros between)
      Cfg c;
      if (openCfg(&c, "EXP", 0, 0, false, 1)) {
        int bits = ieeeSweepBits >= 32 ? 32 : 28;
        uint64_t lo = (static_cast<uint64_t>(P.part) << bits) / P.nparts, hi = (static_cast<uint64_t>(P.part + 1) << bits) / P.nparts;
        uint8_t b[4];
        for (uint64_t v = lo; v < hi; v++) {
          if ((v & 0xfffff) == 0 && stop()) break;
          uint32_t u = bits == 32 ? static_cast<uint32_t>(v)
            : static_cast<uint32_t>(((v >> 19) << 23) | (((v >> 9) & 0x3ff) << 13) | (v & 0x1ff));
          rc::disassemble(u, 4, false, b);
          eval(c, b, 4, FM_TEXT_ONLY);
        }
        closeCfg(&c);
      }
    }
  }

  void bitTypes() {
    for (int first = 0; first < 8 && !stop(); first++) {
      string base = "BI" + std::to_string(first);
      const rc::TypeSpec& t = *rc::findType(base);
      for (int bits = 0; bits <= t.p2; bits++) {  // 0 = no length given (1 bit)
        if (bits > 0 && first == 7) continue;    // BI7 is not adjustable
        for (int div : {0, 10, -10}) {
          Cfg c;
          if (!openCfg(&c, bits ? base + ":" + std::to_string(bits) : base, div, 0, false, 1)) continue;
          forRawDomain(t, 1, false, &P, [&](const uint8_t* b) { eval(c, b, 1, FM_TEXT_JSON); });
          closeCfg(&c);
        }
      }
    }
  }

  void listTypes() {
    struct { const char* type; int list; } L[] = {
      {"UCH", 1}, {"UCH", 3}, {"U1L", 2}, {"UIN", 3}, {"UIR", 1}, {"ULG", 3}, {"U3N", 3}, {"BI3:2", 1}, {"BI3:2", 2},
      {"BI0:7", 1}, {"BI7", 2}, {"BCD", 1}, {"HCD:1", 2}, {"BDY", 0}, {"HDY", 0}, {"BDY", 1}, {"SCH", 1},
      {"UCH", 4}, {"UCH", 5}, {"UCH", 6}, {"UCH", 8}, {"UIN", 4}, {"UIR", 6}, {"ULG", 5}, {"BI3:2", 5}, {"BI3:2", 6},
      {"BI0:7", 8}, {"PIN", 7}, {"PIN", 6}, {"BCD", 5}, {"HDY", 6}, {"SCH", 8},
    };
    for (auto& l : L) {
      if (stop()) break;
      Cfg c;
      if (!openCfg(&c, l.type, 0, l.list, false, 1)) continue;
      const rc::TypeSpec& t = *c.fs.t;
      forRawDomain(t, t.bytes, false, &P, [&](const uint8_t* b) { eval(c, b, t.bytes, FM_ALL_FORMATS); });
      closeCfg(&c);
    }
  }

  void dateTypes() {
    vector<int> wds;
    if (thorough) { for (int i = 0; i < 256; i++) wds.push_back(i); }
    else wds = {0, 1, 2, 3, 4, 5, 6, 7, 8, 0x63, 0xfe, 0xff};
    for (const char* name : {"BDA", "BDA:4", "BDA:3", "BDZ", "HDA", "HDA:4", "HDA:3"}) {
      if (stop()) break;
      const rc::TypeSpec& t = *rc::findType(name);
      Cfg c;
      if (!openCfg(&c, name, 0, 0, false, 1)) continue;
      bool bcd = t.p1 != 0;
      uint8_t b[4];
      for (int64_t day = rc::daysFromCivil(2000, 1, 1); day <= rc::daysFromCivil(2099, 12, 31); day++) {
        int y, m, d;
        rc::civilFromDays(day, &y, &m, &d);
        if (t.bytes == 3) {
          if (!P.mine()) continue;
          b[0] = encPart(d, bcd); b[1] = encPart(m, bcd); b[2] = encPart(y - 2000, bcd);
          eval(c, b, 3, FM_TEXT_JSON);
        } else {
          for (int wd : wds) {
            if (!P.mine()) continue;
            b[0] = encPart(d, bcd); b[1] = encPart(m, bcd); b[2] = static_cast<uint8_t>(wd); b[3] = encPart(y - 2000, bcd);
            eval(c, b, 4, FM_TEXT_JSON);
          }
        }
      }
      {  // boundaries of every part
        static const uint8_t DD[] = {0x00, 0x01, 0x09, 0x0a, 0x10, 0x19, 0x1c, 0x1d, 0x1e, 0x1f, 0x20, 0x28, 0x29, 0x30, 0x31, 0x32, 0x99, 0xff};
        static const uint8_t MM[] = {0x00, 0x01, 0x02, 0x09, 0x0a, 0x0b, 0x0c, 0x0d, 0x10, 0x11, 0x12, 0x13, 0x99, 0xff};
        static const uint8_t WW[] = {0x00, 0x03, 0x07};
        static const uint8_t YY[] = {0x00, 0x01, 0x04, 0x63, 0x64, 0x99, 0x9a, 0xfe, 0xff};
        for (uint8_t dd : DD) for (uint8_t mm : MM) for (uint8_t ww : WW) for (uint8_t yy : YY) {
          if (t.bytes == 3 && ww != 0) continue;
          if (!P.mine()) continue;
          b[0] = dd; b[1] = mm;
          if (t.bytes == 3) b[2] = yy; else { b[2] = ww; b[3] = yy; }
          eval(c, b, t.bytes, FM_TEXT_JSON);
        }
      }
      forRawDomain(t, t.bytes, thorough, &P, [&](const uint8_t* r) { eval(c, r, t.bytes, FM_TEXT_JSON); });
      closeCfg(&c);
      // a divisor on a date type is no valid definition
      Cfg bad;
      openCfg(&bad, name, 10, 0, false, -1);
      closeCfg(&bad);
    }
    if (!stop()) {  // DAY: all 65536
      Cfg c;
      if (openCfg(&c, "DAY", 0, 0, false, 1)) {
        forRawDomain(*c.fs.t, 2, false, &P, [&](const uint8_t* r) { eval(c, r, 2, FM_TEXT_JSON); });
        closeCfg(&c);
      }
    }
    if (!stop()) {  // DTM: every day of the range x minute set, every minute of the first and last days, beyond the maximum
      Cfg c;
      if (openCfg(&c, "DTM", 0, 0, false, 1)) {
        const rc::TypeSpec& t = *c.fs.t;
        uint8_t b[4];
        const uint32_t maxv = 0x02da4e1f;
        const int mins[] = {0, 1, 59, 60, 61, 719, 720, 1438, 1439};
        for (uint32_t day = 0; day <= maxv / 1440; day++) for (int mn : mins) {
          if (!P.mine()) continue;
          rc::disassemble(day * 1440 + mn, 4, false, b);
          eval(c, b, 4, FM_TEXT_JSON);
        }
        auto range = [&](uint32_t lo, uint32_t hi) {
          for (uint64_t v = lo; v <= hi; v++) {
            if (!P.mine()) continue;
            rc::disassemble(static_cast<uint32_t>(v), 4, false, b);
            eval(c, b, 4, FM_TEXT_JSON);
          }
        };
        range(0, 3 * 1440);
        range(maxv - 3 * 1440, maxv + 3000);
        range(0xffffffffu - 3000, 0xffffffffu);
        range(0x7fffffffu - 1500, 0x7fffffffu + 1500);
        forRawDomain(t, 4, false, &P, [&](const uint8_t* r) { eval(c, r, 4, FM_TEXT_JSON); });
        closeCfg(&c);
      }
    }
  }

  void timeTypes() {
    for (const char* name : {"BTI", "HTI", "VTI", "BTM", "HTM", "VTM"}) {
      if (stop()) break;
      const rc::TypeSpec& t = *rc::findType(name);
      Cfg c;
      if (!openCfg(&c, name, 0, 0, false, 1)) continue;
      bool bcd = t.p1 != 0;
      int n = t.bytes;
      uint8_t b[3];
      if (n == 3) {  // every second of the day (the 2-byte forms are covered by all 65536 patterns)
        for (int h = 0; h < 24; h++) for (int m = 0; m < 60; m++) for (int s = 0; s < 60; s++) {
          if (!P.mine()) continue;
          int v[3] = {h, m, s};
          for (int i = 0; i < 3; i++) b[t.p2 ? 2 - i : i] = encPart(v[i], bcd);
          eval(c, b, 3, FM_TEXT_JSON);
        }
      }
      if (n == 3) {  // boundaries of every part
        static const uint8_t TT[] = {0x00, 0x01, 0x09, 0x0a, 0x17, 0x18, 0x19, 0x23, 0x24, 0x25, 0x3b, 0x3c, 0x59, 0x5a, 0x60, 0x63, 0xff};
        for (uint8_t x : TT) for (uint8_t y : TT) for (uint8_t z : TT) {
          if (!P.mine()) continue;
          b[0] = x; b[1] = y; b[2] = z;
          eval(c, b, 3, FM_TEXT_JSON);
        }
      }
      forRawDomain(t, n, thorough, &P, [&](const uint8_t* r) { eval(c, r, n, FM_TEXT_JSON); });
      closeCfg(&c);
    }
    for (const char* name : {"MIN", "TTM", "TTH", "TTQ"}) {
      if (stop()) break;
      Cfg c;
      if (!openCfg(&c, name, 0, 0, false, 1)) continue;
      const rc::TypeSpec& t = *c.fs.t;
      forRawDomain(t, t.bytes, false, &P, [&](const uint8_t* r) { eval(c, r, t.bytes, FM_TEXT_JSON); });
      closeCfg(&c);
    }
  }

  void stringTypes() {
    for (const char* name : {"STR", "NTS", "HEX", "IGN"}) {
      if (stop()) break;
      // lengths 1..4: every string over the alphabet; also the definition without a length (1 byte)
      for (int len = 0; len <= 4; len++) {
        Cfg c;
        if (!openCfg(&c, len ? string(name) + ":" + std::to_string(len) : string(name), 0, 0, false, 1)) continue;
        int n = len ? len : 1;
        unsigned total = 1;
        for (int i = 0; i < n; i++) total *= 12;
        uint8_t b[4];
        for (unsigned v = 0; v < total; v++) {
          if (!P.mine()) continue;
          unsigned x = v;
          for (int i = 0; i < n; i++) { b[i] = SALPHA[x % 12]; x /= 12; }
          eval(c, b, n, FM_TEXT_JSON);
        }
        closeCfg(&c);
      }
      // lengths 5..31 and the remainder length '*': pattern families
      for (int len = 5; len <= 32; len++) {
        bool remain = len == 32;
        for (int n : remain ? vector<int>{1, 2, 7, 24, 31} : vector<int>{len}) {
          Cfg c;
          if (!openCfg(&c, string(name) + ":" + (remain ? string("*") : std::to_string(len)), 0, 0, false, 1)) continue;
          uint8_t b[32];
          for (int fam = 0; fam < 6; fam++) {
            if (!P.mine()) continue;
            for (int i = 0; i < n; i++) {
              switch (fam) {
                case 0: b[i] = static_cast<uint8_t>('A' + i % 26); break;
                case 1: b[i] = i < n / 2 ? static_cast<uint8_t>('a' + i % 26) : 0x20; break;
                case 2: b[i] = i < n / 2 ? static_cast<uint8_t>('a' + i % 26) : 0x00; break;
                case 3: b[i] = (i % 3 == 0) ? '"' : (i % 3 == 1 ? '\\' : 'q'); break;
                case 4: b[i] = static_cast<uint8_t>(0x20 + (i * 7) % 95); break;
                default: b[i] = static_cast<uint8_t>(i * 9 + 1); break;
              }
            }
            eval(c, b, n, FM_TEXT_JSON);
          }
          closeCfg(&c);
        }
      }
      Cfg bad;
      openCfg(&bad, string(name) + ":2", 10, 0, false, -1);
      closeCfg(&bad);
    }
  }

  // configured ranges with every sign combination of the bounds, signed and unsigned, with and without divisor
  void rangeTypes() {
    struct { const char* type; int div; int range; } L[] = {
      {"SCH", 0, 1}, {"SCH", 0, 2}, {"SCH", 0, 3}, {"SCH", 0, 4}, {"SCH", 0, 5}, {"S1L", 0, 1}, {"S1L", 0, 2},
      {"SIN", 0, 1}, {"SIN", 0, 2}, {"SIN", 0, 3}, {"SIN", 0, 5}, {"SIR", 0, 4}, {"S3N", 0, 1}, {"S3N", 0, 2}, {"SLG", 0, 1},
      {"SLG", 0, 2}, {"SLR", 0, 5}, {"D2C", 0, 7}, {"D2C", 0, 8}, {"D2C", 0, 9}, {"D2C", 0, 1}, {"D2B", 0, 7}, {"D2B", 0, 8},
      {"FLT", 0, 7}, {"FLT", 0, 8}, {"FLR", 0, 9}, {"SCH", 10, 7}, {"SCH", 10, 8}, {"SCH", 10, 9}, {"SIN", -10, 5},
      {"SIN", -10, 6}, {"SIN", 100, 8}, {"UCH", 0, 6}, {"UCH", 0, 4}, {"UCH", 0, 1}, {"U1L", 0, 6}, {"UIN", 0, 6}, {"UIR", 0, 4},
      {"U3N", 0, 6}, {"ULG", 0, 6}, {"ULR", 0, 1}, {"D1C", 0, 7}, {"D1C", 0, 4}, {"UCH", 10, 7}, {"UIN", -10, 6}, {"BCD", 0, 1},
      {"BCD:2", 0, 6}, {"HCD:1", 0, 4}, {"PIN", 0, 6},
    };
    for (auto& l : L) {
      if (stop()) break;
      Cfg c;
      if (!openCfg(&c, l.type, l.div, 0, false, 1, l.range)) continue;
      const rc::TypeSpec& t = *c.fs.t;
      forRawDomain(t, t.bytes, false, &P, [&](const uint8_t* b) { eval(c, b, t.bytes, FM_TEXT_JSON); });
      closeCfg(&c);
    }
  }

  void temType() {
    for (bool master : {false, true}) {
      if (stop()) break;
      Cfg c;
      if (!openCfg(&c, "TEM_P", 0, 0, master, 1)) continue;
      forRawDomain(*c.fs.t, 2, false, &P, [&](const uint8_t* r) { eval(c, r, 2, FM_TEXT_JSON); });
      closeCfg(&c);
    }
  }
};

}  // namespace hx

#endif  // VERIF_CODECA_HARNESS_H_
