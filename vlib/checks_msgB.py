"""Check definitions of engine msgmc, part B: C13 (conditional availability), C17 (polling fairness)."""

CHECKS = {}
ENGINES = []

# the engine entry of msgmc is defined by checks_msgA.py (imported before this module); add our properties
# to it instead of registering a second entry with the same name
try:
    from . import checks_msgA as _a
    _found = False
    for _e in getattr(_a, "ENGINES", []):
        if _e.get("name") == "msgmc":
            _found = True
            for _p in ("C13", "C17"):
                if _p not in _e["serves_properties"]:
                    _e["serves_properties"].append(_p)
    if not _found:
        raise ImportError("no msgmc engine entry")
except Exception:  # part A not present: register the engine here
    ENGINES = [
        {"name": "msgmc", "path": "engines/msgmc", "serves_properties": ["C13", "C17"],
         "kind_free_text": "explicit-state exploration (breadth-first over operation histories with canonical state "
                           "hashing, every history replayed on fresh objects) of the real MessageMap, Message, Condition "
                           "and poll queue objects against reference models written from the property statements"},
    ]

CHECKS["C13"] = {
    "engine": "msgmc", "design_ref": "5/C13",
    "level": "model_checking",
    "level_text": "for every configuration (condition shape x referenced message layout x field reference) the product of "
                  "the real objects (MessageMap, Message, SimpleNumeric/String/CombinedCondition, loaded through the "
                  "real CSV reader and resolved by the real resolveConditions) and the reference model is searched "
                  "breadth-first over all histories of {store one of the value vectors, advance the virtual clock by "
                  "one second, query isAvailable()/find()} with canonical state hashing; the abstract state space "
                  "(last stored data, 'changed this second or earlier', cached verdict, check-time relation) is finite "
                  "and the search closes to a fixpoint for most configurations before the depth bound, so every "
                  "behaviour over the explored value alphabet is covered for those; resolution is judged for every "
                  "configuration",
    "level_note": "bounded: value alphabet {1,2,3,4} / {'ab','cd','ef','gh'} with thresholds inside it, at most 3 fields "
                  "(UCH, UIN, STR:2; the scan message's MF/ID/SW/HW) plus ignored fillers, fields all in one part, at most two conditions combined, clock steps of "
                  "0 s and 1 s (a gap of n seconds is n steps), depth 6 (thorough 8) where the search does not close "
                  "earlier; trusts the reference (self-tested at every start against an independent evaluation of the "
                  "documented value-list syntax and hand traces), the interposed time() and the canonical abstraction, "
                  "which is cross-checked on every run by re-executing all histories up to depth 4 without pruning (a self-test "
                  "that ends the harness only when no monitored rule fired for the configuration)",
    "technique": "explicit-state model checking of the real condition/message objects under a virtual clock against a reference predicate on the last stored value",
    "rule": "configuration = family (simple, alternative definitions under complementary conditions, AND of two on one or "
            "two messages, derived on the fly [k=..]/[k<..]/[k>=..] from a defined condition with or without values, scan "
            "condition on the identification message) x shape (list 1;3, range 2-3, <3, >2, <=2, >=3, mixed 1;3-4, one "
            "string, string list, no values) x layout (all 14 layouts of 1..3 numeric/string fields; 11 layouts with ignored "
            "filler bytes IGN:1/IGN:2 before, between and after the fields; 12 layouts with the fields - with and without "
            "filler - in the master part of an active read message or of a passive write message; thorough also two-byte "
            "numerics and 14 more filler layouts; filler bytes always differ from the value of the field behind them and "
            "give the opposite verdict for at least one stored vector of every shape, self-tested; combined and derived "
            "conditions over filler layouts too; 5 layouts where the referenced message is defined WITHOUT destination "
            "address and the condition supplies ZZ, so that ebusd derives a per-address clone which receives the bus data "
            "- simple, alternative, derived and combined conditions incl. two conditions sharing one clone; 4-byte numeric "
            "fields (ULG) with the value alphabet {2, 65535, 65536, 4294967294} and six shapes over it; two definitions guarded "
            "by two conditions derived from ONE base (different lists, the same list twice, base next to derived); files "
            "with one unresolvable condition that guards nothing next to a resolvable one, in both name orders) x field reference (each named field of the right kind, of the wrong kind, unnamed, a "
            "missing name, missing message). Per resolvable configuration: BFS over histories of S<m>:<v> (store value "
            "vector v of message m: the judged field takes alphabet value v, every other field a rotated value so that a "
            "wrong field gives a wrong verdict), T (clock +1 s), Q (isAvailable, find by name, find by telegram). A state "
            "is the history replayed on fresh objects; canonical state = per referenced message (last slave data, "
            "now-lastChange in {never,0,1+}) + per condition object (cached verdict, sign of lastChange-lastCheck, "
            "checked at all) + reference state; the canonical state is asserted to be reproduced on replay. Oracle at Q: "
            "available iff every part is satisfied by the most recently stored value (never stored: not available; "
            "without values: stored at least once); find() returns the guarded definition iff available (the "
            "alternative one iff its complementary condition holds). Rule change-time: after every store the referenced "
            "message's getLastChangeTime() is the virtual time of its last value change. Oracle at load: resolveConditions succeeds iff "
            "message and field of the required kind exist; an ignored filler is not a field ('first field' = first field "
            "that is not ignored); unnamed with a first field of the other kind is not judged (statement open). states = distinct (configuration, canonical state); transitions = operations executed on "
            "the real objects incl. replays; traces validated = judged queries + judged resolutions; distinct = states "
            "after at least one operation.",
    "assumptions": [
        "time() is the only clock the code under test reads (interposed); its resolution is one second",
        "values are stored the way BusHandler does it: the receiving message is looked up by MessageMap::find(telegram) "
        "(then with any destination) and gets Message::storeLastData(master, slave) of a complete telegram",
        "numeric conditions are compared with the raw numeric value of integer types without divisor",
    ],
    "runs": [{
        "harness": "c13_condition", "sources": ["engines/msgmc/c13_condition.cpp"],
        "deps": ["engines/msgmc/c13_config.h"],
        "variant": "plain", "libset": "core",
        "quick": {"parts": 16, "args": ["--depth", 6], "deadline": 400,
                  "bounds": "1630 configurations (incl. address-less referenced messages, filler / master-part layouts), depth 6, alphabet of 4 values per field, cross-check depth 4"},
        "thorough": {"parts": 16, "args": ["--depth", 8], "deadline": 900,
                     "bounds": "2473 configurations (adds two-byte numeric fields and more filler layouts), depth 8, cross-check depth 4"},
    }],
}

CHECKS["C17"] = {
    "engine": "msgmc", "design_ref": "5/C17",
    "level": "model_checking",
    "level_text": "breadth-first search with canonical state hashing over all histories of poll-queue operations of the "
                  "real MessageMap (getNextPoll, setPollPriority + addPollMessage as the callers do it, "
                  "addPollMessage(front), definition of a new poll message, MessageMap::remove, reload, clear / destruction of a "
                  "second MessageMap instance of the process) up to the depth "
                  "bound; from EVERY distinct reachable state an unperturbed run of 40*sum(p) selections of the real "
                  "getNextPoll is judged by the reference monitor (waiting bound per message, frequency proportional to "
                  "1/p, equal priorities equally often); in addition, from every state up to a smaller depth, an exhaustive "
                  "family of periodically perturbed judged runs (q selections, then a priority change / front insertion / "
                  "re-definition of one message, repeated for >= 40*sum(p) selections) checks that no sequence of "
                  "perturbations postpones a message beyond its waiting bound; every history is executed in its own "
                  "forked process because g_lastPollOrder is process-global",
    "level_note": "bounded: 3 messages (thorough also 4), priorities {1,2,3,9}, depth 6 on one core configuration and "
                  "depth 4 on two more, depth 2 on 200 initial priority vectors x clock step {1 s, 0 s} x warm-up {0, 50} "
                  "selections (thorough: depth 7 / 6 / 3 and 4 messages to depth 5 / 2); trusts RefPoll (self-tested at "
                  "every start: the ideal virtual-time algorithm passes from every legal start offset with either "
                  "tie-break, hand-made unfair schedules are rejected) and the canonical abstraction, which is validated on "
                  "every run: every revisit of a canonical state re-runs the unperturbed run and must reproduce the "
                  "selection sequence of the first visit (self-test: ends the harness only when no rule fired for the configuration); the depth of the design (6/8) is reached only for the core "
                  "configuration and only to 7 in the thorough tier because every history costs a fork",
    "technique": "explicit-state model checking of the real poll queue: BFS over operation histories in forked processes with canonical states, unperturbed fairness run from every state",
    "rule": "configuration = number of message slots x initial priority per slot (1,2,3,9, defined without priority, not "
            "defined) x seconds the virtual clock advances per getNextPoll (1 or 0) x warm-up selections before the history "
            "(0 or 50: drift of g_lastPollOrder). Operations: G getNextPoll; P<k>:<p> if (m_k->setPollPriority(p)) "
            "addPollMessage(false, m_k); F<k> addPollMessage(true, m_k); A<k>:<p> define message k with priority p through "
            "the CSV reader; X<k> MessageMap::remove(m_k); L clear() + load the initial definitions again; C a SECOND MessageMap of the "
            "process (never polled, like MainLoop::m_newlyDefinedMessages on 'read -def') is cleared and reads one definition; "
            "Z that second map is destroyed and created anew (the poll clock g_lastPollOrder is process-global). A state is the "
            "history replayed on freshly loaded objects in a forked child; canonical state = per message (priority, "
            "pollOrder relative to the smallest, tie-break value: insertion counter verbatim / dense rank of poll times) + "
            "g_lastPollOrder relative + order of the queue vector; asserted to be reproduced on replay. Oracle on the "
            "unperturbed run of T=40*sum(p) selections from each state: (P) after the load and after every operation getPollPriority() of every message is "
            "the REQUESTED priority (digit of the r<p> type, argument of setPollPriority; the reference uses the requested one) and "
            "(Q) the queue holds exactly the defined messages with a priority, each once (no dangling entry, no duplicate, none "
            "missing; judged by pointer comparison before anything is polled; such a state is reported and not expanded); "
            "(W) no message waits more than "
            "sum_{j!=m}(ceil(p_m/p_j)+2) selections (start, between two selections, end), (F) |n_i - T*(1/p_i)/sum(1/p_j)| "
            "<= 3, (E) equal priorities differ by at most 2, plus: a message with a priority must be returned whenever "
            "one exists. Periodically perturbed runs from every state of depth <= 2 (thorough 3; 4 messages 2) of the core "
            "configurations and from every initial state: for every slot m, P<m>:<a>:<b>:q<q> = repeat { q x getNextPoll ; "
            "if (m->setPollPriority(alternately a,b)) addPollMessage(false, m) } for all 16 ordered pairs (a,b) over {1,2,3,9} "
            "and q in {1,2,3,5}; F<m>:q<q> the same with addPollMessage(true, m); A<m>:<a>:<b>:q<q> the same with 'remove m, "
            "define m with priority a/b' (10 unordered pairs). Oracle: (W') every message is selected again within the same "
            "waiting bound formula with p_m = max(a,b) for the perturbed message itself and p_m = min(a,b) when judging the "
            "others (a correct implementation never postpones a message by a priority change); the re-defined message itself is "
            "not judged; (F') messages other than m keep |n_i*p_i - n_j*p_j| <= p_i+p_j; front insertion: the unperturbed rules. "
            "states = distinct (configuration, canonical state), transitions = calls of the operations and of "
            "getNextPoll in the judged runs, traces validated = judged unperturbed runs, distinct = states other than "
            "initial ones.",
    "assumptions": [
        "time() is the only clock read by the poll queue (interposed); poll interval and bus traffic are not part of the property",
        "priorities are set the way mainloop.cpp/mqtthandler.cpp do it: addPollMessage(false) only when setPollPriority returns true",
        "the waiting bound is judged on unperturbed runs from every state reachable under perturbation (total wait <= history depth + bound) "
        "and across perturbations for periodic patterns of one perturbed message (period 1,2,3,5); aperiodic perturbation sequences longer than the history depth are not covered",
    ],
    "runs": [{
        "harness": "c17_poll", "sources": ["engines/msgmc/c17_poll.cpp"],
        "deps": ["engines/msgmc/c17_world.h", "engines/msgmc/c17_refpoll.h"],
        "variant": "plain", "libset": "core",
        # one harness process that runs 16 worker processes itself (one visited set, exact state counts)
        "quick": {"parts": 1, "args": ["--workers", 16, "--depth", 6, "--depth2", 4, "--bdepth", 2,
                                       "--pdepth", 2, "--pbdepth", 0], "deadline": 500,
                  "bounds": "3 messages: depth 6 (139, 1 s, warm 50), depth 4 (220 / 93-), depth 2 on 200 configurations; "
                            "periodically perturbed runs from all states of depth <= 2 of the 3 core configurations and "
                            "from the initial state of the 200 others"},
        "thorough": {"parts": 1, "args": ["--workers", 16, "--depth", 7, "--depth2", 6, "--bdepth", 3,
                                          "--depth4", 5, "--bdepth4", 2, "--pdepth", 3, "--pdepth4", 2, "--pbdepth", 0],
                     "deadline": 3600,
                     "bounds": "3 messages: depth 7 / 6 / 3; 4 messages: depth 5 (1239) / 4 (220-) / 2 on 380 configurations; "
                               "periodically perturbed runs from all states of depth <= 3 (3 messages) / <= 2 (4 messages) of "
                               "the core configurations and from the initial state of the 580 others"},
    }],
}
