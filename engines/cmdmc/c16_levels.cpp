// C16: access levels are enforced on the read, write and poll paths.
//
// Bounded-exhaustive exploration of the real code:
//  A  Message::checkLevel and Message::hasLevel on EVERY (level, granted list) pair of the domain
//  B  end to end through RequestImpl + MainLoop::decodeRequest on a real MessageMap that holds one
//     read, one write and one passive message per level name: every small ACL (default entry from
//     the ACL "*" row / from --accesslevel / absent, one user with secret) x authentication state x
//     message level x command form x PRIOR HISTORY on the same MainLoop (nothing / the message was just
//     seen on the bus / seen longer ago than the default max age / an authorised other client just read
//     or wrote it / the same client was refused just before); plus the listing forms (without and with
//     cached data on every message) and the data sink filter.  Further dimensions on reduced form sets: how the
//     message got its level (inline circuit#level, level column, four kinds of default rows), forms crossed
//     with their options and the passive message by name, wrong secrets related to the right one, case variants
//     of level names, two conditional variants of one name with different levels.
// Reference RefLevels is written from the property statement (token membership), not from
// message.cpp.
#include <algorithm>
#include <deque>
#include <set>
#include "mainloop_fixture.h"
#include "pollq.h"

using namespace ebusd;
using namespace fx;
using std::set;
using std::string;
using std::vector;

static vp::Result R;

// ---- reference --------------------------------------------------------------------------------
// granted iff the message has no level, or the granted list is "*", or the level is exactly one
// of the ';'-separated entries of the granted list (message.h: "the access levels to check
// against, separated by semicolon").
static bool refGranted(const string& level, const string& list) {
  if (level.empty()) return true;
  if (list == "*") return true;
  size_t pos = 0;
  while (pos <= list.size()) {
    size_t e = list.find(';', pos);
    if (e == string::npos) e = list.size();
    if (e - pos == level.size() && list.compare(pos, e - pos, level) == 0) return true;
    pos = e + 1;
  }
  return false;
}
static bool refSelfTest() {
  struct T { const char* lvl; const char* list; bool want; } t[] = {
    {"", "", true}, {"", "a", true}, {"a", "", false}, {"a", "*", true}, {"a", "a", true}, {"a", "aa", false},
    {"a", "ba", false}, {"a", "ab", false}, {"a", "b;a", true}, {"a", "b;a;c", true}, {"a", "ba;ab;aa", false},
    {"ab", "a;b", false}, {"ab", "aab;abb;ab", true}, {"aa", "aaa;aa", true}, {"aa", "aaa;aaaa", false},
    {"b", "ab;b", true}, {"abc", "ab;bc;abcd;xabc", false}, {"*", "a", false},
  };
  for (auto& x : t) if (refGranted(x.lvl, x.list) != x.want) { fprintf(stderr, "RefLevels self-test failed: %s in %s\n", x.lvl, x.list); return false; }
  return true;
}


// ---- domain -----------------------------------------------------------------------------------
static vector<string> namesOver(const string& alpha, size_t maxLen) {
  vector<string> out, cur = {""};
  for (size_t l = 1; l <= maxLen; l++) {
    vector<string> next;
    for (auto& p : cur) for (char c : alpha) next.push_back(p + c);
    out.insert(out.end(), next.begin(), next.end());
    cur = next;
  }
  return out;
}
// all sequences of 0..maxN names joined by sep, plus "*"
static vector<string> listsOf(const vector<string>& names, size_t maxN, char sep) {
  vector<string> out = {""}, cur = {""};
  for (size_t n = 1; n <= maxN; n++) {
    vector<string> next;
    for (auto& p : cur) for (auto& nm : names) next.push_back(p.empty() ? nm : p + sep + nm);
    out.insert(out.end(), next.begin(), next.end());
    cur = next;
  }
  out.push_back("*");
  return out;
}
static string withSep(string s, char from, char to) { std::replace(s.begin(), s.end(), from, to); return s; }

struct Domain {
  string set;               // "q" or "t"
  vector<string> levels;    // message levels incl. "" (index+1 = message number)
  vector<string> names;     // names for checkLevel lists
  vector<string> e2eNames;  // names for ACL lists
  vector<string> baseNames; // the lower case part of e2eNames (fully crossed in quick)
};
// level names: all strings over {a,b} (thorough {a,b,c}) up to a length, plus case variants of them (a level
// differs from its upper / mixed case spelling)
static Domain domainOf(const string& set) {
  Domain d;
  d.set = set;
  if (set == "t") {
    d.names = namesOver("abc", 3);
    d.baseNames = namesOver("abc", 2);
    for (const char* n : {"A", "aA", "Ab"}) d.names.push_back(n);
  } else {
    d.names = namesOver("ab", 2);
    d.baseNames = d.names;
    for (const char* n : {"A", "aA"}) d.names.push_back(n);
  }
  d.e2eNames = d.baseNames;
  for (const char* n : {"A", "aA"}) d.e2eNames.push_back(n);
  d.levels.push_back("");
  d.levels.insert(d.levels.end(), d.names.begin(), d.names.end());
  return d;
}

// ---- world ------------------------------------------------------------------------------------
static string two(unsigned v) { char b[8]; snprintf(b, sizeof(b), "%02x", v); return b; }
static string num2(size_t idx) { char b[8]; snprintf(b, sizeof(b), "%02u", (unsigned)(idx + 1)); return b; }
// how a message gets its level ("level source"): the reference only says "this message carries level L"
struct Source { const char* name; const char* circ; const char* sb; const char* tag; };
static const Source SOURCES[] = {
  {"inline", "c", "09", ""},            // r,c#L,NAME,...            (circuit#level in the message row)
  {"column", "k", "0a", "k"},           // own header with a level column
  {"defrow", "d", "0b", "d"},           // file 08.d.csv: *r,#L default row on top of the file name circuit
  {"defcirc", "f", "0c", "f"},          // file 08.e.csv: *r,f#L default row naming another circuit
  {"defsuffix", "g.2", "0d", "g"},      // file 08.g.2.csv: *r,#L default row, circuit suffix from the file name
  {"defcircsuffix", "h.2", "0e", "h"},  // file 08.g.2.csv: *r,h#L default row, suffix inserted before the level
};
static const size_t NSRC = sizeof(SOURCES) / sizeof(SOURCES[0]);
struct Tgt {
  size_t src = 0, mi = 0;
  string level, circ, rname, wname, pname, sb;
  Message* rm = nullptr; Message* wm = nullptr; Message* pm = nullptr;
  string ii() const { return two(mi + 1); }
  string rTel(const string& qq = "31") const { return qq + "08b5" + sb + "020d" + ii(); }
  string wTel(const string& val, const string& qq = "31") const { return qq + "08b5" + sb + "030e" + ii() + val; }
  string pTel(const string& qq = "10") const { return qq + "08b5" + sb + "020f" + ii(); }
};
static string lvlSuffix(const string& l) { return l.empty() ? "" : "#" + l; }
struct Ctx {
  Domain d;
  World* w = nullptr;
  vector<vector<Tgt>> tg;   // [source][level index]
  vector<Message*> all;
  Message* sel = nullptr;   // the message the two conditions of the "dup" names look at
  vector<Message*> dupOn, dupOff;
  string curAcl;  // key of the ACL the current MainLoop was built with
};
static void loadFile(World* w, const string& filename, const string& content) {
  std::istringstream in(content);
  string err;
  time_t now = g_now;
  result_t r = w->messages->readFromStream(&in, filename, now, false, nullptr, &err);
  if (r != RESULT_OK) { fprintf(stderr, "fixture: %s did not load: %s\n", filename.c_str(), err.c_str()); exit(3); }
}
static Ctx* makeCtx(const string& set) {
  Ctx* c = new Ctx();
  c->d = domainOf(set);
  const vector<string>& L = c->d.levels;
  size_t n = L.size();
  c->tg.resize(NSRC);
  for (size_t s = 0; s < NSRC; s++) for (size_t i = 0; i < n; i++) {
    Tgt t;
    t.src = s; t.mi = i; t.level = L[i]; t.circ = SOURCES[s].circ; t.sb = SOURCES[s].sb;
    t.rname = "m" + string(SOURCES[s].tag) + num2(i); t.wname = "w" + string(SOURCES[s].tag) + num2(i); t.pname = "p" + string(SOURCES[s].tag) + num2(i);
    c->tg[s].push_back(t);
  }
  // inline source (+ the selector and the conditional "dup" names: variant [on] carries level i, variant [off]
  // level i+1, so that the available variant and the first stored one differ in level)
  std::ostringstream o;
  o << "# type,circuit,name,comment,qq,zz,pbsb,id,fields...\n";
  for (auto& t : c->tg[0]) {
    o << "r,c" << lvlSuffix(t.level) << "," << t.rname << ",,,08,b509,0d" << t.ii() << ",v,,UCH\n";
    o << "w,c" << lvlSuffix(t.level) << "," << t.wname << ",,,08,b509,0e" << t.ii() << ",v,,UCH\n";
    o << "u,c" << lvlSuffix(t.level) << "," << t.pname << ",,,08,b509,0f" << t.ii() << ",v,,UCH\n";
  }
  o << "r,c,sel,,,08,b509,0d70,v,,UCH\n*[on],c,sel,,v,,1\n*[off],c,sel,,v,,0\n";
  for (size_t i = 0; i < n; i++) {
    o << "[on]r,c" << lvlSuffix(L[i]) << ",d" << num2(i) << ",,,08,b509,10" << two(i + 1) << ",v,,UCH\n";
    o << "[off]r,c" << lvlSuffix(L[(i + 1) % n]) << ",d" << num2(i) << ",,,08,b509,11" << two(i + 1) << ",v,,UCH\n";
  }
  WorldConfig wc;
  wc.csv = o.str();
  c->w = new World(wc);
  if (c->w->loadResult != RESULT_OK) { fprintf(stderr, "definitions did not load: %s\n", c->w->loadError.c_str()); exit(3); }
  // column source
  {
    std::ostringstream f;
    f << "type,circuit,level,name,comment,qq,zz,pbsb,id,*name,part,type,divisor/values,unit,comment\n";
    for (auto& t : c->tg[1]) for (const char* k : {"r", "w", "u"}) {
      f << k << ",k," << t.level << "," << (k[0] == 'r' ? t.rname : k[0] == 'w' ? t.wname : t.pname) << ",,,08,b50a,0" << (k[0] == 'r' ? "d" : k[0] == 'w' ? "e" : "f") << t.ii() << ",v,,UCH\n";
    }
    loadFile(c->w, "col.csv", f.str());
  }
  // default row sources: a default row applies to the message rows that follow it
  auto defFile = [&](const string& filename, size_t s, const string& circCol) {
    std::ostringstream f;
    f << "# type,circuit,name,comment,qq,zz,pbsb,id,fields...\n";
    for (auto& t : c->tg[s]) {
      string cc = circCol + lvlSuffix(t.level);
      for (const char* k : {"r", "w", "u"}) f << "*" << k << "," << cc << ",,,,,b5" << t.sb << "\n";
      f << "r,," << t.rname << ",,,,,0d" << t.ii() << ",v,,UCH\n";
      f << "w,," << t.wname << ",,,,,0e" << t.ii() << ",v,,UCH\n";
      f << "u,," << t.pname << ",,,,,0f" << t.ii() << ",v,,UCH\n";
    }
    loadFile(c->w, filename, f.str());
  };
  defFile("08.d.csv", 2, "");
  defFile("08.e.csv", 3, "f");
  defFile("08.g.2.csv", 4, "");
  defFile("08.g.2.csv", 5, "h");
  c->w->scanHelper->executeInstructions(c->w->busHandler);
  for (size_t s = 0; s < NSRC; s++) for (auto& t : c->tg[s]) {
    t.rm = c->w->messages->find(t.circ, t.rname, "*", false);
    t.wm = c->w->messages->find(t.circ, t.wname, "*", true);
    t.pm = c->w->messages->find(t.circ, t.pname, "*", false, true);
    if (!t.rm || !t.wm || !t.pm) { fprintf(stderr, "fixture: messages of source %s level index %zu not found in circuit %s\n", SOURCES[s].name, t.mi, t.circ.c_str()); exit(3); }
    // (which level the message got is NOT asserted here: that is what the check judges by behaviour)
    c->all.push_back(t.rm); c->all.push_back(t.wm); c->all.push_back(t.pm);
  }
  c->sel = c->w->messages->find("c", "sel", "*", false);
  if (!c->sel) { fprintf(stderr, "fixture: sel not found\n"); exit(3); }
  c->all.push_back(c->sel);
  {
    deque<Message*> ms;
    c->w->messages->findAll("c", "", "*", false, true, false, false, true, false, 0, 0, false, &ms);
    c->dupOn.resize(n); c->dupOff.resize(n);
    for (Message* m : ms) {
      string nm = m->getName();
      if (nm.size() == 3 && nm[0] == 'd') {
        size_t i = strtoul(nm.c_str() + 1, nullptr, 10) - 1;
        if (i < n) { (m->m_id[2] == 0x10 ? c->dupOn : c->dupOff)[i] = m; c->all.push_back(m); }
      }
    }
    for (size_t i = 0; i < n; i++) if (!c->dupOn[i] || !c->dupOff[i]) { fprintf(stderr, "fixture: conditional variants %zu not found\n", i); exit(3); }
  }
  return c;
}
static void resetState(Ctx* c) {
  for (Message* m : c->all) {
    m->m_lastUpdateTime = 0; m->m_lastChangeTime = 0; m->m_pollPriority = 0;
    m->m_lastMasterData.clear(); m->m_lastSlaveData.clear();
  }
  vp::pollQueueClear(&c->w->messages->m_pollMessages);
  c->w->protocol->sent.clear();
  g_now += 1000;
}

// ---- ACL --------------------------------------------------------------------------------------
// user u (secret "sE") is the user of the ACL; a second user v (secret "t2", all levels) only serves as the
// owner of another secret; z is a user name without entry
struct Acl {
  string dsrc;  // acl | opt | none
  string D, U;  // ';' separated lists
};
static void applyAcl(Ctx* c, const Acl& a) {
  string key = a.dsrc + "|" + a.D + "|" + a.U;
  if (key == c->curAcl) return;
  c->curAcl = key;
  std::ostringstream f;
  f << "# name,secret,level...\n";
  if (a.dsrc == "acl") f << "*,," << withSep(a.D, ';', ',') << "\n";
  f << "u,sE," << withSep(a.U, ';', ',') << "\n";
  // the user v is listed twice: an earlier line with another secret and no levels, then the line that counts.  The
  // earlier secret ("vold") must never open the levels of the later line.
  f << "v,old,\n";
  f << "v,t2,*\n";
  c->w->newLoop(a.dsrc == "opt" ? withSep(a.D, ';', ',') : "", true, f.str());
}
static string effDefault(const Acl& a) { return a.dsrc == "none" ? "" : a.D; }

// ---- observation + judgement of one end-to-end case -----------------------------------------------
static bool isDenied(result_t r) { return r == RESULT_ERR_NOTFOUND || r == RESULT_ERR_NOTAUTHORIZED; }
static bool inPollQueue(Ctx* c, Message* m) {
  for (Message* x : vp::pollQueueItems(c->w->messages->m_pollMessages)) if (x == m) return true;
  return false;
}
// authentication states: only "ok" authenticates.  The wrong secrets are unrelated to the right one (bad), a
// proper prefix, an extension, a case variant, the empty string, and the secret of another user; crossv is the
// other user's name with u's secret; vold the other user's name with the secret of its earlier, superseded ACL line
static const char* AUTHS[] = {"none", "ok", "bad", "nosecret", "unknown"};
static const char* AUTHS2[] = {"prefix", "ext", "case", "empty", "cross", "crossv", "vold"};
static const char* FORMS[] = {"readname", "readcirc", "readforce", "readmaxage", "readhex", "readhexforce", "readpoll",
                              "writecirc", "writehex", "httpname", "httpcached", "httpmaxage", "httppoll",
                              "findname", "finddata", "findhex"};
// forms crossed with the options their usage text allows, and the passive message addressed by name
static const char* OPTFORMS[] = {"readcirc_s", "readcirc_d", "readcirc_v", "readcirc_n", "readcirc_field", "readname_s",
                                 "readhex_s", "readhex_c", "readhex_sc", "writecirc_s", "writecirc_d", "writehex_s",
                                 "writehex_c", "writehex_sc", "readpassive", "readpassive_c", "readpassive_m", "httppassive"};
// forms used for the other level sources and for the additional authentication states
static const char* SRCFORMS[] = {"readcirc", "readforce", "readhex", "writecirc", "writehex", "httpcached", "finddata"};
static const char* AUTH2FORMS[] = {"readforce", "writecirc", "httpname", "finddata"};
// what happened to the addressed message on the same MainLoop before the judged request
static const char* HISTS[] = {"none", "fresh", "stale", "authread", "denied"};
static const char* HISTS2[] = {"none", "fresh"};
static const char* SETFORMS[] = {"findall", "findw", "finddata", "httpall", "sink"};
static const char* SETHISTS[] = {"none", "fresh"};

static string authQuery(const string& auth) {
  if (auth == "ok") return "user=u&secret=sE";
  if (auth == "bad") return "user=u&secret=x";
  if (auth == "nosecret") return "user=u";
  if (auth == "unknown") return "user=z&secret=sE";
  if (auth == "prefix") return "user=u&secret=s";
  if (auth == "ext") return "user=u&secret=sEx";
  if (auth == "case") return "user=u&secret=se";
  if (auth == "empty") return "user=u&secret=";
  if (auth == "cross") return "user=u&secret=t2";
  if (auth == "crossv") return "user=v&secret=sE";
  if (auth == "vold") return "user=v&secret=old";
  return "";
}
// performs the TCP authentication step; returns false if the observed user is not the expected one
static bool tcpAuth(Ctx* c, const string& auth, string* user, string* log) {
  *user = "";
  string line;
  if (auth == "ok") line = "auth u sE";
  else if (auth == "bad") line = "auth u x";
  else if (auth == "nosecret") line = "auth u";
  else if (auth == "unknown") line = "auth z sE";
  else if (auth == "prefix") line = "auth u s";
  else if (auth == "ext") line = "auth u sEx";
  else if (auth == "case") line = "auth u se";
  else if (auth == "empty") line = "auth u \"\"";
  else if (auth == "cross") line = "auth u t2";
  else if (auth == "crossv") line = "auth v sE";
  else if (auth == "vold") line = "auth v old";
  if (line.empty()) return true;
  Reply r = tcp(c->w, line, user);
  if (log) *log += "  > " + line + "\n  < " + esc(r.text) + "   (session user now \"" + *user + "\")\n";
  return *user == (auth == "ok" ? "u" : "");
}
// names listed for the circuit by a `find` answer
static set<string> namesInFind(const string& text, const string& circ) {
  set<string> s;
  std::istringstream is(text);
  string line, pre = circ + " ";
  while (getline(is, line)) if (line.compare(0, pre.size(), pre) == 0) { size_t e = line.find(' ', pre.size()); s.insert(line.substr(pre.size(), e - pre.size())); }
  return s;
}
// message names of the source appearing as JSON keys in a /data answer
static set<string> namesInJson(const string& body, const vector<Tgt>& ts) {
  set<string> s;
  for (auto& t : ts) for (const string* n : {&t.rname, &t.wname, &t.pname}) if (body.find("\"" + *n + "\"") != string::npos) s.insert(*n);
  return s;
}
static string join(const set<string>& s) { string o; for (auto& x : s) o += (o.empty() ? "" : " ") + x; return o.empty() ? "-" : o; }

// the message is seen on the bus (telegram of another master, passive reception path of BusHandler):
// afterwards it holds cached data with the value mi+101
static void busUpdate(Ctx* c, const Tgt& t, char kind) {
  MasterSymbolString m;
  SlaveSymbolString s;
  if (kind == 'w') { m.parseHex(t.wTel(two(t.mi + 101), "10")); s.parseHex("00"); }
  else if (kind == 'p') { m.parseHex(t.pTel("10")); s.parseHex("01" + two(t.mi + 101)); }
  else { m.parseHex(t.rTel("10")); s.parseHex("01" + two(t.mi + 101)); }
  c->w->busHandler->notifyProtocolMessage(md_recv, m, s);
  Message* msg = kind == 'w' ? t.wm : kind == 'p' ? t.pm : t.rm;
  if (msg->getLastUpdateTime() != g_now) { fprintf(stderr, "fixture: bus update did not reach %s message %zu of source %s\n", kind == 'w' ? "write" : kind == 'p' ? "passive" : "read", t.mi, SOURCES[t.src].name); exit(3); }
}
struct FormReq { bool http = false; char kind = 'r'; string line; string qq = "31"; bool opt = false; };
// the request text of a form
static FormReq requestOf(const string& form, const Tgt& t, const string& auth) {
  FormReq q;
  const string &m = t.rname, &w = t.wname, &p = t.pname, &C = t.circ;
  string rh = "08b5" + t.sb + "020d" + t.ii(), wh = "08b5" + t.sb + "030e" + t.ii() + "07";
  if (form == "readname") q.line = "read " + m;
  else if (form == "readcirc") q.line = "read -c " + C + " " + m;
  else if (form == "readforce") q.line = "read -f -c " + C + " " + m;
  else if (form == "readmaxage") q.line = "read -m 86400 " + m;
  else if (form == "readhex") q.line = "read -h " + rh;
  else if (form == "readhexforce") q.line = "read -f -h " + rh;
  else if (form == "readpoll") q.line = "read -p 2 -c " + C + " " + m;
  else if (form == "writecirc") { q.kind = 'w'; q.line = "write -c " + C + " " + w + " 7"; }
  else if (form == "writehex") { q.kind = 'w'; q.line = "write -h " + wh; }
  else if (form == "findname") q.line = "find " + m;
  else if (form == "finddata") q.line = "find -d " + m;
  else if (form == "findhex") q.line = "find -d -h " + m;
  // ---- option crossings / passive by name (judged by the generic rules, see runCase)
  else if (form == "readcirc_s") { q.opt = true; q.qq = "10"; q.line = "read -s 10 -c " + C + " " + m; }
  else if (form == "readcirc_d") { q.opt = true; q.line = "read -d 08 -c " + C + " " + m; }
  else if (form == "readcirc_v") { q.opt = true; q.line = "read -v -c " + C + " " + m; }
  else if (form == "readcirc_n") { q.opt = true; q.line = "read -n -c " + C + " " + m; }
  else if (form == "readcirc_field") { q.opt = true; q.line = "read -c " + C + " " + m + " v"; }
  else if (form == "readname_s") { q.opt = true; q.qq = "10"; q.line = "read -s 10 " + m; }
  else if (form == "readhex_s") { q.opt = true; q.qq = "10"; q.line = "read -s 10 -h " + rh; }
  else if (form == "readhex_c") { q.opt = true; q.line = "read -c " + C + " -h " + rh; }
  else if (form == "readhex_sc") { q.opt = true; q.qq = "10"; q.line = "read -s 10 -c " + C + " -h " + rh; }
  else if (form == "writecirc_s") { q.opt = true; q.kind = 'w'; q.qq = "10"; q.line = "write -s 10 -c " + C + " " + w + " 7"; }
  else if (form == "writecirc_d") { q.opt = true; q.kind = 'w'; q.line = "write -d 08 -c " + C + " " + w + " 7"; }
  else if (form == "writehex_s") { q.opt = true; q.kind = 'w'; q.qq = "10"; q.line = "write -s 10 -h " + wh; }
  else if (form == "writehex_c") { q.opt = true; q.kind = 'w'; q.line = "write -c " + C + " -h " + wh; }
  else if (form == "writehex_sc") { q.opt = true; q.kind = 'w'; q.qq = "10"; q.line = "write -s 10 -c " + C + " -h " + wh; }
  else if (form == "readpassive") { q.opt = true; q.kind = 'p'; q.line = "read " + p; }
  else if (form == "readpassive_c") { q.opt = true; q.kind = 'p'; q.line = "read -c " + C + " " + p; }
  else if (form == "readpassive_m") { q.opt = true; q.kind = 'p'; q.line = "read -m 86400 -c " + C + " " + p; }
  else if (form.compare(0, 4, "http") == 0) {
    q.http = true;
    string aq = authQuery(auth);
    string opt = form == "httpname" ? "&required" : form == "httpmaxage" ? "&maxage=60" : form == "httppoll" ? "&poll=3" : "";
    if (form == "httppassive") { q.opt = true; q.kind = 'p'; }
    else if (form != "httpname" && form != "httpcached" && form != "httpmaxage" && form != "httppoll") return q;
    q.line = "/data/" + C + "/" + (q.kind == 'p' ? p : m) + "?exact=1" + opt + (aq.empty() ? "" : "&" + aq);
  }
  return q;
}

// one per-message case.  returns "" if fine, else the rule that fired; log gets the observation.
static string runCase(Ctx* c, const Acl& a, const string& auth, const Tgt& t, const string& form, const string& hist, string* log) {
  applyAcl(c, a);
  resetState(c);
  const string& level = t.level;
  size_t mi = t.mi;
  FormReq q = requestOf(form, t, auth);
  if (q.line.empty()) return "unknown-form";
  bool http = q.http;
  bool isWrite = q.kind == 'w';
  string eff = auth == "ok" ? a.U : effDefault(a);
  bool granted = refGranted(level, eff);
  // HTTP with credentials that do not authenticate may be refused altogether (403) or fall back
  // to the default levels: both grant at most the default levels
  bool mayRefuse = http && auth != "none" && auth != "ok";
  Message* rm = t.rm;
  Message* tm = q.kind == 'w' ? t.wm : q.kind == 'p' ? t.pm : t.rm;
  string busValue = std::to_string(mi + 1), cacheValue = std::to_string(mi + 101);
  string busHex = "01" + t.ii(), cacheHex = "01" + two(mi + 101);
  string user;
  if (log) {
    *log += "default levels (" + a.dsrc + "): \"" + effDefault(a) + "\"; user u levels: \"" + a.U + "\"; auth=" + auth +
            "; message level \"" + level + "\" assigned by " + SOURCES[t.src].name + "; form=" + form + "; history=" + hist + "\n";
    *log += string("reference: effective list \"") + eff + "\" -> " + (granted ? "GRANTED" : "DENIED") + "\n";
  }
  // ---- prior history on the same MainLoop -------------------------------------------------------------
  if (hist == "fresh" || hist == "stale") {
    busUpdate(c, t, q.kind);
    if (hist == "stale") g_now += 400;  // older than the default max age of 300 s
    if (log) *log += string("  history: message seen on the bus with value ") + cacheValue + (hist == "stale" ? ", 400 s ago\n" : ", just now\n");
  } else if (hist == "authread") {
    // another session that holds the level reads / writes the message; if no principal of this ACL holds
    // the level (or the message is passive), the data comes from the bus instead
    string other;
    bool viaU = refGranted(level, a.U), viaDefault = refGranted(level, effDefault(a));
    if ((viaU || viaDefault) && q.kind != 'p') {
      if (viaU) tcp(c->w, "auth u sE", &other);
      Reply pr = tcp(c->w, isWrite ? "write -c " + t.circ + " " + t.wname + " 9" : "read -f -c " + t.circ + " " + t.rname, &other);
      if (pr.ret != RESULT_OK || tm->getLastUpdateTime() != g_now) return "history-authorised-access-failed";
      if (log) *log += "  history: session of " + string(viaU ? "user u" : "an anonymous client") + " (holds the level) accessed the message: " + esc(pr.text) + "\n";
    } else {
      busUpdate(c, t, q.kind);
      if (log) *log += "  history: no principal of this ACL holds the level; message seen on the bus with value " + cacheValue + "\n";
    }
  }
  if (!http && !tcpAuth(c, auth, &user, log)) return "auth-user";
  if (hist == "denied") {
    // the same client tried the same request just before
    Reply pr = http ? httpGet(c->w, q.line) : tcp(c->w, q.line, &user);
    if (log) *log += "  history: the same request just before: " + (http ? "status " + std::to_string(httpStatus(pr.text)) : string(getResultCode(pr.ret))) + "\n";
  }
  c->w->protocol->sent.clear();
  bool hadData = tm->getLastUpdateTime() != 0;
  time_t lastUpBefore = tm->getLastUpdateTime();
  size_t prioBefore = rm->getPollPriority();
  bool queuedBefore = inPollQueue(c, rm);
  string slaveBefore = hexOf(tm->getLastSlaveData()), masterBefore = hexOf(tm->getLastMasterData());
  // ---- the judged request -----------------------------------------------------------------------------
  string rule;
  Reply r = http ? httpGet(c->w, q.line) : tcp(c->w, q.line, &user);
  const vector<string>& sent = c->w->protocol->sent;
  vector<string> wantSent = {"S:" + (isWrite ? t.wTel("07", q.qq) : t.rTel(q.qq))};
  bool sentOk = sent.empty() || sent == wantSent;
  bool stateTouched = tm->getLastUpdateTime() != lastUpBefore || hexOf(tm->getLastSlaveData()) != slaveBefore || hexOf(tm->getLastMasterData()) != masterBefore;
  bool pollTouched = rm->getPollPriority() != prioBefore || inPollQueue(c, rm) != queuedBefore;
  bool forced = form == "readforce" || form == "readhexforce";
  // a denied request that is answered although nothing went to the bus was answered from stored data
  auto deniedAnswered = [&]() { return string(sent.empty() && hadData ? "denied-answered-from-cache" : "denied-answered"); };
  bool usage = !http && r.ret == RESULT_OK && r.text.compare(0, 6, "usage:") == 0;
  if (q.opt && !http) {
    // option crossings: the granted side is only judged where the request was answered (a usage text or an
    // error other than not found / not authorized is not a matter of access levels)
    bool hexForm = form.compare(0, 7, "readhex") == 0;
    const string& vb = hexForm ? busHex : busValue;
    const string& vc = hexForm ? cacheHex : cacheValue;
    bool answered = r.ret == RESULT_OK && !usage && r.text.compare(0, 4, "ERR:") != 0;
    if (granted) {
      if (isDenied(r.ret)) rule = "granted-refused";
      else if (!sentOk || (q.kind == 'p' && !sent.empty())) rule = "granted-wrong-telegram";
      else if (answered && !isWrite && r.text.find(vb) == string::npos && r.text.find(vc) == string::npos) rule = "granted-wrong-value";
      if (usage) R.count("opt_usage_answers");
    } else {
      if (answered || (r.ret != RESULT_OK && !isDenied(r.ret) && !sent.empty())) rule = deniedAnswered();
      else if (!usage && r.ret == RESULT_OK && hadData && (r.text.find(vc) != string::npos)) rule = "denied-value-leaked";
      else if (!sent.empty()) rule = "denied-bus-access";
      else if (pollTouched) rule = "denied-poll-set";
      else if (stateTouched) rule = "denied-state-changed";
    }
  } else if (!http && form.compare(0, 4, "read") == 0) {
    bool hex = form == "readhex" || form == "readhexforce";
    const string& vb = hex ? busHex : busValue;
    const string& vc = hex ? cacheHex : cacheValue;
    if (granted) {
      if (r.ret != RESULT_OK || (r.text != vb && r.text != vc)) rule = "granted-refused";
      else if (!sentOk || ((forced || !hadData) && sent != wantSent)) rule = "granted-wrong-telegram";
      else if (sent.empty() && r.text == vb && hist != "authread" && hist != "denied") rule = "granted-wrong-value";
      else if (form == "readpoll" && (rm->getPollPriority() != 2 || !inPollQueue(c, rm))) rule = "granted-poll-not-set";
    } else {
      if (!isDenied(r.ret)) rule = deniedAnswered();
      else if (r.text.find(vb) != string::npos || r.text.find(vc) != string::npos) rule = "denied-value-leaked";
      else if (!sent.empty()) rule = "denied-bus-access";
      else if (pollTouched) rule = "denied-poll-set";
      else if (stateTouched) rule = "denied-state-changed";
    }
  } else if (isWrite) {
    if (granted) {
      if (r.ret != RESULT_OK) rule = "granted-refused";
      else if (sent != wantSent) rule = "granted-wrong-telegram";
    } else {
      if (!isDenied(r.ret)) rule = deniedAnswered();
      else if (!sent.empty()) rule = "denied-bus-access";
      else if (stateTouched) rule = "denied-state-changed";
    }
  } else if (!http) {  // find forms
    bool listed = namesInFind(r.text, t.circ).count(t.rname) > 0;
    bool needData = form != "findname";
    if (granted) {
      if ((!needData || hadData) && !listed) rule = "granted-refused";
      else if (listed && hadData && form != "findhex" && r.text.find("= " + cacheValue) == string::npos && r.text.find("= " + busValue) == string::npos) rule = "granted-wrong-value";
    } else {
      if (listed || (!isDenied(r.ret) && r.ret != RESULT_OK)) rule = deniedAnswered();
      else if (r.ret == RESULT_OK && !r.raw.empty() && r.text.compare(0, 6, "usage:") != 0) rule = deniedAnswered();
      else if (r.text.find(cacheHex) != string::npos || r.text.find(busHex) != string::npos) rule = "denied-value-leaked";
    }
    if (rule.empty() && !sent.empty()) rule = "find-bus-access";
    if (rule.empty() && (stateTouched || pollTouched)) rule = "find-state-changed";
  } else {
    int st = httpStatus(r.text);
    string body = httpBody(r.text);
    const string& nm = q.kind == 'p' ? t.pname : t.rname;
    bool listed = body.find("\"" + nm + "\"") != string::npos;
    bool refused = st == 403 || st == 401;
    bool valueShown = body.find("\"value\": " + busValue + "}") != string::npos || body.find("\"value\": " + cacheValue + "}") != string::npos;
    if (granted && !(mayRefuse && refused)) {
      if (st != 200 || !listed) rule = "granted-refused";
      else if (!sentOk || (q.kind == 'p' && !sent.empty())) rule = "granted-wrong-telegram";
      else if (form == "httpname" && !hadData && (sent != wantSent || !valueShown)) rule = "granted-wrong-telegram";
      else if (form == "httpmaxage" && (!hadData || hist == "stale") && (sent != wantSent || !valueShown)) rule = "granted-wrong-telegram";
      else if (hadData && !valueShown) rule = "granted-wrong-value";
      else if (form == "httppoll" && (rm->getPollPriority() != 3 || !inPollQueue(c, rm))) rule = "granted-poll-not-set";
    } else {
      if (listed || valueShown) rule = deniedAnswered();
      else if (!sent.empty()) rule = "denied-bus-access";
      else if (pollTouched) rule = "denied-poll-set";
      else if (stateTouched) rule = "denied-state-changed";
      else if (!mayRefuse && !granted && st != 200 && st != 403 && st != 404) rule = "denied-status";
    }
    if (log) *log += "  > GET " + q.line + "\n  < status " + std::to_string(st) + (listed ? ", message listed" : ", message not listed") +
                     (valueShown ? ", value shown" : ", no value") + "\n";
  }
  if (log) {
    if (!http) *log += "  > " + q.line + "\n  < " + getResultCode(r.ret) + " / " + esc(r.text.substr(0, 120)) + "\n";
    *log += "  telegrams to the bus: ";
    for (auto& x : sent) *log += x + " ";
    if (sent.empty()) *log += "none";
    *log += string("\n  message had stored data before the request: ") + (hadData ? "yes" : "no");
    *log += "\n  poll priority of message: " + std::to_string(rm->getPollPriority()) + (inPollQueue(c, rm) ? " (queued)" : "") + "\n";
  }
  return rule;
}

// two conditional variants of one name: [on] carries level L[i], [off] level L[i+1].  The selector was seen on
// the bus with value sel, so exactly one variant is available; only its level counts.
static string runDupCase(Ctx* c, const Acl& a, const string& auth, size_t i, int sel, const string& form, string* log) {
  applyAcl(c, a);
  resetState(c);
  size_t n = c->d.levels.size();
  const string& level = sel ? c->d.levels[i] : c->d.levels[(i + 1) % n];
  Message* avail = sel ? c->dupOn[i] : c->dupOff[i];
  string eff = auth == "ok" ? a.U : effDefault(a);
  bool granted = refGranted(level, eff);
  { MasterSymbolString m; SlaveSymbolString s; m.parseHex("1008b509020d70"); s.parseHex(sel ? "0101" : "0100"); c->w->busHandler->notifyProtocolMessage(md_recv, m, s); }
  if (!avail->isAvailable() || (sel ? c->dupOff[i] : c->dupOn[i])->isAvailable()) return "fixture-condition";
  string name = "d" + num2(i), user;
  bool http = form == "httpname";
  if (log) *log += "default levels (" + a.dsrc + "): \"" + effDefault(a) + "\"; user u levels: \"" + a.U + "\"; auth=" + auth + "; name " + name +
                   " has variant [on] level \"" + c->d.levels[i] + "\" and [off] level \"" + c->d.levels[(i + 1) % n] + "\"; selector seen with " +
                   std::to_string(sel) + " -> available variant carries \"" + level + "\" -> " + (granted ? "GRANTED" : "DENIED") + "\n";
  if (!http && !tcpAuth(c, auth, &user, log)) return "auth-user";
  c->w->protocol->sent.clear();
  string aq = authQuery(auth);
  string line = http ? "/data/c/" + name + "?exact=1&required" + (aq.empty() ? "" : "&" + aq) : "read -f -c c " + name;
  Reply r = http ? httpGet(c->w, line) : tcp(c->w, line, &user);
  const vector<string>& sent = c->w->protocol->sent;
  vector<string> wantSent = {"S:3108b50902" + string(sel ? "10" : "11") + two(i + 1)};
  string rule;
  bool mayRefuse = http && auth != "none" && auth != "ok";
  if (http) {
    int st = httpStatus(r.text);
    bool listed = httpBody(r.text).find("\"" + name + "\"") != string::npos;
    if (granted && !(mayRefuse && (st == 403 || st == 401))) { if (st != 200 || !listed || sent != wantSent) rule = "granted-refused"; }
    else if (listed) rule = "denied-answered"; else if (!sent.empty()) rule = "denied-bus-access";
    if (log) *log += "  > GET " + line + "\n  < status " + std::to_string(st) + (listed ? ", listed" : ", not listed") + "\n";
  } else {
    if (granted) { if (r.ret != RESULT_OK || sent != wantSent) rule = "granted-refused"; }
    else if (!isDenied(r.ret)) rule = "denied-answered"; else if (!sent.empty()) rule = "denied-bus-access";
    if (log) *log += "  > " + line + "\n  < " + getResultCode(r.ret) + " / " + esc(r.text.substr(0, 80)) + "\n";
  }
  if (log) { *log += "  telegrams to the bus: "; for (auto& x : sent) *log += x + " "; *log += sent.empty() ? "none\n" : "\n"; }
  return rule;
}

// one listing / sink case (for the messages of one level source)
static string runSetCase(Ctx* c, const Acl& a, const string& auth, size_t src, const string& form, const string& hist, string* log) {
  applyAcl(c, a);
  resetState(c);
  const vector<Tgt>& ts = c->tg[src];
  const string circ = SOURCES[src].circ;
  bool withData = hist == "fresh";
  if (withData) for (auto& t : ts) { busUpdate(c, t, 'r'); busUpdate(c, t, 'w'); }
  string eff = auth == "ok" ? a.U : effDefault(a);
  bool http = form.compare(0, 4, "http") == 0;
  bool mayRefuse = http && auth != "none" && auth != "ok";
  string user;
  if (log) *log += "default levels (" + a.dsrc + "): \"" + effDefault(a) + "\"; user u levels: \"" + a.U + "\"; auth=" + auth + "; level source " + SOURCES[src].name +
                   "; form=" + form + "; history=" + hist + (withData ? " (every read and write message was just seen on the bus)" : "") + "\n";
  set<string> want, got;
  string leak;
  string rule;
  if (form == "sink") {
    // a data sink configured for user "u" (exists) resp. "nobody" (falls back to the default entry)
    class Sink : public DataSink {
     public:
      Sink(const UserInfo* ui, const string& user) : DataSink(ui, user, false) {}
      void startHandler() override {}
    };
    string sinkUser = auth == "ok" ? "u" : "nobody";
    Sink sink(&c->w->loop->m_userList, sinkUser);
    for (auto& t : ts) for (Message* m : {t.rm, t.wm, t.pm}) {
      sink.notifyUpdate(m, true);
      if (refGranted(t.level, eff)) want.insert(m->getName());
    }
    for (auto& t : ts) for (Message* m : {t.rm, t.wm, t.pm}) if (sink.m_updatedMessages.count(m->getKey())) got.insert(m->getName());
    if (log) *log += "  sink for user \"" + sinkUser + "\" got levels \"" + sink.m_levels + "\"\n";
  } else if (form == "findall" || form == "findw" || form == "finddata") {
    if (!tcpAuth(c, auth, &user, log)) return "auth-user";
    Reply r = tcp(c->w, string(form == "findall" ? "find -e -c " : form == "findw" ? "find -w -e -c " : "find -a -d -e -c ") + circ, &user);
    got = namesInFind(r.text, circ);
    if (src == 0) { for (auto it = got.begin(); it != got.end();) { if (*it == "sel" || (*it)[0] == 'd') it = got.erase(it); else ++it; } }
    for (auto& t : ts) {
      bool g = refGranted(t.level, eff);
      if (g) {
        if (form == "findall") { want.insert(t.rname); want.insert(t.pname); }
        else if (form == "findw") want.insert(t.wname);
        else if (withData) { want.insert(t.rname); want.insert(t.wname); }
      } else if (withData && r.text.find(" " + t.rname + " = " + std::to_string(t.mi + 101)) != string::npos) {
        leak = t.rname;
      }
    }
  } else if (form == "httpall") {
    string q = authQuery(auth);
    Reply r = httpGet(c->w, "/data/" + circ + "?exact=1&write=1" + (q.empty() ? "" : "&" + q));
    int st = httpStatus(r.text);
    got = namesInJson(httpBody(r.text), ts);
    for (auto& t : ts) if (refGranted(t.level, eff)) { want.insert(t.rname); want.insert(t.wname); want.insert(t.pname); }
    if (log) *log += "  status " + std::to_string(st) + "\n";
    if (mayRefuse && (st == 403 || st == 401) && got.empty()) want.clear();
  }
  if (!c->w->protocol->sent.empty()) rule = "listing-bus-access";
  for (auto& g : got) if (!want.count(g)) rule = withData ? "denied-listed-from-cache" : "denied-listed";
  if (!leak.empty()) rule = "denied-value-leaked";
  if (rule.empty()) for (auto& x : want) if (!got.count(x)) rule = "granted-not-listed";
  if (log) *log += "  expected: " + join(want) + "\n  observed: " + join(got) + "\n";
  return rule;
}

// ---- enumeration --------------------------------------------------------------------------------
static string caseOfAcl(const Acl& a) {
  return "dsrc=" + a.dsrc + ";D=" + withSep(a.D, ';', ',') + ";U=" + withSep(a.U, ';', ',');
}
static string levelClass(const string& level, const string& list) {
  if (level.empty()) return "nolevel";
  if (list == "*") return "star";
  if (list.empty()) return "emptylist";
  if (list.find(level) != string::npos) return refGranted(level, list) ? "member" : "substring-only";
  string ll = level, li = list;
  std::transform(ll.begin(), ll.end(), ll.begin(), ::tolower);
  std::transform(li.begin(), li.end(), li.begin(), ::tolower);
  if (refGranted(ll, li)) return "case-variant-only";
  return "absent";
}

static int replay(const string& cs) {
  auto m = vp::parseCase(cs);
  string k = m["k"];
  string log, rule;
  if (k == "cl") {
    string level = m["lvl"], list = withSep(m["list"], ',', ';');
    bool impl = Message::checkLevel(level, list), ref = refGranted(level, list);
    printf("Message::checkLevel(level=\"%s\", list=\"%s\") impl=%d reference=%d\n", level.c_str(), list.c_str(), impl, ref);
    rule = impl == ref ? "" : "checkLevel";
  } else {
    Ctx* c = makeCtx(m["set"]);
    Acl a{m["dsrc"], withSep(m["D"], ',', ';'), withSep(m["U"], ',', ';')};
    size_t mi = strtoul(m["mi"].c_str(), nullptr, 10), src = m.count("src") ? strtoul(m["src"].c_str(), nullptr, 10) : 0;
    string hist = m.count("hist") ? m["hist"] : "none";
    if (k == "hl") {
      string list = withSep(m["list"], ',', ';');
      bool impl = c->tg[0][mi].rm->hasLevel(list), ref = refGranted(c->d.levels[mi], list);
      printf("Message(level=\"%s\").hasLevel(\"%s\") impl=%d reference=%d\n", c->d.levels[mi].c_str(), list.c_str(), impl, ref);
      rule = impl == ref ? "" : "hasLevel";
    } else if (k == "e2e") {
      rule = runCase(c, a, m["auth"], c->tg[src][mi], m["form"], hist, &log);
    } else if (k == "dup") {
      rule = runDupCase(c, a, m["auth"], mi, atoi(m["sel"].c_str()), m["form"], &log);
    } else if (k == "set") {
      rule = runSetCase(c, a, m["auth"], src, m["form"], hist, &log);
    }
    fputs(log.c_str(), stdout);
    rmTree(c->w->tmp);
  }
  printf("%s\n", rule.empty() ? "OK" : ("VIOLATES rule " + rule).c_str());
  return rule.empty() ? 0 : 1;
}

int main(int argc, char** argv) {
  setenv("TZ", "UTC", 1);
  vp::Args A = vp::parseArgs(argc, argv);
  if (!refSelfTest()) return 3;
  if (A.replay) return replay(A.replayCase);
  R.setDeadline(A);
  string set = A.thorough() ? "t" : "q";
  Ctx* c = makeCtx(set);
  const Domain& d = c->d;

  // ---- A: every (level, list) pair --------------------------------------------------------
  vector<string> lists = listsOf(d.names, 3, ';');
  for (size_t li = 0; li < lists.size(); li++) {
    if (static_cast<int>(li % A.nparts) != A.part) continue;
    const string& list = lists[li];
    for (size_t i = 0; i < d.levels.size(); i++) {
      const string& level = d.levels[i];
      bool ref = refGranted(level, list);
      R.evaluations += 2; R.transitions += 2; R.tracesValidated += 2;
      R.distinct("cl|" + level + "|" + list);
      R.count(string("pairs_") + (ref ? "granted" : "denied"));
      if (Message::checkLevel(level, list) != ref) {
        R.violation("C16/checkLevel/" + string(ref ? "granted-refused" : "denied-granted") + "/" + levelClass(level, list),
                    "Message::checkLevel(\"" + level + "\", \"" + list + "\") returned " + (ref ? "false" : "true"),
                    "k=cl;lvl=" + level + ";list=" + withSep(list, ';', ','));
      }
      if (c->tg[0][i].rm->hasLevel(list) != ref) {
        R.violation("C16/hasLevel/" + string(ref ? "granted-refused" : "denied-granted") + "/" + levelClass(level, list),
                    "Message(level \"" + level + "\").hasLevel(\"" + list + "\") returned " + (ref ? "false" : "true"),
                    "k=hl;set=" + set + ";mi=" + std::to_string(i) + ";list=" + withSep(list, ';', ','));
      }
    }
    if (R.expired()) break;
  }
  R.sample("checkLevel/hasLevel on all " + std::to_string(lists.size()) + " granted lists (<=3 names, empty, \"*\") x " +
           std::to_string(d.levels.size()) + " levels, e.g. level \"ab\" vs \"a;b;aab\" -> denied, vs \"b;ab\" -> granted, level \"a\" vs \"A;aA\" -> denied");

  // ---- B: end to end ------------------------------------------------------------------------
  auto nNames = [](const string& l) { return l.empty() || l == "*" ? size_t(0) : size_t(std::count(l.begin(), l.end(), ';')) + 1; };
  vector<string> l1 = listsOf(d.e2eNames, 1, ';'), l2 = listsOf(d.e2eNames, 2, ';'), l3 = listsOf(d.e2eNames, 3, ';');
  vector<string> b2 = listsOf(d.baseNames, 2, ';');
  vector<Acl> acls;
  std::set<string> seenAcl;
  auto addAcl = [&](const Acl& a) { if (seenAcl.insert(caseOfAcl(a)).second) acls.push_back(a); };
  // quick: the lower case lists of <=2 names fully crossed; with the case variants (and in thorough) the two
  // lists together hold at most 3 names; --accesslevel: user lists of <=1 name (the option is just another source
  // of the same default entry; its full crossing with the lower case user lists is left to the ACL '*' row)
  if (set != "t") for (auto& D : b2) for (auto& U : b2) addAcl(Acl{"acl", D, U});
  for (auto& D : l2) for (auto& U : l2) if (nNames(D) + nNames(U) <= 3) addAcl(Acl{"acl", D, U});
  for (auto& D : l2) for (auto& U : l1) addAcl(Acl{"opt", D, U});
  for (auto& U : l3) addAcl(Acl{"none", "", U});
  uint64_t nAcl = 0;
  bool sampled = false;
  auto report = [&](const string& rule, const string& form, const string& cls, const string& detail, const string& cs) {
    R.violation("C16/" + rule + "/" + form + "/" + cls, detail, cs);
  };
  for (size_t ai = 0; ai < acls.size() && !R.expired(); ai++) {
    if (static_cast<int>(ai % A.nparts) != A.part) continue;
    const Acl& a = acls[ai];
    nAcl++;
    R.state("acl|" + caseOfAcl(a));
    auto one = [&](const char* auth, size_t src, size_t mi, const char* form, const char* hist) {
      const Tgt& t = c->tg[src][mi];
      string rule = runCase(c, a, auth, t, form, hist, nullptr);
      R.evaluations++; R.tracesValidated++; R.transitions += 3;
      string eff = string(auth) == "ok" ? a.U : effDefault(a);
      R.distinct(string("e2e|") + form + "|" + hist + "|" + auth + "|" + t.level + "|" + eff + "|" + a.dsrc + "|" + std::to_string(src));
      R.count(refGranted(t.level, eff) ? "e2e_granted" : "e2e_denied");
      if (!rule.empty()) {
        string cs = "k=e2e;set=" + set + ";" + caseOfAcl(a) + ";auth=" + auth + ";src=" + std::to_string(src) + ";mi=" + std::to_string(mi) + ";form=" + form + ";hist=" + hist;
        string f = string(form) + (src ? string("@") + SOURCES[src].name : "");
        report(rule, f, levelClass(t.level, eff), "level \"" + t.level + "\" (" + SOURCES[src].name + ") vs effective list \"" + eff + "\" (" + auth + "), form " + form + ", history " + hist, cs);
      }
    };
    auto oneSet = [&](const char* auth, size_t src, const char* form, const char* hist) {
      string rule = runSetCase(c, a, auth, src, form, hist, nullptr);
      R.evaluations++; R.tracesValidated++; R.transitions++;
      if (!rule.empty()) {
        string cs = "k=set;set=" + set + ";" + caseOfAcl(a) + ";auth=" + auth + ";src=" + std::to_string(src) + ";form=" + form + ";hist=" + hist;
        string f = string(form) + (src ? string("@") + SOURCES[src].name : "");
        report(rule, f, "listing", "listing differs from the granted set, form " + string(form) + ", auth " + auth + ", history " + hist + ", source " + SOURCES[src].name, cs);
      }
    };
    for (const char* auth : AUTHS) {
      for (size_t mi = 0; mi < d.levels.size(); mi++) {
        // quick: the three failing authentications (same effective list as "none") get 2 of the 5 histories
        bool allHist = set == "t" || !strcmp(auth, "none") || !strcmp(auth, "ok");
        for (const char* form : FORMS) for (const char* hist : HISTS) if (allHist || !strcmp(hist, "none") || !strcmp(hist, "fresh")) one(auth, 0, mi, form, hist);
        if (set == "t" || !strcmp(auth, "none") || !strcmp(auth, "ok")) for (const char* form : OPTFORMS) for (const char* hist : HISTS2) one(auth, 0, mi, form, hist);
      }
      for (const char* form : SETFORMS) for (const char* hist : SETHISTS) oneSet(auth, 0, form, hist);
    }
    // the other level sources, the related wrong secrets and the conditional variants: reduced form sets
    for (const char* auth : {"none", "ok"}) {
      for (size_t src = 1; src < NSRC; src++) {
        for (size_t mi = 0; mi < d.levels.size(); mi++) for (const char* form : SRCFORMS) for (const char* hist : HISTS2) one(auth, src, mi, form, hist);
        for (const char* form : {"findall", "finddata", "httpall", "sink"}) oneSet(auth, src, form, "fresh");
      }
      for (size_t mi = 0; mi < d.levels.size(); mi++) for (int sel = 0; sel < 2; sel++) for (const char* form : {"readforce", "httpname"}) {
        string rule = runDupCase(c, a, auth, mi, sel, form, nullptr);
        R.evaluations++; R.tracesValidated++; R.transitions += 3;
        if (!rule.empty()) {
          size_t n = d.levels.size();
          string eff = string(auth) == "ok" ? a.U : effDefault(a);
          const string& lv = sel ? d.levels[mi] : d.levels[(mi + 1) % n];
          report(rule, string(form) + "@conditional-variant", levelClass(lv, eff), "conditional variants of d" + num2(mi) + ", selector " + std::to_string(sel) + ", auth " + auth,
                 "k=dup;set=" + set + ";" + caseOfAcl(a) + ";auth=" + auth + ";mi=" + std::to_string(mi) + ";sel=" + std::to_string(sel) + ";form=" + form);
        }
      }
    }
    for (const char* auth : AUTHS2) {
      for (size_t mi = 0; mi < d.levels.size(); mi++) for (const char* form : AUTH2FORMS) for (const char* hist : HISTS2) one(auth, 0, mi, form, hist);
      for (const char* form : {"findall", "httpall"}) oneSet(auth, 0, form, "fresh");
    }
    if (!sampled && a.dsrc == "acl" && a.D == "a" && a.U == "ab;b") {
      sampled = true;
      string log;
      runCase(c, a, "ok", c->tg[0][std::min<size_t>(4, d.levels.size() - 1)], "readname", "none", &log);
      R.sample("e2e: " + log);
      log.clear();
      runCase(c, a, "none", c->tg[2][std::min<size_t>(4, d.levels.size() - 1)], "readhex", "fresh", &log);
      R.sample("e2e: " + log);
      log.clear();
      runSetCase(c, a, "bad", 0, "findall", "none", &log);
      R.sample("e2e: " + log);
    }
  }
  R.count("acls", nAcl);
  R.note("ACL space: " + std::to_string(acls.size()) + " ACLs (default entry from the ACL '*' row / --accesslevel / none x user entry); per ACL: 5 auth states x " +
         std::to_string(d.levels.size()) + " levels x (16 forms x 5 histories + 18 option/passive forms x 2 histories) + listings; 5 further level sources x 2 auth x " +
         "7 forms x 2 histories; conditional variants x 2 selector states; 6 related wrong secrets x 4 forms x 2 histories");
  rmTree(c->w->tmp);
  R.write(A.out);
  return 0;
}
