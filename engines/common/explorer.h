// Stateless depth-first explorer by replay with deviation budgets and optional state hashing.
//
//   Explorer ex(budgets);
//   ex.explore([&](Explorer& e) { ...one execution, calling e.choose(...) / e.checkpoint(...)... });
//
// run(prefix): replays the recorded choice prefix (an out-of-range or unaffordable choice while
// replaying is a hard error), then takes alternative 0 (the default) at every later choice point.
// After the run every later choice point i and every alternative a>0 that the budget left at i
// can pay for is explored with prefix choices[:i]+[a].  Alternatives >0 must cost >=1 unit of
// some budget kind, so recursion depth is bounded by the total budget.
#ifndef VERIF_EXPLORER_H_
#define VERIF_EXPLORER_H_

#include <stdint.h>
#include <stdio.h>
#include <stdlib.h>
#include <functional>
#include <string>
#include <unordered_map>
#include <unordered_set>
#include <vector>

namespace vp {

static const int NKINDS = 5;  // budget kinds: 1..NKINDS-1 (0 = free / default)

struct ChoicePoint {
  uint16_t n;
  uint16_t chosen;
  std::vector<uint8_t> kinds;   // budget kind per alternative
  int8_t left[NKINDS];          // budget left BEFORE this choice
};

class Explorer {
 public:
  int budget[NKINDS] = {0, 0, 0, 0, 0};
  bool useHash = false;
  unsigned hashBudgetMask = 0xff;  // budget kinds mixed into the state hash (kinds whose budget is unbounded are left out)
  bool collectOnly = false;
  std::unordered_map<uint64_t, std::string>* debugPaths = nullptr;  // state -> first choice path (debug)  // compute and record state hashes but never prune (validation of the fingerprint)
  struct DbgSucc { uint64_t next; std::string path, auxBefore, auxAfter; };
  std::unordered_map<uint64_t, DbgSucc>* debugSucc = nullptr;
  std::function<std::string()> debugAux;
  bool dbgHave = false; uint64_t dbgLastH = 0; size_t dbgLastTrace = 0; std::string dbgLastAux;
  std::unordered_set<uint64_t> visited;
  uint64_t executions = 0, choicePoints = 0, pruned = 0, maxDepth = 0;
  // current run
  std::vector<uint16_t> prefix;
  std::vector<ChoicePoint> trace;
  int left[NKINDS];
  bool aborted = false;   // run cut at an already visited state
  bool cycle = false;     // the run returned to a state it had visited itself (lasso under the default environment)
  bool trackCycles = false;  // record the states of the current run even when hashing is off (replay)
  std::vector<uint64_t> runStates;
  bool stopAll = false;   // global stop (deadline)

  // choose among n alternatives; kinds[i] in 0..NKINDS-1 (alternative 0 must be kind 0)
  int choose(int n, const uint8_t* kinds) {
    size_t pos = trace.size();
    int c = 0;
    if (pos < prefix.size()) {
      c = prefix[pos];
      if (c >= n) { fprintf(stderr, "explorer: replay choice %d out of range %d at %zu\n", c, n, pos); abort(); }
      if (kinds[c] && left[kinds[c]] <= 0) { fprintf(stderr, "explorer: replay choice unaffordable at %zu\n", pos); abort(); }
    }
    ChoicePoint cp;
    cp.n = (uint16_t)n;
    cp.chosen = (uint16_t)c;
    cp.kinds.assign(kinds, kinds + n);
    for (int k = 0; k < NKINDS; k++) cp.left[k] = (int8_t)left[k];
    trace.push_back(std::move(cp));
    if (kinds[c]) left[kinds[c]]--;
    choicePoints++;
    return c;
  }
  bool replaying() const { return trace.size() < prefix.size(); }
  // to be called at a choice point BEFORE choose(); returns false if the run must be cut here
  // (state already explored with the same budgets).  Only active beyond the replayed prefix.
  bool checkpoint(uint64_t stateHash) {
    if ((!useHash && !trackCycles) || trace.size() < prefix.size()) return true;
    uint64_t h = stateHash;
    for (int k = 1; k < NKINDS; k++) if (hashBudgetMask & (1u << k)) h = h * 1099511628211ULL ^ (uint64_t)(left[k] + 1);
    for (uint64_t r : runStates) if (r == h) { cycle = true; aborted = true; return false; }
    runStates.push_back(h);
    if (!useHash) return true;
    bool fresh = visited.insert(h).second;
    if (fresh && debugPaths) (*debugPaths)[h] = choicesStr();
    if (debugSucc) {
      // fingerprint debugging: the same (state, choices since) must always lead to the same next state
      if (dbgHave) {
        uint64_t key = dbgLastH;
        for (size_t i = dbgLastTrace; i < trace.size(); i++) key = (key * 1099511628211ULL) ^ (uint64_t)(trace[i].chosen + 1);
        auto it = debugSucc->find(key);
        std::string aux = debugAux ? debugAux() : std::string();
        if (it == debugSucc->end()) (*debugSucc)[key] = DbgSucc{h, choicesStr(), dbgLastAux, aux};
        else if (it->second.next != h) {
          fprintf(stderr, "FINGERPRINT: same state + same choices, different successor\n  first : %s\n    before: %s\n    after : %s\n  second: %s\n    before: %s\n    after : %s\n",
                  it->second.path.c_str(), it->second.auxBefore.c_str(), it->second.auxAfter.c_str(), choicesStr().c_str(), dbgLastAux.c_str(), aux.c_str());
        }
      }
      dbgHave = true; dbgLastH = h; dbgLastTrace = trace.size(); dbgLastAux = debugAux ? debugAux() : std::string();
    }
    if (!fresh && !collectOnly) { aborted = true; pruned++; return false; }
    return true;
  }

  std::string choicesStr() const {
    std::string s;
    char b[16];
    for (size_t i = 0; i < trace.size(); i++) { snprintf(b, sizeof(b), "%s%d", i ? "," : "", trace[i].chosen); s += b; }
    return s;
  }
  static std::vector<uint16_t> parseChoices(const std::string& s) {
    std::vector<uint16_t> v;
    size_t p = 0;
    while (p < s.size()) {
      size_t e = s.find(',', p);
      if (e == std::string::npos) e = s.size();
      if (e > p) v.push_back((uint16_t)atoi(s.substr(p, e - p).c_str()));
      p = e + 1;
    }
    return v;
  }

  void runOnce(const std::vector<uint16_t>& pfx, const std::function<void(Explorer&)>& body) {
    prefix = pfx;
    trace.clear();
    aborted = false;
    cycle = false;
    runStates.clear();
    dbgHave = false;
    for (int k = 0; k < NKINDS; k++) left[k] = budget[k];
    body(*this);
    executions++;
    if (trace.size() > maxDepth) maxDepth = trace.size();
    if (trace.size() < prefix.size()) { fprintf(stderr, "explorer: run ended inside the replayed prefix (%zu < %zu)\n", trace.size(), prefix.size()); abort(); }
  }

  // slice/nslices: the first-level alternatives (single deviations from the default run) are dealt
  // round-robin to nslices independent explorations; slice 0 also owns the default run itself.
  void explore(const std::function<void(Explorer&)>& body, int slice = 0, int nslices = 1) {
    std::vector<std::vector<uint16_t>> stack;
    stack.push_back({});
    bool first = true;
    while (!stack.empty() && !stopAll) {
      std::vector<uint16_t> pfx = std::move(stack.back());
      stack.pop_back();
      runOnce(pfx, body);
      if (first && slice != 0) executions--;  // the default run is accounted to slice 0
      // push alternatives in reverse so that the earliest/simplest is explored first
      size_t ordinal = 0;
      for (size_t i = trace.size(); i-- > pfx.size();) {
        const ChoicePoint& cp = trace[i];
        for (int a = cp.n - 1; a >= 1; a--) {
          int k = cp.kinds[a];
          if (k != 0 && cp.left[k] <= 0) continue;  // kind 0 at a>0: free alternative (forced switch)
          if (first && nslices > 1 && (int)(ordinal++ % nslices) != slice) continue;
          std::vector<uint16_t> np;
          np.reserve(i + 1);
          for (size_t j = 0; j < i; j++) np.push_back(trace[j].chosen);
          np.push_back((uint16_t)a);
          stack.push_back(std::move(np));
        }
      }
      first = false;
    }
  }
};

}  // namespace vp

#endif  // VERIF_EXPLORER_H_
