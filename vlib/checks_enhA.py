"""enhmc engine: adapter framing (EnhancedDevice) and the byte transport (FileTransport / PlainDevice), C14 (+ C20 adapter part)."""
SRC = ["engines/enhmc/c14_framing.cpp"]
DEPS = ["engines/enhmc/enh_env.h", "engines/enhmc/enh_ref.h", "engines/enhmc/enh_core.h", "engines/enhmc/enh_plain.h"]

ENGINES = [
    {"name": "enhmc", "path": "engines/enhmc", "serves_properties": ["C14", "C20"],
     "kind_free_text": "exhaustive exploration of the real EnhancedDevice/PlainDevice on the real FileTransport (sentinel descriptor "
                       "served by link-time definitions of read/write/close/ppoll, virtual clock) over adapter byte streams x read "
                       "chunkings x consumption patterns with merging of equal configurations, against a reference decoder written "
                       "from docs/enhanced_proto.md"},
]
CHECKS = {}

# thorough: length 7 for the handler pattern with a running arbitration in the start state "just opened",
# length 6 for the other handler-pattern combinations and for the two other patterns with a running
# arbitration in S0/S1, length 5 for the remaining 8 combinations (as in quick)
DEEP = "S0a1p0:7,S0a0p0:6,S1a0p0:6,S1a1p0:6,S2a0p0:6,S2a1p0:6,S0a1p1:6,S0a1p2:6,S1a1p1:6,S1a1p2:6"

CHECKS["C14"] = {
    "engine": "enhmc", "design_ref": "5/C14",
    "level": "model_checking",
    "level_text": "every adapter byte stream up to the length bound over the 14-byte alphabet is run on the real EnhancedDevice + "
                  "FileTransport under every partition into read chunks (each boundary with and without an elapsed receive timeout), "
                  "three consumption patterns, three start states, with and without a running arbitration; equal configurations "
                  "(all device and transport fields + observation so far) are merged, so the result is a coverage statement over all "
                  "partitions, not a sample; the transport/PlainDevice part is a breadth-first search over operation sequences with "
                  "state hashing that closes (fixpoint) under the stated kernel-queue bound",
    "level_note": "bounded by alphabet, stream length, one arbitration per run and the three consumption patterns; trusts the reference "
                  "decoder (self-tested hand traces), the descriptor/clock stubs and the configuration key used for merging (validated "
                  "against the merge-free stateless executor for all streams up to length 4; every reported case is re-run statelessly)",
    "technique": "bounded exhaustive product exploration (implementation x chunking environment x reference decoder) with state merging; differential + absolute oracle",
    "rule": "enh: all streams over {55 31 c6 c8 e8 cc c0 ec f0 d0 aa a9 b1 81} up to the length bound x all 2*3^(n-1) partitions "
            "(chunk boundary with/without timeout, timeout before the flush or not) x patterns {handler: recv(t) then recv(0) while CONTINUE; "
            "recv(t) only; recv(0) until timeout then recv(t)} x start states {INIT outstanding; RESETTED received + info requested; same "
            "10 s later} x startArbitration(31) yes/no; each followed by the flush 70 | 71 (one byte per read) and a full drain. "
            "frame mode: additionally all sequences of up to 4 (thorough 5) whole items out of {55, RECEIVED aa, INFO, STARTED 31, "
            "FAILED 31, ERROR_EBUS, RESETTED, undefined command} (up to 8 / 10 bytes), same partitions/patterns/start states. "
            "Oracle: symbols with won/lost marks = RefEnhDecoder (a first byte without second byte may swallow the next byte: both readings "
            "allowed); the three projections (symbols, terminal arbitration states, notifyDeviceStatus texts) are compared separately "
            "between all executions of a stream; error/timeout arbitration states only for a running arbitration with a cause in the "
            "stream, and (synchronous scanner over the bytes the implementation has read when the state is reported) error only after a "
            "reset/error/undefined/malformed item was read, timeout only after a SYN symbol was read; runs that close the transport (adapter self-reset) are compared up to the close. states = distinct (device, transport) "
            "field valuations reached; evaluations = executions actually run after merging (counters give the partitions they stand for); "
            "distinct = distinct final observations of streams up to length 5. "
            "enc: send/startArbitration/requestEnhancedInfo (wait and nowait) for all 256 values, INIT on open, START SYN on cancel. "
            "ptr/pdev: all sequences of {arrive 1..8 bytes, read(0), read(t), readConsumed(1|3|all|40)} resp. {arrive 1..8, recv(0), recv(t)} "
            "against a byte queue; overflow may only be reported above 3/4 of the buffer and discards exactly the buffered bytes",
    "assumptions": ["streams in which the adapter announces a self-reset are compared up to the close() the implementation performs there",
                    "receive timeouts are short against the 3 s / 5 s windows of the reset and info logic: less than one second of virtual "
                    "time passes per run (checked, otherwise reported as a cap)",
                    "at most 40 bytes wait unread in the kernel in the transport search"],
    "runs": [{
        "harness": "c14_framing", "sources": SRC, "deps": DEPS, "variant": "plain",
        "quick": {"parts": 16, "args": ["--len", 5, "--xval", 4], "deadline": 400,
                  "bounds": "streams <= 5 bytes for all 18 mode combinations + sequences of <= 4 whole items (<= 8 bytes); merge validation <= 4; transport search depth 20 (hashed) / 5-6 (unhashed)"},
        "thorough": {"parts": 16, "args": ["--len", 5, "--deepmodes", DEEP, "--xval", 4], "deadline": 6000,
                     "bounds": "streams <= 7 bytes for mode S0a1p0 (handler pattern, arbitration running, just opened), <= 6 for the other five "
                               "handler-pattern combinations and for S0a1p1 S0a1p2 S1a1p1 S1a1p2, <= 5 for the remaining 8 combinations; sequences of <= 5 "
                               "whole items (<= 10 bytes) for all 18 combinations; merge validation <= 4; transport search depth 20 (hashed) / 6-7 (unhashed)"},
    }],
}


SAN_DEEP = "S1a1p0"


def _san(quick_len, thorough_len, deep_len):
    what = ("adapter streams <= %d bytes over the 27-byte alphabet (first bytes of all 16 command values, cf, ff; second bytes 80 81 90 91 bf aa; "
            "plain 00 55 7f) x all partitions x 3 consumption patterns x 3 start states x arbitration yes/no%s; info responses for ids 0..8 with "
            "declared length 0..255 (18 values), 0..len+2 (<=20) data frames, 4 fill patterns, 3-4 chunk styles; each followed by the well-formed "
            "suffix 70 | 55 c6 aa | 71 that must be decoded; forked batches, oracle = no ASan/UBSan report, no signal, no alarm, suffix decoded")
    return {
        "harness": "c14_framing", "sources": SRC, "deps": DEPS, "variant": "san",
        "quick": {"parts": 16, "args": ["--prop", "C20", "--len", quick_len], "deadline": 400,
                  "bounds": what % (quick_len, "")},
        "thorough": {"parts": 16, "args": ["--prop", "C20", "--len", thorough_len, "--deep", deep_len, "--deepmodes", SAN_DEEP], "deadline": 4000,
                     "bounds": what % (thorough_len, " (<= %d bytes for modes %s)" % (deep_len, SAN_DEEP))},
    }


# adapter-stream part of C20: append to CHECKS["C20"]["runs"] (whoever owns C20), e.g.
#   from .checks_enhA import C20_ENH_RUNS; CHECKS["C20"]["runs"] += C20_ENH_RUNS
# signatures start with C20/ (crash | hang | suffix-not-decoded | no-progress | bad-result)
C20_ENH_RUNS = [_san(3, 4, 5)]
